// Package fakews stands in for github.com/fasthttp/websocket in controlled-scheduler builds: the rewriter
// redirects the import, so the library's WebSocket transport and handler run unchanged against a scripted
// message connection whose operations are scheduling points.
package fakews

import (
	"bytes"
	"context"
	"errors"
	"io"
	"net"
	"net/http"

	"github.com/valyala/fasthttp"
	"verif/vs"
)

const (
	TextMessage   = 1
	BinaryMessage = 2
	CloseMessage  = 8
	PingMessage   = 9
	PongMessage   = 10
)

type Message struct {
	Type int
	Data []byte
}

// Conn is a message connection whose peer is scripted: every complete outgoing message is handed to React,
// which returns the messages to deliver to the reader.
type Conn struct {
	Name    string
	queue   []Message
	closed  bool
	peerErr error
	peerEnd bool
	React   func(c *Conn, m Message) []Message
	Sent    []Message
	v       vs.Var[int]
}

func (c *Conn) ReadMessage() (int, []byte, error) {
	vs.PointWhen(c.Name+".read", func() bool { return len(c.queue) > 0 || c.closed || c.peerEnd })
	c.v.Set(c.v.Get() + 1)
	if c.closed {
		return 0, nil, errors.New("use of closed network connection")
	}
	if len(c.queue) == 0 {
		if c.peerErr != nil {
			return 0, nil, c.peerErr
		}
		return 0, nil, io.ErrUnexpectedEOF
	}
	m := c.queue[0]
	c.queue = c.queue[1:]
	return m.Type, m.Data, nil
}

type writer struct {
	c   *Conn
	typ int
	buf bytes.Buffer
}

func (w *writer) Write(p []byte) (int, error) { return w.buf.Write(p) }
func (w *writer) Close() error {
	vs.Point(w.c.Name + ".write")
	w.c.v.Set(w.c.v.Get() + 1)
	if w.c.closed {
		return errors.New("use of closed network connection")
	}
	if w.c.peerEnd {
		return errors.New("write: broken pipe")
	}
	m := Message{w.typ, append([]byte{}, w.buf.Bytes()...)}
	w.c.Sent = append(w.c.Sent, m)
	if w.c.React != nil {
		w.c.queue = append(w.c.queue, w.c.React(w.c, m)...)
	}
	return nil
}

func (c *Conn) NextWriter(messageType int) (io.WriteCloser, error) {
	if c.closed {
		return nil, errors.New("use of closed network connection")
	}
	return &writer{c: c, typ: messageType}, nil
}

func (c *Conn) WriteMessage(messageType int, data []byte) error {
	w, err := c.NextWriter(messageType)
	if err != nil {
		return err
	}
	w.Write(data)
	return w.Close()
}

func (c *Conn) Close() error {
	vs.Point(c.Name + ".close")
	c.v.Set(c.v.Get() + 1)
	if c.closed {
		return errors.New("use of closed network connection")
	}
	c.closed = true
	return nil
}

// Deliver queues a message for the reader; PeerClose ends the connection from the peer's side.
func (c *Conn) Deliver(m Message)   { c.v.Set(c.v.Get() + 1); c.queue = append(c.queue, m) }
func (c *Conn) PeerClose(err error) { c.v.Set(c.v.Get() + 1); c.peerEnd, c.peerErr = true, err }
func (c *Conn) IsClosed() bool      { return c.closed }

type addr string

func (a addr) Network() string { return "fakews" }
func (a addr) String() string  { return string(a) }

func (c *Conn) LocalAddr() net.Addr  { return addr("local") }
func (c *Conn) RemoteAddr() net.Addr { return addr("remote") }

// Dial is the harness's dial hook.
var Dial func(url string) (*Conn, error)

type Dialer struct {
	ReadBufferSize, WriteBufferSize int
	Subprotocols                    []string
	EnableCompression               bool
}

func (d *Dialer) DialContext(ctx context.Context, url string, header http.Header) (*Conn, *http.Response, error) {
	vs.Point("ws.dial")
	if Dial == nil {
		return nil, nil, errors.New("fakews: no dial hook")
	}
	c, err := Dial(url)
	return c, nil, err
}

type Upgrader struct {
	ReadBufferSize, WriteBufferSize int
	Subprotocols                    []string
	CheckOrigin                     func(r *http.Request) bool
	EnableCompression               bool
}

func (u *Upgrader) Upgrade(w http.ResponseWriter, r *http.Request, h http.Header) (*Conn, error) {
	return nil, errors.New("fakews: Upgrade is not scripted; harnesses call Handler.Serve directly")
}

type FastHTTPUpgrader struct {
	ReadBufferSize, WriteBufferSize int
	Subprotocols                    []string
	CheckOrigin                     func(ctx *fasthttp.RequestCtx) bool
	EnableCompression               bool
}

func (u *FastHTTPUpgrader) Upgrade(ctx *fasthttp.RequestCtx, handler func(*Conn)) error {
	return errors.New("fakews: Upgrade is not scripted; harnesses call Handler.Serve directly")
}

func IsWebSocketUpgrade(r *http.Request) bool                 { return false }
func FastHTTPIsWebSocketUpgrade(ctx *fasthttp.RequestCtx) bool { return false }
