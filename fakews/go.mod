module verif/fakews

go 1.21

require (
	github.com/valyala/fasthttp v1.37.0
	verif/vs v0.0.0
)

require (
	github.com/andybalholm/brotli v1.0.4 // indirect
	github.com/klauspost/compress v1.15.0 // indirect
	github.com/valyala/bytebufferpool v1.0.0 // indirect
)

replace verif/vs => ../vs
