// Demonstrations for property C01 (typed round trip Unmarshal(Marshal(v)) == v).
//
// Copy this file into the package directory io/ of the worktree (package io_test):
//
//	cp _hunt/demo/hunt_c01_test.go io/hunt_c01_test.go && \
//	  go test -vet=off -count=1 -run 'TestHuntC01_' ./io/ ; rm io/hunt_c01_test.go
//
// Every test fails (and prints a line starting with "VIOLATION:") on the unchanged library.
// Cases that kill the process (stack overflow) or need another time zone run in a child
// process: the test binary re-executes itself with HUNT_C01_CHILD set.
package io_test

import (
	"container/list"
	"errors"
	"fmt"
	"math"
	"math/big"
	"os"
	"os/exec"
	"reflect"
	"runtime/debug"
	"strings"
	"testing"
	"time"
	_ "time/tzdata" // so that the TZ child works without /usr/share/zoneinfo

	hio "github.com/hprose/hprose-golang/v3/io"
)

// ---------------------------------------------------------------------------------------
// helpers
// ---------------------------------------------------------------------------------------

func huntC01Violation(t *testing.T, format string, args ...interface{}) {
	t.Helper()
	msg := fmt.Sprintf(format, args...)
	fmt.Println("VIOLATION: " + msg)
	t.Errorf("VIOLATION: %s", msg)
}

// huntC01RT marshals v and unmarshals into a new variable of the same type. It returns the
// decoded value, the bytes, and a description of what went wrong ("" if nothing).
func huntC01RT(v interface{}, simple bool) (out interface{}, data []byte, problem string) {
	defer func() {
		if e := recover(); e != nil {
			problem = fmt.Sprintf("PANIC: %v", e)
		}
	}()
	f := hio.Formatter{Simple: simple}
	data, err := f.Marshal(v)
	if err != nil {
		return nil, nil, "Marshal error: " + err.Error()
	}
	p := reflect.New(reflect.TypeOf(v))
	if err := f.Unmarshal(data, p.Interface()); err != nil {
		return nil, data, "Unmarshal error: " + err.Error()
	}
	return p.Elem().Interface(), data, ""
}

func huntC01Child(t *testing.T, mode string, env ...string) (string, error) {
	t.Helper()
	cmd := exec.Command(os.Args[0], "-test.run=^TestHuntC01_Child$", "-test.v", "-test.timeout=300s")
	cmd.Env = append(os.Environ(), "HUNT_C01_CHILD="+mode)
	cmd.Env = append(cmd.Env, env...)
	out, err := cmd.CombinedOutput()
	return string(out), err
}

func huntC01Tail(s string, n int) string {
	lines := strings.Split(strings.TrimSpace(s), "\n")
	if len(lines) > n {
		lines = lines[:n]
	}
	return strings.Join(lines, "\n")
}

// ---------------------------------------------------------------------------------------
// types
// ---------------------------------------------------------------------------------------

type HuntC01Node struct {
	Val  int
	Next *HuntC01Node
}

type HuntC01Inner struct {
	X int
	Y string
}

// legal Go: the outer X shadows the promoted HuntC01Inner.X
type HuntC01Shadow struct {
	HuntC01Inner
	X int
}

type HuntC01TagClash struct {
	A int `json:"b"`
	B int
}

type HuntC01ErrStruct struct {
	Code int
	Msg  string
}

func (e HuntC01ErrStruct) Error() string { return e.Msg }

type HuntC01Errno int

func (e HuntC01Errno) Error() string { return fmt.Sprintf("errno %d", int(e)) }

type HuntC01EmbTime struct {
	time.Time
	N int
}

type HuntC01EmbBig struct {
	big.Int
	N int
}

type huntC01hidden struct {
	A int
	B string
}

type HuntC01EmbHiddenPtr struct {
	*huntC01hidden
	N int
}

type HuntC01WithList struct {
	L list.List // the zero value is a ready to use list
	N int
}

type HuntC01Flag uint8

type HuntC01Str string

type HuntC01Late struct {
	Name string `my:"n"`
	Age  int    `my:"a"`
}

// ---------------------------------------------------------------------------------------
// child process
// ---------------------------------------------------------------------------------------

func TestHuntC01_Child(t *testing.T) {
	mode := os.Getenv("HUNT_C01_CHILD")
	if mode == "" {
		t.Skip("helper for the other TestHuntC01_ tests")
	}
	switch mode {
	case "cycle-simple":
		// keep the demonstration cheap: the recursion is infinite, any limit is reached
		debug.SetMaxStack(64 << 20)
		n := &HuntC01Node{Val: 1}
		n.Next = n
		_, err := hio.Marshal(n) // simple mode is the default of io.Marshal
		fmt.Println("CHILD-RETURNED err =", err)
	case "longlist":
		// default stack limit; a plain, acyclic list
		var head *HuntC01Node
		for i := 0; i < 3000000; i++ {
			head = &HuntC01Node{i, head}
		}
		data, err := hio.Formatter{Simple: false}.Marshal(head)
		fmt.Println("CHILD-RETURNED len =", len(data), "err =", err)
	case "dst":
		fmt.Println("CHILD-LOCAL", time.Local.String())
		// 2021-11-07 06:30 UTC is 01:30 EST, the second 01:30 of that night in New York
		u := time.Date(2021, 11, 7, 6, 30, 0, 0, time.UTC)
		for _, c := range []struct {
			name string
			v    time.Time
		}{
			{"local", u.Local()},
			{"fixed+01:00", u.In(time.FixedZone("X", 3600))},
		} {
			for _, simple := range []bool{true, false} {
				out, data, problem := huntC01RT(c.v, simple)
				if problem != "" {
					fmt.Printf("CHILD-BAD %s simple=%v: %s\n", c.name, simple, problem)
				} else if !out.(time.Time).Equal(c.v) {
					fmt.Printf("CHILD-BAD %s simple=%v: sent %v (unix %d) got %v (unix %d) bytes %q\n",
						c.name, simple, c.v, c.v.Unix(), out, out.(time.Time).Unix(), data)
				}
			}
		}
	case "year":
		fmt.Println("CHILD-LOCAL", time.Local.String())
		v := time.Date(9999, 12, 31, 23, 0, 0, 0, time.FixedZone("X", 0)) // year 9999 in its own zone and in UTC
		if _, _, problem := huntC01RT(v, true); problem != "" {
			fmt.Printf("CHILD-BAD %v: %s\n", v, problem)
		}
	}
}

// ---------------------------------------------------------------------------------------
// 1. crash: pointer fields of structs recurse without any depth check
// ---------------------------------------------------------------------------------------

// A struct that points to itself, encoded in simple mode (the default of io.Marshal), kills
// the process with "fatal error: stack overflow". Commit 4cd6b0e gave maps, lists and
// interface values ErrNestedTooDeep for this; struct pointer fields are written through
// the EncodeHandler table and never pass Encoder.writeValue, where the depth is counted.
func TestHuntC01_StructCycleSimpleModeKillsProcess(t *testing.T) {
	out, err := huntC01Child(t, "cycle-simple")
	if err != nil && strings.Contains(out, "stack overflow") {
		huntC01Violation(t, "io.Marshal(&Node{Next: itself}) in simple mode killed the process: %v\n%s", err, huntC01Tail(out, 3))
		return
	}
	if !strings.Contains(out, "CHILD-RETURNED") {
		t.Fatalf("child did not run as expected: %v\n%s", err, huntC01Tail(out, 20))
	}
	t.Logf("child survived: %s", huntC01Tail(out, 5))
}

// The same missing depth check with a perfectly valid value: an acyclic linked list of
// 3,000,000 nodes (48 MB of nodes) exhausts the default 1 GB goroutine stack (~400 bytes of
// stack per node). Opt-in because the child needs about 1.5 GB for a moment:
// HUNT_C01_HEAVY=1 go test ...
func TestHuntC01_LongLinkedListKillsProcess(t *testing.T) {
	if os.Getenv("HUNT_C01_HEAVY") == "" {
		t.Skip("set HUNT_C01_HEAVY=1 to run (the child uses ~1.5 GB for a moment)")
	}
	out, err := huntC01Child(t, "longlist")
	if err != nil && strings.Contains(out, "stack overflow") {
		huntC01Violation(t, "Marshal of an acyclic 3,000,000 node linked list killed the process: %v\n%s", err, huntC01Tail(out, 3))
		return
	}
	t.Logf("child survived: %v %s", err, huntC01Tail(out, 5))
}

// What the encoder accepts the decoder refuses: 10001 nodes encode fine, decoding the bytes
// fails with "nested too deep" (statement: "nested to arbitrary depth").
func TestHuntC01_LinkedList10001EncodesButDoesNotDecode(t *testing.T) {
	var head *HuntC01Node
	for i := 0; i < 10001; i++ {
		head = &HuntC01Node{i, head}
	}
	for _, simple := range []bool{true, false} {
		_, _, problem := huntC01RT(head, simple)
		if problem != "" {
			huntC01Violation(t, "linked list of 10001 nodes, simple=%v: %s", simple, problem)
		}
	}
}

// ---------------------------------------------------------------------------------------
// 2. panic: legal struct shapes whose field names collide
// ---------------------------------------------------------------------------------------

func TestHuntC01_ShadowedEmbeddedFieldPanics(t *testing.T) {
	for _, c := range []struct {
		name string
		v    interface{}
	}{
		{"outer field shadows promoted field", HuntC01Shadow{HuntC01Inner{1, "y"}, 2}},
		{"inside a slice", []HuntC01Shadow{{HuntC01Inner{1, "y"}, 2}}},
		{"tag equals another field's default alias", HuntC01TagClash{1, 2}},
	} {
		for _, simple := range []bool{true, false} {
			if _, _, problem := huntC01RT(c.v, simple); problem != "" {
				huntC01Violation(t, "%s (%T) simple=%v: %s", c.name, c.v, simple, problem)
			}
		}
	}
	// decoding into such a type panics as well
	func() {
		defer func() {
			if e := recover(); e != nil {
				huntC01Violation(t, "Unmarshal into %T: PANIC: %v", HuntC01Shadow{}, e)
			}
		}()
		var out HuntC01Shadow
		_ = hio.Unmarshal([]byte(`m1{s1"x"1}`), &out)
	}()
}

// ---------------------------------------------------------------------------------------
// 3. wrong result: values of types that implement error are written as an error
// ---------------------------------------------------------------------------------------

// Encoder.fastWriteValue has "case error: enc.WriteError(v)" in front of everything else, so
// a struct or an integer type with an Error method is written as E"message" wherever it
// passes writeValue (top level, slice element, map value, interface) - but as an object or
// integer when it is a struct field. Decoding E... into the same type returns the message
// as the error of Unmarshal.
func TestHuntC01_ErrorImplementingTypesDoNotRoundTrip(t *testing.T) {
	for _, c := range []struct {
		name string
		v    interface{}
	}{
		{"struct with Error method", HuntC01ErrStruct{1, "boom"}},
		{"pointer to it", &HuntC01ErrStruct{1, "boom"}},
		{"slice of it", []HuntC01ErrStruct{{1, "boom"}}},
		{"map value", map[string]HuntC01ErrStruct{"a": {1, "boom"}}},
		{"integer type with Error method (like syscall.Errno)", HuntC01Errno(5)},
		{"slice of it", []HuntC01Errno{5, 6}},
	} {
		for _, simple := range []bool{true, false} {
			out, data, problem := huntC01RT(c.v, simple)
			if problem != "" {
				huntC01Violation(t, "%s (%T) simple=%v: %s; bytes %q", c.name, c.v, simple, problem, data)
			} else if !reflect.DeepEqual(out, c.v) {
				huntC01Violation(t, "%s (%T) simple=%v: got %#v want %#v", c.name, c.v, simple, out, c.v)
			}
		}
	}
	// as a struct field the very same values do round trip
	v := struct {
		F HuntC01ErrStruct
		G HuntC01Errno
	}{HuntC01ErrStruct{1, "boom"}, 5}
	if out, _, problem := huntC01RT(v, true); problem != "" || !reflect.DeepEqual(out, v) {
		t.Logf("as struct fields: %v %v", out, problem)
	}
}

// ---------------------------------------------------------------------------------------
// 4. wrong result: big.Float
// ---------------------------------------------------------------------------------------

// WriteBigFloat writes the shortest decimal that identifies the value AT ITS OWN PRECISION;
// the decoder parses that decimal with new(big.Float).SetString, i.e. always at precision 64.
// So big.NewFloat(0.1) (precision 53) comes back as a different number, and anything above
// 64 bits is truncated.
func TestHuntC01_BigFloatDoesNotRoundTrip(t *testing.T) {
	third := new(big.Float).SetPrec(200).Quo(big.NewFloat(1), big.NewFloat(3))
	for _, v := range []*big.Float{big.NewFloat(0.1), big.NewFloat(1e100), big.NewFloat(math.MaxFloat64), third} {
		for _, simple := range []bool{true, false} {
			out, data, problem := huntC01RT(v, simple)
			if problem != "" {
				huntC01Violation(t, "big.Float %s: %s", v.Text('g', -1), problem)
				continue
			}
			got := out.(*big.Float)
			if got.Cmp(v) != 0 {
				huntC01Violation(t, "*big.Float prec=%d simple=%v: sent %s got %s (prec %d), Cmp=%d, bytes %q",
					v.Prec(), simple, v.Text('p', 0), got.Text('p', 0), got.Prec(), got.Cmp(v), data)
			}
		}
	}
	// as a value in a struct
	type S struct{ F big.Float }
	s := S{*big.NewFloat(0.1)}
	out, _, problem := huntC01RT(s, true)
	if problem != "" {
		huntC01Violation(t, "struct{F big.Float}: %s", problem)
	} else if o := out.(S); o.F.Cmp(&s.F) != 0 {
		huntC01Violation(t, "struct{F big.Float}{0.1}: sent %s got %s", s.F.Text('p', 0), o.F.Text('p', 0))
	}
}

// ---------------------------------------------------------------------------------------
// 5. wrong result: the instant of a time in the repeated hour of a DST change
// ---------------------------------------------------------------------------------------

// The format carries a wall clock plus "UTC or local". Every time that is not time.UTC is
// written as local wall clock; in the hour that a DST change repeats, the wall clock names two
// instants and time.Date picks the first one. With TZ=America/New_York, 2021-11-07 06:30 UTC
// (01:30 EST) comes back as 05:30 UTC (01:30 EDT) - also when the value was in a fixed zone.
func TestHuntC01_TimeInstantLostInDSTFold(t *testing.T) {
	out, err := huntC01Child(t, "dst", "TZ=America/New_York")
	if !strings.Contains(out, "CHILD-LOCAL America/New_York") {
		t.Skipf("child could not use TZ=America/New_York: %v\n%s", err, huntC01Tail(out, 10))
	}
	for _, line := range strings.Split(out, "\n") {
		if strings.HasPrefix(line, "CHILD-BAD") {
			huntC01Violation(t, "TZ=America/New_York: %s", strings.TrimPrefix(line, "CHILD-BAD "))
		}
	}
}

// A time whose year is 9999 in its own zone and in UTC is refused when the host's zone puts it
// into year 10000 (TZ=Asia/Tokyo), because non-UTC times are converted to local time first.
func TestHuntC01_TimeYearDependsOnHostZone(t *testing.T) {
	out, err := huntC01Child(t, "year", "TZ=Asia/Tokyo")
	if !strings.Contains(out, "CHILD-LOCAL Asia/Tokyo") {
		t.Skipf("child could not use TZ=Asia/Tokyo: %v\n%s", err, huntC01Tail(out, 10))
	}
	for _, line := range strings.Split(out, "\n") {
		if strings.HasPrefix(line, "CHILD-BAD") {
			huntC01Violation(t, "TZ=Asia/Tokyo: %s", strings.TrimPrefix(line, "CHILD-BAD "))
		}
	}
}

// ---------------------------------------------------------------------------------------
// 6. wrong result: embedded time.Time / big.Int / *unexported are dropped silently
// ---------------------------------------------------------------------------------------

// getFields flattens every embedded field of kind struct. time.Time, big.Int, big.Float,
// big.Rat and list.List are structs without exported fields, so an embedded one contributes
// nothing: the value is lost without an error. An embedded pointer to an unexported struct
// type loses its promoted exported fields the same way.
func TestHuntC01_EmbeddedSpecialStructsAreDropped(t *testing.T) {
	for _, simple := range []bool{true, false} {
		v1 := HuntC01EmbTime{time.Date(2020, 1, 2, 3, 4, 5, 0, time.UTC), 3}
		out, data, problem := huntC01RT(v1, simple)
		if problem != "" {
			huntC01Violation(t, "%T simple=%v: %s", v1, simple, problem)
		} else if o := out.(HuntC01EmbTime); !o.Time.Equal(v1.Time) {
			huntC01Violation(t, "%T simple=%v: sent %v got %v, bytes %q", v1, simple, v1.Time, o.Time, data)
		}
		v2 := HuntC01EmbBig{*big.NewInt(12345), 3}
		out, data, problem = huntC01RT(v2, simple)
		if problem != "" {
			huntC01Violation(t, "%T simple=%v: %s", v2, simple, problem)
		} else if o := out.(HuntC01EmbBig); o.Int.Cmp(&v2.Int) != 0 {
			huntC01Violation(t, "%T simple=%v: sent %v got %v, bytes %q", v2, simple, &v2.Int, &o.Int, data)
		}
		v3 := HuntC01EmbHiddenPtr{&huntC01hidden{1, "b"}, 2}
		out, data, problem = huntC01RT(v3, simple)
		if problem != "" {
			huntC01Violation(t, "%T simple=%v: %s", v3, simple, problem)
		} else if o := out.(HuntC01EmbHiddenPtr); o.huntC01hidden == nil || o.A != 1 || o.B != "b" {
			huntC01Violation(t, "%T simple=%v: promoted exported fields A=1 B=\"b\" are lost, got %+v, bytes %q", v3, simple, o, data)
		}
	}
}

// ---------------------------------------------------------------------------------------
// 7. wrong result: list.List values can be encoded but not decoded
// ---------------------------------------------------------------------------------------

// list_encoder.go registers its encoder "for list.List/*list.List", the decoder exists for
// *list.List only. A struct with a list.List field (its zero value is ready to use, so this
// is how lists are usually embedded) encodes fine and fails to decode.
func TestHuntC01_ListValueEncodesButDoesNotDecode(t *testing.T) {
	v := &HuntC01WithList{N: 1}
	v.L.PushBack(5)
	v.L.PushBack("ab")
	for _, simple := range []bool{true, false} {
		out, data, problem := huntC01RT(v, simple)
		if problem != "" {
			huntC01Violation(t, "%T simple=%v: %s; bytes %q", v, simple, problem, data)
			continue
		}
		if o := out.(*HuntC01WithList); o.L.Len() != 2 {
			huntC01Violation(t, "%T simple=%v: list has %d elements", v, simple, o.L.Len())
		}
	}
	l := list.New()
	l.PushBack(1)
	if _, data, problem := huntC01RT(*l, true); problem != "" {
		huntC01Violation(t, "list.List value at top level: %s; bytes %q", problem, data)
	}
}

// ---------------------------------------------------------------------------------------
// 8. wrong result (reference mode): shared pointer to a slice of a named uint8 type
// ---------------------------------------------------------------------------------------

// []Flag (type Flag uint8) is written as a list of integers and read by bytesDecoder, whose
// readUint8Slice registers the value as []uint8 in the reference table. The second
// occurrence of the same *[]Flag is a reference; neither aliasing nor convertReference can
// turn []uint8 into []Flag. Same for a **Str (type Str string) holding invalid UTF-8.
func TestHuntC01_RefModeSharedPointerToNamedByteSlice(t *testing.T) {
	e := []HuntC01Flag{1, 2}
	v := []*[]HuntC01Flag{&e, &e}
	out, data, problem := huntC01RT(v, false)
	if problem != "" {
		huntC01Violation(t, "%T{p, p} reference mode: %s; bytes %q", v, problem, data)
	} else if !reflect.DeepEqual(out, v) {
		huntC01Violation(t, "%T{p, p} reference mode: got %v", v, out)
	}
	w := []struct{ F *[]HuntC01Flag }{{&e}, {&e}}
	if _, data, problem := huntC01RT(w, false); problem != "" {
		huntC01Violation(t, "%T reference mode: %s; bytes %q", w, problem, data)
	}
	s := HuntC01Str("\xff\xfe")
	p := &s
	x := []**HuntC01Str{&p, &p}
	if _, data, problem := huntC01RT(x, false); problem != "" {
		huntC01Violation(t, "%T{pp, pp} with invalid UTF-8, reference mode: %s; bytes %q", x, problem, data)
	}
	// simple mode is fine
	if _, _, problem := huntC01RT(v, true); problem != "" {
		t.Logf("simple mode: %s", problem)
	}
}

// ---------------------------------------------------------------------------------------
// 9. wrong result (operation sequence): Register with a tag after the type has been used
// ---------------------------------------------------------------------------------------

// Register(proto, tag) replaces the struct encoder (aliases from the new tag) but the decoder
// keeps the field map that getFieldMap cached per type when the type was first used (aliases
// from the default tags): every field whose alias changed is dropped on decoding.
func TestHuntC01_RegisterWithTagAfterFirstUse(t *testing.T) {
	v := HuntC01Late{"x", 3}
	if out, _, problem := huntC01RT(v, true); problem != "" || !reflect.DeepEqual(out, v) {
		t.Fatalf("before Register: %v %s", out, problem)
	}
	hio.Register((*HuntC01Late)(nil), "my")
	for _, simple := range []bool{true, false} {
		out, data, problem := huntC01RT(v, simple)
		if problem != "" {
			huntC01Violation(t, "after Register(tag my) simple=%v: %s", simple, problem)
		} else if !reflect.DeepEqual(out, v) {
			huntC01Violation(t, "after Register(tag my) simple=%v: sent %+v got %+v, bytes %q", simple, v, out, data)
		}
	}
}

// ---------------------------------------------------------------------------------------
// 10. minor: losses that are not among the normalisations of the statement
// ---------------------------------------------------------------------------------------

func TestHuntC01_MinorLosses(t *testing.T) {
	negZero := math.Copysign(0, -1)
	// (a) the sign of a zero imaginary part ("+-0" is a listed boundary value)
	for _, v := range []interface{}{complex(1, negZero), complex64(complex(2, negZero)), []complex128{complex(3, negZero)}} {
		out, data, problem := huntC01RT(v, true)
		if problem != "" {
			huntC01Violation(t, "%T: %s", v, problem)
			continue
		}
		im := func(x interface{}) float64 {
			switch c := x.(type) {
			case complex128:
				return imag(c)
			case complex64:
				return float64(imag(c))
			case []complex128:
				return imag(c[0])
			}
			return 0
		}
		if math.Signbit(im(out)) != math.Signbit(im(v)) {
			huntC01Violation(t, "%T %v: imaginary part -0 came back as +0 (got %v), bytes %q", v, v, out, data)
		}
	}
	// (b) a pointer to a nil slice / nil map / nil interface collapses to a nil pointer
	var ns []int
	var nm map[string]int
	var ni interface{}
	type P struct {
		S *[]int
		M *map[string]int
		I *interface{}
	}
	v := P{&ns, &nm, &ni}
	out, data, problem := huntC01RT(v, true)
	if problem != "" {
		huntC01Violation(t, "%T: %s", v, problem)
	} else if o := out.(P); o.S == nil || o.M == nil || o.I == nil {
		huntC01Violation(t, "pointers to a nil slice, nil map, nil interface came back as nil pointers: S=%v M=%v I=%v, bytes %q", o.S, o.M, o.I, data)
	}
	// (c) a string that is not valid UTF-8 inside an interface{} comes back as []byte
	w := []interface{}{"\xff\xfe"}
	out, data, problem = huntC01RT(w, true)
	if problem != "" {
		huntC01Violation(t, "%#v: %s", w, problem)
	} else if _, ok := out.([]interface{})[0].(string); !ok {
		huntC01Violation(t, "[]interface{}{\"\\xff\\xfe\"}: element came back as %T (%v), bytes %q", out.([]interface{})[0], out.([]interface{})[0], data)
	}
	_ = errors.New
}
