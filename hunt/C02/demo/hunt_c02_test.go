// Demonstrations for property C02 (reference mode preserves shared and cyclic object graphs).
//
// COPY THIS FILE INTO THE PACKAGE DIRECTORY  io/  (it is package io_test and only uses the
// public API). From the worktree root:
//
//   cp _hunt/demo/hunt_c02_test.go io/hunt_c02_test.go && \
//     go test -vet=off -count=1 -v -run 'TestHuntC02_' ./io/ ; rm io/hunt_c02_test.go
//
// Every TestHuntC02_* test FAILS on the unchanged library and prints a line that starts with
// "VIOLATION:". Cases that kill or may kill the test process (SIGSEGV, stack overflow) run in a
// child process (the test binary re-executed with HUNT_C02_CHILD=<name>), so that the other
// tests still run.
package io_test

import (
	"errors"
	"fmt"
	"os"
	"os/exec"
	"reflect"
	"runtime/debug"
	"strings"
	"testing"
	"time"

	hio "github.com/hprose/hprose-golang/v3/io"
)

// ---------------------------------------------------------------------------------------------
// helpers

func c02Encode(v interface{}) ([]byte, error) {
	return hio.Formatter{Simple: false}.Marshal(v)
}

func c02Decode(data []byte, p interface{}) error {
	return hio.Formatter{Simple: false}.Unmarshal(data, p)
}

// c02Child re-executes the test binary for the child part of a test. It returns the combined
// output and the exit error of the child.
func c02Child(t *testing.T, name string, extraEnv ...string) (string, error) {
	cmd := exec.Command(os.Args[0], "-test.run", "^"+t.Name()+"$", "-test.v", "-test.count=1")
	cmd.Env = append(append(os.Environ(), "HUNT_C02_CHILD="+name), extraEnv...)
	out, err := cmd.CombinedOutput()
	return string(out), err
}

func c02IsChild(name string) bool { return os.Getenv("HUNT_C02_CHILD") == name }

func c02Head(s string, n int) string {
	if len(s) > n {
		return s[:n] + " ..."
	}
	return s
}

// ---------------------------------------------------------------------------------------------
// 1. A back-reference to a list or a map, decoded into interface{}, is a POINTER to the list/map,
//    while the first occurrence is the list/map itself.

func TestHuntC02_IfaceBackRefIsPointer(t *testing.T) {
	l := &[]int{1, 2}
	m := &map[string]int{"k": 1}
	a := &[2]int{7, 8}
	for _, tc := range []struct {
		name string
		v    interface{}
	}{
		{"shared *[]int", []interface{}{l, l}},
		{"shared *map[string]int", []interface{}{m, m}},
		{"shared *[2]int", []interface{}{a, a}},
	} {
		data, err := c02Encode(tc.v)
		if err != nil {
			t.Fatalf("%s: encode: %v", tc.name, err)
		}
		var out interface{}
		if err := c02Decode(data, &out); err != nil {
			t.Fatalf("%s: decode: %v", tc.name, err)
		}
		list := out.([]interface{})
		t0, t1 := reflect.TypeOf(list[0]), reflect.TypeOf(list[1])
		if t0 != t1 || !reflect.DeepEqual(list[0], list[1]) {
			t.Errorf("VIOLATION: %s: stream %q: first occurrence decodes as %v, its back-reference as %v (%#v)",
				tc.name, data, t0, t1, list[1])
		}
	}
	// the same with streams as every hprose implementation writes them for a shared array / map
	for _, stream := range []string{`a2{a1{1}r1;}`, `a2{m1{s1"k"1}r1;}`} {
		var out interface{}
		if err := c02Decode([]byte(stream), &out); err != nil {
			t.Fatalf("decode %q: %v", stream, err)
		}
		list := out.([]interface{})
		if reflect.TypeOf(list[0]) != reflect.TypeOf(list[1]) {
			t.Errorf("VIOLATION: stream %s: element 0 is %T, element 1 (r1; = the same item) is %T",
				stream, list[0], list[1])
		}
	}
	// typed struct with interface{} fields
	type two struct{ A, B interface{} }
	data, _ := c02Encode(two{l, l})
	var out two
	if err := c02Decode(data, &out); err != nil {
		t.Fatal(err)
	}
	if !reflect.DeepEqual(out.A, out.B) {
		t.Errorf("VIOLATION: struct{A,B interface{}} with A==B==*[]int{1,2}: A=%#v B=%#v", out.A, out.B)
	}
}

// ---------------------------------------------------------------------------------------------
// 2. An object of a class that is not registered, first decoded into interface{} (it becomes a
//    map[string]interface{} that is put BY VALUE into the reference list), then referred to by a
//    destination of type map[string]interface{}: mapCopy copies the first word of the runtime
//    map header (its element count) into the destination map pointer. Using the map crashes.

type c02Inner struct {
	A int
	B string
}

func TestHuntC02_ObjAsMapRefCrash(t *testing.T) {
	if c02IsChild("objasmap") {
		p := &c02Inner{1, "bb"}
		src := struct {
			X interface{}
			Y *c02Inner
		}{p, p}
		data, err := c02Encode(src)
		if err != nil {
			t.Fatal(err)
		}
		var dst struct {
			X interface{}
			Y map[string]interface{}
		}
		err = c02Decode(data, &dst)
		fmt.Printf("stream=%q err=%v X=%#v\n", data, err, dst.X)
		fmt.Printf("map pointer word of Y = %#x\n", reflect.ValueOf(dst.Y).Pointer())
		fmt.Printf("len(Y)=%d\n", len(dst.Y)) // SIGSEGV
		fmt.Printf("Y=%v\n", dst.Y)
		fmt.Println("CHILD-OK")
		return
	}
	out, err := c02Child(t, "objasmap")
	if err != nil || !strings.Contains(out, "CHILD-OK") {
		t.Errorf("VIOLATION: back-reference to an object that was decoded as map[string]interface{} into a map destination corrupts the map: child %v\n%s", err, c02Head(out, 900))
	}
}

// ---------------------------------------------------------------------------------------------
// 3. A cycle through a field of a NAMED pointer type: the decoder only aliases a back-reference
//    when the destination is exactly *T; for `type NodePtr *Node` it copies the object, and the
//    object is still being decoded.

type c02NodePtr *c02Node
type c02Node struct {
	V    int
	Next c02NodePtr
	Tail string
}

func TestHuntC02_NamedPtrCycleCopied(t *testing.T) {
	n := &c02Node{V: 1, Tail: "tail"}
	n.Next = c02NodePtr(n) // a self loop: every unfolding has Tail == "tail"
	data, err := c02Encode(n)
	if err != nil {
		t.Fatal(err)
	}
	var out *c02Node
	if err := c02Decode(data, &out); err != nil {
		t.Fatal(err)
	}
	p := out
	for depth := 0; depth < 6; depth++ {
		if p == nil {
			t.Errorf("VIOLATION: stream %q: the cycle ends at depth %d", data, depth)
			return
		}
		if p.V != 1 || p.Tail != "tail" {
			t.Errorf("VIOLATION: stream %q: node at depth %d of the unfolding is {V:%d Tail:%q}, want {V:1 Tail:\"tail\"} (a copy taken before the target was complete)",
				data, depth, p.V, p.Tail)
			return
		}
		p = (*c02Node)(p.Next)
	}
}

// ---------------------------------------------------------------------------------------------
// 4. Second use of a destination. After a message with a shared pointer has been decoded into a
//    variable, decoding the next message into the same variable (the usual Go idiom, and what
//    json.Unmarshal supports) decodes two DISTINCT objects into the one object the previous
//    message left behind: wrong values, silently.

type c02Item struct{ V int }
type c02Pair struct{ A, B *c02Item }
type c02List struct {
	V    int
	Next *c02List
}

func TestHuntC02_ReuseDestinationAliases(t *testing.T) {
	x := &c02Item{7}
	m1, _ := c02Encode(c02Pair{x, x})
	m2, _ := c02Encode(c02Pair{&c02Item{1}, &c02Item{2}})
	var p c02Pair
	if err := c02Decode(m1, &p); err != nil {
		t.Fatal(err)
	}
	if err := c02Decode(m2, &p); err != nil {
		t.Fatal(err)
	}
	if p.A.V != 1 || p.B.V != 2 {
		t.Errorf("VIOLATION: message 2 %q decoded into the variable that held message 1 %q: A.V=%d B.V=%d (A==B: %v), want 1 and 2",
			m2, m1, p.A.V, p.B.V, p.A == p.B)
	}
	// the same with a cycle left behind by the first message
	c := &c02List{V: 9}
	c.Next = c
	c1, _ := c02Encode(c)
	c2, _ := c02Encode(&c02List{1, &c02List{2, nil}})
	var l *c02List
	_ = c02Decode(c1, &l)
	_ = c02Decode(c2, &l)
	n := 0
	for q := l; q != nil && n < 10; q = q.Next {
		n++
	}
	if n != 2 || l.V != 1 {
		t.Errorf("VIOLATION: list 1->2 decoded into the variable that held a self loop: %d node(s), head V=%d, want 2 nodes, head V=1", n, l.V)
	}
}

// ---------------------------------------------------------------------------------------------
// 5. Maps and slices are objects with identity in Go, but the encoder only tracks pointers: a map
//    (or slice) that is reachable along two paths is written twice, so a DAG of n maps is written
//    in 2^n steps; a map that contains itself can not be encoded at all.

func TestHuntC02_SharedMapWrittenExponentially(t *testing.T) {
	size := func(depth int) (int, time.Duration, error) {
		var m interface{} = map[string]interface{}{"leaf": 1}
		for i := 0; i < depth; i++ {
			m = map[string]interface{}{"a": m, "b": m} // depth+1 distinct maps
		}
		st := time.Now()
		data, err := c02Encode(m)
		return len(data), time.Since(st), err
	}
	s10, _, _ := size(10)
	s18, d18, err := size(18)
	if err != nil {
		t.Fatal(err)
	}
	if s18 > 100*19 {
		t.Errorf("VIOLATION: a DAG of 19 distinct maps (each shared by two entries of its parent) is encoded in %d bytes (%v); 11 maps take %d bytes: x%d for 8 more objects; 60 maps would take ~2^60 steps",
			s18, d18, s10, s18/s10)
	}
	var s interface{} = []interface{}{1}
	for i := 0; i < 18; i++ {
		s = []interface{}{s, s}
	}
	data, _ := c02Encode(s)
	if len(data) > 100*19 {
		t.Errorf("VIOLATION: a DAG of 19 distinct []interface{} is encoded in %d bytes", len(data))
	}
	self := map[string]interface{}{}
	self["self"] = self
	if _, err := c02Encode(self); err != nil {
		t.Errorf("VIOLATION: a map that contains itself (a one-node cycle through a map) is not encoded: %v", err)
	}
	type viaIface struct{ P *interface{} }
	var i interface{}
	i = viaIface{&i} // struct value -> *interface{} -> the same struct value
	if _, err := c02Encode(i); err != nil {
		t.Errorf("VIOLATION: a cycle through a *interface{} field is not encoded: %v", err)
	}
}

// ---------------------------------------------------------------------------------------------
// 6. Depth. (a) A plain linked list of 10001 nodes is encoded, but its own decoder refuses it.
//    (b) With interface{} links the encoder refuses it. (c) With typed links the encoder has no
//    guard at all: a list of some millions of nodes overflows the goroutine stack, which kills
//    the process (no recover possible).

type c02Chain struct {
	V    int
	Next *c02Chain
}
type c02IChain struct {
	V    int
	Next interface{}
}

func TestHuntC02_DepthLimitList(t *testing.T) {
	const n = 10001
	var head *c02Chain
	for i := 0; i < n; i++ {
		head = &c02Chain{i, head}
	}
	data, err := c02Encode(head)
	if err != nil {
		t.Fatalf("encode: %v", err)
	}
	var out *c02Chain
	err = c02Decode(data, &out)
	cnt := 0
	for p := out; p != nil; p = p.Next {
		cnt++
	}
	if err != nil || cnt != n {
		t.Errorf("VIOLATION: an acyclic list of %d nodes (%d bytes) does not survive the round trip: decode error %v, %d nodes decoded", n, len(data), err, cnt)
	}
	var ihead *c02IChain
	for i := 0; i < n; i++ {
		var next interface{}
		if ihead != nil {
			next = ihead
		}
		ihead = &c02IChain{i, next}
	}
	if _, err := c02Encode(ihead); err != nil {
		t.Errorf("VIOLATION: an acyclic list of %d nodes linked through interface{} fields is not encoded: %v", n, err)
	}
}

func TestHuntC02_DeepListStackOverflow(t *testing.T) {
	if c02IsChild("deeplist") {
		nodes := 400000
		if os.Getenv("HUNT_C02_BIG") != "" {
			nodes = 8000000 // overflows the default 1 GB stack limit (takes ~1.2 GB for a moment)
		} else {
			// keep the demonstration cheap: the default limit is 1 GB, which ~6 million nodes
			// reach; with 64 MB the same unguarded recursion shows with 400000 nodes
			debug.SetMaxStack(64 << 20)
		}
		var head *c02Chain
		for i := 0; i < nodes; i++ {
			head = &c02Chain{i, head}
		}
		data, err := c02Encode(head)
		fmt.Printf("encoded %d nodes into %d bytes, err=%v\n", nodes, len(data), err)
		fmt.Println("CHILD-OK")
		return
	}
	out, err := c02Child(t, "deeplist")
	if err != nil || !strings.Contains(out, "CHILD-OK") {
		t.Errorf("VIOLATION: encoding a long acyclic list kills the process (set HUNT_C02_BIG=1 to see it with the default stack limit): child %v\n%s", err, c02Head(out, 500))
	}
}

// ---------------------------------------------------------------------------------------------
// 7. An error value inside a graph takes a reference index and is written as E"message". Every
//    decoder treats that tag as "the decode has failed with this message": the graph can not be
//    decoded, whatever follows the error is lost. A struct pointer whose type happens to have an
//    Error method is written that way too when it sits in an interface{}.

type c02Status struct {
	Code int
	Msg  string
}

func (s *c02Status) Error() string { return s.Msg }

func TestHuntC02_ErrorValuePoisonsDecode(t *testing.T) {
	p := &c02Item{5}
	data, err := c02Encode([]interface{}{errors.New("boom"), p, p})
	if err != nil {
		t.Fatal(err)
	}
	var out []interface{}
	if err := c02Decode(data, &out); err != nil || len(out) != 3 || out[1] == nil {
		t.Errorf("VIOLATION: [error, p, p] is encoded as %q but decoding it fails with %v and yields %#v", data, err, out)
	}
	type holder struct {
		E error
		P *c02Item
		Q *c02Item
	}
	data, _ = c02Encode(holder{errors.New("boom"), p, p})
	var h holder
	if err := c02Decode(data, &h); err != nil || h.P == nil || h.P != h.Q {
		t.Errorf("VIOLATION: struct{E error; P, Q *Item} is encoded as %q but decoding it fails with %v: %+v", data, err, h)
	}
	hio.Register((*c02Status)(nil))
	st := &c02Status{404, "not found"}
	data, _ = c02Encode([]interface{}{st, st})
	var out2 []interface{}
	err = c02Decode(data, &out2)
	if err != nil || len(out2) != 2 || out2[0] == nil {
		t.Errorf("VIOLATION: []interface{}{st, st} with st = &Status{404, \"not found\"} (Status has an Error method) is encoded as %q (the object and the sharing are gone), decode: %v %#v", data, err, out2)
	}
}

// ---------------------------------------------------------------------------------------------
// 8. A struct field of a non-empty interface type. The encoder writes the object (and a reference
//    for its second occurrence); the decoder stores an interface{} (type word, data word) into the
//    field, whose layout is (itab word, data word). Touching the field crashes.

type c02Shape interface{ Area() float64 }
type c02Square struct{ Side float64 }

func (s *c02Square) Area() float64 { return s.Side * s.Side }

type c02Shapes struct{ A, B c02Shape }

func TestHuntC02_NonEmptyInterfaceField(t *testing.T) {
	if c02IsChild("iface") {
		hio.Register((*c02Square)(nil))
		sq := &c02Square{2}
		data, err := c02Encode(&c02Shapes{sq, sq})
		if err != nil {
			t.Fatal(err)
		}
		var out *c02Shapes
		err = c02Decode(data, &out)
		fmt.Printf("stream=%q err=%v\n", data, err)
		fmt.Printf("A==B: %v\n", out.A == out.B) // SIGSEGV: the itab word is a *rtype
		fmt.Printf("area: %v\n", out.A.Area())
		fmt.Println("CHILD-OK")
		return
	}
	out, err := c02Child(t, "iface")
	if err != nil || !strings.Contains(out, "CHILD-OK") {
		t.Errorf("VIOLATION: a struct with fields of a non-empty interface type that share one object decodes without error into a value that crashes when used: child %v\n%s", err, c02Head(out, 700))
	}
}

// ---------------------------------------------------------------------------------------------
// 9. Recursive types that do not pass through a named struct: `type Tree []Tree`,
//    `type Dict map[string]Dict`, `type L []*L`, `type Arr [1]*Arr`. Encoding works; building the
//    decoder of such a type recurses for ever (the decoder of a slice/map/array/pointer type is
//    registered only after the decoder of its element has been built), until the goroutine stack
//    is exhausted: fatal error, the process dies. A struct with a field of such a type can not
//    even be ENCODED, because the field table computes the decode handlers as well.
//    (The child lowers the stack limit to 64 MB only to fail fast; the recursion is unbounded.)

type C02Tree []C02Tree
type C02Dict map[string]C02Dict
type C02L []*C02L
type C02Arr [1]*C02Arr
type C02Ptr *C02Ptr
type C02Holder struct {
	Name string
	Kids C02Tree
}

func TestHuntC02_RecursiveContainerTypeKillsProcess(t *testing.T) {
	if name := os.Getenv("HUNT_C02_CHILD"); strings.HasPrefix(name, "rec-") {
		debug.SetMaxStack(64 << 20)
		var data []byte
		var err error
		var out interface{}
		switch name {
		case "rec-tree":
			data, err = c02Encode(C02Tree{C02Tree{}, C02Tree{C02Tree{}}})
			out = new(C02Tree)
		case "rec-dict":
			data, err = c02Encode(C02Dict{"a": C02Dict{"b": nil}})
			out = new(C02Dict)
		case "rec-cyclic-slice":
			l := C02L{nil}
			l[0] = &l // a cycle that passes through a slice only
			data, err = c02Encode(&l)
			out = new(*C02L)
		case "rec-cyclic-array":
			var a C02Arr
			a[0] = &a
			data, err = c02Encode(&a)
			out = new(*C02Arr)
		case "rec-struct-field":
			data, err = c02Encode(&C02Holder{"x", C02Tree{C02Tree{}}})
			out = new(*C02Holder)
		case "rec-pointer":
			var p C02Ptr
			p = C02Ptr(&p) // a cycle of pointers only: the encoder follows it for ever
			data, err = c02Encode(p)
			out = new(C02Ptr)
		}
		fmt.Printf("encoded: %q err=%v\n", data, err)
		err = c02Decode(data, out)
		fmt.Printf("decoded: err=%v value=%v\n", err, reflect.ValueOf(out).Elem().Interface())
		fmt.Println("CHILD-OK")
		return
	}
	for _, name := range []string{"rec-tree", "rec-dict", "rec-cyclic-slice", "rec-cyclic-array", "rec-struct-field", "rec-pointer"} {
		out, err := c02Child(t, name)
		if err != nil || !strings.Contains(out, "CHILD-OK") {
			t.Errorf("VIOLATION: %s: the process dies: child %v\n%s", name, err, c02Head(out, 330))
		}
	}
}
