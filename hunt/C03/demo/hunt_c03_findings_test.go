// Copy into the package directory io/ together with hunt_c03_ref_test.go and
// hunt_c03_model_test.go (external test package io_test).
//
// Every test fails (and prints a line starting with "VIOLATION:") on the
// unchanged library.  The types used by one test are used by no other test,
// because the library's type registries are process-wide.
package io_test

import (
	"container/list"
	"errors"
	"fmt"
	"math/big"
	"math/rand"
	"os"
	"os/exec"
	"reflect"
	"runtime/debug"
	"strings"
	"testing"
	"time"
	_ "time/tzdata"

	hio "github.com/hprose/hprose-golang/v3/io"
)

// hEncode writes vs to one encoder: entry 0 = Encode, 1 = Write, 2 = io.Marshal (one value, simple).
func hEncode(simple bool, entry int, vs ...interface{}) (out []byte, err error) {
	defer func() {
		if e := recover(); e != nil {
			err = fmt.Errorf("PANIC: %v", e)
		}
	}()
	if entry == 2 {
		return hio.Marshal(vs[0])
	}
	e := new(hio.Encoder).Simple(simple)
	for _, v := range vs {
		if entry == 1 {
			err = e.Write(v)
		} else {
			err = e.Encode(v)
		}
		if err != nil {
			return e.Bytes(), err
		}
	}
	return e.Bytes(), nil
}

// hCheck encodes vs in both modes through both entry points, reads the stream with the
// independent reader and compares what it denotes with vs.
func hCheck(t *testing.T, name string, vs ...interface{}) {
	t.Helper()
	for _, simple := range []bool{true, false} {
		for entry := 0; entry < 2; entry++ {
			out, err := hEncode(simple, entry, vs...)
			where := fmt.Sprintf("%s (simple=%v, %s)", name, simple, []string{"Encode", "Write"}[entry])
			if err != nil {
				t.Errorf("VIOLATION: %s: %v", where, err)
				continue
			}
			nodes, rd, perr := hParseAll(out)
			if perr != nil {
				t.Errorf("VIOLATION: %s: stream is not well-formed: %v", where, perr)
				continue
			}
			if len(nodes) != len(vs) {
				t.Errorf("VIOLATION: %s: %d values written, %d read from %q", where, len(vs), len(nodes), out)
				continue
			}
			m := &matcher{rd: rd, strict: true}
			for i := range vs {
				if err := m.match(nodes[i], reflect.ValueOf(vs[i])); err != nil {
					t.Errorf("VIOLATION: %s: stream %q denotes another value: %v", where, out, err)
				}
			}
		}
	}
}

// ---------------------------------------------------------------------------
// 1. a nil error field writes nothing at all

type F1Result struct {
	Value int
	Err   error
	Note  string
}

func TestHuntC03_NilErrorField(t *testing.T) {
	hCheck(t, "struct with a nil error field", F1Result{Value: 1, Note: "done"})
	hCheck(t, "pointer to it, then a second value", &F1Result{Value: 1, Note: "done"}, "next")
	hCheck(t, "anonymous struct with a nil error field", struct {
		Err error
		N   int
	}{nil, 7})
	out, err := hio.Marshal([]F1Result{{Value: 1}, {Value: 2, Err: errors.New("x")}})
	if _, _, perr := hParseOne(out); err != nil || perr != nil {
		t.Errorf("VIOLATION: io.Marshal([]F1Result{{1,nil,\"\"},{2,x,\"\"}}): err=%v, not well-formed: %v", err, perr)
	}
}

// ---------------------------------------------------------------------------
// 2. a half-built struct encoder stays registered after the panic of its construction

type F2Base struct {
	ID   int
	Name string
}
type F2Shadow struct {
	ID int // shadows F2Base.ID, legal Go
	F2Base
}
type F2Outer struct {
	X int
	S F2Shadow
	Y string
}
type F2Other struct{ Z int }

func TestHuntC03_HalfBuiltEncoderAfterPanic(t *testing.T) {
	v := []interface{}{F2Outer{X: 1, S: F2Shadow{ID: 2, F2Base: F2Base{3, "n"}}, Y: "yy"}, F2Other{5}}
	for attempt := 1; attempt <= 5; attempt++ {
		out, err := hEncode(true, 0, v)
		if err != nil {
			t.Logf("attempt %d: %v", attempt, err)
			continue
		}
		// no panic, no error: the stream must be right
		_, _, perr := hParseOne(out)
		if perr != nil {
			t.Errorf("VIOLATION: attempt %d returned no error and a stream that is not well-formed: %v", attempt, perr)
		} else {
			hCheck(t, fmt.Sprintf("attempt %d", attempt), v)
		}
		return
	}
	t.Logf("every attempt failed with an error (acceptable)")
}

// ---------------------------------------------------------------------------
// 3. Go-legal field sets make the encoder panic

type F3Base struct {
	ID   int
	Name string
}
type F3Shadow struct {
	ID string // shadows F3Base.ID
	F3Base
}
type F3Tag struct {
	ID int `json:"id"`
	Id string
}

func TestHuntC03_ShadowedFieldPanics(t *testing.T) {
	for _, v := range []interface{}{F3Shadow{ID: "a", F3Base: F3Base{1, "n"}}, F3Tag{1, "x"}} {
		out, err := hEncode(true, 2, v)
		if err != nil && strings.HasPrefix(err.Error(), "PANIC") {
			t.Errorf("VIOLATION: io.Marshal(%T) panics: %v", v, err)
		} else if err == nil {
			if _, _, perr := hParseOne(out); perr != nil {
				t.Errorf("VIOLATION: io.Marshal(%T): %v", v, perr)
			}
		}
	}
}

// ---------------------------------------------------------------------------
// 4. a cycle of struct pointers in simple mode (the mode of io.Marshal) kills the process

type F4Node struct {
	V    int
	Next *F4Node
}

func TestHuntC03_CyclicStructSimpleMode(t *testing.T) {
	if os.Getenv("HUNT_C03_CHILD") == "cycle" {
		debug.SetMaxStack(64 << 20) // fail fast; the default of 1 GB takes half a minute to fill
		n := &F4Node{V: 1}
		n.Next = n
		b, err := hio.Marshal(n)
		fmt.Printf("CHILD RETURNED %d bytes, err=%v\n", len(b), err)
		return
	}
	// the same value in reference mode is fine
	n := &F4Node{V: 1}
	n.Next = n
	hCheckRef(t, n)
	cmd := exec.Command(os.Args[0], "-test.run", "^TestHuntC03_CyclicStructSimpleMode$")
	cmd.Env = append(os.Environ(), "HUNT_C03_CHILD=cycle")
	out, err := cmd.CombinedOutput()
	if strings.Contains(string(out), "CHILD RETURNED") && err == nil {
		t.Logf("child: %s", out)
		return
	}
	if len(out) > 300 {
		out = out[:300]
	}
	t.Errorf("VIOLATION: io.Marshal of a struct whose pointer field points back at it ends the process (%v): %s", err, out)
}

func hCheckRef(t *testing.T, v interface{}) {
	out, err := hEncode(false, 0, v)
	if err != nil {
		t.Errorf("reference mode: %v", err)
		return
	}
	if _, _, perr := hParseOne(out); perr != nil {
		t.Errorf("reference mode: %v", perr)
	}
	t.Logf("reference mode: %q", out)
}

// ---------------------------------------------------------------------------
// 5. nil is tested after the fast paths: nil errors behind pointers panic

type F5Holder struct {
	P *error
	N int
}

func TestHuntC03_NilErrorBehindPointerPanics(t *testing.T) {
	var nilerr error
	var pe *os.PathError // a typed nil pointer whose type implements error
	cases := []struct {
		name string
		v    interface{}
	}{
		{"pointer to a nil error", &nilerr},
		{"typed nil *os.PathError", pe},
		{"list holding a typed nil *os.PathError", []interface{}{1, pe}},
		{"struct with a nil *error field", F5Holder{nil, 1}},
		{"struct with a *error field pointing at a nil error", F5Holder{&nilerr, 1}},
	}
	for _, c := range cases {
		for _, simple := range []bool{true, false} {
			out, err := hEncode(simple, 0, c.v)
			if err != nil {
				t.Errorf("VIOLATION: %s (simple=%v): %v (expected the null value)", c.name, simple, err)
				continue
			}
			if _, _, perr := hParseOne(out); perr != nil {
				t.Errorf("VIOLATION: %s (simple=%v): %v", c.name, simple, perr)
			}
		}
	}
}

// ---------------------------------------------------------------------------
// 6. list.List: the count is taken from Len(), the elements from the chain

func TestHuntC03_ListCopiedByValue(t *testing.T) {
	l := list.New()
	l.PushBack(1)
	c := *l // a copy shares the chain of elements, not the length
	l.PushBack(2)
	out, err := hEncode(true, 0, c)
	if _, _, perr := hParseOne(out); err != nil || perr != nil {
		t.Errorf("VIOLATION: list.List value: err=%v, stream %q is not well-formed: %v", err, out, perr)
	}
}

// ---------------------------------------------------------------------------
// 7. a nil row of a [][]T is an empty list on the fast paths, null everywhere else

type F7Ints []int

func TestHuntC03_NilRowsOf2dSlices(t *testing.T) {
	show := func(v interface{}) string {
		out, err := hEncode(true, 0, v)
		if err != nil {
			t.Fatal(err)
		}
		return string(out)
	}
	a, b, c, d := show([][]int{nil, {1}}), show([]F7Ints{nil, {1}}), show([][]byte{nil, {1}}), show([]interface{}{[]int(nil), []int{1}})
	t.Logf("[][]int{nil,{1}}=%q  []F7Ints{nil,{1}}=%q  [][]byte{nil,{1}}=%q  []interface{}{[]int(nil),[]int{1}}=%q", a, b, c, d)
	if a != b || a != d {
		t.Errorf("VIOLATION: the nil row of [][]int is written as an empty list (%q); the same nil []int is null as an element of any other list (%q, %q)", a, b, d)
	}
	hCheck(t, "[][]string with a nil row", [][]string{nil, {"a"}})
}

// ---------------------------------------------------------------------------
// 8. embedded time.Time, big.Int ... are flattened into nothing, without an error

type F8Event struct {
	time.Time
	Name string
}
type f8hidden struct{ A, B int }
type F8Wrap struct {
	*f8hidden
	N int
}

func TestHuntC03_EmbeddedValuesDropped(t *testing.T) {
	ev := F8Event{time.Date(2020, 1, 2, 3, 4, 5, 0, time.UTC), "launch"}
	out, err := hEncode(true, 0, ev)
	n, _, perr := hParseOne(out)
	if err != nil || perr != nil {
		t.Fatalf("%v %v", err, perr)
	}
	if !strings.Contains(string(out), "20200102") {
		t.Errorf("VIOLATION: struct{time.Time; Name string} is written as %v (%q) and no error is reported: the time is gone", n, out)
	}
	w := F8Wrap{&f8hidden{1, 2}, 3}
	out, err = hEncode(true, 0, w)
	n, _, perr = hParseOne(out)
	if err != nil || perr != nil {
		t.Fatalf("%v %v", err, perr)
	}
	if len(n.Items) < 2 {
		t.Errorf("VIOLATION: struct{*f8hidden{A,B int}; N int} is written as %v (%q) and no error is reported: the promoted fields A and B are gone", n, out)
	}
}

// ---------------------------------------------------------------------------
// 9. a big.Float of low precision is written with fewer digits than identify it

func TestHuntC03_BigFloatLowPrecision(t *testing.T) {
	for _, prec := range []uint{2, 4, 6} {
		r := rand.New(rand.NewSource(int64(prec)))
		for i := 0; i < 2000; i++ {
			b := new(big.Float).SetPrec(prec).SetFloat64(r.NormFloat64() * 1e-18)
			out, err := hEncode(true, 0, b)
			n, rd, perr := hParseOne(out)
			if err != nil || perr != nil {
				t.Fatalf("%v %v", err, perr)
			}
			if err := (&matcher{rd: rd}).match(n, reflect.ValueOf(*b)); err != nil {
				t.Errorf("VIOLATION: big.Float of %d bits, exactly %s, is written as %q, which read back with %d bits is another number", prec, b.Text('g', 30), out, prec)
				break
			}
		}
	}
}

// ---------------------------------------------------------------------------
// 10. a time in a fixed zone is written as local wall clock: lost in the repeated hour

func TestHuntC03_ZoneTimeInRepeatedHour(t *testing.T) {
	ny, err := time.LoadLocation("America/New_York")
	if err != nil {
		t.Skip(err)
	}
	old := time.Local
	time.Local = ny
	defer func() { time.Local = old }()
	in := time.Date(2021, 11, 7, 6, 30, 0, 0, time.UTC).In(time.FixedZone("EST", -5*3600))
	out, err := hEncode(true, 0, in)
	n, rd, perr := hParseOne(out)
	if err != nil || perr != nil {
		t.Fatalf("%v %v", err, perr)
	}
	if err := (&matcher{rd: rd}).match(n, reflect.ValueOf(in)); err != nil {
		t.Errorf("VIOLATION: (time.Local = America/New_York) %v; the UTC form D20211107T063000Z would have kept the instant", err)
	}
}

// ---------------------------------------------------------------------------
// 11. generated values of every type, both modes, all entry points, sequences

func TestHuntC03_Differential(t *testing.T) {
	seed := int64(20240207)
	if s := os.Getenv("HUNT_C03_SEED"); s != "" {
		fmt.Sscan(s, &seed)
	}
	r := rand.New(rand.NewSource(seed))
	seen := map[string]int{}
	kinds := map[string]int{}
	for iter := 0; iter < 200000; iter++ {
		n := 1
		if iter%4 == 0 {
			n = 1 + r.Intn(3)
		}
		var vs []interface{}
		var rvs []reflect.Value
		var tn string
		for i := 0; i < n; i++ {
			ty := gTypes[r.Intn(len(gTypes))]
			v := genValue(r, ty, 3)
			rvs = append(rvs, v)
			vs = append(vs, v.Interface())
			tn += ty.String() + ";"
		}
		switch r.Intn(4) {
		case 0: // the same values again: shared pointers across the sequence
			vs = append(vs, vs...)
			rvs = append(rvs, rvs...)
			n *= 2
		case 1: // the same values twice in one list, the list twice
			l := append(append([]interface{}{}, vs...), vs...)
			l = append(l, l)
			vs = []interface{}{l, &l}
			rvs = []reflect.Value{reflect.ValueOf(l), reflect.ValueOf(&l)}
			n = 2
		}
		simple := r.Intn(2) == 0
		entry := r.Intn(2)
		if n == 1 && r.Intn(5) == 0 {
			entry, simple = 2, true
		}
		out, err := hEncode(simple, entry, vs...)
		report := func(kind, msg string) {
			kinds[kind]++
			key := kind + tn
			seen[key]++
			if seen[key] == 1 && kinds[kind] <= 4 {
				if len(msg) > 400 {
					msg = msg[:400] + "..."
				}
				t.Errorf("VIOLATION: types %s simple=%v entry=%d: %s: %s", tn, simple, entry, kind, msg)
			}
		}
		if err != nil {
			report("error", err.Error())
			continue
		}
		nodes, rd, perr := hParseAll(out)
		if perr != nil {
			report("not well-formed", perr.Error())
			continue
		}
		if len(nodes) != n {
			report("not delimited", fmt.Sprintf("%d values written, %d read from %.200q", n, len(nodes), out))
			continue
		}
		m := &matcher{rd: rd}
		for i := range nodes {
			if err := m.match(nodes[i], rvs[i]); err != nil {
				report("denotes another value", fmt.Sprintf("%v; stream %.200q", err, out))
			}
		}
		for _, nt := range m.notes {
			kinds["note: nil slice written as an empty list"]++
			_ = nt
		}
	}
	for k, c := range kinds {
		t.Logf("%6d x %s", c, k)
	}
}
