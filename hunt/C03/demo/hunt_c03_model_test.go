// Copy into the package directory io/ together with hunt_c03_ref_test.go
// (external test package io_test).
//
// A model of "the value that was encoded", computed from the Go value by plain
// reflection, compared with the tree the independent reader produced; and a
// generator of values of every supported type.
package io_test

import (
	"container/list"
	"errors"
	"fmt"
	"math"
	"math/big"
	"math/rand"
	"os"
	"reflect"
	"strconv"
	"strings"
	"time"
	"unicode/utf8"

	"github.com/google/uuid"
)

var (
	tTime     = reflect.TypeOf(time.Time{})
	tUUID     = reflect.TypeOf(uuid.UUID{})
	tBigInt   = reflect.TypeOf(big.Int{})
	tBigFloat = reflect.TypeOf(big.Float{})
	tBigRat   = reflect.TypeOf(big.Rat{})
	tList     = reflect.TypeOf(list.List{})
	tError    = reflect.TypeOf((*error)(nil)).Elem()
)

func lowerFirst(s string) string {
	if s != "" && s[0] >= 'A' && s[0] <= 'Z' {
		return string(s[0]-'A'+'a') + s[1:]
	}
	return s
}

type mField struct {
	name string
	idx  []int
}

// mFields: exported fields, embedded structs flattened, tag hprose/json renames.
func mFields(t reflect.Type, prefix []int) (fs []mField) {
	for i := 0; i < t.NumField(); i++ {
		f := t.Field(i)
		idx := append(append([]int{}, prefix...), i)
		if f.Anonymous && f.Type.Kind() == reflect.Struct {
			fs = append(fs, mFields(f.Type, idx)...)
			continue
		}
		if f.PkgPath != "" {
			continue
		}
		name := ""
		for _, tag := range []string{"hprose", "json"} {
			if v := strings.TrimSpace(strings.Split(f.Tag.Get(tag), ",")[0]); v != "" {
				name = v
				break
			}
		}
		if name == "" {
			name = lowerFirst(f.Name)
		}
		if name == "-" {
			continue
		}
		switch f.Type.Kind() {
		case reflect.Func, reflect.Chan, reflect.UnsafePointer:
			continue
		}
		fs = append(fs, mField{name, idx})
	}
	return
}

type matcher struct {
	rd     *hReader
	notes  []string
	strict bool
}

func (m *matcher) intText(n *hNode) (string, bool) {
	if n.Kind == "int" || n.Kind == "long" {
		return strings.TrimPrefix(n.Text, "+"), true
	}
	return "", false
}

func (m *matcher) float(n *hNode, f float64, bits int) error {
	switch {
	case f != f:
		if n.Kind != "nan" {
			return fmt.Errorf("NaN written as %v", n)
		}
	case math.IsInf(f, 1):
		if n.Kind != "inf" || n.Text != "+" {
			return fmt.Errorf("+Inf written as %v", n)
		}
	case math.IsInf(f, -1):
		if n.Kind != "inf" || n.Text != "-" {
			return fmt.Errorf("-Inf written as %v", n)
		}
	default:
		if n.Kind != "double" {
			return fmt.Errorf("float %v written as %v", f, n)
		}
		text := n.Text
		g, err := strconv.ParseFloat(text, 64)
		if err != nil {
			return fmt.Errorf("float %v written as %v: %v", f, n, err)
		}
		if bits == 32 {
			if float32(g) != float32(f) || math.Signbit(g) != math.Signbit(f) {
				return fmt.Errorf("float32 %v written as %v", f, n)
			}
		} else if g != f || math.Signbit(g) != math.Signbit(f) {
			return fmt.Errorf("float64 %v written as %v", f, n)
		}
	}
	return nil
}

func (m *matcher) str(n *hNode, s string) error {
	if !utf8.ValidString(s) {
		if n.Kind != "bytes" || n.Text != s {
			return fmt.Errorf("non-text string %q written as %v", s, n)
		}
		return nil
	}
	switch n.Kind {
	case "empty":
		if s != "" {
			return fmt.Errorf("string %q written as empty", s)
		}
	case "char", "string":
		if n.Text != s {
			return fmt.Errorf("string %q written as %v", s, n)
		}
	default:
		return fmt.Errorf("string %q written as %v", s, n)
	}
	return nil
}

func (m *matcher) timeVal(n *hNode, t time.Time) error {
	var layout, text string
	switch n.Kind {
	case "date":
		text = n.Text[:len(n.Text)-1]
		layout = "20060102"
		if strings.Contains(text, "T") {
			layout = "20060102T150405"
		}
	case "time":
		text = "19700101T" + n.Text[:len(n.Text)-1]
		layout = "20060102T150405"
	default:
		return fmt.Errorf("time %v written as %v", t, n)
	}
	if i := strings.Index(text, "."); i >= 0 {
		layout += "." + strings.Repeat("0", len(text)-i-1)
	}
	loc := time.Local
	if strings.HasSuffix(n.Text, "Z") {
		loc = time.UTC
	}
	g, err := time.ParseInLocation(layout, text, loc)
	if err != nil {
		return fmt.Errorf("time %v written as %v: %v", t, n, err)
	}
	if !g.Equal(t) {
		return fmt.Errorf("time %v written as %v which is %v", t, n, g)
	}
	return nil
}

func (m *matcher) match(n *hNode, v reflect.Value) error {
	n = m.rd.resolve(n)
	if !v.IsValid() {
		if n.Kind != "null" {
			return fmt.Errorf("nil written as %v", n)
		}
		return nil
	}
	t := v.Type()
	// an error value is written as an error whatever its shape
	if t.Kind() != reflect.Interface && t.Implements(tError) && v.CanInterface() && !(t.Kind() == reflect.Ptr && v.IsNil()) {
		if n.Kind != "error" {
			return fmt.Errorf("error %v written as %v", v, n)
		}
		msg := strings.ToValidUTF8(v.Interface().(error).Error(), "\ufffd")
		return m.str(m.rd.resolve(n.Items[0]), msg)
	}
	switch t {
	case tTime:
		return m.timeVal(n, v.Interface().(time.Time))
	case tUUID:
		if n.Kind != "guid" || !strings.EqualFold(n.Text, v.Interface().(uuid.UUID).String()) {
			return fmt.Errorf("uuid %v written as %v", v, n)
		}
		return nil
	case tBigInt:
		b := v.Interface().(big.Int)
		if s, ok := m.intText(n); !ok || s != b.String() {
			return fmt.Errorf("big.Int %v written as %v", b.String(), n)
		}
		return nil
	case tBigRat:
		b := v.Interface().(big.Rat)
		if b.IsInt() {
			if s, ok := m.intText(n); !ok || s != b.Num().String() {
				return fmt.Errorf("big.Rat %v written as %v", b.String(), n)
			}
			return nil
		}
		return m.str(n, b.String())
	case tBigFloat:
		b := v.Interface().(big.Float)
		if b.IsInf() {
			sign := "+"
			if b.Signbit() {
				sign = "-"
			}
			if n.Kind != "inf" || n.Text != sign {
				return fmt.Errorf("big.Float %v written as %v", b.String(), n)
			}
			return nil
		}
		if n.Kind != "double" {
			return fmt.Errorf("big.Float %v written as %v", b.String(), n)
		}
		text := n.Text
		prec := b.Prec()
		if prec == 0 {
			prec = 64
		}
		g, _, err := big.ParseFloat(text, 10, prec, b.Mode())
		if err != nil || g.Cmp(&b) != 0 {
			return fmt.Errorf("big.Float %v written as %v", b.Text('g', -1), n)
		}
		return nil
	case tList:
		l := v.Interface().(list.List)
		if n.Kind != "list" || len(n.Items) != l.Len() {
			return fmt.Errorf("list.List of %d written as %v", l.Len(), n)
		}
		i := 0
		for e := l.Front(); e != nil; e = e.Next() {
			if err := m.match(n.Items[i], reflect.ValueOf(e.Value)); err != nil {
				return err
			}
			i++
		}
		return nil
	}
	switch t.Kind() {
	case reflect.Interface, reflect.Ptr:
		if v.IsNil() {
			if n.Kind != "null" {
				return fmt.Errorf("nil %v written as %v", t, n)
			}
			return nil
		}
		return m.match(n, v.Elem())
	case reflect.Bool:
		if n.Kind != "bool" || n.Text != strconv.FormatBool(v.Bool()) {
			return fmt.Errorf("bool %v written as %v", v, n)
		}
	case reflect.Int, reflect.Int8, reflect.Int16, reflect.Int32, reflect.Int64:
		if s, ok := m.intText(n); !ok || s != strconv.FormatInt(v.Int(), 10) {
			return fmt.Errorf("%v %d written as %v", t, v.Int(), n)
		}
		if n.Kind == "int" && (v.Int() > math.MaxInt32 || v.Int() < math.MinInt32) {
			return fmt.Errorf("%v %d written with the 32-bit integer tag: %v", t, v.Int(), n)
		}
	case reflect.Uint, reflect.Uint8, reflect.Uint16, reflect.Uint32, reflect.Uint64, reflect.Uintptr:
		if s, ok := m.intText(n); !ok || s != strconv.FormatUint(v.Uint(), 10) {
			return fmt.Errorf("%v %d written as %v", t, v.Uint(), n)
		}
		if n.Kind == "int" && v.Uint() > math.MaxInt32 {
			return fmt.Errorf("%v %d written with the 32-bit integer tag: %v", t, v.Uint(), n)
		}
	case reflect.Float32:
		return m.float(n, v.Float(), 32)
	case reflect.Float64:
		return m.float(n, v.Float(), 64)
	case reflect.Complex64, reflect.Complex128:
		bits := 64
		if t.Kind() == reflect.Complex64 {
			bits = 32
		}
		c := v.Complex()
		if imag(c) == 0 && n.Kind != "list" {
			return m.float(n, real(c), bits)
		}
		if n.Kind != "list" || len(n.Items) != 2 {
			return fmt.Errorf("complex %v written as %v", c, n)
		}
		if err := m.float(m.rd.resolve(n.Items[0]), real(c), bits); err != nil {
			return err
		}
		return m.float(m.rd.resolve(n.Items[1]), imag(c), bits)
	case reflect.String:
		return m.str(n, v.String())
	case reflect.Slice, reflect.Array:
		if t.Kind() == reflect.Slice && v.IsNil() {
			if !m.strict && n.Kind == "list" && len(n.Items) == 0 {
				m.notes = append(m.notes, fmt.Sprintf("nil %v written as an empty list", t))
				return nil
			}
			if n.Kind != "null" {
				return fmt.Errorf("nil %v written as %v", t, n)
			}
			return nil
		}
		if t.Elem().Kind() == reflect.Uint8 && n.Kind == "bytes" {
			b := make([]byte, v.Len())
			reflect.Copy(reflect.ValueOf(b), v)
			if n.Text != string(b) {
				return fmt.Errorf("bytes %x written as %v", b, n)
			}
			return nil
		}
		if n.Kind != "list" || len(n.Items) != v.Len() {
			return fmt.Errorf("%v of %d elements written as %v", t, v.Len(), n)
		}
		for i := 0; i < v.Len(); i++ {
			if err := m.match(n.Items[i], v.Index(i)); err != nil {
				return fmt.Errorf("[%d]: %w", i, err)
			}
		}
	case reflect.Map:
		if v.IsNil() {
			if n.Kind != "null" {
				return fmt.Errorf("nil %v written as %v", t, n)
			}
			return nil
		}
		if n.Kind != "map" || len(n.Items) != 2*v.Len() {
			return fmt.Errorf("%v of %d pairs written as %v", t, v.Len(), n)
		}
		// the pairs come in any order: find an assignment of entries to pairs
		// (a plain search, the maps are small)
		var keys, elems []reflect.Value
		for it := v.MapRange(); it.Next(); { // MapIndex does not find NaN keys
			keys = append(keys, it.Key())
			elems = append(elems, it.Value())
		}
		was := m.strict
		defer func() { m.strict = was }()
		var last error
		ok := false
		for pass := 0; pass < 2 && !ok; pass++ {
			m.strict = pass == 0 || was
			notes := m.notes
			fits := make([][]bool, len(keys))
			for i, k := range keys {
				fits[i] = make([]bool, len(keys))
				for j := range keys {
					if err := m.match(n.Items[2*j], k); err != nil {
						continue
					}
					if err := m.match(n.Items[2*j+1], elems[i]); err != nil {
						last = fmt.Errorf("entry %v: %w", k, err)
						continue
					}
					fits[i][j] = true
				}
			}
			used := make([]bool, len(keys))
			var assign func(i int) bool
			assign = func(i int) bool {
				if i == len(keys) {
					return true
				}
				for j := range keys {
					if fits[i][j] && !used[j] {
						used[j] = true
						if assign(i + 1) {
							return true
						}
						used[j] = false
					}
				}
				return false
			}
			ok = assign(0)
			if !ok || m.strict {
				m.notes = notes
			}
		}
		if !ok {
			return fmt.Errorf("%v %v written as %v (%v)", t, v, n, last)
		}
	case reflect.Struct:
		fs := mFields(t, nil)
		if t.Name() == "" {
			if n.Kind != "map" || len(n.Items) != 2*len(fs) {
				return fmt.Errorf("anonymous struct %v written as %v", t, n)
			}
			for i, f := range fs {
				if err := m.str(m.rd.resolve(n.Items[2*i]), f.name); err != nil {
					return err
				}
				if err := m.match(n.Items[2*i+1], v.FieldByIndex(f.idx)); err != nil {
					return fmt.Errorf(".%s: %w", f.name, err)
				}
			}
			return nil
		}
		if n.Kind != "object" || n.Class != t.Name() || len(n.Fields) != len(fs) {
			return fmt.Errorf("struct %v (%d fields) written as %v", t, len(fs), n)
		}
		for i, f := range fs {
			if n.Fields[i] != f.name {
				return fmt.Errorf("struct %v field %d %q written as %q", t, i, f.name, n.Fields[i])
			}
			if err := m.match(n.Items[i], v.FieldByIndex(f.idx)); err != nil {
				return fmt.Errorf(".%s: %w", f.name, err)
			}
		}
	default:
		return fmt.Errorf("model: unsupported %v", t)
	}
	return nil
}

// ---------- generator ----------

var gStrings = []string{"", "a", "é", "€", "𝄞", "ab", "héllo", "日本語", "𝄞𝄞", "a𝄞b", "\x00", "\"", "q\"q", "\xff", "a\xffb", "\xed\xa0\x80", "\xc0\xaf", "ab", "héllo", strings.Repeat("x", 300), strings.Repeat("𝄞", 70), "\ufffd", "\ufeff", " "}

func genValue(r *rand.Rand, t reflect.Type, depth int) reflect.Value {
	v := reflect.New(t).Elem()
	switch t {
	case tTime:
		var tm time.Time
		switch r.Intn(7) {
		case 0:
			tm = time.Time{}
		case 1:
			tm = time.Date(1970, 1, 1, 0, 0, 0, 0, time.UTC)
		case 2:
			tm = time.Date(1970, 1, 1, r.Intn(24), r.Intn(60), r.Intn(60), r.Intn(1000)*1000000, time.UTC)
		case 3:
			tm = time.Date(r.Intn(9998)+1, time.Month(r.Intn(12)+1), r.Intn(28)+1, 0, 0, 0, 0, time.Local)
		case 4:
			tm = time.Date(r.Intn(9000)+500, time.Month(r.Intn(12)+1), r.Intn(28)+1, r.Intn(24), r.Intn(60), r.Intn(60), r.Intn(1000000)*1000, time.FixedZone("x", (r.Intn(27)-13)*3600+r.Intn(2)*1800))
		case 5:
			tm = time.Date(r.Intn(9998)+1, time.Month(r.Intn(12)+1), r.Intn(28)+1, r.Intn(24), r.Intn(60), r.Intn(60), r.Intn(1000000000), time.UTC)
		default:
			tm = time.Unix(r.Int63n(4e9), r.Int63n(1e9))
		}
		v.Set(reflect.ValueOf(tm))
		return v
	case tUUID:
		var u uuid.UUID
		r.Read(u[:])
		v.Set(reflect.ValueOf(u))
		return v
	case tBigInt:
		b := new(big.Int).Rand(r, new(big.Int).Lsh(big.NewInt(1), uint(r.Intn(200))))
		if r.Intn(2) == 0 {
			b.Neg(b)
		}
		v.Set(reflect.ValueOf(*b))
		return v
	case tBigFloat:
		b := new(big.Float).SetPrec([]uint{24, 53, 64, 100, 200, 11}[r.Intn(6)])
		switch r.Intn(5) {
		case 0:
		case 1:
			b.SetInf(r.Intn(2) == 0)
		case 2:
			b.SetMantExp(big.NewFloat(r.Float64()), r.Intn(4000)-2000)
		default:
			b.SetFloat64(r.NormFloat64() * math.Pow(10, float64(r.Intn(40)-20)))
		}
		v.Set(reflect.ValueOf(*b))
		return v
	case tBigRat:
		b := big.NewRat(r.Int63()-r.Int63(), r.Int63n(1000)+1)
		v.Set(reflect.ValueOf(*b))
		return v
	case tList:
		l := list.New()
		if depth > 0 {
			for i := r.Intn(4); i > 0; i-- {
				l.PushBack(genValue(r, gTypes[r.Intn(len(gTypes))], depth-1).Interface())
			}
		}
		return reflect.ValueOf(l).Elem()
	}
	switch t.Kind() {
	case reflect.Bool:
		v.SetBool(r.Intn(2) == 0)
	case reflect.Int, reflect.Int8, reflect.Int16, reflect.Int32, reflect.Int64:
		x := r.Int63() >> uint(r.Intn(64))
		if r.Intn(2) == 0 {
			x = -x
		}
		switch r.Intn(8) {
		case 0:
			x = math.MinInt64
		case 1:
			x = math.MaxInt32 + int64(r.Intn(3)) - 1
		case 2:
			x = math.MinInt32 + int64(r.Intn(3)) - 1
		case 3:
			x = int64(r.Intn(12)) - 1
		}
		v.SetInt(x)
		v.SetInt(v.Int())
	case reflect.Uint, reflect.Uint8, reflect.Uint16, reflect.Uint32, reflect.Uint64, reflect.Uintptr:
		x := r.Uint64() >> uint(r.Intn(64))
		switch r.Intn(8) {
		case 0:
			x = math.MaxUint64
		case 1:
			x = math.MaxInt32 + uint64(r.Intn(3)) - 1
		case 2:
			x = math.MaxUint32 + uint64(r.Intn(3)) - 1
		case 3:
			x = uint64(r.Intn(12))
		}
		v.SetUint(x)
	case reflect.Float32, reflect.Float64:
		var f float64
		switch r.Intn(10) {
		case 0:
			f = math.NaN()
		case 1:
			f = math.Inf(1)
		case 2:
			f = math.Inf(-1)
		case 3:
			f = 0
		case 4:
			f = math.Copysign(0, -1)
		case 5:
			f = math.Float64frombits(r.Uint64())
		case 6:
			f = float64(r.Intn(100))
		case 7:
			f = math.SmallestNonzeroFloat64
		default:
			f = r.NormFloat64() * math.Pow(10, float64(r.Intn(60)-30))
		}
		v.SetFloat(f)
	case reflect.Complex64, reflect.Complex128:
		re := genValue(r, reflect.TypeOf(float64(0)), 0).Float()
		im := genValue(r, reflect.TypeOf(float64(0)), 0).Float()
		if r.Intn(3) == 0 {
			im = 0
		}
		v.SetComplex(complex(re, im))
	case reflect.String:
		v.SetString(gStrings[r.Intn(len(gStrings))])
	case reflect.Interface:
		if t == tError {
			if r.Intn(4) != 0 {
				v.Set(reflect.ValueOf(errors.New(gStrings[r.Intn(len(gStrings))])))
			}
			return v
		}
		if r.Intn(6) == 0 || depth <= 0 {
			if r.Intn(2) == 0 {
				return v
			}
			v.Set(genValue(r, gScalar[r.Intn(len(gScalar))], 0))
			return v
		}
		v.Set(genValue(r, gTypes[r.Intn(len(gTypes))], depth-1))
	case reflect.Ptr:
		if r.Intn(5) == 0 {
			return v
		}
		p := reflect.New(t.Elem())
		p.Elem().Set(genValue(r, t.Elem(), depth-1))
		v.Set(p)
	case reflect.Slice:
		if r.Intn(6) == 0 {
			return v
		}
		n := r.Intn(4)
		if depth <= 0 {
			n = 0
		}
		if t.Elem().Kind() == reflect.Uint8 {
			n = r.Intn(5)
		}
		v.Set(reflect.MakeSlice(t, n, n))
		for i := 0; i < n; i++ {
			v.Index(i).Set(genValue(r, t.Elem(), depth-1))
		}
	case reflect.Array:
		for i := 0; i < t.Len(); i++ {
			v.Index(i).Set(genValue(r, t.Elem(), depth-1))
		}
	case reflect.Map:
		if r.Intn(6) == 0 {
			return v
		}
		v.Set(reflect.MakeMap(t))
		n := r.Intn(4)
		if depth <= 0 {
			n = 0
		}
		for i := 0; i < n; i++ {
			k := genValue(r, t.Key(), 0)
			if t.Key().Kind() == reflect.Interface {
				k = reflect.New(t.Key()).Elem()
				k.Set(genValue(r, gScalar[r.Intn(len(gScalar))], 0))
			}
			v.SetMapIndex(k, genValue(r, t.Elem(), depth-1))
		}
	case reflect.Struct:
		for i := 0; i < t.NumField(); i++ {
			if t.Field(i).PkgPath == "" || t.Field(i).Anonymous {
				if v.Field(i).CanSet() {
					v.Field(i).Set(genValue(r, t.Field(i).Type, depth-1))
					if t.Field(i).Type == tError && gNoNilErrorFields && v.Field(i).IsNil() {
						v.Field(i).Set(reflect.ValueOf(errors.New("filled")))
					}
				}
			}
		}
	default:
		panic("gen: " + t.String())
	}
	return v
}

type GInt int
type GI8 int8
type GU8 uint8
type GU64 uint64
type GStr string
type GF32 float32
type GBool bool
type GBytes []byte
type GInts []int
type GMap map[string]int

type GPoint struct {
	X, Y int
}
type GOne struct{ P *GPoint }
type GOneMap struct{ M map[string]int }
type GOneStr struct{ S string }
type GEmpty struct{}
type GHidden struct {
	a int
	B string
}
type GEmb struct {
	GPoint
	Name string `hprose:"n"`
	Skip int    `hprose:"-"`
	J    int    `json:"jj,omitempty"`
}
type GEmb2 struct {
	A int8
	GEmb
	GOneStr
	Z float32
}
type GRec struct {
	V    int
	Next *GRec
	Kids []GRec
}
type GAll struct {
	B    bool
	I    int
	I8   int8
	I16  int16
	I32  int32
	I64  int64
	U    uint
	U8   uint8
	U16  uint16
	U32  uint32
	U64  uint64
	UP   uintptr
	F32  float32
	F64  float64
	C64  complex64
	C128 complex128
	S    string
	Bs   []byte
	If   interface{}
	T    time.Time
	PT   *time.Time
	U1   uuid.UUID
	PU   *uuid.UUID
	BI   *big.Int
	BF   *big.Float
	BR   *big.Rat
	VBI  big.Int
	PS   *string
	PI   *int
	PP   **GPoint
	Pt   GPoint
	PPt  *GPoint
	One  GOne
	Arr  [3]int8
	Arr1 [1]*GPoint
	M    map[string]interface{}
	L    []interface{}
	An   struct {
		Q string
		W []string
	}
	An1  struct{ P *int }
	Li   *list.List
	GS   GStr
	GB   GBytes
	LV   list.List
	Er   error
	Ers  []error
	Me   map[string]error
	AE   [2]error
	Tail int
}
type GErr struct {
	E error
	N int
}

// HUNT_C03_NO_NIL_ERROR_FIELDS=1 keeps the generator away from the nil error field
// (finding 1), so that the run shows what else there is.
var gNoNilErrorFields = os.Getenv("HUNT_C03_NO_NIL_ERROR_FIELDS") != ""

var gScalar = []reflect.Type{
	reflect.TypeOf(false), reflect.TypeOf(int(0)), reflect.TypeOf(int8(0)), reflect.TypeOf(int16(0)), reflect.TypeOf(int32(0)), reflect.TypeOf(int64(0)),
	reflect.TypeOf(uint(0)), reflect.TypeOf(uint8(0)), reflect.TypeOf(uint16(0)), reflect.TypeOf(uint32(0)), reflect.TypeOf(uint64(0)), reflect.TypeOf(uintptr(0)),
	reflect.TypeOf(float32(0)), reflect.TypeOf(float64(0)), reflect.TypeOf(""),
	reflect.TypeOf(GInt(0)), reflect.TypeOf(GI8(0)), reflect.TypeOf(GU8(0)), reflect.TypeOf(GU64(0)), reflect.TypeOf(GStr("")), reflect.TypeOf(GF32(0)), reflect.TypeOf(GBool(false)),
}

var gTypes []reflect.Type

func init() {
	base := append([]reflect.Type{}, gScalar...)
	base = append(base, reflect.TypeOf(complex64(0)), reflect.TypeOf(complex128(0)), reflect.TypeOf((*interface{})(nil)).Elem())
	gTypes = append(gTypes, base...)
	// slices, 2-d slices, arrays, pointers of every base type
	for _, b := range base {
		gTypes = append(gTypes, reflect.SliceOf(b), reflect.SliceOf(reflect.SliceOf(b)), reflect.ArrayOf(2, b), reflect.PtrTo(b), reflect.ArrayOf(1, reflect.PtrTo(b)), reflect.PtrTo(reflect.SliceOf(b)))
	}
	// maps over all fast-path key x value combinations and a few others
	keys := []reflect.Type{reflect.TypeOf(""), reflect.TypeOf((*interface{})(nil)).Elem(), reflect.TypeOf(int(0)), reflect.TypeOf(int8(0)), reflect.TypeOf(int16(0)), reflect.TypeOf(int32(0)), reflect.TypeOf(int64(0)),
		reflect.TypeOf(uint(0)), reflect.TypeOf(uint8(0)), reflect.TypeOf(uint16(0)), reflect.TypeOf(uint32(0)), reflect.TypeOf(uint64(0)), reflect.TypeOf(float32(0)), reflect.TypeOf(float64(0)),
		reflect.TypeOf(GStr("")), reflect.TypeOf(GInt(0)), reflect.TypeOf(false), reflect.TypeOf(GPoint{}), reflect.TypeOf([2]int{}), reflect.TypeOf(uintptr(0)), reflect.TypeOf(complex128(0)), reflect.TypeOf(time.Time{}), reflect.TypeOf(uuid.UUID{}), reflect.TypeOf((*GPoint)(nil))}
	vals := []reflect.Type{reflect.TypeOf((*interface{})(nil)).Elem(), reflect.TypeOf(""), reflect.TypeOf(int(0)), reflect.TypeOf(int8(0)), reflect.TypeOf(int16(0)), reflect.TypeOf(int32(0)), reflect.TypeOf(int64(0)),
		reflect.TypeOf(uint(0)), reflect.TypeOf(uint8(0)), reflect.TypeOf(uint16(0)), reflect.TypeOf(uint32(0)), reflect.TypeOf(uint64(0)), reflect.TypeOf(false), reflect.TypeOf(float32(0)), reflect.TypeOf(float64(0)),
		reflect.TypeOf(GPoint{}), reflect.TypeOf([]byte(nil)), reflect.TypeOf((*GPoint)(nil)), reflect.TypeOf([]string(nil)), reflect.TypeOf(GOne{})}
	for _, k := range keys {
		for _, v := range vals {
			gTypes = append(gTypes, reflect.MapOf(k, v))
		}
	}
	special := []interface{}{time.Time{}, uuid.UUID{}, big.Int{}, big.Float{}, big.Rat{}, list.List{},
		GBytes(nil), GInts(nil), GMap(nil), GPoint{}, GOne{}, GOneMap{}, GOneStr{}, GEmpty{}, GHidden{}, GEmb{}, GEmb2{}, GRec{}, GAll{}, GErr{}, struct{ E error }{},
		struct{ A int }{}, struct {
			A string
			B []int
		}{}, struct{}{}, struct{ P *GPoint }{}, struct{ GPoint }{}, [16]byte{}, [0]int{}, [3]byte{}, [1]GOne{}, [1]map[string]int{}, [1][1]*int{}, [2][]byte{}, [][]byte{}, [][][]int{}, []GBytes{},
		[]time.Time{}, []*time.Time{}, []uuid.UUID{}, []*big.Int{}, []big.Int{}, []GPoint{}, []*GPoint{}, []GOne{}, []*GOne{}, []map[string]interface{}{}, map[string]map[string]string{}, [][2]int{}, []struct{ A int }{},
		[]*GRec{}, []GAll{}, []error{}, map[string]error{},
	}
	for _, s := range special {
		t := reflect.TypeOf(s)
		gTypes = append(gTypes, t, reflect.PtrTo(t), reflect.SliceOf(t), reflect.PtrTo(reflect.PtrTo(t)))
	}
}
