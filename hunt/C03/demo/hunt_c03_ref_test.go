// Copy into the package directory io/ (external test package io_test).
//
// An independent reader of the published Hprose grammar, written from the
// specification and sharing no code with the library.  It checks well-formedness
// (legal tags, counts, lengths in UTF-16 units, class definitions before their
// instances, back-references to earlier referable items) and yields a neutral
// tree that the tests compare with what was encoded.
package io_test

import (
	"fmt"
	"strings"
	"unicode/utf8"
)

type hNode struct {
	Kind   string // int long double nan inf bool null empty char string bytes guid date time list map object ref error
	Text   string // literal text of scalars, content of string/bytes/guid
	Items  []*hNode
	Class  string
	Fields []string
	Ref    int
}

func (n *hNode) String() string {
	if n == nil {
		return "<nil>"
	}
	switch n.Kind {
	case "list":
		var sb strings.Builder
		sb.WriteString("[")
		for i, it := range n.Items {
			if i > 0 {
				sb.WriteString(" ")
			}
			sb.WriteString(it.String())
		}
		sb.WriteString("]")
		return sb.String()
	case "map":
		var sb strings.Builder
		sb.WriteString("{")
		for i := 0; i+1 < len(n.Items); i += 2 {
			if i > 0 {
				sb.WriteString(" ")
			}
			sb.WriteString(n.Items[i].String() + ":" + n.Items[i+1].String())
		}
		sb.WriteString("}")
		return sb.String()
	case "object":
		var sb strings.Builder
		sb.WriteString(n.Class + "{")
		for i, it := range n.Items {
			if i > 0 {
				sb.WriteString(" ")
			}
			sb.WriteString(n.Fields[i] + ":" + it.String())
		}
		sb.WriteString("}")
		return sb.String()
	case "ref":
		return fmt.Sprintf("ref(%d)", n.Ref)
	case "error":
		return "error(" + n.Items[0].String() + ")"
	case "string", "char":
		return fmt.Sprintf("%s(%q)", n.Kind, n.Text)
	case "bytes":
		return fmt.Sprintf("bytes(%x)", n.Text)
	}
	return n.Kind + "(" + n.Text + ")"
}

type hClass struct {
	name   string
	fields []string
}

type hReader struct {
	b       []byte
	p       int
	refs    []*hNode // referable items in order of appearance
	classes []hClass
}

func (r *hReader) fail(format string, a ...interface{}) error {
	return fmt.Errorf("offset %d: %s (stream %q)", r.p, fmt.Sprintf(format, a...), r.b)
}

func (r *hReader) next() (byte, error) {
	if r.p >= len(r.b) {
		return 0, r.fail("unexpected end of stream")
	}
	c := r.b[r.p]
	r.p++
	return c, nil
}

// digits up to (and consuming) the terminator; empty means 0 only where allowed.
func (r *hReader) until(term byte) (string, error) {
	start := r.p
	for r.p < len(r.b) && r.b[r.p] != term {
		r.p++
	}
	if r.p >= len(r.b) {
		return "", r.fail("missing terminator %q", term)
	}
	s := string(r.b[start:r.p])
	r.p++
	return s, nil
}

func isDigits(s string) bool {
	if s == "" {
		return false
	}
	for i := 0; i < len(s); i++ {
		if s[i] < '0' || s[i] > '9' {
			return false
		}
	}
	return true
}

func isInt(s string) bool {
	if strings.HasPrefix(s, "-") || strings.HasPrefix(s, "+") {
		s = s[1:]
	}
	return isDigits(s)
}

// JSON-like number grammar with optional leading sign.
func isFloat(s string) bool {
	i := 0
	if i < len(s) && (s[i] == '-' || s[i] == '+') {
		i++
	}
	n := 0
	for i < len(s) && s[i] >= '0' && s[i] <= '9' {
		i++
		n++
	}
	if i < len(s) && s[i] == '.' {
		i++
		for i < len(s) && s[i] >= '0' && s[i] <= '9' {
			i++
			n++
		}
	}
	if n == 0 {
		return false
	}
	if i < len(s) && (s[i] == 'e' || s[i] == 'E') {
		i++
		if i < len(s) && (s[i] == '-' || s[i] == '+') {
			i++
		}
		m := 0
		for i < len(s) && s[i] >= '0' && s[i] <= '9' {
			i++
			m++
		}
		if m == 0 {
			return false
		}
	}
	return i == len(s)
}

func (r *hReader) count(term byte) (int, error) {
	s, err := r.until(term)
	if err != nil {
		return 0, err
	}
	if s == "" {
		return 0, nil
	}
	if !isDigits(s) {
		return 0, r.fail("bad count %q", s)
	}
	n := 0
	for i := 0; i < len(s); i++ {
		n = n*10 + int(s[i]-'0')
		if n > 1<<40 {
			return 0, r.fail("count too large")
		}
	}
	return n, nil
}

// readChars reads n UTF-16 code units worth of well-formed UTF-8.
func (r *hReader) readChars(n int) (string, error) {
	start := r.p
	for u := 0; u < n; {
		if r.p >= len(r.b) {
			return "", r.fail("string runs past the end of the stream")
		}
		c, size := utf8.DecodeRune(r.b[r.p:])
		if c == utf8.RuneError && size <= 1 {
			return "", r.fail("string content is not UTF-8")
		}
		if c >= 0x10000 {
			u += 2
		} else {
			u++
		}
		if u > n {
			return "", r.fail("string length splits a surrogate pair")
		}
		r.p += size
	}
	return string(r.b[start:r.p]), nil
}

func (r *hReader) quoted(units bool) (string, error) {
	n, err := r.count('"')
	if err != nil {
		return "", err
	}
	var s string
	if units {
		if s, err = r.readChars(n); err != nil {
			return "", err
		}
	} else {
		if r.p+n > len(r.b) {
			return "", r.fail("bytes run past the end of the stream")
		}
		s = string(r.b[r.p : r.p+n])
		r.p += n
	}
	c, err := r.next()
	if err != nil {
		return "", err
	}
	if c != '"' {
		return "", r.fail("closing quote expected after %d units, found %q", n, c)
	}
	return s, nil
}

func (r *hReader) fixedDigits(n int) (string, error) {
	if r.p+n > len(r.b) || !isDigits(string(r.b[r.p:r.p+n])) {
		return "", r.fail("%d digits expected", n)
	}
	s := string(r.b[r.p : r.p+n])
	r.p += n
	return s, nil
}

func (r *hReader) timePart() (string, error) {
	s, err := r.fixedDigits(6)
	if err != nil {
		return "", err
	}
	if s[0:2] > "23" || s[2:4] > "59" || s[4:6] > "60" {
		return "", r.fail("bad time %q", s)
	}
	if r.p < len(r.b) && r.b[r.p] == '.' {
		r.p++
		start := r.p
		for r.p < len(r.b) && r.b[r.p] >= '0' && r.b[r.p] <= '9' {
			r.p++
		}
		f := string(r.b[start:r.p])
		if len(f) != 3 && len(f) != 6 && len(f) != 9 {
			return "", r.fail("fraction of %d digits", len(f))
		}
		s += "." + f
	}
	return s, nil
}

func (r *hReader) zone() (string, error) {
	c, err := r.next()
	if err != nil {
		return "", err
	}
	if c != 'Z' && c != ';' {
		return "", r.fail("date/time terminator expected, found %q", c)
	}
	return string(c), nil
}

// value reads exactly one value (class definitions that precede it included).
func (r *hReader) value() (*hNode, error) {
	tag, err := r.next()
	if err != nil {
		return nil, err
	}
	switch {
	case tag >= '0' && tag <= '9':
		return &hNode{Kind: "int", Text: string(tag)}, nil
	}
	switch tag {
	case 'i', 'l':
		s, err := r.until(';')
		if err != nil {
			return nil, err
		}
		if !isInt(s) {
			return nil, r.fail("bad integer %q", s)
		}
		k := "int"
		if tag == 'l' {
			k = "long"
		}
		return &hNode{Kind: k, Text: s}, nil
	case 'd':
		s, err := r.until(';')
		if err != nil {
			return nil, err
		}
		if !isFloat(s) {
			return nil, r.fail("bad double %q", s)
		}
		return &hNode{Kind: "double", Text: s}, nil
	case 'N':
		return &hNode{Kind: "nan"}, nil
	case 'I':
		c, err := r.next()
		if err != nil {
			return nil, err
		}
		if c != '+' && c != '-' {
			return nil, r.fail("bad infinity sign %q", c)
		}
		return &hNode{Kind: "inf", Text: string(c)}, nil
	case 't':
		return &hNode{Kind: "bool", Text: "true"}, nil
	case 'f':
		return &hNode{Kind: "bool", Text: "false"}, nil
	case 'n':
		return &hNode{Kind: "null"}, nil
	case 'e':
		return &hNode{Kind: "empty"}, nil
	case 'u':
		s, err := r.readChars(1)
		if err != nil {
			return nil, err
		}
		return &hNode{Kind: "char", Text: s}, nil
	case 's':
		s, err := r.quoted(true)
		if err != nil {
			return nil, err
		}
		n := &hNode{Kind: "string", Text: s}
		r.refs = append(r.refs, n)
		return n, nil
	case 'b':
		s, err := r.quoted(false)
		if err != nil {
			return nil, err
		}
		n := &hNode{Kind: "bytes", Text: s}
		r.refs = append(r.refs, n)
		return n, nil
	case 'g':
		if r.p+38 > len(r.b) || r.b[r.p] != '{' || r.b[r.p+37] != '}' {
			return nil, r.fail("bad guid")
		}
		s := string(r.b[r.p+1 : r.p+37])
		for i := 0; i < 36; i++ {
			c := s[i]
			if i == 8 || i == 13 || i == 18 || i == 23 {
				if c != '-' {
					return nil, r.fail("bad guid %q", s)
				}
			} else if !(c >= '0' && c <= '9' || c >= 'a' && c <= 'f' || c >= 'A' && c <= 'F') {
				return nil, r.fail("bad guid %q", s)
			}
		}
		r.p += 38
		n := &hNode{Kind: "guid", Text: s}
		r.refs = append(r.refs, n)
		return n, nil
	case 'D':
		d, err := r.fixedDigits(8)
		if err != nil {
			return nil, err
		}
		if d[4:6] < "01" || d[4:6] > "12" || d[6:8] < "01" || d[6:8] > "31" {
			return nil, r.fail("bad date %q", d)
		}
		text := d
		if r.p < len(r.b) && r.b[r.p] == 'T' {
			r.p++
			t, err := r.timePart()
			if err != nil {
				return nil, err
			}
			text += "T" + t
		}
		z, err := r.zone()
		if err != nil {
			return nil, err
		}
		n := &hNode{Kind: "date", Text: text + z}
		r.refs = append(r.refs, n)
		return n, nil
	case 'T':
		t, err := r.timePart()
		if err != nil {
			return nil, err
		}
		z, err := r.zone()
		if err != nil {
			return nil, err
		}
		n := &hNode{Kind: "time", Text: t + z}
		r.refs = append(r.refs, n)
		return n, nil
	case 'a':
		c, err := r.count('{')
		if err != nil {
			return nil, err
		}
		n := &hNode{Kind: "list"}
		r.refs = append(r.refs, n)
		for i := 0; i < c; i++ {
			if r.p < len(r.b) && r.b[r.p] == '}' {
				return nil, r.fail("list announces %d elements and holds %d", c, i)
			}
			it, err := r.value()
			if err != nil {
				return nil, err
			}
			n.Items = append(n.Items, it)
		}
		if e, err := r.next(); err != nil || e != '}' {
			return nil, r.fail("list of %d elements is not closed after them", c)
		}
		return n, nil
	case 'm':
		c, err := r.count('{')
		if err != nil {
			return nil, err
		}
		n := &hNode{Kind: "map"}
		r.refs = append(r.refs, n)
		for i := 0; i < 2*c; i++ {
			if r.p < len(r.b) && r.b[r.p] == '}' {
				return nil, r.fail("map announces %d pairs and holds %d values", c, i)
			}
			it, err := r.value()
			if err != nil {
				return nil, err
			}
			n.Items = append(n.Items, it)
		}
		if e, err := r.next(); err != nil || e != '}' {
			return nil, r.fail("map of %d pairs is not closed after them", c)
		}
		return n, nil
	case 'c':
		name, err := r.quoted(true)
		if err != nil {
			return nil, err
		}
		c, err := r.count('{')
		if err != nil {
			return nil, err
		}
		cls := hClass{name: name}
		for i := 0; i < c; i++ {
			f, err := r.value()
			if err != nil {
				return nil, err
			}
			if f.Kind == "ref" {
				f = r.refs[f.Ref]
			}
			if f.Kind != "string" && f.Kind != "char" && f.Kind != "empty" {
				return nil, r.fail("field name of class %q is a %s", name, f.Kind)
			}
			cls.fields = append(cls.fields, f.Text)
		}
		if e, err := r.next(); err != nil || e != '}' {
			return nil, r.fail("class %q with %d fields is not closed after them", name, c)
		}
		r.classes = append(r.classes, cls)
		return r.value() // a class definition is followed by a value
	case 'o':
		s, err := r.until('{')
		if err != nil {
			return nil, err
		}
		if !isDigits(s) {
			return nil, r.fail("bad class index %q", s)
		}
		idx := 0
		fmt.Sscanf(s, "%d", &idx)
		if idx >= len(r.classes) {
			return nil, r.fail("object of class #%d, but only %d class definitions precede it", idx, len(r.classes))
		}
		cls := r.classes[idx]
		n := &hNode{Kind: "object", Class: cls.name, Fields: cls.fields}
		r.refs = append(r.refs, n)
		for i := range cls.fields {
			if r.p < len(r.b) && r.b[r.p] == '}' {
				return nil, r.fail("object of class %q has %d fields and holds %d", cls.name, len(cls.fields), i)
			}
			it, err := r.value()
			if err != nil {
				return nil, err
			}
			n.Items = append(n.Items, it)
		}
		if e, err := r.next(); err != nil || e != '}' {
			return nil, r.fail("object of class %q is not closed after its %d fields", cls.name, len(cls.fields))
		}
		return n, nil
	case 'r':
		s, err := r.until(';')
		if err != nil {
			return nil, err
		}
		if !isDigits(s) {
			return nil, r.fail("bad reference %q", s)
		}
		idx := 0
		fmt.Sscanf(s, "%d", &idx)
		if idx >= len(r.refs) {
			return nil, r.fail("reference #%d, but only %d referable items precede it", idx, len(r.refs))
		}
		return &hNode{Kind: "ref", Ref: idx}, nil
	case 'E':
		it, err := r.value()
		if err != nil {
			return nil, err
		}
		k := it.Kind
		if k == "ref" {
			k = r.refs[it.Ref].Kind
		}
		if k != "string" && k != "char" && k != "empty" {
			return nil, r.fail("error tag followed by a %s", k)
		}
		return &hNode{Kind: "error", Items: []*hNode{it}}, nil
	}
	r.p--
	return nil, r.fail("illegal tag %q", tag)
}

// hParseAll reads values until the stream ends.
func hParseAll(b []byte) (vals []*hNode, rd *hReader, err error) {
	rd = &hReader{b: b}
	for rd.p < len(b) {
		v, err := rd.value()
		if err != nil {
			return vals, rd, err
		}
		vals = append(vals, v)
	}
	return vals, rd, nil
}

// hParseOne demands exactly one value and nothing more.
func hParseOne(b []byte) (*hNode, *hReader, error) {
	vals, rd, err := hParseAll(b)
	if err != nil {
		return nil, rd, err
	}
	if len(vals) != 1 {
		return nil, rd, fmt.Errorf("stream %q holds %d values, one expected", b, len(vals))
	}
	return vals[0], rd, nil
}

// resolve follows references.
func (r *hReader) resolve(n *hNode) *hNode {
	for n != nil && n.Kind == "ref" {
		n = r.refs[n.Ref]
	}
	return n
}
