// Demonstrations for property C04 at the transport framing of the HTTP binding: the length a peer
// announces sizes an allocation before a single body byte has arrived.
//
// Copy this file into the package directory rpc/http/ (it is package http_test). The client test
// opens a loopback port, so run it in a private network namespace:
//
//	cp _hunt/demo/hunt_c04_http_test.go rpc/http/hunt_c04_http_test.go && \
//	  unshare -n sh -c 'ip link set lo up; go test -vet=off -count=1 -v -run TestHuntC04 ./rpc/http/' ; rm rpc/http/hunt_c04_http_test.go
package http_test

import (
	"bufio"
	"bytes"
	"fmt"
	"net"
	"net/http"
	"net/http/httptest"
	"runtime"
	"testing"

	"github.com/hprose/hprose-golang/v3/rpc/core"
	rpchttp "github.com/hprose/hprose-golang/v3/rpc/http"
)

// a response of 60 bytes whose Content-Length lies makes the caller of the client panic
func TestHuntC04_HTTPClientContentLength(t *testing.T) {
	ln, err := net.Listen("tcp", "127.0.0.1:0")
	if err != nil {
		t.Skip("no loopback: ", err)
	}
	defer ln.Close()
	go func() {
		for {
			c, err := ln.Accept()
			if err != nil {
				return
			}
			go func() {
				defer c.Close()
				r := bufio.NewReader(c)
				for {
					line, err := r.ReadString('\n')
					if err != nil || line == "\r\n" {
						break
					}
				}
				fmt.Fprintf(c, "HTTP/1.1 200 OK\r\nContent-Length: 4611686018427387904\r\n\r\nRnz")
			}()
		}
	}()
	client := core.NewClient("http://" + ln.Addr().String() + "/")
	defer func() {
		if p := recover(); p != nil {
			fmt.Printf("VIOLATION: a 63-byte HTTP response made Client.Invoke panic in its caller: %v\n", p)
			t.Errorf("Client.Invoke panicked: %v", p)
		}
	}()
	res, err := client.Invoke("hello", []interface{}{"x"})
	t.Logf("result=%v err=%v", res, err)
}

// a request without a body whose Content-Length is the default MaxRequestLength allocates 2 GB
func TestHuntC04_HTTPServerContentLength(t *testing.T) {
	service := core.NewService()
	handler, ok := service.GetHandler("http").(*rpchttp.Handler)
	if !ok {
		t.Fatalf("no http handler: %T", service.GetHandler("http"))
	}
	req := httptest.NewRequest("POST", "/", bytes.NewReader(nil))
	req.ContentLength = int64(service.MaxRequestLength) // what "Content-Length: 2147483647" gives
	rec := httptest.NewRecorder()
	var m0, m1 runtime.MemStats
	runtime.ReadMemStats(&m0)
	handler.ServeHTTP(rec, req)
	runtime.ReadMemStats(&m1)
	alloc := m1.TotalAlloc - m0.TotalAlloc
	t.Logf("status %d, %d MB allocated", rec.Code, alloc>>20)
	if alloc > 1<<30 {
		fmt.Printf("VIOLATION: an HTTP request with no body and Content-Length %d made the handler allocate %d MB (status %d)\n", req.ContentLength, alloc>>20, rec.Code)
		t.Errorf("%d MB allocated for a request without a body", alloc>>20)
	}
	_ = http.StatusOK
}
