// Demonstrations for property C04 ("decoding untrusted bytes never crashes, hangs or over-allocates").
//
// Copy this file into the package directory io/ (it is package io_test and only uses the public API):
//
//	cp _hunt/demo/hunt_c04_io_test.go io/hunt_c04_io_test.go && \
//	  go test -vet=off -count=1 -v -run 'TestHuntC04' ./io/ ; rm io/hunt_c04_io_test.go
//
// Every test FAILS on the unchanged library and prints a line starting with "VIOLATION:".
// Inputs that kill the process (fatal error: stack overflow / fault) are run in a child process:
// the test binary re-executes itself with HUNT_C04_CHILD set (see TestHuntC04_child).
package io_test

import (
	"bytes"
	"fmt"
	"math/big"
	"os"
	"os/exec"
	"runtime"
	"strings"
	"testing"
	"time"
	"unsafe"

	hio "github.com/hprose/hprose-golang/v3/io"
)

// ---------------------------------------------------------------------------------------------
// helpers

func huntChild(t *testing.T, name string) (string, error) {
	t.Helper()
	cmd := exec.Command(os.Args[0], "-test.run", "^TestHuntC04_child$", "-test.v", "-test.timeout", "300s")
	cmd.Env = append(os.Environ(), "HUNT_C04_CHILD="+name)
	out, err := cmd.CombinedOutput()
	return string(out), err
}

func huntHead(s string, n int) string {
	lines := strings.Split(s, "\n")
	if len(lines) > n {
		lines = lines[:n]
	}
	return strings.Join(lines, "\n")
}

type huntCost struct {
	alloc    uint64 // bytes allocated during the call (cumulative)
	sysDelta uint64 // growth of the memory obtained from the OS
	stack    uint64 // stack in use after the call
	dur      time.Duration
}

func huntMeasure(f func()) huntCost {
	var m0, m1 runtime.MemStats
	runtime.GC()
	runtime.ReadMemStats(&m0)
	st := time.Now()
	f()
	d := time.Since(st)
	runtime.ReadMemStats(&m1)
	c := huntCost{alloc: m1.TotalAlloc - m0.TotalAlloc, dur: d, stack: m1.StackSys}
	if m1.Sys > m0.Sys {
		c.sysDelta = m1.Sys - m0.Sys
	}
	return c
}

// ---------------------------------------------------------------------------------------------
// types used by the demonstrations

type HuntShape interface{ Area() float64 }
type HuntSquare struct{ Side float64 }

func (s *HuntSquare) Area() float64 { return s.Side * s.Side }

type HuntHolder struct {
	Name  string
	Shape HuntShape // a non-empty interface
}

type HuntTree map[string]HuntTree // a perfectly ordinary recursive type

type HuntPair struct {
	A interface{}
	B map[string]interface{}
}

type HuntBase struct{ ID int }
type HuntDerived struct {
	HuntBase
	ID int // legal Go: shadows HuntBase.ID
}

func huntClassDefs(n int) []byte {
	// n class definitions with an empty name and no fields, then the value null
	in := bytes.Repeat([]byte(`c""{}`), n)
	return append(in, 'n')
}

func huntMapRefInput(fields int) []byte {
	// an object of an unknown class with `fields` fields decoded into field A (interface{}),
	// then a back-reference to it decoded into field B (map[string]interface{})
	var buf bytes.Buffer
	fmt.Fprintf(&buf, `m2{s1"a"c1"X"%d{`, fields)
	for i := 0; i < fields; i++ {
		fmt.Fprintf(&buf, `s5"%05d"`, i)
	}
	buf.WriteString(`}o0{`)
	for i := 0; i < fields; i++ {
		buf.WriteByte('1')
	}
	// reference table: 0 = the HuntPair, 1 = "a", 2..fields+1 = the field names, fields+2 = the object
	fmt.Fprintf(&buf, `}s1"b"r%d;}`, fields+2)
	return buf.Bytes()
}

// ---------------------------------------------------------------------------------------------
// child process: the inputs that kill the process

func TestHuntC04_child(t *testing.T) {
	switch os.Getenv("HUNT_C04_CHILD") {
	case "":
		t.Skip("helper for the other TestHuntC04 tests")
	case "classdefs-interface":
		var v interface{}
		err := hio.Unmarshal(huntClassDefs(4000000), &v)
		fmt.Println("CHILD-SURVIVED err =", err)
	case "classdefs-string":
		var v string
		err := hio.Unmarshal(huntClassDefs(4000000), &v)
		fmt.Println("CHILD-SURVIVED err =", err)
	case "classdefs-int-reader":
		var v int
		err := hio.UnmarshalFromReader(bytes.NewReader(huntClassDefs(4000000)), &v)
		fmt.Println("CHILD-SURVIVED err =", err)
	case "mapref":
		var d HuntPair
		dec := hio.NewDecoder(huntMapRefInput(5000)).Simple(false)
		dec.Decode(&d)
		fmt.Println("decode error:", dec.Error)
		fmt.Println("len(d.B) =", len(d.B)) // reads the map header at address 5000
		fmt.Println("CHILD-SURVIVED")
	case "iface":
		hio.Register((*HuntSquare)(nil))
		data, _ := hio.Marshal(&HuntHolder{"a", &HuntSquare{2}})
		var h HuntHolder
		err := hio.Unmarshal(data, &h)
		fmt.Println("decode error:", err)
		fmt.Println("area =", h.Shape.Area())
		fmt.Println("CHILD-SURVIVED")
	case "tree":
		var tr HuntTree
		err := hio.Unmarshal([]byte(`m1{s1"a"m0{}}`), &tr)
		fmt.Println("CHILD-SURVIVED err =", err, tr)
	}
}

// ---------------------------------------------------------------------------------------------
// 1. class definitions in front of a value are decoded by unbounded recursion

func TestHuntC04_ClassDefRecursion(t *testing.T) {
	// (a) in process, a size that survives: the stack grows by two orders of magnitude of the input
	in := huntClassDefs(200000) // 1 MB
	var v interface{}
	var err error
	done := make(chan huntCost)
	go func() { // a fresh goroutine: its stack starts small
		done <- huntMeasure(func() { err = hio.Unmarshal(in, &v) })
	}()
	c := <-done
	t.Logf("input %d bytes: err=%v, memory obtained from the OS grew by %d MB (stack %d MB), %v", len(in), err, c.sysDelta>>20, c.stack>>20, c.dur)
	if c.sysDelta > 50*uint64(len(in)) {
		fmt.Printf("VIOLATION: %d bytes of class definitions in front of a null made the decoder obtain %d MB from the OS (%dx the input), err=%v\n",
			len(in), c.sysDelta>>20, c.sysDelta/uint64(len(in)), err)
		t.Errorf("memory is not bounded by a small multiple of the input: %d MB for %d bytes", c.sysDelta>>20, len(in))
	}
	// (b) 20 MB kill the process, whatever the destination type is, from bytes and from a reader
	for _, name := range []string{"classdefs-interface", "classdefs-string", "classdefs-int-reader"} {
		out, cerr := huntChild(t, name)
		if cerr != nil && !strings.Contains(out, "CHILD-SURVIVED") {
			fmt.Printf("VIOLATION: %s: the process died: %v\n%s\n", name, cerr, huntHead(out, 4))
			t.Errorf("%s: decoding 20 MB of input killed the process: %v", name, cerr)
		}
	}
}

// ---------------------------------------------------------------------------------------------
// 2. a string decoded into a complex number is evaluated as a Go constant expression

func TestHuntC04_ComplexStringIsEvaluated(t *testing.T) {
	const expr = "1-1e99999999"
	const n = 20
	var buf bytes.Buffer
	fmt.Fprintf(&buf, "a%d{", n)
	for i := 0; i < n; i++ {
		fmt.Fprintf(&buf, `s%d"%s"`, len(expr), expr)
	}
	buf.WriteString("}")
	in := buf.Bytes()
	var v []complex128
	var err error
	c := huntMeasure(func() { err = hio.Unmarshal(in, &v) })
	t.Logf("input %d bytes: err=%v len=%d, allocated %d MB in %v", len(in), err, len(v), c.alloc>>20, c.dur)
	if c.alloc > 10000*uint64(len(in)) {
		fmt.Printf("VIOLATION: %d bytes decoded into []complex128 allocated %d MB (%dx the input) and took %v, err=%v\n",
			len(in), c.alloc>>20, c.alloc/uint64(len(in)), c.dur, err)
		t.Errorf("%d MB allocated for %d bytes of input", c.alloc>>20, len(in))
	}
	// a single scalar: 28 bytes cost a gigabyte and seconds
	one := []byte(`s24"1e646456992+1e-646456992"`)
	var z complex128
	c = huntMeasure(func() { err = hio.Unmarshal(one, &z) })
	t.Logf("input %q: z=%v err=%v, allocated %d MB in %v", one, z, err, c.alloc>>20, c.dur)
	if c.alloc > 100<<20 {
		fmt.Printf("VIOLATION: the %d bytes %q decoded into a complex128 allocated %d MB and took %v\n", len(one), one, c.alloc>>20, c.dur)
		t.Errorf("%d MB allocated for %d bytes of input", c.alloc>>20, len(one))
	}
}

// ---------------------------------------------------------------------------------------------
// 3. a string with an exponent decoded into a big.Rat is expanded into its digits, also per reference

func TestHuntC04_BigRatExponent(t *testing.T) {
	const n = 30
	var buf bytes.Buffer
	fmt.Fprintf(&buf, `a%d{s8"1e999999"`, n+1)
	for i := 0; i < n; i++ {
		buf.WriteString("r1;")
	}
	buf.WriteString("}")
	in := buf.Bytes()
	var v []*big.Rat
	dec := hio.NewDecoder(in).Simple(false)
	c := huntMeasure(func() { dec.Decode(&v) })
	retained := 0
	for _, r := range v {
		if r != nil {
			retained += len(r.Num().Bits()) * 8
		}
	}
	t.Logf("input %d bytes: err=%v len=%d, %d MB retained, %d MB allocated, %v", len(in), dec.Error, len(v), retained>>20, c.alloc>>20, c.dur)
	if retained > 1000*len(in) {
		fmt.Printf("VIOLATION: %d bytes decoded into []*big.Rat keep %d MB alive (%dx the input), allocated %d MB, took %v, err=%v\n",
			len(in), retained>>20, retained/len(in), c.alloc>>20, c.dur, dec.Error)
		t.Errorf("%d MB retained for %d bytes of input", retained>>20, len(in))
	}
}

// ---------------------------------------------------------------------------------------------
// 4. every back-reference to a string parses the string again: quadratic time

func huntFloatRefs(k int) []byte {
	var buf bytes.Buffer
	digits := k * 10
	fmt.Fprintf(&buf, `a%d{s%d"1.%s"`, k+1, digits+2, strings.Repeat("0", digits))
	for i := 0; i < k; i++ {
		buf.WriteString("r1;")
	}
	buf.WriteString("}")
	return buf.Bytes()
}

func TestHuntC04_StringReferenceReparsed(t *testing.T) {
	var durs []time.Duration
	var sizes []int
	for _, k := range []int{2500, 5000, 10000} {
		in := huntFloatRefs(k)
		var v []float64
		dec := hio.NewDecoder(in).Simple(false)
		st := time.Now()
		dec.Decode(&v)
		d := time.Since(st)
		t.Logf("input %d bytes: len=%d err=%v took %v", len(in), len(v), dec.Error, d)
		durs = append(durs, d)
		sizes = append(sizes, len(in))
	}
	// linear decoding handles well over 10 MB/s; 130 KB must not take seconds
	if durs[2] > time.Second && durs[2] > 3*durs[1] {
		fmt.Printf("VIOLATION: decoding into []float64 took %v for %d bytes, %v for %d bytes, %v for %d bytes: time grows with the square of the input\n",
			durs[0], sizes[0], durs[1], sizes[1], durs[2], sizes[2])
		t.Errorf("quadratic time: %v for %d bytes", durs[2], sizes[2])
	}
}

// ---------------------------------------------------------------------------------------------
// 5. a reference to an object that was read as a map, decoded into a map[string]interface{}

func TestHuntC04_MapReferenceCorruptsDestination(t *testing.T) {
	var d HuntPair
	in := huntMapRefInput(1)
	dec := hio.NewDecoder(in).Simple(false)
	dec.Decode(&d)
	t.Logf("input %q: err=%v A=%v", in, dec.Error, d.A)
	func() {
		defer func() {
			if p := recover(); p != nil {
				fmt.Printf("VIOLATION: %q decoded without error (err=%v), but the map in field B is not a map: len(d.B) panics: %v (the map word is %#x)\n",
					in, dec.Error, p, *(*uintptr)(unsafe.Pointer(&d.B)))
				t.Errorf("decoded value is corrupt: %v", p)
			}
		}()
		if n := len(d.B); n != 1 {
			t.Errorf("len(d.B) = %d", n)
		}
	}()
	// with 5000 fields the bogus map pointer is 5000: beyond the page the runtime treats as nil
	out, cerr := huntChild(t, "mapref")
	if cerr != nil && !strings.Contains(out, "CHILD-SURVIVED") {
		fmt.Printf("VIOLATION: mapref: the process died: %v\n%s\n", cerr, huntHead(out, 6))
		t.Errorf("using the value decoded from %d bytes killed the process: %v", len(huntMapRefInput(5000)), cerr)
	}
}

// ---------------------------------------------------------------------------------------------
// 6. a destination with a non-empty interface gets an empty-interface value written over it

func TestHuntC04_NonEmptyInterfaceDestination(t *testing.T) {
	hio.Register((*HuntSquare)(nil))
	data, err := hio.Marshal(&HuntHolder{"a", &HuntSquare{2}})
	if err != nil {
		t.Fatal(err)
	}
	var h HuntHolder
	err = hio.Unmarshal(data, &h)
	// the first word of a HuntShape value must be an itab; the decoder stored the type descriptor
	var e interface{} = (*HuntSquare)(nil)
	typeWord := (*[2]uintptr)(unsafe.Pointer(&e))[0]
	tabWord := (*[2]uintptr)(unsafe.Pointer(&h.Shape))[0]
	t.Logf("stream %q: err=%v, h.Shape != nil: %v, first word %#x, type descriptor of *HuntSquare %#x", data, err, h.Shape != nil, tabWord, typeWord)
	if err == nil && tabWord == typeWord {
		fmt.Printf("VIOLATION: decoding the encoder's own output %q into a struct with a field of interface type HuntShape reports no error and stores a type descriptor where the itab belongs (%#x)\n", data, tabWord)
		t.Errorf("field of a non-empty interface type holds an empty-interface value")
	}
	out, cerr := huntChild(t, "iface") // calling the method jumps into the type descriptor
	if cerr != nil && !strings.Contains(out, "CHILD-SURVIVED") {
		fmt.Printf("VIOLATION: iface: the process died: %v\n%s\n", cerr, huntHead(out, 6))
		t.Errorf("calling a method of the decoded value killed the process: %v", cerr)
	}
}

// ---------------------------------------------------------------------------------------------
// 7. a recursive named map (or slice) type as destination: the decoder is built by endless recursion

func TestHuntC04_RecursiveNamedMapType(t *testing.T) {
	out, cerr := huntChild(t, "tree")
	if cerr != nil && !strings.Contains(out, "CHILD-SURVIVED") {
		fmt.Printf("VIOLATION: tree: decoding 13 bytes into `type HuntTree map[string]HuntTree` killed the process: %v\n%s\n", cerr, huntHead(out, 4))
		t.Errorf("decoding into a recursive map type killed the process: %v", cerr)
	}
}

// ---------------------------------------------------------------------------------------------
// 8. long integers: time grows with the square of the number of digits

func TestHuntC04_BigIntQuadratic(t *testing.T) {
	var durs []time.Duration
	sizes := []int{250000, 500000, 1000000}
	for _, n := range sizes {
		in := append(append([]byte("l"), bytes.Repeat([]byte("7"), n)...), ';')
		var v *big.Int
		st := time.Now()
		err := hio.Unmarshal(in, &v)
		d := time.Since(st)
		t.Logf("%d digits: err=%v took %v", n, err, d)
		durs = append(durs, d)
	}
	if durs[2] > time.Second && durs[2] > 3*durs[1] {
		fmt.Printf("VIOLATION: a long of %d digits into *big.Int took %v, %d digits %v, %d digits %v: quadratic in the input length\n",
			sizes[0], durs[0], sizes[1], durs[1], sizes[2], durs[2])
		t.Errorf("quadratic time: %v for a 1 MB input", durs[2])
	}
}

// ---------------------------------------------------------------------------------------------
// 9. minor: a struct that shadows a field of an embedded struct can not be a destination at all

func TestHuntC04_ShadowedEmbeddedFieldPanics(t *testing.T) {
	defer func() {
		if p := recover(); p != nil {
			fmt.Printf("VIOLATION: Unmarshal into struct{HuntBase; ID int} panics instead of returning an error: %v\n", p)
			t.Errorf("panic: %v", p)
		}
	}()
	var d HuntDerived
	err := hio.Unmarshal([]byte(`m1{s2"iD"1}`), &d)
	t.Logf("d=%+v err=%v", d, err)
}

// ---------------------------------------------------------------------------------------------
// 10. minor: malformed dates and times are not reported

func TestHuntC04_MalformedDateAccepted(t *testing.T) {
	for _, in := range []string{"DABCDEFGHZ", "T999999Z", "D2020????T??????.???Z"} {
		var tm time.Time
		err := hio.Unmarshal([]byte(in), &tm)
		if err == nil {
			fmt.Printf("VIOLATION: malformed input %q decodes into %v without an error\n", in, tm)
			t.Errorf("%q: no error, value %v", in, tm)
		}
	}
}
