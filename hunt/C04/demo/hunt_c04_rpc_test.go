// Demonstrations for property C04 at the RPC layer (no ports are opened: Service.Handle and
// ClientCodec.Decode are called directly).
//
// Copy this file into the package directory rpc/core/ (it is package core_test):
//
//	cp _hunt/demo/hunt_c04_rpc_test.go rpc/core/hunt_c04_rpc_test.go && \
//	  go test -vet=off -count=1 -v -run 'TestHuntC04' ./rpc/core/ ; rm rpc/core/hunt_c04_rpc_test.go
//
// Requests and responses that kill the process are handled in a child process (the test binary
// re-executes itself with HUNT_C04_CHILD set, see TestHuntC04_rpcchild).
package core_test

import (
	"bytes"
	"context"
	"fmt"
	"os"
	"os/exec"
	"reflect"
	"runtime"
	"strings"
	"testing"
	"time"

	"github.com/hprose/hprose-golang/v3/rpc/core"
)

func huntRPCChild(t *testing.T, name string) (string, error) {
	t.Helper()
	cmd := exec.Command(os.Args[0], "-test.run", "^TestHuntC04_rpcchild$", "-test.v", "-test.timeout", "300s")
	cmd.Env = append(os.Environ(), "HUNT_C04_CHILD="+name)
	out, err := cmd.CombinedOutput()
	return string(out), err
}

func huntRPCHead(s string, n int) string {
	lines := strings.Split(s, "\n")
	if len(lines) > n {
		lines = lines[:n]
	}
	return strings.Join(lines, "\n")
}

func huntService() *core.Service {
	s := core.NewService()
	s.AddFunction(func(name string) string { return "hello " + name }, "hello")
	s.AddFunction(func(a interface{}, b map[string]interface{}) int { return len(b) }, "count")
	s.AddFunction(func(z complex128) complex128 { return z }, "conj")
	s.AddFunction(func(xs []float64) int { return len(xs) }, "sum")
	return s
}

func huntHandle(s *core.Service, request []byte) ([]byte, error) {
	ctx := core.WithContext(context.Background(), core.NewServiceContext(s))
	return s.Handle(ctx, request)
}

// "C", then n class definitions where the method name is expected
func huntClassDefRequest(n int) []byte {
	req := append([]byte("C"), bytes.Repeat([]byte(`c""{}`), n)...)
	return append(req, []byte(`s5"hello"a1{s1"x"}z`)...)
}

func huntClassDefResponse(tag byte, n int) []byte {
	resp := append([]byte{tag}, bytes.Repeat([]byte(`c""{}`), n)...)
	return append(resp, []byte(`s2"ok"z`)...)
}

func huntCountRequest(fields int) []byte {
	var buf bytes.Buffer
	fmt.Fprintf(&buf, `Cs5"count"a2{c1"X"%d{`, fields)
	for i := 0; i < fields; i++ {
		fmt.Fprintf(&buf, `s5"%05d"`, i)
	}
	buf.WriteString(`}o0{`)
	for i := 0; i < fields; i++ {
		buf.WriteByte('1')
	}
	// reference table: 0 = the argument list, 1..fields = the field names, fields+1 = the object
	fmt.Fprintf(&buf, `}r%d;}z`, fields+1)
	return buf.Bytes()
}

func TestHuntC04_rpcchild(t *testing.T) {
	switch os.Getenv("HUNT_C04_CHILD") {
	case "":
		t.Skip("helper for the other TestHuntC04 tests")
	case "service-classdefs":
		// an empty service: the request does not even have to name an existing method
		resp, err := huntHandle(core.NewService(), huntClassDefRequest(4000000))
		fmt.Printf("CHILD-SURVIVED %q %v\n", resp, err)
	case "client-classdefs-result":
		ctx := core.NewClientContext()
		ctx.ReturnType = []reflect.Type{reflect.TypeOf("")}
		res, err := core.NewClientCodec().Decode(huntClassDefResponse('R', 4000000), ctx)
		fmt.Println("CHILD-SURVIVED", res, err)
	case "client-classdefs-error":
		ctx := core.NewClientContext()
		res, err := core.NewClientCodec().Decode(huntClassDefResponse('E', 4000000), ctx)
		fmt.Println("CHILD-SURVIVED", res, err)
	case "service-count":
		resp, err := huntHandle(huntService(), huntCountRequest(5000))
		fmt.Printf("CHILD-SURVIVED %q %v\n", resp, err)
	}
}

// 1. class definitions where a scalar is expected: unbounded recursion, the process dies
func TestHuntC04_ClassDefRecursionKillsServiceAndClient(t *testing.T) {
	// in process, a request that survives: 1 MB of request, hundreds of MB of stack
	req := huntClassDefRequest(200000)
	var m0, m1 runtime.MemStats
	done := make(chan struct{})
	var resp []byte
	go func() {
		defer close(done)
		runtime.ReadMemStats(&m0)
		resp, _ = huntHandle(core.NewService(), req)
		runtime.ReadMemStats(&m1)
	}()
	<-done
	grew := uint64(0)
	if m1.Sys > m0.Sys {
		grew = m1.Sys - m0.Sys
	}
	t.Logf("request of %d bytes: response %q, memory obtained from the OS grew by %d MB", len(req), resp, grew>>20)
	if grew > 50*uint64(len(req)) {
		fmt.Printf("VIOLATION: a request of %d bytes to a service without any method made Service.Handle obtain %d MB from the OS (%dx the request)\n",
			len(req), grew>>20, grew/uint64(len(req)))
		t.Errorf("%d MB for a request of %d bytes", grew>>20, len(req))
	}
	for _, name := range []string{"service-classdefs", "client-classdefs-result", "client-classdefs-error"} {
		out, cerr := huntRPCChild(t, name)
		if cerr != nil && !strings.Contains(out, "CHILD-SURVIVED") {
			fmt.Printf("VIOLATION: %s: 20 MB on the wire killed the process: %v\n%s\n", name, cerr, huntRPCHead(out, 4))
			t.Errorf("%s: the process died: %v", name, cerr)
		}
	}
}

// 2. the reference to an object read as a map reaches the service function as a corrupt map
func TestHuntC04_ServiceArgumentMapCorrupt(t *testing.T) {
	req := huntCountRequest(1)
	resp, err := huntHandle(huntService(), req)
	t.Logf("request %q -> response %q err=%v", req, resp, err)
	if bytes.Contains(resp, []byte("invalid memory address")) {
		fmt.Printf("VIOLATION: request %q is decoded without error, the service function count(a interface{}, b map[string]interface{}) gets a b that is not a map: %q\n", req, resp)
		t.Errorf("the function panicked on its argument: %q", resp)
	}
	out, cerr := huntRPCChild(t, "service-count")
	if cerr != nil && !strings.Contains(out, "CHILD-SURVIVED") {
		fmt.Printf("VIOLATION: service-count: a request of %d bytes killed the server process: %v\n%s\n", len(huntCountRequest(5000)), cerr, huntRPCHead(out, 5))
		t.Errorf("the process died: %v", cerr)
	}
}

// 3. a string argument for a complex128 parameter is evaluated as an expression
func TestHuntC04_ServiceComplexArgument(t *testing.T) {
	req := []byte(`Cs4"conj"a1{s24"1e646456992+1e-646456992"}z`)
	var m0, m1 runtime.MemStats
	runtime.ReadMemStats(&m0)
	st := time.Now()
	resp, err := huntHandle(huntService(), req)
	d := time.Since(st)
	runtime.ReadMemStats(&m1)
	alloc := m1.TotalAlloc - m0.TotalAlloc
	t.Logf("request %q -> %q err=%v: %d MB allocated, %v", req, resp, err, alloc>>20, d)
	if alloc > 100<<20 {
		fmt.Printf("VIOLATION: the request %q (%d bytes) made Service.Handle allocate %d MB and took %v\n", req, len(req), alloc>>20, d)
		t.Errorf("%d MB allocated for a request of %d bytes", alloc>>20, len(req))
	}
}

// 4. references to one long string argument: quadratic time in the service
func TestHuntC04_ServiceStringReferencesQuadratic(t *testing.T) {
	mk := func(k int) []byte {
		var buf bytes.Buffer
		digits := k * 10
		fmt.Fprintf(&buf, `Cs3"sum"a1{a%d{s%d"1.%s"`, k+1, digits+2, strings.Repeat("0", digits))
		for i := 0; i < k; i++ {
			buf.WriteString("r2;") // 0 = the argument list, 1 = the []float64, 2 = the string
		}
		buf.WriteString("}}z")
		return buf.Bytes()
	}
	var durs []time.Duration
	var sizes []int
	for _, k := range []int{2500, 5000, 10000} {
		req := mk(k)
		st := time.Now()
		resp, err := huntHandle(huntService(), req)
		d := time.Since(st)
		t.Logf("request of %d bytes -> %q err=%v took %v", len(req), resp, err, d)
		durs = append(durs, d)
		sizes = append(sizes, len(req))
	}
	if durs[2] > time.Second && durs[2] > 3*durs[1] {
		fmt.Printf("VIOLATION: Service.Handle took %v for %d bytes, %v for %d bytes, %v for %d bytes: quadratic\n",
			durs[0], sizes[0], durs[1], sizes[1], durs[2], sizes[2])
		t.Errorf("quadratic time: %v for a request of %d bytes", durs[2], sizes[2])
	}
}
