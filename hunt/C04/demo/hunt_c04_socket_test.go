// Demonstration for property C04 at the framing of the socket binding: the 12-byte frame header
// sizes the allocation of the body before a single body byte has arrived.
//
// Copy this file into the package directory rpc/socket/ (it is package socket_test; it uses
// net.Pipe, no port is opened):
//
//	cp _hunt/demo/hunt_c04_socket_test.go rpc/socket/hunt_c04_socket_test.go && \
//	  go test -vet=off -count=1 -v -run TestHuntC04 ./rpc/socket/ ; rm rpc/socket/hunt_c04_socket_test.go
package socket_test

import (
	"context"
	"fmt"
	"hash/crc32"
	"net"
	"runtime"
	"testing"
	"time"

	"github.com/hprose/hprose-golang/v3/rpc/core"
	"github.com/hprose/hprose-golang/v3/rpc/socket"
)

func huntFrameHeader(length int, index int) (header [12]byte) {
	header[11] = byte(index & 0xff)
	header[10] = byte(index >> 8 & 0xff)
	header[9] = byte(index >> 16 & 0xff)
	header[8] = byte(index >> 24 & 0xff)
	header[7] = byte(length & 0xff)
	header[6] = byte(length >> 8 & 0xff)
	header[5] = byte(length >> 16 & 0xff)
	header[4] = byte((length >> 24 & 0xff) | 0x80)
	crc := crc32.ChecksumIEEE(header[4:])
	header[3] = byte(crc & 0xff)
	header[2] = byte(crc >> 8 & 0xff)
	header[1] = byte(crc >> 16 & 0xff)
	header[0] = byte(crc >> 24 & 0xff)
	return
}

func TestHuntC04_SocketFrameHeaderAllocates(t *testing.T) {
	service := core.NewService() // default MaxRequestLength: 0x7FFFFFFF
	h := &socket.Handler{Service: service}
	var m0, m1 runtime.MemStats
	runtime.ReadMemStats(&m0)
	const conns = 2
	var clients []net.Conn
	for i := 0; i < conns; i++ {
		c1, c2 := net.Pipe()
		go h.Serve(context.Background(), c2)
		header := huntFrameHeader(service.MaxRequestLength, i)
		if _, err := c1.Write(header[:]); err != nil {
			t.Fatal(err)
		}
		clients = append(clients, c1)
	}
	time.Sleep(500 * time.Millisecond)
	runtime.ReadMemStats(&m1)
	alloc := m1.TotalAlloc - m0.TotalAlloc
	t.Logf("%d connections, 12 bytes each: %d MB allocated, heap in use %d MB", conns, alloc>>20, m1.HeapInuse>>20)
	if alloc > 1<<30 {
		fmt.Printf("VIOLATION: %d connections that sent 12 bytes each made the socket handler allocate %d MB (heap in use %d MB)\n", conns, alloc>>20, m1.HeapInuse>>20)
		t.Errorf("%d MB allocated for %d bytes received", alloc>>20, 12*conns)
	}
	for _, c := range clients {
		c.Close()
	}
}
