// Demonstrations for property C05 (streaming decode equals in-memory decode for every
// fragmentation). Copy this file into the package directory io/ (it is package io_test and uses
// the public API only):
//
//	cp _hunt/demo/hunt_c05_test.go io/hunt_c05_test.go && go test -vet=off -count=1 -run 'TestHuntC05_' ./io/ ; rm io/hunt_c05_test.go
//
// Every test FAILS on the unchanged library and prints lines starting with "VIOLATION:".
package io_test

import (
	"bytes"
	"fmt"
	"io"
	"strings"
	"testing"

	. "github.com/hprose/hprose-golang/v3/io"
)

// huntChunkReader hands the data over in chunks of at most k bytes; with splitAt >= 0 it
// returns data[:splitAt] with the first read and the rest with the following ones.
type huntChunkReader struct {
	data    []byte
	pos     int
	k       int
	splitAt int
	reads   int
}

func (r *huntChunkReader) Read(p []byte) (int, error) {
	if r.pos >= len(r.data) {
		return 0, io.EOF
	}
	n := r.k
	if r.splitAt >= 0 {
		n = len(r.data)
		if r.reads == 0 {
			n = r.splitAt
		}
	}
	r.reads++
	if n > len(p) {
		n = len(p)
	}
	if n > len(r.data)-r.pos {
		n = len(r.data) - r.pos
	}
	copy(p, r.data[r.pos:r.pos+n])
	r.pos += n
	return n, nil // n may be 0 (a read returning zero bytes), the decoder has to cope
}

func huntChunks(data []byte, k int) *huntChunkReader {
	return &huntChunkReader{data: data, k: k, splitAt: -1}
}

func huntSplit(data []byte, at int) *huntChunkReader {
	return &huntChunkReader{data: data, splitAt: at}
}

// position: the number of bytes of data the decoder has consumed (public API only).
func huntPos(dec *Decoder, data []byte) int {
	return len(data) - len(dec.Remains())
}

// ---------------------------------------------------------------------------------------------
// Finding 1: a VALID stream. A list that is referred to (r0) while it is still being read, by a
// destination that is a slice by value. In memory the snapshot taken for the reference shares
// the final backing array and has the final length. From a Reader the list is preallocated
// from what happens to be buffered (buffered+1024 elements), grown later, and the snapshot
// stays behind: shorter, and a different array.
// ---------------------------------------------------------------------------------------------

// what the sender has: every node knows the list of all its peers
type HuntC05NodeP struct {
	ID    int
	Peers *[]*HuntC05NodeP
}

// what the receiver decodes into: the same, the list held by value
type HuntC05NodeV struct {
	ID    int
	Peers []*HuntC05NodeV
}

func TestHuntC05_ReferenceToGrowingList(t *testing.T) {
	RegisterName("HuntC05Node", (*HuntC05NodeP)(nil))
	const n = 3000
	all := make([]*HuntC05NodeP, n)
	for i := range all {
		all[i] = &HuntC05NodeP{ID: i, Peers: &all}
	}
	enc := new(Encoder).Simple(false)
	if err := enc.Encode(&all); err != nil {
		t.Fatal(err)
	}
	data := append([]byte(nil), enc.Bytes()...)
	t.Logf("stream: %d bytes, starts with %q", len(data), data[:70])

	type result struct {
		err             error
		n, peers0, live int
		shared          bool
		pos             int
	}
	run := func(dec *Decoder) (r result) {
		dec.Simple(false)
		var v []*HuntC05NodeV
		dec.Decode(&v)
		r.err = dec.Error
		r.n = len(v)
		if len(v) > 0 && v[0] != nil {
			r.peers0 = len(v[0].Peers)
			for _, p := range v[0].Peers {
				if p != nil {
					r.live++
				}
			}
			r.shared = len(v[0].Peers) > 0 && &v[0].Peers[0] == &v[0]
		}
		r.pos = huntPos(dec, data)
		return
	}
	want := run(NewDecoder(append([]byte(nil), data...)))
	t.Logf("in memory        : %+v", want)
	for _, c := range []struct {
		name string
		dec  *Decoder
	}{
		{"reader, whole input per read, default buffer", NewDecoderFromReader(huntChunks(data, 1<<20))},
		{"reader, 7 bytes per read", NewDecoderFromReader(huntChunks(data, 7))},
		{"reader, 1 byte per read", NewDecoderFromReader(huntChunks(data, 1))},
		{"reader, whole input per read, 4096 buffer", NewDecoderFromReader(huntChunks(data, 1<<20), 4096)},
		{"reader, whole input per read, 1M buffer", NewDecoderFromReader(huntChunks(data, 1<<20), 1<<20)},
	} {
		got := run(c.dec)
		if got != want {
			t.Errorf("VIOLATION: %s: v[0].Peers has %d entries (%d non-nil, shares array with v: %v), in memory %d (%d non-nil, shares: %v)",
				c.name, got.peers0, got.live, got.shared, want.peers0, want.live, want.shared)
		} else {
			t.Logf("%s: same as in memory", c.name)
		}
	}
}

// ---------------------------------------------------------------------------------------------
// Finding 2: UnmarshalFromReader leaves the reader at a position that depends on how the reader
// fragments the data: whatever the last Read handed over beyond the value is thrown away with
// the pooled decoder. Two values written one after the other: read byte by byte both arrive;
// when the reader hands over both in one Read, the second one is lost.
// ---------------------------------------------------------------------------------------------

func TestHuntC05_UnmarshalFromReaderPosition(t *testing.T) {
	a, _ := Marshal("first")
	b, _ := Marshal("second")
	data := append(append([]byte(nil), a...), b...)

	// the contiguous slice: the first value ends at len(a)
	dec := NewDecoder(data)
	var s string
	dec.Decode(&s)
	if dec.Error != nil || s != "first" {
		t.Fatalf("in memory: %q %v", s, dec.Error)
	}
	wantPos := huntPos(dec, data)
	t.Logf("in memory: first value %q ends at %d", s, wantPos)

	for _, k := range []int{1, 2, 5, len(a), len(a) + 1, len(data), 1 << 20} {
		r := huntChunks(data, k)
		var v1, v2 string
		e1 := UnmarshalFromReader(r, &v1)
		pos := r.pos
		e2 := UnmarshalFromReader(r, &v2)
		if pos != wantPos || e2 != nil || v2 != "second" {
			t.Errorf("VIOLATION: %d bytes per read: after the first value (%q, %v) the stream is at %d, in memory at %d; the second value decodes as (%q, %v)",
				k, v1, e1, pos, wantPos, v2, e2)
		} else {
			t.Logf("%d bytes per read: first (%q, %v) ends at %d, second (%q, %v)", k, v1, e1, pos, v2, e2)
		}
	}
}

// ---------------------------------------------------------------------------------------------
// Finding 3: a TRUNCATION of a valid stream ("a3000{" and 3000 times "1" and "}", cut after 1500
// elements). The error is the same (EOF), the value is not: the slice that is left behind has
// as many elements as were preallocated from what was buffered.
// ---------------------------------------------------------------------------------------------

func TestHuntC05_TruncatedListLength(t *testing.T) {
	full := "a3000{" + strings.Repeat("1", 3000) + "}"
	data := []byte(full[:6+1500])
	run := func(dec *Decoder) string {
		var v []int
		dec.Decode(&v)
		ones := 0
		for _, x := range v {
			ones += x
		}
		err := dec.Error // before huntPos: Remains ends with EOF
		return fmt.Sprintf("len=%d ones=%d err=%v pos=%d", len(v), ones, err, huntPos(dec, data))
	}
	want := run(NewDecoder(append([]byte(nil), data...)))
	t.Logf("in memory: %s", want)
	for _, k := range []int{1, 100, 256, 1 << 20} {
		for _, bs := range []int{256, 4096} {
			got := run(NewDecoderFromReader(huntChunks(data, k), bs))
			if got != want {
				t.Errorf("VIOLATION: %d bytes per read, buffer %d: %s; in memory: %s", k, bs, got, want)
			}
		}
	}
}

// ---------------------------------------------------------------------------------------------
// Finding 4 (the stream is NOT valid by the specification, but the in-memory decoder and almost
// every fragmentation accept it): a string whose length counts a 4-byte character as one unit.
// Whether it decodes or fails with "invalid UTF-8" depends on where the reader splits: if
// exactly 3 bytes of the character are buffered the fast path is taken and finds the character
// cut off.
// ---------------------------------------------------------------------------------------------

func TestHuntC05_OddLengthFourByteCharacter(t *testing.T) {
	data := []byte("s1\"\U0001F606\"i7;")
	run := func(dec *Decoder) string {
		var s string
		var i int
		dec.Decode(&s)
		dec.Decode(&i)
		err := dec.Error // before huntPos: Remains ends with EOF
		return fmt.Sprintf("s=%q i=%d err=%v pos=%d", s, i, err, huntPos(dec, data))
	}
	want := run(NewDecoder(append([]byte(nil), data...)))
	t.Logf("in memory: %s", want)
	for at := 0; at <= len(data); at++ {
		got := run(NewDecoderFromReader(huntSplit(data, at)))
		if got != want {
			t.Errorf("VIOLATION: split after byte %d: %s; in memory: %s", at, got, want)
		}
	}
	for _, k := range []int{1, 2, 3, 4, 5, 6, 7} {
		got := run(NewDecoderFromReader(huntChunks(data, k)))
		if got != want {
			t.Errorf("VIOLATION: %d bytes per read: %s; in memory: %s", k, got, want)
		}
	}
}

// ---------------------------------------------------------------------------------------------
// Finding 5 (invalid stream): a byte that can not start a character inside a string. The error
// is the same, the value left behind, the text of a follow-up error and the stream position
// are not: in memory nothing of the string is consumed, from a reader everything up to the
// last refill is.
// ---------------------------------------------------------------------------------------------

func TestHuntC05_InvalidLeadByte(t *testing.T) {
	data := []byte("s6\"abc\x80de\"i7;")
	run := func(dec *Decoder) string {
		var s string
		dec.Decode(&s)
		err := dec.Error // before huntPos: Remains ends with EOF
		return fmt.Sprintf("s=%q err=%v pos=%d", s, err, huntPos(dec, data))
	}
	want := run(NewDecoder(append([]byte(nil), data...)))
	t.Logf("in memory: %s", want)
	seen := map[string]bool{}
	for at := 0; at <= len(data); at++ {
		got := run(NewDecoderFromReader(huntSplit(data, at)))
		if got != want && !seen[got] {
			seen[got] = true
			t.Errorf("VIOLATION: split after byte %d: %s; in memory: %s", at, got, want)
		}
	}
	// the same with a destination that overwrites the error: now the error differs, too
	data = []byte("s6\"123\x80de\"i7;")
	runInt := func(dec *Decoder) string {
		var i int
		dec.Decode(&i)
		err := dec.Error // before huntPos: Remains ends with EOF
		return fmt.Sprintf("i=%d err=%v pos=%d", i, err, huntPos(dec, data))
	}
	want = runInt(NewDecoder(append([]byte(nil), data...)))
	t.Logf("in memory: %s", want)
	for _, k := range []int{1, 4, 5} {
		got := runInt(NewDecoderFromReader(huntChunks(data, k)))
		if got != want {
			t.Errorf("VIOLATION: into int, %d bytes per read: %s; in memory: %s", k, got, want)
		}
	}
}

var _ = bytes.NewReader
