// Demonstrations for property C06 ("Decoder accepts every well-formed stream and converts
// losslessly across types").
//
// Copy this file into the package directory io/ (it is package io_test and uses only the
// public API), then from the worktree root:
//
//	cp _hunt/demo/hunt_c06_test.go io/hunt_c06_test.go && go test -vet=off -count=1 -run 'TestHuntC06_' ./io/ ; rm io/hunt_c06_test.go
//
// Every TestHuntC06_<short> FAILS on the unchanged library and prints lines that start with
// "VIOLATION:". The two cases that corrupt memory and kill the process run in a child process
// (the test binary re-executed with HUNT_C06_CHILD set), so the other tests still run.
package io_test

import (
	"fmt"
	"math/big"
	"os"
	"os/exec"
	"reflect"
	"strings"
	"testing"

	hio "github.com/hprose/hprose-golang/v3/io"
)

// ---------------------------------------------------------------------------------------------
// helpers

func huntC06Decode(stream string, simple bool, p interface{}) error {
	dec := hio.NewDecoder([]byte(stream))
	dec.Simple(simple)
	dec.Decode(p)
	return dec.Error
}

func huntC06Child(t *testing.T, name string) {
	cmd := exec.Command(os.Args[0], "-test.run=^TestHuntC06_Child$", "-test.v")
	cmd.Env = append(os.Environ(), "HUNT_C06_CHILD="+name)
	out, err := cmd.CombinedOutput()
	text := string(out)
	lines := strings.Split(text, "\n")
	if len(lines) > 14 {
		lines = lines[:14]
	}
	head := strings.Join(lines, "\n")
	if err != nil {
		t.Errorf("VIOLATION: child process %q died (%v); first lines of its output:\n%s", name, err, head)
		return
	}
	if strings.Contains(text, "VIOLATION:") {
		t.Errorf("child process %q reported:\n%s", name, head)
	}
}

type huntC06ErrHolder struct {
	A int
	E error // a non-empty interface type: no hprose token can be stored in it
	B int
}

type huntC06Known struct {
	Name string
	Meta map[string]interface{}
}

// TestHuntC06_Child is the body of the child processes; it is skipped in a normal run.
func TestHuntC06_Child(t *testing.T) {
	switch os.Getenv("HUNT_C06_CHILD") {
	case "":
		t.Skip("only runs as a child of the other TestHuntC06_ tests")
	case "nonEmptyInterface":
		var v huntC06ErrHolder
		err := huntC06Decode(`m3{s1"a"1s1"e"s3"abc"s1"b"2}`, true, &v)
		fmt.Printf("decode returned err=%v, v.A=%d v.B=%d, v.E!=nil: %v\n", err, v.A, v.B, v.E != nil)
		if err == nil && v.E != nil {
			fmt.Println("calling v.E.Error() on what the decoder stored ...")
			fmt.Println(v.E.Error()) // the interface word holds a *rtype where an *itab is expected
		}
	case "nonEmptyInterfaceTop":
		var s fmt.Stringer
		err := huntC06Decode(`i5;`, true, &s)
		fmt.Printf("decode returned err=%v, s!=nil: %v\n", err, s != nil)
		if err == nil && s != nil {
			fmt.Println(s.String())
		}
	case "mapRefByValue":
		// An object of a class nobody registered arrives in a field the receiving struct does
		// not have ("extra" field: skipped by decoding it into interface{}, i.e. into a
		// map[string]interface{}). A field the struct does have then refers to the same object.
		//   class 0: huntC06Known{extra, meta}    refs: 0="extra" 1="meta" 2=the object
		//   class 1: Unregistered{k}              refs: 3="k" 4=the inner object
		stream := `c12"huntC06Known"2{s5"extra"s4"meta"}o0{c12"Unregistered"1{s1"k"}o1{7}r4;}`
		var v huntC06Known
		err := huntC06Decode(stream, false, &v)
		ptr := reflect.ValueOf(v.Meta).Pointer()
		fmt.Printf("decode returned err=%v; header pointer of v.Meta = %#x\n", err, ptr)
		if err == nil && ptr != 0 && ptr < 4096 {
			fmt.Printf("VIOLATION: v.Meta is a map whose header pointer is %#x (the entry count of the referred map, not an address)\n", ptr)
		}
		fmt.Println("len(v.Meta) ...")
		fmt.Println(len(v.Meta), v.Meta["k"]) // dereferences the bogus pointer
	case "convertSameMap":
		m := map[string]int{"a": 1, "b": 2}
		r, err := hio.Convert(m, reflect.TypeOf(m))
		ptr := reflect.ValueOf(r).Pointer()
		fmt.Printf("Convert returned err=%v; header pointer of the result = %#x\n", err, ptr)
		if err == nil && ptr != reflect.ValueOf(m).Pointer() {
			fmt.Printf("VIOLATION: io.Convert(map, same map type) returned a map whose header pointer is %#x\n", ptr)
		}
		fmt.Println(len(r.(map[string]int)))
	}
}

// ---------------------------------------------------------------------------------------------
// 1. crash: a destination of a non-empty interface type is written as if it were interface{}

func TestHuntC06_NonEmptyInterface(t *testing.T) {
	huntC06Child(t, "nonEmptyInterface")
	huntC06Child(t, "nonEmptyInterfaceTop")
}

// 2. crash: a reference to a map that the reference table holds by value

func TestHuntC06_MapRefByValue(t *testing.T) {
	huntC06Child(t, "mapRefByValue")
	huntC06Child(t, "convertSameMap")
}

// ---------------------------------------------------------------------------------------------
// 3. wrong result: a reference to a list or map decodes into interface{} as a POINTER to it

func TestHuntC06_RefToContainerIsPointer(t *testing.T) {
	cases := []struct{ stream, want string }{
		{`a2{a1{1}r1;}`, "[]interface {}{[]interface {}{1}, []interface {}{1}}"},
		{`a2{m1{s1"k"1}r1;}`, `[]interface {}{map[interface {}]interface {}{"k":1}, map[interface {}]interface {}{"k":1}}`},
	}
	for _, c := range cases {
		var v interface{}
		err := huntC06Decode(c.stream, false, &v)
		got := fmt.Sprintf("%#v", v)
		if err != nil || got != c.want {
			second := reflect.TypeOf(v.([]interface{})[1])
			t.Errorf("VIOLATION: %s into interface{}: second element has type %v (first: %T); got %s err=%v, want %s",
				c.stream, second, v.([]interface{})[0], got, err, c.want)
		}
	}
	// same in a map entry and in a struct field of type interface{}
	var m map[string]interface{}
	if err := huntC06Decode(`m2{s1"a"a1{1}s1"b"r2;}`, false, &m); err != nil || reflect.TypeOf(m["a"]) != reflect.TypeOf(m["b"]) {
		t.Errorf("VIOLATION: map entries a and b denote the same list but have types %T and %T (err=%v)", m["a"], m["b"], err)
	}
}

// ---------------------------------------------------------------------------------------------
// 4. wrong result: numbers that the destination can not hold are wrapped or truncated silently

func TestHuntC06_SilentNarrowing(t *testing.T) {
	type row struct {
		stream string
		dest   interface{}
		exact  string // the value the token denotes
	}
	var (
		i8  int8
		u8  uint8
		u   uint
		i32 int32
		i64 int64
		u64 uint64
		i   int
		bi  *big.Int
		ifc interface{}
	)
	rows := []row{
		{"i300;", &i8, "300"},
		{"i-1;", &u8, "-1"},
		{"i-1;", &u, "-1"},
		{"l2147483648;", &i32, "2147483648"},
		{"l9223372036854775808;", &i64, "9223372036854775808"},
		{"l18446744073709551616;", &u64, "18446744073709551616"},
		{"d1.5;", &i, "1.5"},
		{"d1e30;", &i, "1e30"},
		{"d1000;", &i8, "1000"},
		{"d1.5;", &bi, "1.5"},
		// what this library's own encoder writes for uint64(1<<63) and for math.MaxUint64:
		{"l9223372036854775808;", &ifc, "9223372036854775808"},
		{"l18446744073709551615;", &ifc, "18446744073709551615"},
	}
	for _, r := range rows {
		err := huntC06Decode(r.stream, true, r.dest)
		got := fmt.Sprint(reflect.ValueOf(r.dest).Elem().Interface())
		if err == nil && got != r.exact {
			t.Errorf("VIOLATION: %-24s into %-13T: no error, value %s (the token denotes %s)", r.stream, r.dest, got, r.exact)
		}
	}
	// the same cell in the other container positions
	var s struct{ F int8 }
	var l []int8
	var m map[string]int8
	var a [1]int8
	e1 := huntC06Decode(`m1{s1"f"i300;}`, true, &s)
	e2 := huntC06Decode(`a1{i300;}`, true, &l)
	e3 := huntC06Decode(`m1{s1"k"i300;}`, true, &m)
	e4 := huntC06Decode(`a1{i300;}`, true, &a)
	if e1 == nil && e2 == nil && e3 == nil && e4 == nil {
		t.Errorf("VIOLATION: i300; into int8 as struct field / slice element / map value / array element: %d %d %d %d, no error", s.F, l[0], m["k"], a[0])
	}
	// for comparison: the same number as a digit string IS range-checked
	if err := huntC06Decode(`s3"300"`, true, &i8); err == nil {
		t.Errorf(`s3"300" into int8 gave no error either`)
	} else {
		t.Logf(`for comparison, s3"300" into int8 is refused: %v`, err)
	}
}

// ---------------------------------------------------------------------------------------------
// 5. wrong result: a double token that denotes zero decodes into bool as true

func TestHuntC06_BoolFromZeroDouble(t *testing.T) {
	for _, stream := range []string{"d0.0;", "d-0;", "d0e0;", "d0.00;", "i00;", "l-0;"} {
		var b = false
		err := huntC06Decode(stream, true, &b)
		var f float64
		huntC06Decode(stream, true, &f)
		if err == nil && b && f == 0 {
			t.Errorf("VIOLATION: %-7s into bool = %v, although the same token into float64 = %v (d0; and i0; give false)", stream, b, f)
		}
	}
}

// ---------------------------------------------------------------------------------------------
// 6. wrong result: a long token loses its low digits in a big.Float destination

func TestHuntC06_LongIntoBigFloat(t *testing.T) {
	const digits = "123456789012345678901234567890"
	want, _ := new(big.Int).SetString(digits, 10)
	check := func(where string, bf *big.Float, err error) {
		if err != nil || bf == nil {
			t.Errorf("%s: err=%v", where, err)
			return
		}
		got, acc := bf.Int(nil)
		if got.Cmp(want) != 0 {
			t.Errorf("VIOLATION: l%s; into %s = %s (accuracy %v, precision %d bits): off by %s", digits, where, got, acc, bf.Prec(), new(big.Int).Sub(got, want))
		}
	}
	var p *big.Float
	err := huntC06Decode("l"+digits+";", true, &p)
	check("*big.Float", p, err)
	var v big.Float
	err = huntC06Decode("l"+digits+";", true, &v)
	check("big.Float", &v, err)
	var s struct{ F *big.Float }
	err = huntC06Decode(`m1{s1"f"s30"`+digits+`"}`, true, &s)
	check("*big.Float field from a digit string", s.F, err)
	dec := hio.NewDecoder([]byte("d1234567890.12345678901234567890;"))
	dec.RealType = hio.RealTypeBigFloat
	var i interface{}
	dec.Decode(&i)
	t.Logf("RealTypeBigFloat: d1234567890.12345678901234567890; -> %s", i.(*big.Float).Text('f', 20))
	// the same long into *big.Int is exact
	var bi *big.Int
	if err := huntC06Decode("l"+digits+";", true, &bi); err != nil || bi.Cmp(want) != 0 {
		t.Errorf("*big.Int: %v %v", bi, err)
	}
}

// ---------------------------------------------------------------------------------------------
// 7. wrong result: a list or byte string longer than the array destination is cut off silently

func TestHuntC06_ArrayTruncation(t *testing.T) {
	var a [2]int
	if err := huntC06Decode("a3{123}", true, &a); err == nil {
		t.Errorf("VIOLATION: a3{123} into [2]int = %v, no error (the third element is dropped)", a)
	}
	var c complex128
	if err := huntC06Decode("a3{123}", true, &c); err == nil {
		t.Errorf("VIOLATION: a3{123} into complex128 = %v, no error", c)
	}
	var b [3]byte
	if err := huntC06Decode(`b5"hello"`, true, &b); err == nil {
		t.Errorf("VIOLATION: b5\"hello\" into [3]byte = %q, no error", b[:])
	}
	var m map[int8]int
	stream := "a300{" + strings.Repeat("1", 300) + "}"
	if err := huntC06Decode(stream, true, &m); err == nil && len(m) != 300 {
		t.Errorf("VIOLATION: a list of 300 elements into map[int8]int has %d entries, no error (the index wrapped)", len(m))
	}
}

// ---------------------------------------------------------------------------------------------
// 8. corrupted memory: a string and a []byte decoded from the same item share their storage

func TestHuntC06_StringBytesAlias(t *testing.T) {
	{
		dec := hio.NewDecoder([]byte(`s3"abc"r0;`))
		dec.Simple(false)
		var b []byte
		var s string
		dec.Decode(&b)
		dec.Decode(&s)
		set := map[string]bool{s: true}
		b[0] = 'X'
		if s != "abc" {
			t.Errorf("VIOLATION: string decoded from r0; changed from \"abc\" to %q when the []byte decoded from the string itself was written to; map lookup of it now: %v", s, set[s])
		}
	}
	{
		dec := hio.NewDecoder([]byte(`b3"abc"r0;`))
		dec.Simple(false)
		var b []byte
		var s string
		dec.Decode(&s)
		dec.Decode(&b)
		b[0] = 'X'
		if s != "abc" {
			t.Errorf("VIOLATION: string decoded from b3\"abc\" changed to %q when the []byte decoded from r0; was written to", s)
		}
	}
}

// ---------------------------------------------------------------------------------------------
// 9. error instead of the value: a reference is converted from the Go value of the first
// occurrence instead of being decoded like the item itself

func TestHuntC06_RefCastErrors(t *testing.T) {
	// the list is seen first where the destination is interface{}, then referred to from a typed field
	type T struct {
		Any  interface{}
		Ints []int
	}
	var v T
	direct := huntC06Decode(`m2{s3"any"a2{12}s4"ints"a2{12}}`, false, &v)
	// reference indices: 0 = the outer map, 1 = "any", 2 = the list, 3 = "ints"
	byRef := huntC06Decode(`m2{s3"any"a2{12}s4"ints"r2;}`, false, &v)
	if direct == nil && byRef != nil {
		t.Errorf("VIOLATION: {any:[1,2], ints:[1,2]} decodes, but {any:L=[1,2], ints:ref L} fails: %v", byRef)
	}
	type U struct {
		Any interface{}
		M   map[string]int
		S   struct{ A int }
	}
	var u U
	// reference indices: 0 = the outer map, 1 = "any", 2 = the inner map, 3 = "a", 4 = "m"
	byRef = huntC06Decode(`m3{s3"any"m1{s1"a"1}s1"m"r2;s1"s"r2;}`, false, &u)
	if byRef != nil {
		t.Errorf("VIOLATION: a map seen first as interface{} can not be referred to from a map[string]int / struct field: %v", byRef)
	}
	// references to strings
	type W struct {
		S string
		A [3]byte
	}
	var w W
	direct = huntC06Decode(`m2{s1"s"s3"abc"s1"a"s3"abc"}`, false, &w)
	byRef = huntC06Decode(`m2{s1"s"s3"abc"s1"a"r2;}`, false, &w)
	if direct == nil && byRef != nil {
		t.Errorf("VIOLATION: s3\"abc\" decodes into [3]byte, a reference to the same string does not: %v", byRef)
	}
}

// ---------------------------------------------------------------------------------------------
// 10. wrong result (decoder setting ListTypeSlice): null elements become zero values

func TestHuntC06_ListTypeSliceNull(t *testing.T) {
	dec := hio.NewDecoder([]byte(`a3{1n3}`))
	dec.ListType = hio.ListTypeSlice
	var v interface{}
	dec.Decode(&v)
	if l, ok := v.([]int); ok && dec.Error == nil {
		t.Errorf("VIOLATION: [1,null,3] with ListTypeSlice = %#v: the null has become 0", l)
	}
	dec = hio.NewDecoder([]byte(`a2{a1{1}r1;}`))
	dec.Simple(false)
	dec.ListType = hio.ListTypeSlice
	dec.Decode(&v)
	if l := v.([]interface{}); reflect.TypeOf(l[0]) != reflect.TypeOf(l[1]) {
		t.Errorf("VIOLATION: [L=[1], ref L] with ListTypeSlice = %#v: %T and %T", l, l[0], l[1])
	}
}

// ---------------------------------------------------------------------------------------------
// 11. type shape: a struct that shadows a field of an embedded struct (legal Go). The first
// decode panics; every later decode into the type "succeeds" and leaves all fields zero.

type HuntC06Base struct {
	ID   int
	Name string
}
type HuntC06Shadow struct {
	HuntC06Base
	ID string // shadows HuntC06Base.ID
}

func TestHuntC06_ShadowedField(t *testing.T) {
	try := func() (v HuntC06Shadow, err error, panicked interface{}) {
		defer func() { panicked = recover() }()
		err = huntC06Decode(`m2{s2"iD"s1"7"s4"name"s1"n"}`, true, &v)
		return
	}
	v, err, p := try()
	if p != nil {
		t.Errorf("VIOLATION: first decode into HuntC06Shadow panics instead of returning an error: %v", p)
	}
	_, _ = v, err
	// the half-built decoder of the type has stayed registered: as an element or behind a pointer
	// the type now decodes "successfully" into nothing
	var l []HuntC06Shadow
	err = huntC06Decode(`a1{m2{s2"iD"s1"7"s4"name"s1"n"}}`, true, &l)
	if err == nil && len(l) == 1 && l[0].Name != "n" {
		t.Errorf("VIOLATION: then [{iD:\"7\", name:\"n\"}] into []HuntC06Shadow: no panic, no error, and nothing decoded: %+v", l)
	}
	var pv *HuntC06Shadow
	err = huntC06Decode(`m2{s2"iD"s1"7"s4"name"s1"n"}`, true, &pv)
	if err == nil && pv != nil && pv.Name != "n" {
		t.Errorf("VIOLATION: then {iD:\"7\", name:\"n\"} into *HuntC06Shadow: no panic, no error, and nothing decoded: %+v", *pv)
	}
}

// ---------------------------------------------------------------------------------------------
// 12. minor: two spellings of the same value give different outcomes

func TestHuntC06_Spellings(t *testing.T) {
	// the empty string: e and s0""
	dests := []func() interface{}{
		func() interface{} { return new(int) },
		func() interface{} { return new(float64) },
		func() interface{} { return new(bool) },
		func() interface{} { return new([]int) },
		func() interface{} { return new(map[string]int) },
		func() interface{} { return new(struct{ A int }) },
	}
	for _, mk := range dests {
		p1, p2 := mk(), mk()
		e1 := huntC06Decode(`e`, true, p1)
		e2 := huntC06Decode(`s0""`, true, p2)
		if (e1 == nil) != (e2 == nil) {
			t.Errorf("VIOLATION: empty string into %T: spelled e -> err=%v, spelled s0\"\" -> err=%v", p1, e1, e2)
		}
	}
	var b1, b2, b3 []byte
	huntC06Decode(`e`, true, &b1)
	huntC06Decode(`s0""`, true, &b2)
	huntC06Decode(`b0""`, true, &b3)
	if (b1 == nil) != (b2 == nil) {
		t.Errorf("VIOLATION: empty string into []byte: e -> nil? %v, s0\"\" -> nil? %v, b0\"\" -> nil? %v", b1 == nil, b2 == nil, b3 == nil)
	}
	// the empty list: a{} decodes to a nil slice (which this library's encoder writes as null), e to an empty one
	var l1, l2 []int
	var i1 interface{}
	huntC06Decode(`a{}`, true, &l1)
	huntC06Decode(`e`, true, &l2)
	huntC06Decode(`a{}`, true, &i1)
	if l1 == nil || i1.([]interface{}) == nil {
		back, _ := hio.Marshal(l1)
		t.Errorf("VIOLATION: a{} into []int is nil: %v (e gives nil: %v); into interface{} nil: %v; re-encoded as %q", l1 == nil, l2 == nil, i1.([]interface{}) == nil, back)
	}
	// a list of digit strings into []byte takes its reference index after its elements
	var ll [][]byte
	err := huntC06Decode(`a2{a1{s1"5"}r1;}`, false, &ll)
	if err != nil || len(ll) != 2 || !reflect.DeepEqual(ll[0], ll[1]) {
		t.Errorf("VIOLATION: [L=[\"5\"], ref L] into [][]byte = %v err=%v (r1; resolved to the string \"5\", not to the list)", ll, err)
	}
}

// ---------------------------------------------------------------------------------------------
// 13. minor: helpers a custom ValueDecoder depends on; an unsupported destination panics

func TestHuntC06_MinorAPI(t *testing.T) {
	dec := hio.NewDecoder([]byte(`s3"abc"s3"def"`))
	dec.Simple(false)
	var s string
	dec.Decode(&s)
	dec.Decode(&s)
	if i := dec.LastReferenceIndex(); i != 1 {
		t.Errorf("VIOLATION: two strings are in the reference table, LastReferenceIndex() = %d (it discards refer.Last() and always returns -1)", i)
	}
	func() {
		defer func() {
			if e := recover(); e != nil {
				t.Errorf("VIOLATION: Decode into a *chan int panics instead of setting dec.Error: %v", e)
			}
		}()
		var c chan int
		huntC06Decode("n", true, &c)
	}()
}
