// Demonstrations for property C07 (RPC codec round trip), hprose codec.
//
// Copy this file into the package directory rpc/core/ (package core_test) and run, from the
// worktree root:
//
//	cp _hunt/demo/hunt_c07_core_test.go rpc/core/hunt_c07_core_test.go && \
//	  go test -vet=off -count=1 -run 'TestHuntC07_' ./rpc/core/ ; rm rpc/core/hunt_c07_core_test.go
//
// Every test fails (lines starting with "VIOLATION:") on the unchanged library.
package core_test

import (
	"context"
	"errors"
	"fmt"
	"math"
	"math/big"
	"os"
	"os/exec"
	"reflect"
	"runtime/debug"
	"strings"
	"testing"
	"time"

	"github.com/hprose/hprose-golang/v3/io"
	"github.com/hprose/hprose-golang/v3/rpc/core"
)

type huntC07S struct {
	A int
	B string
}

func init() {
	io.RegisterName("huntC07S", (*huntC07S)(nil))
}

// huntC07Req encodes a call with the client codec and decodes it with the service codec.
func huntC07Req(copts, sopts []core.CodecOption, fn interface{}, args []interface{}, headers map[string]interface{}) (wire string, gotArgs []interface{}, sctx *core.ServiceContext, err error) {
	defer func() {
		if p := recover(); p != nil {
			err = fmt.Errorf("PANIC: %v", p)
		}
	}()
	svc := core.NewService()
	svc.AddFunction(fn, "f")
	cctx := core.NewClientContext()
	for k, v := range headers {
		cctx.RequestHeaders().Set(k, v)
	}
	req, e := core.NewClientCodec(copts...).Encode("f", args, cctx)
	wire = string(req)
	if e != nil {
		return wire, nil, nil, fmt.Errorf("encode: %v", e)
	}
	sctx = core.NewServiceContext(svc)
	_, gotArgs, err = core.NewServiceCodec(sopts...).Decode(req, sctx)
	return
}

// huntC07Resp encodes a result with the service codec and decodes it with the client codec.
func huntC07Resp(sopts, copts []core.CodecOption, result interface{}, rt ...reflect.Type) (wire string, got []interface{}, err error) {
	defer func() {
		if p := recover(); p != nil {
			err = fmt.Errorf("PANIC: %v", p)
		}
	}()
	sctx := core.NewServiceContext(core.NewService())
	resp, e := core.NewServiceCodec(sopts...).Encode(result, sctx)
	wire = string(resp)
	if e != nil {
		return wire, nil, fmt.Errorf("encode: %v", e)
	}
	cctx := core.NewClientContext()
	cctx.ReturnType = rt
	got, err = core.NewClientCodec(copts...).Decode(resp, cctx)
	return
}

func huntC07Show(args []interface{}) string {
	s := "["
	for i, a := range args {
		if i > 0 {
			s += ", "
		}
		s += fmt.Sprintf("%T(%+v)", a, a)
	}
	return s + "]"
}

type huntC07Node struct {
	N      int
	Parent *huntC07Node
	Child  *huntC07Node
}

// Finding 1. A value with a pointer cycle through struct fields (a tree with parent pointers, a
// doubly linked list). With the default options it round-trips exactly, that is what the
// references are for. With WithSimple(true) on the encoding side there are no references, and
// the struct encoder calls the encoders of its fields directly, not through
// Encoder.writeValue, so the depth guard (ErrNestedTooDeep) never sees the recursion: the
// goroutine stack grows to its limit and the runtime ends the PROCESS with "fatal error: stack
// overflow", which no recover can catch. The crashing part runs in a child process.
func TestHuntC07_CyclicStructSimpleKillsProcess(t *testing.T) {
	// control: default options, the cyclic value arrives intact
	root := &huntC07Node{N: 1}
	root.Child = &huntC07Node{N: 2, Parent: root}
	_, args, _, err := huntC07Req(nil, nil, func(n *huntC07Node) {}, []interface{}{root}, nil)
	if err != nil || len(args) != 1 || args[0].(*huntC07Node).Child.Parent != args[0].(*huntC07Node) {
		t.Fatalf("control failed: %v", err)
	}
	for _, side := range []string{"client", "service", "echo"} {
		cmd := exec.Command(os.Args[0], "-test.run", "^TestHuntC07_CyclicChild$", "-test.v")
		cmd.Env = append(os.Environ(), "HUNT_C07_CHILD="+side)
		out, runErr := cmd.CombinedOutput()
		text := string(out)
		if strings.Contains(text, "CHILD SURVIVED") {
			t.Logf("%s side survived: %s", side, text)
			continue
		}
		first := text
		if i := strings.Index(first, "\n\n"); i > 0 {
			first = first[:i]
		}
		if len(first) > 300 {
			first = first[:300]
		}
		t.Errorf("VIOLATION: %s: WithSimple(true) codec encoding a struct with a parent pointer: the process died (%v), no error was returned:\n%s", side, runErr, first)
	}
}

func TestHuntC07_CyclicChild(t *testing.T) {
	side := os.Getenv("HUNT_C07_CHILD")
	if side == "" {
		t.Skip("helper of TestHuntC07_CyclicStructSimpleKillsProcess")
	}
	// only to die quickly and without eating 1 GB: the default limit gives the same end
	debug.SetMaxStack(32 << 20)
	root := &huntC07Node{N: 1}
	root.Child = &huntC07Node{N: 2, Parent: root}
	var err error
	switch side {
	case "client":
		_, err = core.NewClientCodec(core.WithSimple(true)).Encode("f", []interface{}{root}, core.NewClientContext())
	case "service":
		_, err = core.NewServiceCodec(core.WithSimple(true)).Encode(root, core.NewServiceContext(core.NewService()))
	default:
		// the whole service: a remote client with default options sends the cyclic value to an
		// echo method of a service whose codec is Simple; Service.Handle never returns
		svc := core.NewService()
		svc.Codec = core.NewServiceCodec(core.WithSimple(true))
		svc.AddFunction(func(n *huntC07Node) *huntC07Node { return n }, "echo")
		req, _ := core.NewClientCodec().Encode("echo", []interface{}{root}, core.NewClientContext())
		_, err = svc.Handle(core.WithContext(context.Background(), core.NewServiceContext(svc)), req)
	}
	fmt.Println("CHILD SURVIVED err =", err)
}

// Finding 2. The same pointer (or the same string) passed for two parameters of different
// types: the second occurrence travels as a reference, and a reference is converted by
// Decoder.convertReference, which knows far fewer conversions than direct decoding. The call
// that succeeds when the client codec is Simple fails when it is not.
func TestHuntC07_RepeatedPointerDifferentParamTypes(t *testing.T) {
	p := &huntC07S{1, "hello"}
	sl := []int{1, 2, 3}
	m := map[string]int{"a": 1}
	bs := []byte("hello")
	cases := []struct {
		label string
		fn    interface{}
		args  []interface{}
	}{
		{"func(map[string]interface{}, *S) called with (p, p)", func(a map[string]interface{}, b *huntC07S) {}, []interface{}{p, p}},
		{"func(S, map[string]interface{}) called with (p, p)", func(a huntC07S, b map[string]interface{}) {}, []interface{}{p, p}},
		{"func([]int, []int64) called with (&s, &s)", func(a []int, b []int64) {}, []interface{}{&sl, &sl}},
		{"func([]int, [3]int) called with (&s, &s)", func(a []int, b [3]int) {}, []interface{}{&sl, &sl}},
		{"func(interface{}, map[string]int) called with (&m, &m)", func(a interface{}, b map[string]int) {}, []interface{}{&m, &m}},
		{"func(map[string]int, map[string]int64) called with (&m, &m)", func(a map[string]int, b map[string]int64) {}, []interface{}{&m, &m}},
		{"func(string, [5]byte) called with (\"hello\", \"hello\")", func(a string, b [5]byte) {}, []interface{}{"hello", "hello"}},
		{"func([]byte, [5]byte) called with (&bs, &bs)", func(a []byte, b [5]byte) {}, []interface{}{&bs, &bs}},
	}
	for _, c := range cases {
		_, simpleArgs, _, simpleErr := huntC07Req([]core.CodecOption{core.WithSimple(true)}, nil, c.fn, c.args, nil)
		wire, refArgs, _, refErr := huntC07Req(nil, nil, c.fn, c.args, nil)
		if simpleErr != nil {
			t.Logf("%s: refused even in simple mode (%v): not counted", c.label, simpleErr)
			continue
		}
		if refErr != nil || !reflect.DeepEqual(simpleArgs, refArgs) {
			t.Errorf("VIOLATION: %s\n  request %q\n  client Simple : args=%s err=<nil>\n  client default: args=%s err=%v", c.label, wire, huntC07Show(simpleArgs), huntC07Show(refArgs), refErr)
		}
	}
	// the same on the way back: two results that are the same pointer, declared as (S, map)
	rt := []reflect.Type{reflect.TypeOf(huntC07S{}), reflect.TypeOf(map[string]interface{}{})}
	_, sgot, serr := huntC07Resp([]core.CodecOption{core.WithSimple(true)}, nil, []interface{}{p, p}, rt...)
	wire, got, err := huntC07Resp(nil, nil, []interface{}{p, p}, rt...)
	if serr == nil && (err != nil || !reflect.DeepEqual(sgot, got)) {
		t.Errorf("VIOLATION: results (p, p) declared as (S, map[string]interface{})\n  response %q\n  service Simple : %s\n  service default: %s err=%v", wire, huntC07Show(sgot), huntC07Show(got), err)
	}
}

// Finding 3. A parameter whose type is an interface with methods (fmt.Stringer, error,
// context.Context not in first place ...). The interface decoder of hprose/io handles every
// reflect.Interface kind as if it were interface{}: it stores an eface into an iface slot.
// Decode reports no error; a string argument comes out as a corrupt interface value (its
// "itab" is the *rtype of string), a number silently becomes nil.
func TestHuntC07_InterfaceTypedParameter(t *testing.T) {
	fn := func(s fmt.Stringer) {}
	_, args, _, err := huntC07Req(nil, nil, fn, []interface{}{"hello"}, nil)
	if err == nil && len(args) == 1 {
		func() {
			defer func() {
				if p := recover(); p != nil {
					t.Errorf("VIOLATION: func(fmt.Stringer) called with \"hello\": Decode returned err=<nil> and an argument that is != nil but can not be touched: %v", p)
				}
			}()
			if args[0] != nil {
				_ = fmt.Sprintf("%T", args[0]) // panics: the type word of the interface is garbage
				t.Errorf("VIOLATION: func(fmt.Stringer) called with \"hello\": a string was accepted for a fmt.Stringer: %T", args[0])
			}
		}()
	}
	_, args, _, err = huntC07Req(nil, nil, fn, []interface{}{5}, nil)
	if err == nil && len(args) == 1 && args[0] == nil {
		t.Errorf("VIOLATION: func(fmt.Stringer) called with 5: Decode returned err=<nil> and the argument nil; the value passed is lost without an error")
	}
}

// Finding 4. Numbers that do not fit the parameter type (or the default type chosen for
// interface{} and for header values) are neither converted "equal in value" nor refused.
func TestHuntC07_NumericWrap(t *testing.T) {
	big100 := new(big.Int).Lsh(big.NewInt(1), 100)
	cases := []struct {
		label string
		fn    interface{}
		arg   interface{}
	}{
		{"300 -> int8", func(a int8) {}, 300},
		{"-1 -> uint64", func(a uint64) {}, -1},
		{"1<<40 -> int32", func(a int32) {}, int64(1) << 40},
		{"uint64 max -> int64", func(a int64) {}, uint64(math.MaxUint64)},
		{"2^100 -> int64", func(a int64) {}, big100},
		{"1e300 -> int64", func(a int64) {}, 1e300},
		{"-3.7 -> uint8", func(a uint8) {}, -3.7},
		{"uint64 max -> interface{}", func(a interface{}) {}, uint64(math.MaxUint64)},
		{"2^100 -> interface{}", func(a interface{}) {}, big100},
	}
	for _, c := range cases {
		_, args, _, err := huntC07Req(nil, nil, c.fn, []interface{}{c.arg}, nil)
		if err == nil && len(args) == 1 {
			sent, got := fmt.Sprint(c.arg), fmt.Sprint(args[0])
			if sent != got {
				t.Errorf("VIOLATION: %s: sent %s, the service codec decoded %T(%s) with err=<nil>", c.label, sent, args[0], got)
			}
		}
	}
	// a header value: headers always decode into interface{}
	_, _, sctx, err := huntC07Req(nil, nil, func() {}, nil, map[string]interface{}{"quota": uint64(math.MaxUint64)})
	if err == nil {
		if v, _ := sctx.RequestHeaders().Get("quota"); fmt.Sprint(v) != fmt.Sprint(uint64(math.MaxUint64)) {
			t.Errorf("VIOLATION: header quota=uint64(%d) arrives as %T(%v)", uint64(math.MaxUint64), v, v)
		}
	}
}

type huntC07Status struct {
	Code int
	Text string
}

func (s huntC07Status) Error() string { return s.Text }

// Finding 5. Values whose type implements error are not data for the codecs. As one of several
// results, or as an argument, they are written with the error tag, and the peer's decoder turns
// that tag into the error of the whole message: the other results / arguments are lost.
func TestHuntC07_ErrorValues(t *testing.T) {
	ifT := reflect.TypeOf((*interface{})(nil)).Elem()
	// several results, one of them an error value (e.g. a missing-method handler that returns
	// []interface{}{n, lastErr}, or func() (int, error, string))
	wire, got, err := huntC07Resp(nil, nil, []interface{}{1, errors.New("e2"), "tail"}, ifT, ifT, ifT)
	if err != nil || len(got) != 3 || got[2] != "tail" {
		t.Errorf("VIOLATION: results (1, errors.New(\"e2\"), \"tail\"): response %q decodes to %s err=%v", wire, huntC07Show(got), err)
	}
	// a data struct that happens to have an Error method, as an argument
	wire, args, _, err := huntC07Req(nil, nil, func(a interface{}, b string) {}, []interface{}{huntC07Status{404, "not found"}, "tail"}, nil)
	if err != nil {
		t.Errorf("VIOLATION: argument huntC07Status{404, \"not found\"}: request %q, service Decode fails with err=%q, args=%s", wire, err, huntC07Show(args))
	}
}

// Finding 6. StructTypeValue is honoured for the first occurrence of a pointer only; a repeated
// pointer arrives as a reference and is handed out as *T. Whether the decoding side sees
// (T, T) or (T, *T) depends on the Simple option of the other side.
func TestHuntC07_StructTypeValueRepeatedPointer(t *testing.T) {
	p := &huntC07S{1, "hello"}
	fn := func(a, b interface{}) {}
	sopts := []core.CodecOption{core.WithStructType(io.StructTypeValue)}
	for _, simple := range []bool{true, false} {
		wire, args, _, err := huntC07Req([]core.CodecOption{core.WithSimple(simple)}, sopts, fn, []interface{}{p, p}, nil)
		if err != nil || len(args) != 2 {
			t.Errorf("VIOLATION: unexpected failure: %v", err)
			continue
		}
		if reflect.TypeOf(args[0]) != reflect.TypeOf(args[1]) {
			t.Errorf("VIOLATION: service WithStructType(StructTypeValue), client Simple=%v, func(a, b interface{}) called with (p, p): request %q decodes to %s", simple, wire, huntC07Show(args))
		}
	}
	// the same in a result, with ListTypeSlice: []T in one case, []interface{}{T, *T} in the other
	ifT := reflect.TypeOf((*interface{})(nil)).Elem()
	copts := []core.CodecOption{core.WithStructType(io.StructTypeValue), core.WithListType(io.ListTypeSlice)}
	_, a, _ := huntC07Resp([]core.CodecOption{core.WithSimple(true)}, copts, []*huntC07S{p, p}, ifT)
	_, b, _ := huntC07Resp(nil, copts, []*huntC07S{p, p}, ifT)
	if !reflect.DeepEqual(a, b) {
		t.Errorf("VIOLATION: result []*S{p, p}, client StructTypeValue+ListTypeSlice: service Simple -> %s, service default -> %s", huntC07Show(a), huntC07Show(b))
	}
}

type huntC07Flag bool

// Finding 7. The mode flag travels in the header "simple" and both sides evaluate it with
// Dict.GetBool. GetBool only knows the predeclared types: for a named bool or number type the
// client reads false (and encodes with references) while the service, which sees the decoded
// plain bool / int, reads true (and decodes without references).
func TestHuntC07_SimpleHeaderNamedType(t *testing.T) {
	p := &huntC07S{1, "hello"}
	fn := func(a, b string, c, d *huntC07S) {}
	for _, v := range []interface{}{huntC07Flag(true), time.Duration(1)} {
		wire, args, _, err := huntC07Req(nil, nil, fn, []interface{}{"hello", "hello", p, p}, map[string]interface{}{"simple": v})
		if err != nil {
			t.Errorf("VIOLATION: header simple=%T(%v): request %q, service Decode: args=%s err=%v", v, v, wire, huntC07Show(args), err)
		}
	}
}

// Finding 8. The client codec reads the mode of a response from context.ResponseHeaders(),
// into which the headers of every response are merged and from which nothing is ever removed.
// A ClientContext that is used for a second call (a user-made context, a retry on another
// server) keeps "simple": true of the first answer and decodes the second one, which has
// references and no header, in simple mode.
func TestHuntC07_StaleSimpleResponseHeader(t *testing.T) {
	sT := reflect.TypeOf("")
	cctx := core.NewClientContext()
	cctx.ReturnType = []reflect.Type{sT, sT}
	cc := core.NewClientCodec()
	svc := core.NewService()
	r1, _ := core.NewServiceCodec(core.WithSimple(true)).Encode([]interface{}{"hello", "hello"}, core.NewServiceContext(svc))
	if got, err := cc.Decode(r1, cctx); err != nil || got[1] != "hello" {
		t.Fatalf("first answer: %s %v", huntC07Show(got), err)
	}
	r2, _ := core.NewServiceCodec().Encode([]interface{}{"hello", "hello"}, core.NewServiceContext(svc))
	got, err := cc.Decode(r2, cctx)
	if err != nil || len(got) != 2 || got[1] != "hello" {
		t.Errorf("VIOLATION: second answer %q on the same ClientContext: got=%s err=%v", r2, huntC07Show(got), err)
	}
}
