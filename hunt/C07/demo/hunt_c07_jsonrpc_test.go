// Demonstrations for property C07 (RPC codec round trip), JSON-RPC codec.
//
// Copy this file into the package directory rpc/codec/jsonrpc/ (package jsonrpc_test) and run,
// from the worktree root:
//
//	cp _hunt/demo/hunt_c07_jsonrpc_test.go rpc/codec/jsonrpc/hunt_c07_jsonrpc_test.go && \
//	  go test -vet=off -count=1 -run 'TestHuntC07_' ./rpc/codec/jsonrpc/ ; rm rpc/codec/jsonrpc/hunt_c07_jsonrpc_test.go
//
// No port is opened: the codecs are called directly. Every test fails (lines starting with
// "VIOLATION:") on the unchanged library.
package jsonrpc_test

import (
	"fmt"
	"math"
	"reflect"
	"testing"

	"github.com/hprose/hprose-golang/v3/rpc/codec/jsonrpc"
	"github.com/hprose/hprose-golang/v3/rpc/core"
)

type huntC07Account struct {
	ID      int64
	Balance uint64
	Name    string
}

func huntC07JReq(fn interface{}, args []interface{}) (wire string, gotArgs []interface{}, err error) {
	defer func() {
		if p := recover(); p != nil {
			err = fmt.Errorf("PANIC: %v", p)
		}
	}()
	svc := core.NewService()
	svc.AddFunction(fn, "f")
	req, e := jsonrpc.NewClientCodec(nil).Encode("f", args, core.NewClientContext())
	wire = string(req)
	if e != nil {
		return wire, nil, fmt.Errorf("encode: %v", e)
	}
	_, gotArgs, err = jsonrpc.NewServiceCodec(nil).Decode(req, core.NewServiceContext(svc))
	return
}

func huntC07JResp(result interface{}, rt ...reflect.Type) (wire string, got []interface{}, err error) {
	defer func() {
		if p := recover(); p != nil {
			err = fmt.Errorf("PANIC: %v", p)
		}
	}()
	sctx := core.NewServiceContext(core.NewService())
	sctx.Items().Set("jsonrpc", true)
	sctx.Items().Set("jsonrpc.id", int64(7))
	resp, e := jsonrpc.NewServiceCodec(nil).Encode(result, sctx)
	wire = string(resp)
	if e != nil {
		return wire, nil, fmt.Errorf("encode: %v", e)
	}
	cctx := core.NewClientContext()
	cctx.ReturnType = rt
	got, err = jsonrpc.NewClientCodec(nil).Decode(resp, cctx)
	return
}

// Finding 1. Both JSON-RPC codecs first unmarshal the whole message into interface{} values
// (params []interface{}, result interface{}), which turns every JSON number into a float64,
// then marshal each value again and unmarshal it into the parameter / return type. Integers
// beyond 2^53 are JSON-representable (the request on the wire is exact), but they come out
// changed, or are refused as "Invalid params" / overflow.
func TestHuntC07_JSONRPCBigIntegers(t *testing.T) {
	reqCases := []struct {
		label string
		fn    interface{}
		arg   interface{}
	}{
		{"int64 2^53+1", func(a int64) {}, int64(9007199254740993)},
		{"int64 max", func(a int64) {}, int64(math.MaxInt64)},
		{"int64 min", func(a int64) {}, int64(math.MinInt64)},
		{"uint64 max", func(a uint64) {}, uint64(math.MaxUint64)},
		{"[]int64", func(a []int64) {}, []int64{9007199254740993, 1<<62 + 1}},
		{"struct with int64/uint64 fields", func(a huntC07Account) {}, huntC07Account{9007199254740993, 1<<63 + 1, "x"}},
		{"map[string]int64", func(a map[string]int64) {}, map[string]int64{"k": 9007199254740995}},
	}
	for _, c := range reqCases {
		wire, args, err := huntC07JReq(c.fn, []interface{}{c.arg})
		if err != nil || len(args) != 1 || !reflect.DeepEqual(args[0], c.arg) {
			t.Errorf("VIOLATION: argument %s: request %s\n  passed  %T(%+v)\n  decoded %+v err=%v", c.label, wire, c.arg, c.arg, args, err)
		}
	}
	respCases := []struct {
		label  string
		result interface{}
	}{
		{"int64 2^53+1", int64(9007199254740993)},
		{"int64 max", int64(math.MaxInt64)},
		{"uint64 max", uint64(math.MaxUint64)},
		{"struct with int64/uint64 fields", huntC07Account{9007199254740993, 1<<63 + 1, "x"}},
	}
	for _, c := range respCases {
		wire, got, err := huntC07JResp(c.result, reflect.TypeOf(c.result))
		if err != nil || len(got) != 1 || !reflect.DeepEqual(got[0], c.result) {
			t.Errorf("VIOLATION: result %s: response %s\n  returned %T(%+v)\n  decoded  %+v err=%v", c.label, wire, c.result, c.result, got, err)
		}
	}
	// several results
	i64 := reflect.TypeOf(int64(0))
	wire, got, err := huntC07JResp([]interface{}{int64(9007199254740993), int64(2)}, i64, i64)
	if err != nil || len(got) != 2 || got[0] != int64(9007199254740993) {
		t.Errorf("VIOLATION: results (2^53+1, 2): response %s decoded %+v err=%v", wire, got, err)
	}
}

// Finding 9. A nil result (and a missing one) is left out of the JSON-RPC response, and the
// client codec then returns no results at all, where the hprose client codec returns the zero
// value of every declared return type. Fewer results than return types are not padded either.
// A caller of Client.Invoke that indexes result[0] panics for a method that returned nil.
func TestHuntC07_JSONRPCNilResult(t *testing.T) {
	sT, iT := reflect.TypeOf(""), reflect.TypeOf(0)
	pT := reflect.TypeOf((*huntC07Account)(nil))
	cases := []struct {
		label  string
		result interface{}
		rt     []reflect.Type
	}{
		{"nil pointer result, declared *Account", (*huntC07Account)(nil), []reflect.Type{pT}},
		{"no result, declared string", nil, []reflect.Type{sT}},
		{"one result, declared (string, int)", "hello", []reflect.Type{sT, iT}},
	}
	for _, c := range cases {
		wire, got, err := huntC07JResp(c.result, c.rt...)
		// what the hprose codec pair gives for the same call
		resp, _ := core.NewServiceCodec().Encode(c.result, core.NewServiceContext(core.NewService()))
		cctx := core.NewClientContext()
		cctx.ReturnType = c.rt
		want, _ := core.NewClientCodec().Decode(resp, cctx)
		if err != nil || !reflect.DeepEqual(got, want) {
			t.Errorf("VIOLATION: %s: response %s\n  JSON-RPC codec: %d results %+v err=%v\n  hprose codec  : %d results %+v", c.label, wire, len(got), got, err, len(want), want)
		}
	}
}
