// Demonstration for property C08, clause "invokes ... exactly once".
//
// COPY THIS FILE INTO THE PACKAGE DIRECTORY  rpc/http/fasthttp/  (package fasthttp_test; the
// package's own fasthttp_test.go registers the http handler and the fasthttp transport).
//
// From the worktree root:
//
//	cp _hunt/demo/hunt_c08_fasthttp_test.go rpc/http/fasthttp/hunt_c08_fasthttp_test.go && \
//	  unshare -n sh -c 'ip link set lo up; go test -vet=off -count=1 -v -run "TestHuntC08_" ./rpc/http/fasthttp/' ; \
//	  rm rpc/http/fasthttp/hunt_c08_fasthttp_test.go
package fasthttp_test

import (
	"net"
	"net/http"
	"sync/atomic"
	"testing"
	"time"

	"github.com/hprose/hprose-golang/v3/rpc/core"
)

// The fasthttp client transport sends the call with fasthttp.Client.Do/DoDeadline, which
// re-sends a request - POST included - up to 5 times when the server closes the connection
// without an answer (io.EOF). A server that drops the connection AFTER the function has run
// (here: a net/http server with a WriteTimeout shorter than the function; the same happens
// on a server restart or an idle-connection race) makes ONE call through the proxy invoke
// the published function FIVE times. The net/http client transport does not re-send a POST.
func TestHuntC08_FastHTTPClientInvokesFunctionFiveTimes(t *testing.T) {
	var calls int32
	service := core.NewService()
	service.AddFunction(func(d time.Duration) int {
		n := atomic.AddInt32(&calls, 1)
		time.Sleep(d)
		return int(n)
	}, "inc")
	l, err := net.Listen("tcp", "127.0.0.1:0")
	if err != nil {
		t.Fatal(err)
	}
	server := &http.Server{WriteTimeout: 50 * time.Millisecond}
	if err = service.Bind(server); err != nil {
		t.Fatal(err)
	}
	go server.Serve(l)
	defer server.Close()
	client := core.NewClient("http://" + l.Addr().String() + "/")
	var proxy struct {
		Inc func(d time.Duration) (int, error)
	}
	client.UseService(&proxy)

	r, err := proxy.Inc(0)
	if err != nil || r != 1 || atomic.LoadInt32(&calls) != 1 {
		t.Fatalf("warm-up call: %v %v calls=%d", r, err, calls)
	}
	atomic.StoreInt32(&calls, 0)
	r, err = proxy.Inc(200 * time.Millisecond) // ONE call
	time.Sleep(500 * time.Millisecond)
	t.Logf("one call of inc(200ms): result=%v err=%v", r, err)
	if n := atomic.LoadInt32(&calls); n != 1 {
		t.Errorf("VIOLATION: one call through the proxy invoked the published function %d times", n)
	}
}
