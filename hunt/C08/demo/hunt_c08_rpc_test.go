// Demonstrations for property C08 ("a remote call returns what the service function
// returns, on every transport").
//
// COPY THIS FILE INTO THE PACKAGE DIRECTORY  rpc/  (package rpc_test).
//
// From the worktree root:
//
//	cp _hunt/demo/hunt_c08_rpc_test.go rpc/hunt_c08_rpc_test.go && \
//	  unshare -n sh -c 'ip link set lo up; go test -vet=off -count=1 -v -run "TestHuntC08_" ./rpc/' ; \
//	  rm rpc/hunt_c08_rpc_test.go
//
// Every test fails (and prints a line starting with "VIOLATION:") on the unchanged library.
// No test kills the test process: panics of the library surface in the calling goroutine
// and are recovered here.
package rpc_test

import (
	"context"
	"errors"
	"fmt"
	"net"
	"net/http"
	"strings"
	"sync"
	"sync/atomic"
	"syscall"
	"testing"
	"time"

	"github.com/hprose/hprose-golang/v3/rpc"
	"github.com/hprose/hprose-golang/v3/rpc/mock"
)

// ---------------------------------------------------------------------------------------
// helpers

type huntC08Listener struct {
	url   string
	close func()
}

func huntC08TCP(t *testing.T, service *rpc.Service) huntC08Listener {
	l, err := net.Listen("tcp", "127.0.0.1:0")
	if err != nil {
		t.Fatal(err)
	}
	if err = service.Bind(l); err != nil {
		t.Fatal(err)
	}
	return huntC08Listener{"tcp://" + l.Addr().String(), func() { l.Close() }}
}

// one net/http server answers http:// and ws://
func huntC08HTTP(t *testing.T, service *rpc.Service) (httpL, wsL huntC08Listener) {
	l, err := net.Listen("tcp", "127.0.0.1:0")
	if err != nil {
		t.Fatal(err)
	}
	server := &http.Server{}
	if err = service.Bind(server); err != nil {
		t.Fatal(err)
	}
	go server.Serve(l)
	return huntC08Listener{"http://" + l.Addr().String() + "/", func() { server.Close() }},
		huntC08Listener{"ws://" + l.Addr().String() + "/", func() {}}
}

func huntC08UDP(t *testing.T, service *rpc.Service) huntC08Listener {
	addr, _ := net.ResolveUDPAddr("udp", "127.0.0.1:0")
	c, err := net.ListenUDP("udp", addr)
	if err != nil {
		t.Fatal(err)
	}
	if err = service.Bind(c); err != nil {
		t.Fatal(err)
	}
	return huntC08Listener{"udp://" + c.LocalAddr().String(), func() { c.Close() }}
}

func huntC08Mock(t *testing.T, service *rpc.Service, address string) huntC08Listener {
	server := mock.Server{Address: address}
	if err := service.Bind(server); err != nil {
		t.Fatal(err)
	}
	return huntC08Listener{"mock://" + address, server.Close}
}

// ---------------------------------------------------------------------------------------
// 1. A last result whose type implements error but is not nillable (syscall.Errno, a named
//    int with an Error method) makes Execute call reflect.Value.IsNil on it: the function
//    runs, and the caller gets a reflect panic message instead of what it returned.

type huntC08Code int

func (c huntC08Code) Error() string { return fmt.Sprintf("code %d", int(c)) }

func TestHuntC08_ErrorTypedValueResult(t *testing.T) {
	var ran int32
	service := rpc.NewService()
	service.AddFunction(func() syscall.Errno { atomic.AddInt32(&ran, 1); return 0 }, "errno")
	service.AddFunction(func() (int, huntC08Code) { atomic.AddInt32(&ran, 1); return 7, 0 }, "status")
	l := huntC08Mock(t, service, "huntC08_errtyped")
	defer l.close()
	var proxy struct {
		Errno  func() (syscall.Errno, error)
		Status func() (int, huntC08Code, error)
	}
	rpc.NewClient(l.url).UseService(&proxy)
	// local call: (0) and (7, 0), no error of any kind
	if r, err := proxy.Errno(); err != nil || r != 0 {
		t.Errorf("VIOLATION: func() syscall.Errno returned 0 locally; remotely: result=%v err=%q", r, err)
	}
	if a, b, err := proxy.Status(); err != nil || a != 7 || b != 0 {
		t.Errorf("VIOLATION: func() (int, Code) returned (7, 0) locally; remotely: (%v, %v) err=%q", a, b, err)
	}
	t.Logf("the functions ran %d times", ran)
}

// ---------------------------------------------------------------------------------------
// 2. A result the format cannot carry (here: a time.Time in the year 10000) is an encoding
//    error on the server. Service.Handle returns the half-written response TOGETHER with
//    the error; the net/http (and fasthttp) handler logs the error and sends the response
//    anyway: the caller gets a successful call with a wrong value. On mock the same call is
//    an error, on tcp/ws/udp it is an error too (but see test 3).

type huntC08Event struct {
	Name string
	When time.Time
}

func TestHuntC08_HTTPUnencodableResultIsSuccess(t *testing.T) {
	far := time.Date(10000, 1, 1, 0, 0, 0, 0, time.UTC)
	service := rpc.NewService()
	service.AddFunction(func() time.Time { return far }, "when")
	service.AddFunction(func() huntC08Event { return huntC08Event{"launch", far} }, "event")
	service.AddFunction(func() (int, time.Time) { return 7, far }, "pair")
	httpL, _ := huntC08HTTP(t, service)
	defer httpL.close()
	var proxy struct {
		When  func() (time.Time, error)
		Event func() (huntC08Event, error)
		Pair  func() (int, time.Time, error)
	}
	rpc.NewClient(httpL.url).UseService(&proxy)
	if r, err := proxy.When(); err == nil && !r.Equal(far) {
		t.Errorf("VIOLATION: net/http: function returned %v, the caller got %v with a nil error", far, r)
	}
	if r, err := proxy.Event(); err == nil && !r.When.Equal(far) {
		t.Errorf("VIOLATION: net/http: function returned {launch %v}, the caller got %+v with a nil error", far, r)
	}
	if a, b, err := proxy.Pair(); err == nil && !b.Equal(far) {
		t.Errorf("VIOLATION: net/http: function returned (7, %v), the caller got (%v, %v) with a nil error", far, a, b)
	}
	// for comparison: the mock transport reports the error
	ml := huntC08Mock(t, service, "huntC08_unencodable")
	defer ml.close()
	rpc.NewClient(ml.url).UseService(&proxy)
	_, err := proxy.When()
	t.Logf("the same call on mock: err=%v", err)
}

// ---------------------------------------------------------------------------------------
// 3. On tcp/unix, websocket and udp, ONE call that cannot be answered (its result cannot be
//    encoded, its request exceeds MaxRequestLength, its response exceeds a datagram) is
//    answered with an "error frame" which makes the client fail EVERY pending call of that
//    connection: an unrelated call whose function ran and returned 42 gets the other call's
//    error.

func TestHuntC08_OneBadCallFailsUnrelatedPendingCalls(t *testing.T) {
	newService := func() *rpc.Service {
		service := rpc.NewService()
		service.MaxRequestLength = 4096
		service.AddFunction(func() time.Time { return time.Date(10000, 1, 1, 0, 0, 0, 0, time.UTC) }, "unencodable")
		service.AddFunction(func(s string) int { return len(s) }, "length")
		service.AddFunction(func(n int) string { return strings.Repeat("x", n) }, "big")
		service.AddFunction(func(d time.Duration) int { time.Sleep(d); return 42 }, "slow")
		return service
	}
	type proxyT struct {
		Unencodable func() (time.Time, error)
		Length      func(s string) (int, error)
		Big         func(n int) (string, error)
		Slow        func(d time.Duration) (int, error)
	}
	check := func(transport, what string, p *proxyT, bad func() error) {
		var wg sync.WaitGroup
		wg.Add(1)
		go func() {
			defer wg.Done()
			// an innocent call: small request, small response, the function returns 42
			r, err := p.Slow(300 * time.Millisecond)
			if err != nil || r != 42 {
				t.Errorf("VIOLATION: %s: slow() returned 42 on the server, but because a concurrent call %s its caller got result=%v err=%q",
					transport, what, r, strings.Replace(fmt.Sprint(err), "\r\n", " ", -1))
			}
		}()
		time.Sleep(100 * time.Millisecond)
		err := bad()
		t.Logf("%s: the call that %s: err=%q (an error is expected here)", transport, what, strings.Replace(fmt.Sprint(err), "\r\n", " ", -1))
		wg.Wait()
	}
	run := func(transport string, l huntC08Listener, udp bool) {
		var p proxyT
		rpc.NewClient(l.url).UseService(&p)
		check(transport, "returned an unencodable value", &p, func() error { _, err := p.Unencodable(); return err })
		check(transport, "sent a request larger than MaxRequestLength", &p, func() error { _, err := p.Length(strings.Repeat("y", 5000)); return err })
		if udp {
			check(transport, "produced a response larger than a datagram", &p, func() error { _, err := p.Big(70000); return err })
		}
	}
	tcp := huntC08TCP(t, newService())
	run("tcp", tcp, false)
	tcp.close()
	httpL, wsL := huntC08HTTP(t, newService())
	run("websocket", wsL, false)
	httpL.close()
	udp := huntC08UDP(t, newService())
	run("udp", udp, true)
	udp.close()
}

// ---------------------------------------------------------------------------------------
// 4. udp: the call identifier has 15 bits. A call that timed out on the client gives its
//    identifier back; 32768 calls later the identifier is handed out again, and when the
//    late response of the timed-out call arrives it is delivered to the new call, which
//    returns ANOTHER function call's result without any error.
//    (c281174 only protects identifiers of calls that are still pending.)

func TestHuntC08_UDPLateResponseAnswersAnotherCall(t *testing.T) {
	service := rpc.NewService()
	service.AddFunction(func(d time.Duration, tag string) string { time.Sleep(d); return tag }, "slow")
	service.AddFunction(func(i int) int { return i }, "fast")
	l := huntC08UDP(t, service)
	defer l.close()
	client := rpc.NewClient(l.url)
	client.Timeout = 2 * time.Second
	var p struct {
		SlowShort func(d time.Duration, tag string) (string, error) `name:"slow" timeout:"100"`
		SlowLong  func(d time.Duration, tag string) (string, error) `name:"slow" timeout:"30000"`
		Fast      func(i int) (int, error)
	}
	client.UseService(&p)
	const aSleeps = 8 * time.Second
	start := time.Now()
	_, err := p.SlowShort(aSleeps, "A") // identifier 1; the client gives up after 100ms
	t.Logf("call A: err=%v (a timeout is expected)", err)
	var n int32
	var wg sync.WaitGroup
	for g := 0; g < 8; g++ {
		wg.Add(1)
		go func() {
			defer wg.Done()
			for {
				i := int(atomic.AddInt32(&n, 1))
				if i > 32767 {
					return
				}
				if r, err := p.Fast(i); err == nil && r != i {
					t.Errorf("VIOLATION: fast(%d) returned %d", i, r)
				}
			}
		}()
	}
	wg.Wait()
	if time.Since(start) > aSleeps-time.Second {
		t.Skipf("machine too slow: 32767 calls took %v", time.Since(start))
	}
	r, err := p.SlowLong(12*time.Second, "B") // identifier 1 again
	if err != nil || r != "B" {
		t.Errorf("VIOLATION: udp: slow(12s, \"B\") returned %q err=%v after %v: it was answered with the late response of the timed-out call slow(8s, \"A\")",
			r, err, time.Since(start))
	}
}

// ---------------------------------------------------------------------------------------
// 5. A context-taking service function that forwards its ctx to a client proxy (the usual
//    way of propagating a request-scoped context) panics inside the library: the ctx carries
//    a *ServiceContext under the key under which the client expects a *ClientContext, and
//    GetClientContext asserts the type without checking.

func TestHuntC08_ContextTakingFunctionCallsAnotherService(t *testing.T) {
	backend := rpc.NewService()
	backend.AddFunction(func(s string) string { return "hello " + s }, "hello")
	bl := huntC08Mock(t, backend, "huntC08_backend")
	defer bl.close()
	var inner struct {
		Hello func(ctx context.Context, s string) (string, error)
	}
	rpc.NewClient(bl.url).UseService(&inner)

	front := rpc.NewService()
	front.AddFunction(func(ctx context.Context, s string) (string, error) {
		return inner.Hello(ctx, s) // locally (ctx = context.Background()) this returns "hello w", nil
	}, "hello")
	fl := huntC08Mock(t, front, "huntC08_front")
	defer fl.close()
	var outer struct {
		Hello func(ctx context.Context, s string) (string, error)
	}
	rpc.NewClient(fl.url).UseService(&outer)
	local, _ := inner.Hello(context.Background(), "w")
	r, err := outer.Hello(context.Background(), "w")
	if err != nil || r != local {
		t.Errorf("VIOLATION: the function returns (%q, nil) when called locally; through the proxy: (%q, %v)", local, r, err)
	}
}

// ---------------------------------------------------------------------------------------
// 6. A context that carries a ClientContext (rpc.WithContext) and is used for a second call:
//    ClientContext.Init keeps the ReturnType of the previous call. After a call of a function
//    without results, a raw InvokeContext with the same ctx returns NO result and NO error
//    although the function returned "str"; after a call with other result types it fails
//    with a conversion error.

func TestHuntC08_SecondCallOnSameClientContext(t *testing.T) {
	service := rpc.NewService()
	service.AddFunction(func() {}, "void")
	service.AddFunction(func() (int, string) { return 1, "one" }, "pair")
	service.AddFunction(func() string { return "str" }, "getstring")
	l := huntC08Mock(t, service, "huntC08_ctxreuse")
	defer l.close()
	client := rpc.NewClient(l.url)
	var p struct {
		Void func(ctx context.Context) error
		Pair func(ctx context.Context) (int, string, error)
	}
	client.UseService(&p)

	fresh, err := client.InvokeContext(context.Background(), "getstring", nil)
	t.Logf("fresh context: %#v %v", fresh, err)

	ctx := rpc.WithContext(context.Background(), rpc.NewClientContext())
	if err := p.Void(ctx); err != nil {
		t.Fatal(err)
	}
	r, err := client.InvokeContext(ctx, "getstring", nil)
	if err != nil || len(r) != 1 || r[0] != "str" {
		t.Errorf("VIOLATION: getstring() returned \"str\"; second call on the same ctx (after void()): results=%#v err=%v", r, err)
	}
	ctx = rpc.WithContext(context.Background(), rpc.NewClientContext())
	if _, _, err := p.Pair(ctx); err != nil {
		t.Fatal(err)
	}
	r, err = client.InvokeContext(ctx, "getstring", nil)
	if err != nil || len(r) != 1 || r[0] != "str" {
		t.Errorf("VIOLATION: getstring() returned \"str\"; second call on the same ctx (after pair()): results=%#v err=%v", r, err)
	}
}

// ---------------------------------------------------------------------------------------
// 7. tag_parser.go: a header/context tag whose LAST value is quoted, or whose value is
//    empty, makes every call through that proxy field panic with an index out of range in
//    the caller's goroutine (the documented form `str2:'12345', ...` only works because a
//    comma follows).

func TestHuntC08_ProxyTagPanics(t *testing.T) {
	service := rpc.NewService()
	service.AddFunction(func() string { return "plain" }, "plain")
	l := huntC08Mock(t, service, "huntC08_tag")
	defer l.close()
	client := rpc.NewClient(l.url)
	call := func(label string, f func() (string, error)) {
		defer func() {
			if e := recover(); e != nil {
				t.Errorf("VIOLATION: %s: the call panicked in the caller: %v", label, e)
			}
		}()
		r, err := f()
		if err != nil || r != "plain" {
			t.Errorf("VIOLATION: %s: got %q %v", label, r, err)
		}
	}
	var q1 struct {
		Plain func() (string, error) `header:"token:'abc'"`
	}
	client.UseService(&q1)
	call("header:\"token:'abc'\"", q1.Plain)
	var q2 struct {
		Plain func() (string, error) `context:"a:1,k:"`
	}
	client.UseService(&q2)
	call("context:\"a:1,k:\"", q2.Plain)
}

// ---------------------------------------------------------------------------------------
// 8. method_manager.go Get/Add key the table by strings.ToLower(name). ToLower is not a
//    case-insensitive comparison: it maps every invalid UTF-8 byte to U+FFFD and 'İ' (U+0130)
//    to 'i'. Names that differ by more than case select each other's function instead of
//    "Can't find this method" / the missing-method handler.

func TestHuntC08_NameLookupSelectsAnotherFunction(t *testing.T) {
	service := rpc.NewService()
	service.AddFunction(func() string { return "f-ff" }, "f\xff")
	service.AddFunction(func() string { return "id" }, "id")
	l := huntC08Mock(t, service, "huntC08_names")
	defer l.close()
	client := rpc.NewClient(l.url)
	if strings.EqualFold("\u0130D", "id") {
		t.Fatal("test error: U+0130 'D' is a case variant of \"id\"")
	}
	// "f\xfe", "f\xc0": another byte, not another case, of the registered "f\xff";
	// "f\uFFFD": a valid three-byte character in place of the byte 0xff;
	// "\u0130D": LATIN CAPITAL LETTER I WITH DOT ABOVE is not a case variant of 'i' (EqualFold says no).
	for _, name := range []string{"f\xfe", "f\xc0", "f\uFFFD", "\u0130D"} {
		r, err := client.Invoke(name, nil)
		if err == nil {
			t.Errorf("VIOLATION: no function is registered under %q (not even case-insensitively), but the call invoked one and returned %#v", name, r)
		}
	}
}

// ---------------------------------------------------------------------------------------
// 9. (minor) AddFunction without alias takes the name from the runtime: a method value is
//    published as "Hello-fm", so the call of "Hello" does not reach it. AddMethod prints a
//    debugging line ("func Hello") to stdout for every method it publishes.

type huntC08Greeter struct{}

func (huntC08Greeter) Hello(s string) string { return "hello " + s }

func TestHuntC08_MethodValuePublishedUnderRuntimeName(t *testing.T) {
	service := rpc.NewService()
	service.AddFunction(huntC08Greeter{}.Hello)
	l := huntC08Mock(t, service, "huntC08_fm")
	defer l.close()
	client := rpc.NewClient(l.url)
	names, _ := client.Invoke("~", nil)
	r, err := client.Invoke("Hello", []interface{}{"w"})
	if err != nil {
		t.Errorf("VIOLATION: AddFunction(greeter.Hello) published %v; Invoke(\"Hello\"): %v %v", names, r, err)
	}
	_ = errors.New
}
