// Copy into rpc/ (package rpc_test).
//
//	cp _hunt/demo/hunt_c09_reverse_test.go rpc/ && unshare -n sh -c 'ip link set lo up; go test -vet=off -count=1 -run TestHuntC09_ ./rpc/' ; rm rpc/hunt_c09_reverse_test.go
package rpc_test

import (
	"context"
	"fmt"
	"net"
	"strings"
	"sync"
	"testing"
	"time"

	"github.com/hprose/hprose-golang/v3/rpc"
	"github.com/hprose/hprose-golang/v3/rpc/core"
	"github.com/hprose/hprose-golang/v3/rpc/plugins/reverse"
)

func huntReverseService(t *testing.T, address string) (*reverse.Caller, net.Listener, string) {
	service := rpc.NewService()
	caller := reverse.NewCaller(service)
	var server net.Listener
	var err error
	for i := 0; i < 50; i++ {
		if server, err = net.Listen("tcp", address); err == nil {
			break
		}
		time.Sleep(20 * time.Millisecond)
	}
	if err != nil {
		t.Fatal(err)
	}
	if err = service.Bind(server); err != nil {
		t.Fatal(err)
	}
	time.Sleep(5 * time.Millisecond)
	return caller, server, "tcp://" + server.Addr().String() + "/"
}

type huntReverseProxy struct {
	Echo    func(s string) (string, error)
	BadTime func() (time.Time, error)
	Slow    func(tag string) (string, error)
}

// n reverse calls are queued and taken by the provider in one poll. ONE of them has a result
// the serializer refuses. The provider sends all results of a poll in one "=" request: that
// request can never be encoded, is retried for ever, and no caller of the batch gets its answer.
func TestHuntC09_ReverseOneUnencodableResultLosesTheBatch(t *testing.T) {
	caller, server, uri := huntReverseService(t, "127.0.0.1:0")
	defer server.Close()
	caller.Timeout = 3 * time.Second

	client := rpc.NewClient(uri)
	provider := reverse.NewProvider(client, "p1")
	provider.RetryInterval = 100 * time.Millisecond
	var errLock sync.Mutex
	var providerErrors []error
	provider.OnError = func(err error) {
		errLock.Lock()
		providerErrors = append(providerErrors, err)
		errLock.Unlock()
	}
	provider.AddFunction(func(s string) string { return s }, "echo")
	provider.AddFunction(func() time.Time { return time.Date(10000, 1, 1, 0, 0, 0, 0, time.UTC) }, "badTime")

	var proxy huntReverseProxy
	caller.UseService(&proxy, "p1")
	const n = 8
	var wg sync.WaitGroup
	results := make([]string, n)
	errs := make([]error, n)
	for i := 0; i < n; i++ {
		wg.Add(1)
		go func(i int) {
			defer wg.Done()
			results[i], errs[i] = proxy.Echo(fmt.Sprintf("caller-%d", i))
		}(i)
	}
	var badErr error
	wg.Add(1)
	go func() {
		defer wg.Done()
		_, badErr = proxy.BadTime()
	}()
	time.Sleep(200 * time.Millisecond) // all n+1 calls are queued for p1
	go provider.Listen()               // the first poll takes them all
	wg.Wait()
	provider.Close()
	t.Logf("badTime caller: err=%v", badErr)
	errLock.Lock()
	if len(providerErrors) > 0 {
		t.Logf("provider reported %d errors, the first: %v", len(providerErrors), providerErrors[0])
	}
	errLock.Unlock()
	bad := 0
	for i := 0; i < n; i++ {
		if errs[i] != nil || results[i] != fmt.Sprintf("caller-%d", i) {
			bad++
			if bad <= 2 {
				t.Logf("echo caller %d got result=%q err=%v", i, results[i], errs[i])
			}
		}
	}
	if bad > 0 {
		t.Errorf("VIOLATION: %d of %d echo callers never got their own answer because another call of the same poll had an unencodable result", bad, n)
	}
}

// The service is restarted (a new Caller, counter at 0 again) while the provider is still
// working on a call of the old one. The provider reconnects by itself, takes a call of the new
// service that carries the same index, and the answer computed for the OLD call is delivered
// to the NEW caller.
func TestHuntC09_ReverseStaleAnswerAfterServiceRestart(t *testing.T) {
	caller1, server1, uri := huntReverseService(t, "127.0.0.1:0")
	address := server1.Addr().String()
	caller1.Timeout = 2 * time.Second

	release := map[string]chan struct{}{"old": make(chan struct{}), "new": make(chan struct{})}
	started := make(chan string, 2)
	client := rpc.NewClient(uri)
	client.Timeout = 2 * time.Second
	provider := reverse.NewProvider(client, "p1")
	provider.RetryInterval = 50 * time.Millisecond
	provider.AddFunction(func(tag string) string {
		started <- tag
		<-release[tag]
		return "answer-for-" + tag
	}, "slow")
	go provider.Listen()
	defer provider.Close()

	var proxy1 huntReverseProxy
	caller1.UseService(&proxy1, "p1")
	go proxy1.Slow("old")
	if tag := <-started; tag != "old" {
		t.Fatalf("unexpected %s", tag)
	}
	// restart of the service on the same address
	server1.Close()
	caller2, server2, _ := huntReverseService(t, address)
	defer server2.Close()
	caller2.Timeout = 5 * time.Second
	var proxy2 huntReverseProxy
	caller2.UseService(&proxy2, "p1")
	type res struct {
		s   string
		err error
	}
	done := make(chan res, 1)
	go func() {
		s, err := proxy2.Slow("new")
		done <- res{s, err}
	}()
	select {
	case tag := <-started:
		if tag != "new" {
			t.Fatalf("unexpected %s", tag)
		}
	case <-time.After(4 * time.Second):
		t.Fatal("the provider did not reconnect to the new service")
	}
	close(release["old"]) // the provider finishes the call of the OLD service now
	select {
	case r := <-done:
		if r.s != "answer-for-new" {
			t.Errorf("VIOLATION: the caller of slow(\"new\") on the restarted service received %q, err=%v", r.s, r.err)
		}
	case <-time.After(time.Second):
		t.Log("the new caller is still pending: no violation")
	}
	close(release["new"])
}

// The provider's poll "!" times out on the client side (Client.Timeout, default 30s) long
// before the service gives it an empty answer (Caller.IdleTimeout, default 2min). The service
// does not know: the abandoned poll's responder stays registered until the next poll arrives.
// A call published in between is handed to the abandoned poll, whose answer the client throws
// away (no pending call with that identifier): the call is lost though the provider is
// healthy, and its caller times out.
func TestHuntC09_ReverseCallHandedToAbandonedPollIsLost(t *testing.T) {
	caller, server, uri := huntReverseService(t, "127.0.0.1:0")
	defer server.Close()
	caller.Timeout = 2 * time.Second
	caller.IdleTimeout = 4 * time.Second // same 4:1 ratio as the defaults 2min : 30s

	client := rpc.NewClient(uri)
	client.Timeout = 1 * time.Second
	abandoned := make(chan struct{}, 16)
	// 150ms of one-way latency from the provider to the service; tells the test when a poll
	// has been given up by the provider's client
	client.Use(func(ctx context.Context, request []byte, next core.NextIOHandler) ([]byte, error) {
		time.Sleep(150 * time.Millisecond)
		response, err := next(ctx, request)
		if err != nil && strings.Contains(string(request), "\"!\"") {
			abandoned <- struct{}{}
		}
		return response, err
	})
	provider := reverse.NewProvider(client, "p1")
	provider.AddFunction(func(s string) string { return s }, "echo")
	go provider.Listen()
	defer provider.Close()

	var proxy huntReverseProxy
	caller.UseService(&proxy, "p1")
	time.Sleep(300 * time.Millisecond)
	if r, err := proxy.Echo("control"); r != "control" || err != nil {
		t.Fatalf("control call while a live poll is waiting: %q %v", r, err)
	}
	for len(abandoned) > 0 {
		<-abandoned
	}
	<-abandoned // the current poll has just timed out in the client; the next one is 150ms away
	start := time.Now()
	r, err := proxy.Echo("hello")
	if err != nil || r != "hello" {
		t.Errorf("VIOLATION: echo(\"hello\") to a healthy, polling provider returned %q, err=%v after %v", r, err, time.Since(start))
	}
}

// The mirror image of ReverseOneUnencodableResultLosesTheBatch: ONE queued call has an
// argument the serializer refuses. The answer to the provider's poll carries all queued calls:
// it can not be encoded, the calls have already been taken out of the queue, all are lost.
func TestHuntC09_ReverseOneUnencodableArgumentLosesTheBatch(t *testing.T) {
	caller, server, uri := huntReverseService(t, "127.0.0.1:0")
	defer server.Close()
	caller.Timeout = 3 * time.Second
	client := rpc.NewClient(uri)
	provider := reverse.NewProvider(client, "p1")
	provider.RetryInterval = 100 * time.Millisecond
	provider.AddFunction(func(s string) string { return s }, "echo")
	provider.AddFunction(func(tm time.Time) string { return tm.String() }, "when")
	var proxy struct {
		Echo func(s string) (string, error)
		When func(tm time.Time) (string, error)
	}
	caller.UseService(&proxy, "p1")
	const n = 8
	var wg sync.WaitGroup
	results := make([]string, n)
	errs := make([]error, n)
	for i := 0; i < n; i++ {
		wg.Add(1)
		go func(i int) {
			defer wg.Done()
			results[i], errs[i] = proxy.Echo(fmt.Sprintf("caller-%d", i))
		}(i)
	}
	wg.Add(1)
	go func() {
		defer wg.Done()
		_, err := proxy.When(time.Date(10000, 1, 1, 0, 0, 0, 0, time.UTC))
		t.Logf("when(year 10000) caller: err=%v", err)
	}()
	time.Sleep(200 * time.Millisecond)
	go provider.Listen()
	wg.Wait()
	provider.Close()
	bad := 0
	for i := 0; i < n; i++ {
		if errs[i] != nil || results[i] != fmt.Sprintf("caller-%d", i) {
			bad++
			if bad <= 2 {
				t.Logf("echo caller %d got result=%q err=%v", i, results[i], errs[i])
			}
		}
	}
	if bad > 0 {
		t.Errorf("VIOLATION: %d of %d echo callers never got their own answer because another queued call had an unencodable argument", bad, n)
	}
}

// A scripted provider (a plain client that polls with "!" and answers with "=").
func huntScriptedProvider(t *testing.T, uri string, answer func(index interface{}, name string, args []interface{}) []interface{}, prepend ...interface{}) error {
	client := rpc.NewClient(uri)
	client.RequestHeaders().Set("id", "p1")
	r, err := client.Invoke("!", nil)
	if err != nil {
		t.Fatalf("poll: %v", err)
	}
	answers := append([]interface{}{}, prepend...)
	for _, c := range r[0].([]interface{}) {
		cc := c.([]interface{})
		answers = append(answers, answer(cc[0], cc[1].(string), cc[2].([]interface{})))
	}
	_, err = client.Invoke("=", []interface{}{answers})
	return err
}

// An "=" batch that starts with an entry whose identifier is not an integer (it matches no
// pending call) is rejected as a whole: the valid answers behind it never reach their callers.
func TestHuntC09_ReverseStrayEntryDropsTheValidAnswers(t *testing.T) {
	caller, server, uri := huntReverseService(t, "127.0.0.1:0")
	defer server.Close()
	caller.Timeout = 2 * time.Second
	var proxy huntReverseProxy
	caller.UseService(&proxy, "p1")
	const n = 4
	var wg sync.WaitGroup
	results := make([]string, n)
	errs := make([]error, n)
	for i := 0; i < n; i++ {
		wg.Add(1)
		go func(i int) {
			defer wg.Done()
			results[i], errs[i] = proxy.Echo(fmt.Sprintf("caller-%d", i))
		}(i)
	}
	time.Sleep(200 * time.Millisecond)
	err := huntScriptedProvider(t, uri, func(index interface{}, name string, args []interface{}) []interface{} {
		return []interface{}{index, args[0], ""}
	}, []interface{}{3.5, "stray", ""})
	t.Logf("the \"=\" request of the provider: err=%v", err)
	wg.Wait()
	bad := 0
	for i := 0; i < n; i++ {
		if errs[i] != nil || results[i] != fmt.Sprintf("caller-%d", i) {
			bad++
			if bad <= 2 {
				t.Logf("caller %d got result=%q err=%v", i, results[i], errs[i])
			}
		}
	}
	if bad > 0 {
		t.Errorf("VIOLATION: a stray entry in the batch kept %d of %d valid answers from their callers", bad, n)
	}
}

// An answer that matches a pending call but is not shaped as the Go provider shapes it (null
// instead of "" for "no error"; one value where the caller's function type has two results)
// panics in the goroutine of the caller: InvokeContext type-asserts without checking. An
// unrecovered panic there ends the service process.
func TestHuntC09_ReverseOddAnswerPanicsInTheCaller(t *testing.T) {
	caller, server, uri := huntReverseService(t, "127.0.0.1:0")
	defer server.Close()
	caller.Timeout = 2 * time.Second
	var proxy struct {
		Echo func(s string) (string, error)
		Two  func(s string) (string, int, error)
	}
	caller.UseService(&proxy, "p1")
	done := make(chan string, 2)
	go func() {
		defer func() { done <- fmt.Sprintf("echo caller: panic=%v", recover()) }()
		r, err := proxy.Echo("a")
		t.Logf("echo: %q %v", r, err)
	}()
	go func() {
		defer func() { done <- fmt.Sprintf("two caller: panic=%v", recover()) }()
		r, n, err := proxy.Two("a")
		t.Logf("two: %q %v %v", r, n, err)
	}()
	time.Sleep(200 * time.Millisecond)
	err := huntScriptedProvider(t, uri, func(index interface{}, name string, args []interface{}) []interface{} {
		if name == "Echo" {
			return []interface{}{index, args[0], nil} // null error field
		}
		return []interface{}{index, args[0], ""} // one result, the caller expects two
	})
	if err != nil {
		t.Fatalf("end: %v", err)
	}
	for i := 0; i < 2; i++ {
		if s := <-done; !strings.HasSuffix(s, "panic=<nil>") {
			t.Errorf("VIOLATION: %s", s)
		}
	}
}
