// Copy into rpc/socket/ (package socket: a white-box test, it sets the unexported request
// counter of the connection to the value it has after 2^31 further calls; handler and
// transport are registered by the init() of socket_test.go in the same test binary).
//
//	cp _hunt/demo/hunt_c09_socket_internal_test.go rpc/socket/ && unshare -n sh -c 'ip link set lo up; go test -vet=off -count=1 -run TestHuntC09_TCPCounterWrap ./rpc/socket/' ; rm rpc/socket/hunt_c09_socket_internal_test.go
package socket

import (
	"net"
	"sync/atomic"
	"testing"
	"time"

	"github.com/hprose/hprose-golang/v3/rpc/core"
)

// The udp client was taught not to hand out the identifier of a pending call after the
// counter has gone round (storeIfFree); the socket (and websocket) client still stores
// blindly: after 2^31 calls the table entry of a call that is still pending is overwritten.
func TestHuntC09_TCPCounterWrapOverwritesPendingCall(t *testing.T) {
	release := map[string]chan struct{}{"A": make(chan struct{}), "B": make(chan struct{})}
	started := make(chan string, 2)
	service := core.NewService()
	service.AddFunction(func(tag string) string {
		started <- tag
		<-release[tag]
		return "answer-for-" + tag
	}, "slow")
	service.AddFunction(func() {}, "nop")
	server, err := net.Listen("tcp", "127.0.0.1:0")
	if err != nil {
		t.Fatal(err)
	}
	defer server.Close()
	if err = service.Bind(server); err != nil {
		t.Fatal(err)
	}
	client := core.NewClient("tcp://" + server.Addr().String() + "/")
	client.Timeout = 2 * time.Second
	var proxy struct {
		Slow func(tag string) (string, error)
		Nop  func() error
	}
	client.UseService(&proxy)
	if err := proxy.Nop(); err != nil {
		t.Fatal(err)
	}
	type res struct {
		s   string
		err error
	}
	doneA, doneB := make(chan res, 1), make(chan res, 1)
	go func() { s, err := proxy.Slow("A"); doneA <- res{s, err} }()
	<-started
	trans := client.GetTransport("socket").(*Transport)
	trans.lock.RLock()
	var c *conn
	for _, c = range trans.conns {
	}
	trans.lock.RUnlock()
	// 2^31 calls later: the counter has the same low 31 bits as just before call A
	k := atomic.LoadInt32(&c.counter)
	atomic.StoreInt32(&c.counter, int32(uint32(k-1)|0x80000000))
	go func() { s, err := proxy.Slow("B"); doneB <- res{s, err} }()
	<-started
	close(release["A"])
	select {
	case r := <-doneB:
		t.Errorf("VIOLATION: caller B received %q, err=%v (the answer to the pending call A whose table entry it overwrote)", r.s, r.err)
	case r := <-doneA:
		t.Logf("caller A received %q, err=%v", r.s, r.err)
	case <-time.After(time.Second):
	}
	close(release["B"])
	select {
	case r := <-doneA:
		if r.s != "answer-for-A" {
			t.Errorf("VIOLATION: caller A received %q, err=%v", r.s, r.err)
		}
	case <-time.After(3 * time.Second):
		t.Errorf("VIOLATION: caller A never returned")
	}
}
