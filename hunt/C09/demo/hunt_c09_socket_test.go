// Copy into rpc/socket/ (package socket_test; relies on the init() of socket_test.go that
// registers the socket handler and transport).
//
//	cp _hunt/demo/hunt_c09_socket_test.go rpc/socket/ && unshare -n sh -c 'ip link set lo up; go test -vet=off -count=1 -run TestHuntC09_ ./rpc/socket/' ; rm rpc/socket/hunt_c09_socket_test.go
package socket_test

import (
	"encoding/binary"
	"fmt"
	"hash/crc32"
	"io"
	"net"
	"os"
	"strings"
	"sync"
	"testing"
	"time"

	"github.com/hprose/hprose-golang/v3/rpc/core"
)

type huntEchoProxy struct {
	Echo    func(d time.Duration, s string) (string, error)
	BadTime func() (time.Time, error)
	Sink    func(s string) (int, error)
}

func huntService() *core.Service {
	service := core.NewService()
	service.AddFunction(func(d time.Duration, s string) string {
		time.Sleep(d)
		return s
	}, "echo")
	// a legal Go value the serializer refuses (year outside 0..9999): Codec.Encode returns an error
	service.AddFunction(func() time.Time { return time.Date(10000, 1, 1, 0, 0, 0, 0, time.UTC) }, "badTime")
	service.AddFunction(func(s string) int { return len(s) }, "sink")
	return service
}

func huntListen(t *testing.T, network, address string, service *core.Service) (net.Listener, string) {
	if network == "unix" {
		os.Remove(address)
	}
	server, err := net.Listen(network, address)
	if err != nil {
		t.Fatal(err)
	}
	if err = service.Bind(server); err != nil {
		t.Fatal(err)
	}
	time.Sleep(5 * time.Millisecond)
	if network == "unix" {
		return server, "unix://" + address
	}
	return server, "tcp://" + server.Addr().String() + "/"
}

// runs n pending echo calls on the one connection, then the poisoning call, and counts the
// echo callers that did not get their own answer.
func huntPoison(t *testing.T, proxy *huntEchoProxy, poison func() error) {
	if r, err := proxy.Echo(0, "warm"); r != "warm" || err != nil {
		t.Fatalf("warm up: %q %v", r, err)
	}
	const n = 16
	var wg sync.WaitGroup
	results := make([]string, n)
	errs := make([]error, n)
	for i := 0; i < n; i++ {
		wg.Add(1)
		go func(i int) {
			defer wg.Done()
			results[i], errs[i] = proxy.Echo(300*time.Millisecond, fmt.Sprintf("caller-%d", i))
		}(i)
	}
	time.Sleep(100 * time.Millisecond)
	t.Logf("the poisoning call itself: err=%v", poison())
	wg.Wait()
	bad := 0
	for i := 0; i < n; i++ {
		if errs[i] != nil || results[i] != fmt.Sprintf("caller-%d", i) {
			bad++
			if bad <= 2 {
				t.Logf("echo caller %d got result=%q err=%v", i, results[i], errs[i])
			}
		}
	}
	if bad > 0 {
		t.Errorf("VIOLATION: %d of %d echo callers did not get their own answer; they were handed the failure of another caller's call", bad, n)
	}
}

// The result of ONE call cannot be serialized. The handler answers that identifier with an
// error frame and closes; the client hands the text of that error to every pending caller.
func TestHuntC09_TCPUnencodableResultAnswersEveryCaller(t *testing.T) {
	server, uri := huntListen(t, "tcp", "127.0.0.1:0", huntService())
	defer server.Close()
	client := core.NewClient(uri)
	client.Timeout = 5 * time.Second
	var proxy huntEchoProxy
	client.UseService(&proxy)
	huntPoison(t, &proxy, func() error { _, err := proxy.BadTime(); return err })
}

func TestHuntC09_UnixUnencodableResultAnswersEveryCaller(t *testing.T) {
	server, uri := huntListen(t, "unix", "/tmp/hunt_c09.sock", huntService())
	defer server.Close()
	client := core.NewClient(uri)
	client.Timeout = 5 * time.Second
	var proxy huntEchoProxy
	client.UseService(&proxy)
	huntPoison(t, &proxy, func() error { _, err := proxy.BadTime(); return err })
}

// ONE request is longer than Service.MaxRequestLength: every other caller on the connection,
// whose request was small and already accepted, gets "Request entity too large".
func TestHuntC09_TCPOversizedRequestAnswersEveryCaller(t *testing.T) {
	service := huntService()
	service.MaxRequestLength = 1024
	server, uri := huntListen(t, "tcp", "127.0.0.1:0", service)
	defer server.Close()
	client := core.NewClient(uri)
	client.Timeout = 5 * time.Second
	var proxy huntEchoProxy
	client.UseService(&proxy)
	huntPoison(t, &proxy, func() error { _, err := proxy.Sink(strings.Repeat("x", 4096)); return err })
}

func huntFrame(index uint32, body []byte) []byte {
	frame := make([]byte, 12+len(body))
	binary.BigEndian.PutUint32(frame[4:], uint32(len(body))|0x80000000)
	binary.BigEndian.PutUint32(frame[8:], index)
	binary.BigEndian.PutUint32(frame[0:], crc32.ChecksumIEEE(frame[4:12]))
	copy(frame[12:], body)
	return frame
}

// Scripted peer: collects n requests, then (if stray) sends a frame for an identifier that was
// never issued, flagged as an error frame, then answers every request correctly in reverse
// order. Returns the number of callers that did not get their own answer.
func huntScriptedPeer(t *testing.T, stray bool) (bad int) {
	const n = 8
	listener, err := net.Listen("tcp", "127.0.0.1:0")
	if err != nil {
		t.Fatal(err)
	}
	defer listener.Close()
	go func() {
		conn, err := listener.Accept()
		if err != nil {
			return
		}
		defer conn.Close()
		type req struct {
			index uint32
			body  []byte
		}
		var reqs []req
		for len(reqs) < n {
			var header [12]byte
			if _, err := io.ReadFull(conn, header[:]); err != nil {
				return
			}
			length := binary.BigEndian.Uint32(header[4:]) & 0x7fffffff
			body := make([]byte, length)
			if _, err := io.ReadFull(conn, body); err != nil {
				return
			}
			reqs = append(reqs, req{binary.BigEndian.Uint32(header[8:]), body})
		}
		if stray {
			// identifier 0x00abcdef was never issued by this client
			conn.Write(huntFrame(0x80abcdef, []byte("stray")))
		}
		for i := len(reqs) - 1; i >= 0; i-- {
			// the request body is Cs3"say"a1{s8"caller-i"}z ; answer Rs8"caller-i"z
			b := string(reqs[i].body)
			s := b[strings.Index(b, "caller-"):strings.LastIndex(b, "\"")]
			conn.Write(huntFrame(reqs[i].index, []byte(fmt.Sprintf("Rs%d\"%s\"z", len(s), s))))
		}
		time.Sleep(500 * time.Millisecond)
	}()
	client := core.NewClient("tcp://" + listener.Addr().String() + "/")
	client.Timeout = 3 * time.Second
	var proxy struct {
		Say func(s string) (string, error)
	}
	client.UseService(&proxy)
	var wg sync.WaitGroup
	results := make([]string, n)
	errs := make([]error, n)
	for i := 0; i < n; i++ {
		wg.Add(1)
		go func(i int) {
			defer wg.Done()
			results[i], errs[i] = proxy.Say(fmt.Sprintf("caller-%d", i))
		}(i)
	}
	wg.Wait()
	for i := 0; i < n; i++ {
		if errs[i] != nil || results[i] != fmt.Sprintf("caller-%d", i) {
			bad++
			if bad <= 2 {
				t.Logf("stray=%v: caller %d got result=%q err=%v", stray, i, results[i], errs[i])
			}
		}
	}
	return bad
}

func TestHuntC09_TCPStrayErrorFrameFailsEveryCaller(t *testing.T) {
	if bad := huntScriptedPeer(t, false); bad != 0 {
		t.Fatalf("control run without the stray frame: %d callers failed, the scripted peer is broken", bad)
	}
	if bad := huntScriptedPeer(t, true); bad > 0 {
		t.Errorf("VIOLATION: a frame for an identifier that matches no pending call made %d of 8 callers fail", bad)
	}
}
