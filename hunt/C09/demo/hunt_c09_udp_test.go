// Copy into rpc/udp/ (package udp_test; relies on the init() of udp_test.go that registers
// the udp handler and transport).
//
//	cp _hunt/demo/hunt_c09_udp_test.go rpc/udp/ && unshare -n sh -c 'ip link set lo up; go test -vet=off -count=1 -run TestHuntC09_ ./rpc/udp/' ; rm rpc/udp/hunt_c09_udp_test.go
package udp_test

import (
	"context"
	"encoding/binary"
	"fmt"
	"hash/crc32"
	"net"
	"strings"
	"sync"
	"testing"
	"time"

	"github.com/hprose/hprose-golang/v3/rpc/core"
)

func huntUDPServer(t *testing.T, service *core.Service) (*net.UDPConn, string) {
	addr, err := net.ResolveUDPAddr("udp", "127.0.0.1:0")
	if err != nil {
		t.Fatal(err)
	}
	server, err := net.ListenUDP("udp", addr)
	if err != nil {
		t.Fatal(err)
	}
	if err = service.Bind(server); err != nil {
		t.Fatal(err)
	}
	time.Sleep(5 * time.Millisecond)
	return server, fmt.Sprintf("udp://127.0.0.1:%d/", server.LocalAddr().(*net.UDPAddr).Port)
}

// One call whose answer cannot be carried (response larger than a datagram) makes the
// server answer THAT identifier with an error frame. The client does not hand the error to
// the owner of the identifier: it tears the connection down and hands the error text to
// every pending caller.
func TestHuntC09_UDPOneFailedCallAnswersEveryCaller(t *testing.T) {
	service := core.NewService()
	service.AddFunction(func(d time.Duration, s string) string {
		time.Sleep(d)
		return s
	}, "echo")
	service.AddFunction(func() string { return strings.Repeat("x", 70000) }, "big")
	server, uri := huntUDPServer(t, service)
	defer server.Close()

	client := core.NewClient(uri)
	client.Timeout = 5 * time.Second
	var proxy struct {
		Echo func(d time.Duration, s string) (string, error)
		Big  func() (string, error)
	}
	client.UseService(&proxy)
	if r, err := proxy.Echo(0, "warm"); r != "warm" || err != nil {
		t.Fatalf("warm up: %q %v", r, err)
	}
	const n = 16
	var wg sync.WaitGroup
	results := make([]string, n)
	errs := make([]error, n)
	for i := 0; i < n; i++ {
		wg.Add(1)
		go func(i int) {
			defer wg.Done()
			results[i], errs[i] = proxy.Echo(300*time.Millisecond, fmt.Sprintf("caller-%d", i))
		}(i)
	}
	time.Sleep(100 * time.Millisecond) // the n echo calls are now pending on the one connection
	_, bigErr := proxy.Big()
	t.Logf("big(): err=%v", bigErr)
	wg.Wait()
	bad := 0
	for i := 0; i < n; i++ {
		if errs[i] != nil || results[i] != fmt.Sprintf("caller-%d", i) {
			bad++
			if bad <= 3 {
				t.Logf("echo caller %d got result=%q err=%v", i, results[i], errs[i])
			}
		}
	}
	if bad > 0 {
		t.Errorf("VIOLATION: %d of %d echo callers did not get their own answer; they were handed the failure of another caller's call (big)", bad, n)
	}
}

// A call times out on the client and frees its identifier; the 15-bit counter goes round;
// a new pending call gets the same identifier; the late answer to the FIRST call is then
// delivered to the SECOND caller.
func TestHuntC09_UDPLateAnswerAfterWrapGoesToNewCaller(t *testing.T) {
	releaseA := make(chan struct{})
	releaseB := make(chan struct{})
	service := core.NewService()
	service.AddFunction(func(tag string) string {
		switch tag {
		case "A":
			<-releaseA
		case "B":
			<-releaseB
		}
		return "answer-for-" + tag
	}, "slow")
	service.AddFunction(func(i int) int { return i }, "id")
	server, uri := huntUDPServer(t, service)
	defer server.Close()
	defer func() {
		select {
		case <-releaseB:
		default:
			close(releaseB)
		}
	}()

	client := core.NewClient(uri)
	client.Timeout = 10 * time.Second
	var proxy struct {
		Slow func(ctx context.Context, tag string) (string, error)
		ID   func(i int) (int, error)
	}
	client.UseService(&proxy)

	// call A: gives up after 100ms, the server is still working on it
	cc := core.NewClientContext()
	cc.Timeout = 100 * time.Millisecond
	_, err := proxy.Slow(core.WithContext(context.Background(), cc), "A")
	if !core.IsTimeoutError(err) && err != context.DeadlineExceeded {
		t.Fatalf("call A: expected a timeout, got %v", err)
	}
	// 32767 other calls come and go (sequentially: no datagram loss on loopback)
	for i := 0; i < 0x7fff; i++ {
		r, err := proxy.ID(i)
		if err != nil || r != i {
			t.Fatalf("filler call %d: %d %v", i, r, err)
		}
	}
	// call B is pending now, with A's identifier
	type res struct {
		s   string
		err error
	}
	done := make(chan res, 1)
	go func() {
		s, err := proxy.Slow(context.Background(), "B")
		done <- res{s, err}
	}()
	time.Sleep(200 * time.Millisecond)
	close(releaseA) // the server at last answers A
	select {
	case r := <-done:
		if r.s != "answer-for-B" {
			t.Errorf("VIOLATION: caller B received %q, err=%v (the late answer to the timed-out call A)", r.s, r.err)
		}
	case <-time.After(2 * time.Second):
		t.Log("caller B is still pending after A's late answer: no violation")
	}
}

func huntUDPFrame(index uint16, body []byte) []byte {
	frame := make([]byte, 8+len(body))
	binary.BigEndian.PutUint16(frame[4:], uint16(len(body)))
	binary.BigEndian.PutUint16(frame[6:], index)
	binary.BigEndian.PutUint32(frame[0:], crc32.ChecksumIEEE(frame[4:8]))
	copy(frame[8:], body)
	return frame
}

// Scripted udp peer: collects n requests, sends the datagram `stray` (if any), then answers
// every request correctly in reverse order. Returns the number of callers without their answer.
func huntUDPScriptedPeer(t *testing.T, stray []byte) (bad int) {
	const n = 8
	addr, _ := net.ResolveUDPAddr("udp", "127.0.0.1:0")
	server, err := net.ListenUDP("udp", addr)
	if err != nil {
		t.Fatal(err)
	}
	defer server.Close()
	go func() {
		type req struct {
			index uint16
			body  string
			from  *net.UDPAddr
		}
		var reqs []req
		var buffer [65507]byte
		for len(reqs) < n {
			m, from, err := server.ReadFromUDP(buffer[:])
			if err != nil {
				return
			}
			reqs = append(reqs, req{binary.BigEndian.Uint16(buffer[6:]), string(buffer[8:m]), from})
		}
		if stray != nil {
			server.WriteToUDP(stray, reqs[0].from)
		}
		for i := len(reqs) - 1; i >= 0; i-- {
			b := reqs[i].body
			s := b[strings.Index(b, "caller-"):strings.LastIndex(b, "\"")]
			server.WriteToUDP(huntUDPFrame(reqs[i].index, []byte(fmt.Sprintf("Rs%d\"%s\"z", len(s), s))), reqs[i].from)
		}
	}()
	client := core.NewClient(fmt.Sprintf("udp://127.0.0.1:%d/", server.LocalAddr().(*net.UDPAddr).Port))
	client.Timeout = 2 * time.Second
	var proxy struct {
		Say func(s string) (string, error)
	}
	client.UseService(&proxy)
	var wg sync.WaitGroup
	results := make([]string, n)
	errs := make([]error, n)
	for i := 0; i < n; i++ {
		wg.Add(1)
		go func(i int) {
			defer wg.Done()
			results[i], errs[i] = proxy.Say(fmt.Sprintf("caller-%d", i))
		}(i)
	}
	wg.Wait()
	for i := 0; i < n; i++ {
		if errs[i] != nil || results[i] != fmt.Sprintf("caller-%d", i) {
			bad++
			if bad <= 2 {
				t.Logf("caller %d got result=%q err=%v", i, results[i], errs[i])
			}
		}
	}
	return bad
}

// "A response whose identifier matches no pending call ... is discarded without affecting any
// caller": an error-flagged datagram for an identifier never issued, or a datagram too short
// to carry an identifier at all, fails every pending caller.
func TestHuntC09_UDPStrayDatagramFailsEveryCaller(t *testing.T) {
	if bad := huntUDPScriptedPeer(t, nil); bad != 0 {
		t.Fatalf("control run without a stray datagram: %d callers failed, the scripted peer is broken", bad)
	}
	if bad := huntUDPScriptedPeer(t, huntUDPFrame(0x8000|0x7abc, []byte("stray"))); bad > 0 {
		t.Errorf("VIOLATION: an error-flagged datagram for identifier 0x7abc, which matches no pending call, made %d of 8 callers fail", bad)
	}
	if bad := huntUDPScriptedPeer(t, []byte{1, 2, 3}); bad > 0 {
		t.Errorf("VIOLATION: a stray 3-byte datagram made %d of 8 callers fail", bad)
	}
}
