// Copy into rpc/websocket/ (package websocket_test; relies on the init() of websocket_test.go
// that registers the websocket handler and transport).
//
//	cp _hunt/demo/hunt_c09_websocket_test.go rpc/websocket/ && unshare -n sh -c 'ip link set lo up; go test -vet=off -count=1 -run TestHuntC09_ ./rpc/websocket/' ; rm rpc/websocket/hunt_c09_websocket_test.go
package websocket_test

import (
	"fmt"
	"net"
	"net/http"
	"strings"
	"sync"
	"testing"
	"time"

	"github.com/hprose/hprose-golang/v3/rpc/core"
)

type huntWSProxy struct {
	Echo    func(d time.Duration, s string) (string, error)
	BadTime func() (time.Time, error)
	Sink    func(s string) (int, error)
}

func huntWSServer(t *testing.T, maxRequestLength int) (*http.Server, string) {
	service := core.NewService()
	if maxRequestLength > 0 {
		service.MaxRequestLength = maxRequestLength
	}
	service.AddFunction(func(d time.Duration, s string) string {
		time.Sleep(d)
		return s
	}, "echo")
	service.AddFunction(func() time.Time { return time.Date(10000, 1, 1, 0, 0, 0, 0, time.UTC) }, "badTime")
	service.AddFunction(func(s string) int { return len(s) }, "sink")
	listener, err := net.Listen("tcp", "127.0.0.1:0")
	if err != nil {
		t.Fatal(err)
	}
	server := &http.Server{}
	if err = service.Bind(server); err != nil {
		t.Fatal(err)
	}
	go server.Serve(listener)
	time.Sleep(5 * time.Millisecond)
	return server, "ws://" + listener.Addr().String() + "/"
}

func huntWSPoison(t *testing.T, proxy *huntWSProxy, poison func() error) {
	if r, err := proxy.Echo(0, "warm"); r != "warm" || err != nil {
		t.Fatalf("warm up: %q %v", r, err)
	}
	const n = 16
	var wg sync.WaitGroup
	results := make([]string, n)
	errs := make([]error, n)
	for i := 0; i < n; i++ {
		wg.Add(1)
		go func(i int) {
			defer wg.Done()
			results[i], errs[i] = proxy.Echo(300*time.Millisecond, fmt.Sprintf("caller-%d", i))
		}(i)
	}
	time.Sleep(100 * time.Millisecond)
	t.Logf("the poisoning call itself: err=%v", poison())
	wg.Wait()
	bad := 0
	for i := 0; i < n; i++ {
		if errs[i] != nil || results[i] != fmt.Sprintf("caller-%d", i) {
			bad++
			if bad <= 2 {
				t.Logf("echo caller %d got result=%q err=%v", i, results[i], errs[i])
			}
		}
	}
	if bad > 0 {
		t.Errorf("VIOLATION: %d of %d echo callers did not get their own answer; they were handed the failure of another caller's call", bad, n)
	}
}

func TestHuntC09_WSUnencodableResultAnswersEveryCaller(t *testing.T) {
	server, uri := huntWSServer(t, 0)
	defer server.Close()
	client := core.NewClient(uri)
	client.Timeout = 5 * time.Second
	var proxy huntWSProxy
	client.UseService(&proxy)
	huntWSPoison(t, &proxy, func() error { _, err := proxy.BadTime(); return err })
}

func TestHuntC09_WSOversizedRequestAnswersEveryCaller(t *testing.T) {
	server, uri := huntWSServer(t, 1024)
	defer server.Close()
	client := core.NewClient(uri)
	client.Timeout = 5 * time.Second
	var proxy huntWSProxy
	client.UseService(&proxy)
	huntWSPoison(t, &proxy, func() error { _, err := proxy.Sink(strings.Repeat("x", 4096)); return err })
}
