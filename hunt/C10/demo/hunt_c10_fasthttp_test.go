// Copy this file into the package directory rpc/http/fasthttp/ (package fasthttp_test).
//
//   cp _hunt/demo/hunt_c10_fasthttp_test.go rpc/http/fasthttp/hunt_c10_fasthttp_test.go && \
//   unshare -n sh -c 'ip link set lo up; go test -vet=off -count=1 -v -run TestHuntC10_ ./rpc/http/fasthttp/' ; \
//   rm rpc/http/fasthttp/hunt_c10_fasthttp_test.go
//
// (the package's own test file registers the fasthttp transport for http:// in its init)

package fasthttp_test

import (
	"context"
	"fmt"
	"io"
	"io/ioutil"
	"net"
	"os"
	"os/exec"
	"runtime"
	"strings"
	"sync"
	"testing"
	"time"

	"github.com/hprose/hprose-golang/v3/rpc/core"
)

// a peer that accepts, reads the request and falls silent
type huntSilentServer struct {
	l     net.Listener
	lock  sync.Mutex
	conns []net.Conn
}

func newHuntSilentServer(t *testing.T) *huntSilentServer {
	l, err := net.Listen("tcp", "127.0.0.1:0")
	if err != nil {
		t.Fatal(err)
	}
	s := &huntSilentServer{l: l}
	go func() {
		for {
			c, err := l.Accept()
			if err != nil {
				return
			}
			s.lock.Lock()
			s.conns = append(s.conns, c)
			s.lock.Unlock()
			go func() { _, _ = io.Copy(ioutil.Discard, c) }()
		}
	}()
	return s
}

func (s *huntSilentServer) URL() string { return "http://" + s.l.Addr().String() + "/" }

func (s *huntSilentServer) Close() {
	s.l.Close()
	s.lock.Lock()
	for _, c := range s.conns {
		c.Close()
	}
	s.lock.Unlock()
}

// Abort while a call is pending: the call must end promptly; with fasthttp it ends at its deadline.
func TestHuntC10_FastHTTPAbortIgnored(t *testing.T) {
	s := newHuntSilentServer(t)
	defer s.Close()
	client := core.NewClient(s.URL())
	client.Timeout = 3 * time.Second
	done := make(chan error, 1)
	start := time.Now()
	go func() {
		_, err := client.Invoke("hello", []interface{}{"x"})
		done <- err
	}()
	time.Sleep(200 * time.Millisecond)
	client.Abort()
	aborted := time.Now()
	err := <-done
	t.Logf("call returned %v after Abort (%v after its start): err=%v", time.Since(aborted), time.Since(start), err)
	if time.Since(aborted) > time.Second {
		t.Errorf("VIOLATION: Abort did not end the pending fasthttp call; it returned %v after Abort, at its 3s deadline", time.Since(aborted))
	}
}

// Cancellation of the caller's context, no client timeout: the call must return on cancellation.
func TestHuntC10_FastHTTPCancelIgnoredNoTimeout(t *testing.T) {
	s := newHuntSilentServer(t)
	client := core.NewClient(s.URL())
	client.Timeout = 0 // none
	ctx, cancel := context.WithCancel(context.Background())
	done := make(chan error, 4)
	before := runtime.NumGoroutine()
	for i := 0; i < 4; i++ {
		go func() {
			_, err := client.InvokeContext(ctx, "hello", []interface{}{"x"})
			done <- err
		}()
	}
	time.Sleep(200 * time.Millisecond)
	cancel()
	select {
	case err := <-done:
		t.Logf("returned after cancel: %v", err)
	case <-time.After(2 * time.Second):
		t.Errorf("VIOLATION: 2s after their context was cancelled the 4 calls are still pending (goroutines %d -> %d)", before, runtime.NumGoroutine())
		client.Abort()
		select {
		case err := <-done:
			t.Logf("returned after Abort: %v", err)
		case <-time.After(2 * time.Second):
			t.Errorf("VIOLATION: 2s after Client.Abort() they are still pending; only the peer can end them")
		}
	}
	s.Close() // the peer closes: now they end
	for i := 0; i < 4; i++ {
		select {
		case err := <-done:
			t.Logf("a call ended when the peer closed: %v", err)
		case <-time.After(2 * time.Second):
		}
	}
}

// A cancelled context with a client timeout: the call returns at the deadline, not at the cancellation.
func TestHuntC10_FastHTTPCancelWaitsForDeadline(t *testing.T) {
	s := newHuntSilentServer(t)
	defer s.Close()
	client := core.NewClient(s.URL())
	client.Timeout = 3 * time.Second
	ctx, cancel := context.WithCancel(context.Background())
	go func() { time.Sleep(200 * time.Millisecond); cancel() }()
	start := time.Now()
	_, err := client.InvokeContext(ctx, "hello", []interface{}{"x"})
	t.Logf("returned after %v: %v", time.Since(start), err)
	if time.Since(start) > 1200*time.Millisecond {
		t.Errorf("VIOLATION: the context was cancelled after 200ms, the call returned after %v", time.Since(start))
	}
}

// An enormous Content-Length with the fasthttp transport.
func TestHuntC10_FastHTTPHugeContentLength(t *testing.T) {
	if os.Getenv("HUNT_C10_CHILD") == "fasthttpoom" {
		l, err := net.Listen("tcp", "127.0.0.1:0")
		if err != nil {
			fmt.Println(err)
			os.Exit(0)
		}
		go func() {
			for {
				c, err := l.Accept()
				if err != nil {
					return
				}
				go func() {
					buf := make([]byte, 65536)
					_, _ = c.Read(buf)
					_, _ = c.Write([]byte("HTTP/1.1 200 OK\r\nContent-Length: " + os.Getenv("HUNT_C10_CL") + "\r\n\r\nRs5\"hello\"z"))
					time.Sleep(300 * time.Millisecond)
					c.Close()
				}()
			}
		}()
		client := core.NewClient("http://" + l.Addr().String() + "/")
		client.Timeout = time.Second
		var p interface{}
		func() {
			defer func() { p = recover() }()
			result, err := client.Invoke("hello", []interface{}{"x"})
			fmt.Printf("result=%v err=%v\n", result, err)
		}()
		fmt.Printf("CHILD-SURVIVED panic=%v\n", p)
		os.Exit(0)
	}
	for _, cl := range []string{"9223372036854775807", "281474976710656", "4611686018427387904"} {
		cmd := exec.Command(os.Args[0], "-test.run", "^TestHuntC10_FastHTTPHugeContentLength$")
		cmd.Env = append(os.Environ(), "HUNT_C10_CHILD=fasthttpoom", "HUNT_C10_CL="+cl)
		outBytes, err := cmd.CombinedOutput()
		output := string(outBytes)
		first := output
		if len(first) > 400 {
			first = first[:400]
		}
		t.Logf("Content-Length %s: child exit: %v\nchild output (head):\n%s", cl, err, first)
		if !strings.Contains(output, "CHILD-SURVIVED panic=<nil>") {
			t.Errorf("VIOLATION: Content-Length %s: the call did not end with a response or an error", cl)
		}
	}
}
