// Copy this file into the package directory rpc/ (package rpc_test).
//
//   cp _hunt/demo/hunt_c10_rpc_test.go rpc/hunt_c10_rpc_test.go && \
//   unshare -n sh -c 'ip link set lo up; go test -vet=off -count=1 -v -run TestHuntC10_ ./rpc/' ; \
//   rm rpc/hunt_c10_rpc_test.go
//
// Every test talks to listeners on 127.0.0.1 with kernel-chosen ports.

package rpc_test

import (
	"context"
	"fmt"
	"hash/crc32"
	nethttp "net/http"
	"net/url"
	"io"
	"io/ioutil"
	"net"
	"os"
	"os/exec"
	"reflect"
	"runtime"
	"strings"
	"sync/atomic"
	"syscall"
	"testing"
	"time"

	"github.com/hprose/hprose-golang/v3/rpc"
	"github.com/hprose/hprose-golang/v3/rpc/core"
	"github.com/hprose/hprose-golang/v3/rpc/plugins/reverse"
	"github.com/hprose/hprose-golang/v3/rpc/plugins/timeout"
)

// ---------------------------------------------------------------------------
// helpers

func huntHealthyTCP(t *testing.T) (uri string, stop func()) {
	service := rpc.NewService()
	service.AddFunction(func(name string) string { return "hello " + name }, "hello")
	l, err := net.Listen("tcp", "127.0.0.1:0")
	if err != nil {
		t.Fatal(err)
	}
	if err := service.Bind(l); err != nil {
		t.Fatal(err)
	}
	return "tcp://" + l.Addr().String() + "/", func() { l.Close() }
}

// huntBlackholeTCP returns the address of a listening socket whose accept queue is full:
// the kernel drops further SYNs, so a connect() to it neither succeeds nor fails, exactly
// like a host behind a packet filter that drops.
func huntBlackholeTCP(t *testing.T) (addr string, stop func()) {
	fd, err := syscall.Socket(syscall.AF_INET, syscall.SOCK_STREAM, 0)
	if err != nil {
		t.Fatal(err)
	}
	if err = syscall.Bind(fd, &syscall.SockaddrInet4{Port: 0, Addr: [4]byte{127, 0, 0, 1}}); err != nil {
		t.Fatal(err)
	}
	if err = syscall.Listen(fd, 0); err != nil {
		t.Fatal(err)
	}
	sa, _ := syscall.Getsockname(fd)
	addr = fmt.Sprintf("127.0.0.1:%d", sa.(*syscall.SockaddrInet4).Port)
	var fill []net.Conn
	for i := 0; i < 16; i++ {
		c, err := net.DialTimeout("tcp", addr, 300*time.Millisecond)
		if err != nil {
			break // the queue is full now
		}
		fill = append(fill, c)
	}
	if len(fill) == 16 {
		t.Skip("could not fill the accept queue on this kernel")
	}
	return addr, func() {
		for _, c := range fill {
			c.Close()
		}
		syscall.Close(fd)
	}
}

// huntSilentTCP accepts connections, reads and throws away what arrives, never answers.
func huntSilentTCP(t *testing.T) (addr string, accepted *int32, stop func()) {
	l, err := net.Listen("tcp", "127.0.0.1:0")
	if err != nil {
		t.Fatal(err)
	}
	accepted = new(int32)
	go func() {
		for {
			c, err := l.Accept()
			if err != nil {
				return
			}
			atomic.AddInt32(accepted, 1)
			go func() { _, _ = io.Copy(ioutil.Discard, c) }()
		}
	}()
	return l.Addr().String(), accepted, func() { l.Close() }
}

// routeByName sends the calls named "slow" to another URL, as a load balancer plugin would.
func routeByName(other string) core.InvokeHandler {
	u, _ := url.Parse(other)
	return func(ctx context.Context, name string, args []interface{}, next core.NextInvokeHandler) ([]interface{}, error) {
		if name == "slow" {
			core.GetClientContext(ctx).URL = u
		}
		return next(ctx, name, args)
	}
}

// ---------------------------------------------------------------------------
// 1. A call to a connected, healthy server waits for another call's dial, past its own timeout.

func huntDialUnderLock(t *testing.T, healthy string, slowURL string, transportName string) {
	client := rpc.NewClient(healthy)
	client.Use(routeByName(slowURL))
	client.Timeout = 300 * time.Millisecond
	// the connection to the healthy server is established and pooled
	if _, err := client.Invoke("hello", []interface{}{"warm"}); err != nil {
		t.Fatalf("warm-up call failed: %v", err)
	}
	// call A: to the server that does not complete the connection; it may take 4 seconds
	doneA := make(chan struct{})
	go func() {
		defer close(doneA)
		cc := core.NewClientContext()
		cc.Timeout = 4 * time.Second
		_, _ = client.InvokeContext(core.WithContext(context.Background(), cc), "slow", nil)
	}()
	time.Sleep(300 * time.Millisecond)
	// call B: to the healthy server, whose connection is in the pool; timeout 300ms
	start := time.Now()
	result, err := client.Invoke("hello", []interface{}{"B"})
	elapsed := time.Since(start)
	t.Logf("[%s] call B (timeout 300ms, pooled healthy connection) returned after %v: result=%v err=%v", transportName, elapsed, result, err)
	if elapsed > time.Second {
		t.Errorf("VIOLATION: [%s] a call with a 300ms timeout to a connected server returned after %v: it waited for the dial of another call to another server", transportName, elapsed)
	}
	client.Abort()
	<-doneA
}

func TestHuntC10_DialUnderPoolLock_Socket(t *testing.T) {
	healthy, stop := huntHealthyTCP(t)
	defer stop()
	black, stopBlack := huntBlackholeTCP(t)
	defer stopBlack()
	huntDialUnderLock(t, healthy, "tcp://"+black+"/", "socket")
}

func TestHuntC10_DialUnderPoolLock_WebSocket(t *testing.T) {
	// healthy websocket service
	service := rpc.NewService()
	service.AddFunction(func(name string) string { return "hello " + name }, "hello")
	l, err := net.Listen("tcp", "127.0.0.1:0")
	if err != nil {
		t.Fatal(err)
	}
	defer l.Close()
	server := &nethttp.Server{Handler: rpc.WebSocketHandler(service)}
	go server.Serve(l)
	defer server.Close()
	// a peer that accepts the TCP connection and never answers the upgrade request
	silent, _, stopSilent := huntSilentTCP(t)
	defer stopSilent()
	huntDialUnderLock(t, "ws://"+l.Addr().String()+"/", "ws://"+silent+"/", "websocket")
}

// 1b. The same lock delays the report of a lost connection: the receive loop that notices the
//     loss must take the pool lock (onExit) before it fails the pending calls (Close).
func TestHuntC10_ConnectionLossNotReportedDuringDial(t *testing.T) {
	service := rpc.NewService()
	service.AddFunction(func() string { time.Sleep(10 * time.Second); return "late" }, "sleep")
	l, err := net.Listen("tcp", "127.0.0.1:0")
	if err != nil {
		t.Fatal(err)
	}
	defer l.Close()
	conns := make(chan net.Conn, 16)
	go func() {
		for {
			c, err := l.Accept()
			if err != nil {
				return
			}
			conns <- c
			go rpc.SocketHandler(service).Serve(context.Background(), c)
		}
	}()
	black, stopBlack := huntBlackholeTCP(t)
	defer stopBlack()
	client := rpc.NewClient("tcp://" + l.Addr().String() + "/")
	client.Use(routeByName("tcp://" + black + "/"))
	client.Timeout = 0 // none: only the loss of the connection can end call C
	type res struct {
		err error
		at  time.Time
	}
	doneC := make(chan res, 1)
	go func() {
		_, err := client.Invoke("sleep", nil)
		doneC <- res{err, time.Now()}
	}()
	serverSide := <-conns // call C is on its way
	time.Sleep(100 * time.Millisecond)
	doneA := make(chan struct{})
	go func() {
		defer close(doneA)
		cc := core.NewClientContext()
		cc.Timeout = 3 * time.Second
		_, _ = client.InvokeContext(core.WithContext(context.Background(), cc), "slow", nil)
	}()
	time.Sleep(200 * time.Millisecond)
	lost := time.Now()
	serverSide.Close() // the connection of call C is lost now
	select {
	case r := <-doneC:
		t.Logf("call C returned %v after its connection was closed by the peer: err=%v", r.at.Sub(lost), r.err)
		if r.at.Sub(lost) > time.Second {
			t.Errorf("VIOLATION: the pending call was failed %v after its connection was lost (it had to wait for the dial of another call)", r.at.Sub(lost))
		}
	case <-time.After(8 * time.Second):
		t.Errorf("VIOLATION: the pending call did not return within 8s of the loss of its connection")
	}
	client.Abort()
	<-doneA
}

// ---------------------------------------------------------------------------
// 2. A connection whose peer has fallen silent stays in the pool after the timeout:
//    every later call is sent into it and times out, although a new connection would be served.

func TestHuntC10_SilentConnectionNeverEvicted(t *testing.T) {
	service := rpc.NewService()
	service.AddFunction(func(name string) string { return "hello " + name }, "hello")
	l, err := net.Listen("tcp", "127.0.0.1:0")
	if err != nil {
		t.Fatal(err)
	}
	defer l.Close()
	var accepted int32
	go func() {
		for {
			c, err := l.Accept()
			if err != nil {
				return
			}
			if atomic.AddInt32(&accepted, 1) == 1 {
				// the first connection is the one that falls silent (a hung worker, a
				// middlebox that lost its state): bytes are taken, nothing comes back
				go func() { _, _ = io.Copy(ioutil.Discard, c) }()
				continue
			}
			// every other connection is served properly
			go rpc.SocketHandler(service).Serve(context.Background(), c)
		}
	}()
	client := rpc.NewClient("tcp://" + l.Addr().String() + "/")
	client.Timeout = 200 * time.Millisecond
	_, err = client.Invoke("hello", []interface{}{"1"})
	t.Logf("call 1 (peer silent): err=%v", err)
	if err == nil {
		t.Fatal("call 1 should have timed out")
	}
	failures := 0
	for i := 2; i <= 6; i++ {
		result, err := client.Invoke("hello", []interface{}{fmt.Sprint(i)})
		t.Logf("call %d: result=%v err=%v (connections accepted so far: %d)", i, result, err, atomic.LoadInt32(&accepted))
		if err != nil {
			failures++
		}
	}
	if failures > 0 {
		t.Errorf("VIOLATION: after the timeout %d of 5 later calls failed too; the client opened %d connection(s): the silent connection stays pooled and later calls never open a new one although the server serves new connections", failures, atomic.LoadInt32(&accepted))
	}
	client.Abort()
}

// ---------------------------------------------------------------------------
// 3. reverse.Caller.InvokeContext without a Timeout ignores the context.

func TestHuntC10_ReverseInvokeIgnoresContext(t *testing.T) {
	service := rpc.NewService()
	caller := reverse.NewCaller(service)
	caller.Timeout = 0 // "client timeout settings (including none)"
	ctx, cancel := context.WithTimeout(context.Background(), 200*time.Millisecond)
	defer cancel()
	done := make(chan error, 1)
	before := runtime.NumGoroutine()
	for i := 0; i < 10; i++ {
		go func() {
			_, err := caller.InvokeContext(ctx, "nobody", "hello", []interface{}{"x"}, reflect.TypeOf(""))
			done <- err
		}()
	}
	select {
	case err := <-done:
		t.Logf("returned: %v", err)
	case <-time.After(2 * time.Second):
		t.Errorf("VIOLATION: 10 reverse calls whose context expired 1.8s ago are all still pending (goroutines before=%d now=%d): InvokeContext ignores ctx when Caller.Timeout is 0", before, runtime.NumGoroutine())
	}
}

// With a Timeout the context is obeyed, but the answer is ErrTimeout rather than the context's error.
func TestHuntC10_ReverseInvokeCancelReportsTimeout(t *testing.T) {
	service := rpc.NewService()
	caller := reverse.NewCaller(service)
	caller.Timeout = 5 * time.Second
	ctx, cancel := context.WithCancel(context.Background())
	go func() { time.Sleep(100 * time.Millisecond); cancel() }()
	_, err := caller.InvokeContext(ctx, "nobody", "hello", []interface{}{"x"}, reflect.TypeOf(""))
	t.Logf("cancelled reverse call returned: %v", err)
	if err != context.Canceled {
		t.Logf("note (minor): a cancelled reverse call reports %q, not context.Canceled", err)
	}
}

// ---------------------------------------------------------------------------
// 4. A provider's malformed answer makes Caller.Invoke panic in the invoking goroutine.

func TestHuntC10_ReverseMalformedAnswerPanicsCaller(t *testing.T) {
	service := rpc.NewService()
	caller := reverse.NewCaller(service)
	caller.Timeout = 3 * time.Second
	uri, stop := func() (string, func()) {
		l, err := net.Listen("tcp", "127.0.0.1:0")
		if err != nil {
			t.Fatal(err)
		}
		if err := service.Bind(l); err != nil {
			t.Fatal(err)
		}
		return "tcp://" + l.Addr().String() + "/", func() { l.Close() }
	}()
	defer stop()

	type outcome struct {
		result []interface{}
		err    error
		panic  interface{}
	}
	out := make(chan outcome, 1)
	go func() {
		var o outcome
		defer func() {
			o.panic = recover()
			out <- o
		}()
		o.result, o.err = caller.Invoke("p1", "hello", []interface{}{"x"}, reflect.TypeOf(""))
	}()

	// the "provider": an ordinary client that polls with "!" and answers with "="
	provider := rpc.NewClient(uri)
	provider.RequestHeaders().Set("id", "p1")
	defer provider.Abort()
	calls, err := provider.Invoke("!", nil)
	if err != nil {
		t.Fatalf("poll failed: %v", err)
	}
	t.Logf("provider polled: %v", calls)
	// answer call 1 with an error field that is a number instead of a string
	_, err = provider.Invoke("=", []interface{}{[]interface{}{[]interface{}{1, "r", 5}}})
	t.Logf("provider answered, err=%v", err)
	o := <-out
	t.Logf("caller.Invoke outcome: result=%v err=%v panic=%v", o.result, o.err, o.panic)
	if o.panic != nil {
		t.Errorf("VIOLATION: the reverse call neither returned a response nor an error, it panicked in the invoking goroutine: %v", o.panic)
	}
}

// ---------------------------------------------------------------------------
// 5. Under the ExecuteTimeout plugin a panicking service function kills the process.

func TestHuntC10_ExecuteTimeoutPanicKillsProcess(t *testing.T) {
	if os.Getenv("HUNT_C10_CHILD") == "exectimeout" {
		service := rpc.NewService()
		service.Use(timeout.New(time.Second).Handler)
		service.AddFunction(func() string { panic("boom") }, "boom")
		l, err := net.Listen("tcp", "127.0.0.1:0")
		if err != nil {
			fmt.Println("listen:", err)
			os.Exit(0)
		}
		_ = service.Bind(l)
		client := rpc.NewClient("tcp://" + l.Addr().String() + "/")
		client.Timeout = time.Second
		result, err := client.Invoke("boom", nil)
		fmt.Printf("CHILD-SURVIVED result=%v err=%v\n", result, err)
		os.Exit(0)
	}
	cmd := exec.Command(os.Args[0], "-test.run", "^TestHuntC10_ExecuteTimeoutPanicKillsProcess$")
	cmd.Env = append(os.Environ(), "HUNT_C10_CHILD=exectimeout")
	outBytes, err := cmd.CombinedOutput()
	output := string(outBytes)
	first := output
	if len(first) > 600 {
		first = first[:600]
	}
	t.Logf("child exit: %v\nchild output (head):\n%s", err, first)
	if !strings.Contains(output, "CHILD-SURVIVED") {
		t.Errorf("VIOLATION: the process (server and client) died: a panic in a service function is not contained when the ExecuteTimeout plugin is in use")
	}
}

// without the plugin the same function fails only its call (control)
func TestHuntC10_ExecuteTimeoutPanicControl(t *testing.T) {
	service := rpc.NewService()
	service.AddFunction(func() string { panic("boom") }, "boom")
	l, err := net.Listen("tcp", "127.0.0.1:0")
	if err != nil {
		t.Fatal(err)
	}
	defer l.Close()
	_ = service.Bind(l)
	client := rpc.NewClient("tcp://" + l.Addr().String() + "/")
	client.Timeout = time.Second
	_, err = client.Invoke("boom", nil)
	t.Logf("control (no plugin): err=%v", err)
	client.Abort()
}

// ---------------------------------------------------------------------------
// 6. net/http transport: a response with an enormous Content-Length panics the caller.

func huntRawHTTP(t *testing.T, response string) (addr string, stop func()) {
	l, err := net.Listen("tcp", "127.0.0.1:0")
	if err != nil {
		t.Fatal(err)
	}
	go func() {
		for {
			c, err := l.Accept()
			if err != nil {
				return
			}
			go func() {
				buf := make([]byte, 65536)
				_, _ = c.Read(buf)
				_, _ = c.Write([]byte(response))
				time.Sleep(500 * time.Millisecond)
				c.Close()
			}()
		}
	}()
	return l.Addr().String(), func() { l.Close() }
}

func TestHuntC10_HTTPHugeContentLengthPanics(t *testing.T) {
	addr, stop := huntRawHTTP(t, "HTTP/1.1 200 OK\r\nContent-Length: 9223372036854775807\r\n\r\nRs5\"hello\"z")
	defer stop()
	client := rpc.NewClient("http://" + addr + "/")
	client.Timeout = time.Second
	var (
		result []interface{}
		err    error
		p      interface{}
	)
	func() {
		defer func() { p = recover() }()
		result, err = client.Invoke("hello", []interface{}{"x"})
	}()
	t.Logf("result=%v err=%v panic=%v", result, err, p)
	if p != nil {
		t.Errorf("VIOLATION: an oversized frame (Content-Length: 9223372036854775807) makes the call panic in the caller's goroutine instead of returning an error: %v", p)
	}
}

func TestHuntC10_HTTPLargeContentLengthKillsProcess(t *testing.T) {
	if os.Getenv("HUNT_C10_CHILD") == "httpoom" {
		addr, stop := huntRawHTTP(t, "HTTP/1.1 200 OK\r\nContent-Length: 281474976710656\r\n\r\nRs5\"hello\"z")
		defer stop()
		client := rpc.NewClient("http://" + addr + "/")
		client.Timeout = time.Second
		var p interface{}
		func() {
			defer func() { p = recover() }()
			result, err := client.Invoke("hello", []interface{}{"x"})
			fmt.Printf("result=%v err=%v\n", result, err)
		}()
		fmt.Printf("CHILD-SURVIVED panic=%v\n", p)
		os.Exit(0)
	}
	cmd := exec.Command(os.Args[0], "-test.run", "^TestHuntC10_HTTPLargeContentLengthKillsProcess$")
	cmd.Env = append(os.Environ(), "HUNT_C10_CHILD=httpoom")
	outBytes, err := cmd.CombinedOutput()
	output := string(outBytes)
	first := output
	if len(first) > 500 {
		first = first[:500]
	}
	t.Logf("child exit: %v\nchild output (head):\n%s", err, first)
	if !strings.Contains(output, "CHILD-SURVIVED") {
		t.Errorf("VIOLATION: a 120-byte HTTP response (Content-Length: 2^48) killed the client process; recover() in the application cannot catch it")
	}
}

// ---------------------------------------------------------------------------
// 7. socket transport: a 12-byte frame header makes the client allocate 2 GiB and
//    then wait for ever for the body; the connection stays pooled.

func TestHuntC10_SocketOversizedFrameHeader(t *testing.T) {
	l, err := net.Listen("tcp", "127.0.0.1:0")
	if err != nil {
		t.Fatal(err)
	}
	defer l.Close()
	var accepted int32
	go func() {
		for {
			c, err := l.Accept()
			if err != nil {
				return
			}
			atomic.AddInt32(&accepted, 1)
			go func() {
				var header [12]byte
				if _, err := io.ReadFull(c, header[:]); err != nil {
					return
				}
				// answer with a header that announces 0x7fffffff bytes for the same index
				var h [12]byte
				h[4], h[5], h[6], h[7] = 0xff, 0xff, 0xff, 0xff
				copy(h[8:], header[8:])
				crc := crc32.ChecksumIEEE(h[4:])
				h[0], h[1], h[2], h[3] = byte(crc>>24), byte(crc>>16), byte(crc>>8), byte(crc)
				_, _ = c.Write(h[:])
				_, _ = io.Copy(ioutil.Discard, c)
			}()
		}
	}()
	var before, after runtime.MemStats
	runtime.ReadMemStats(&before)
	client := rpc.NewClient("tcp://" + l.Addr().String() + "/")
	client.Timeout = 500 * time.Millisecond
	_, err = client.Invoke("hello", []interface{}{"x"})
	runtime.ReadMemStats(&after)
	grown := int64(after.HeapSys) - int64(before.HeapSys)
	t.Logf("err=%v; heap reserved grew by %d MiB (HeapAlloc %d MiB)", err, grown>>20, after.HeapAlloc>>20)
	if grown > 1<<30 {
		t.Errorf("VIOLATION: a 12-byte frame header made the client allocate %d MiB for the announced body (no bound on the response length)", grown>>20)
	}
	client.Abort()
}

// ---------------------------------------------------------------------------
// 8. A client whose URI did not parse panics on the first call.

func TestHuntC10_UnparsableURIPanics(t *testing.T) {
	client := rpc.NewClient("tcp://127.0.0.1:80 80/") // url.Parse fails; NewClient ignores it silently
	var p interface{}
	var err error
	func() {
		defer func() { p = recover() }()
		_, err = client.Invoke("hello", []interface{}{"x"})
	}()
	t.Logf("err=%v panic=%v", err, p)
	if p != nil {
		t.Errorf("VIOLATION (minor): the call panics instead of returning an error: %v", p)
	}
}

