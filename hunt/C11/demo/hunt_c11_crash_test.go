// Copy into the package directory rpc/ (package rpc_test):
//
//	cp _hunt/demo/hunt_c11_crash_test.go rpc/hunt_c11_crash_test.go
//
// Every case here kills the process, so each runs in a child process: the parent test
// re-executes the test binary with HUNT_C11_CHILD=<case> and looks at the exit status and the
// output. A test FAILS and prints a line starting with "VIOLATION:" when the child died.
// Most cases use the mock transport; two open a loopback port, so run the file under
//
//	unshare -n sh -c 'ip link set lo up; go test -vet=off -count=1 -run TestHuntC11_ ./rpc/'
//
// It can be copied together with hunt_c11_net_test.go and hunt_c11_reverse_test.go.
package rpc_test

import (
	"context"
	"fmt"
	"net"
	"os"
	"os/exec"
	"strings"
	"sync"
	"testing"
	"time"

	hio "github.com/hprose/hprose-golang/v3/io"
	"github.com/hprose/hprose-golang/v3/rpc"
	"github.com/hprose/hprose-golang/v3/rpc/core"
	"github.com/hprose/hprose-golang/v3/rpc/mock"
	"github.com/hprose/hprose-golang/v3/rpc/plugins/log"
	"github.com/hprose/hprose-golang/v3/rpc/plugins/reverse"
	"github.com/hprose/hprose-golang/v3/rpc/plugins/timeout"
	"github.com/valyala/fasthttp"
)

const huntC11Env = "HUNT_C11_CHILD"

// runChild runs one case in a child process and reports whether it survived.
func runChild(t *testing.T, name string) (out string, survived bool) {
	t.Helper()
	cmd := exec.Command(os.Args[0], "-test.run", "^TestHuntC11_Child$", "-test.count=1", "-test.timeout=60s")
	cmd.Env = append(os.Environ(), huntC11Env+"="+name)
	b, err := cmd.CombinedOutput()
	out = string(b)
	survived = err == nil && strings.Contains(out, "CHILD-SURVIVED")
	return
}

func report(t *testing.T, what string, out string, survived bool) {
	t.Helper()
	if survived {
		t.Logf("%s: child survived\n%s", what, tail(out, 12))
		return
	}
	fmt.Printf("VIOLATION: %s: the process died or never finished; tail of its output:\n%s\n", what, tail(out, 14))
	t.Fail()
}

// tail condenses the output of a child: its own prints, the panic or fatal error line and the
// first frames of the library on the stack.
func tail(s string, n int) string {
	var lines []string
	all := strings.Split(strings.TrimRight(s, "\n"), "\n")
	crash := -1
	for i, l := range all {
		if strings.HasPrefix(l, "panic:") || strings.HasPrefix(l, "fatal error:") || strings.HasPrefix(l, "\tpanic:") {
			crash = i
			break
		}
	}
	if crash < 0 {
		if len(all) > n {
			all = all[len(all)-n:]
		}
		return "  " + strings.Join(all, "\n  ")
	}
	for _, l := range all[:crash] {
		if !strings.HasPrefix(l, "runtime:") {
			lines = append(lines, l)
		}
	}
	if len(lines) > n {
		lines = lines[len(lines)-n:]
	}
	lines = append(lines, all[crash])
	frames := 0
	for _, l := range all[crash+1:] {
		if strings.HasPrefix(l, "github.com/hprose/hprose-golang/v3/") && !strings.Contains(l, "rpc_test.") {
			if i := strings.LastIndex(l, "("); i > 0 {
				l = l[:i]
			}
			if len(lines) > 0 && lines[len(lines)-1] == "    at "+l {
				continue
			}
			lines = append(lines, "    at "+l)
			if frames++; frames >= 8 {
				break
			}
		}
	}
	return "  " + strings.Join(lines, "\n  ")
}

var children = map[string]func(t *testing.T){}

// TestHuntC11_Child is the entry point of the child processes; it does nothing on its own.
func TestHuntC11_Child(t *testing.T) {
	name := os.Getenv(huntC11Env)
	if name == "" {
		t.Skip("helper of the other TestHuntC11 tests")
	}
	f := children[name]
	if f == nil {
		t.Fatalf("unknown child %q", name)
	}
	f(t)
	fmt.Println("CHILD-SURVIVED")
}

// sentinel issues a healthy call and fails the child if it does not complete normally.
func sentinel(t *testing.T, when string, add func(a, b int) (int, error)) {
	t.Helper()
	r, err := add(1, 2)
	if err != nil || r != 3 {
		fmt.Printf("SENTINEL-FAILED %s: %v %v\n", when, r, err)
		t.Fatalf("sentinel %s: %v %v", when, r, err)
	}
	fmt.Printf("sentinel %s ok\n", when)
}

// ---------------------------------------------------------------------------------------
// 1. ExecuteTimeout plugin: the service function runs in a goroutine of the plugin, outside
//    the recover of Service.Process.

func init() {
	children["timeout-plugin-panic"] = func(t *testing.T) {
		service := rpc.NewService()
		service.Use(timeout.New(5 * time.Second).Handler)
		service.AddFunction(func(a, b int) int { return a + b }, "add")
		service.AddFunction(func() { panic("boom") }, "boom")
		server := mock.Server{Address: "huntc11-timeout"}
		if err := service.Bind(server); err != nil {
			t.Fatal(err)
		}
		defer server.Close()
		client := rpc.NewClient("mock://huntc11-timeout")
		var proxy struct {
			Add  func(a, b int) (int, error)
			Boom func() error
		}
		client.UseService(&proxy)
		sentinel(t, "before", proxy.Add)
		err := proxy.Boom()
		fmt.Printf("boom returned: %v\n", err)
		sentinel(t, "after", proxy.Add)
	}
}

func TestHuntC11_TimeoutPluginPanic(t *testing.T) {
	out, ok := runChild(t, "timeout-plugin-panic")
	report(t, "service function panics under the ExecuteTimeout plugin", out, ok)
}

// ---------------------------------------------------------------------------------------
// 2. Reverse provider: a call record from the peer that is not [int, string, list] is
//    type-asserted in call.Value() before process() has installed its recover, in a bare
//    goroutine of dispatch().

func init() {
	// 2a: the peer (any server the provider polls) answers the poll "!" with a malformed record
	children["provider-malformed-call"] = func(t *testing.T) {
		service := rpc.NewService()
		var polled int32
		var mu sync.Mutex
		service.AddFunction(func() interface{} {
			mu.Lock()
			defer mu.Unlock()
			polled++
			if polled == 1 {
				// one healthy call and one malformed record in the same batch
				return []interface{}{
					[]interface{}{1, "hello", []interface{}{"world"}},
					[]interface{}{"one", "hello", nil},
				}
			}
			time.Sleep(200 * time.Millisecond)
			return []interface{}{}
		}, "!")
		got := make(chan interface{}, 4)
		service.AddFunction(func(results interface{}) { got <- results }, "=")
		server := mock.Server{Address: "huntc11-provider"}
		if err := service.Bind(server); err != nil {
			t.Fatal(err)
		}
		defer server.Close()
		client := rpc.NewClient("mock://huntc11-provider")
		provider := reverse.NewProvider(client, "1")
		provider.AddFunction(func(name string) string { return "hello " + name }, "hello")
		go provider.Listen()
		select {
		case r := <-got:
			fmt.Printf("results delivered: %v\n", r)
		case <-time.After(3 * time.Second):
			fmt.Println("no results delivered within 3s")
		}
	}
	// 2b: a real Caller, a healthy call; the provider's client merely decodes lists as typed
	// slices (rpc.WithListType(io.ListTypeSlice), a documented codec option)
	children["provider-listtypeslice"] = func(t *testing.T) {
		service := rpc.NewService()
		caller := reverse.NewCaller(service)
		caller.Timeout = 3 * time.Second
		server := mock.Server{Address: "huntc11-provider2"}
		if err := service.Bind(server); err != nil {
			t.Fatal(err)
		}
		defer server.Close()
		client := rpc.NewClient("mock://huntc11-provider2")
		client.Codec = rpc.NewClientCodec(rpc.WithListType(hio.ListTypeSlice))
		provider := reverse.NewProvider(client, "1")
		provider.AddFunction(func(a, b int) int { return a + b }, "add")
		go provider.Listen()
		time.Sleep(100 * time.Millisecond)
		var proxy struct {
			Add func(a, b int) (int, error)
		}
		caller.UseService(&proxy, "1")
		r, err := proxy.Add(1, 2)
		fmt.Printf("add returned: %v %v\n", r, err)
		if err != nil || r != 3 {
			t.Fatalf("healthy reverse call failed: %v %v", r, err)
		}
	}
}

func TestHuntC11_ProviderMalformedCall(t *testing.T) {
	out, ok := runChild(t, "provider-malformed-call")
	report(t, "reverse provider receives a malformed call record from its peer", out, ok)
}

func TestHuntC11_ProviderListTypeSlice(t *testing.T) {
	out, ok := runChild(t, "provider-listtypeslice")
	report(t, "reverse provider whose client codec uses ListTypeSlice receives a healthy call", out, ok)
}

// ---------------------------------------------------------------------------------------
// 3. Reverse caller: the result record a provider sends with "=" is type-asserted in
//    returnValue.Value() in the goroutine of whoever called Caller.Invoke: a malformed record
//    is a panic of that goroutine (of the server application), not an error of the call.

func init() {
	// 3a: the provider (a peer) answers with [index, null, null] instead of [index, result, ""]
	children["caller-malformed-result"] = func(t *testing.T) {
		service := rpc.NewService()
		caller := reverse.NewCaller(service)
		caller.Timeout = 3 * time.Second
		server := mock.Server{Address: "huntc11-caller"}
		if err := service.Bind(server); err != nil {
			t.Fatal(err)
		}
		defer server.Close()
		// the peer: a plain client that speaks the provider protocol by hand
		peer := rpc.NewClient("mock://huntc11-caller")
		peer.RequestHeaders().Set("id", "1")
		go func() {
			calls, err := peer.Invoke("!", nil)
			fmt.Printf("peer polled: %v %v\n", calls, err)
			index := calls[0].([]interface{})[0].([]interface{})[0]
			_, err = peer.Invoke("=", []interface{}{[]interface{}{[]interface{}{index, nil, nil}}})
			fmt.Printf("peer answered: %v\n", err)
		}()
		time.Sleep(100 * time.Millisecond)
		var proxy struct {
			Hello func(name string) (string, error)
		}
		caller.UseService(&proxy, "1")
		done := make(chan struct{})
		go func() { // a goroutine of the server application
			defer close(done)
			r, err := proxy.Hello("world")
			fmt.Printf("hello returned: %q %v\n", r, err)
		}()
		<-done
	}
	// 3b: everything healthy; the service merely decodes lists as typed slices and the
	// provider's function has two results
	children["caller-listtypeslice"] = func(t *testing.T) {
		service := rpc.NewService()
		service.Codec = rpc.NewServiceCodec(rpc.WithListType(hio.ListTypeSlice))
		caller := reverse.NewCaller(service)
		caller.Timeout = 3 * time.Second
		server := mock.Server{Address: "huntc11-caller2"}
		if err := service.Bind(server); err != nil {
			t.Fatal(err)
		}
		defer server.Close()
		client := rpc.NewClient("mock://huntc11-caller2")
		provider := reverse.NewProvider(client, "1")
		provider.AddFunction(func(a, b int) (int, int) { return a / b, a % b }, "divmod")
		go provider.Listen()
		time.Sleep(100 * time.Millisecond)
		var proxy struct {
			Divmod func(a, b int) (int, int, error)
		}
		caller.UseService(&proxy, "1")
		done := make(chan struct{})
		go func() { // a goroutine of the server application
			defer close(done)
			q, r, err := proxy.Divmod(7, 2)
			fmt.Printf("divmod returned: %v %v %v\n", q, r, err)
		}()
		<-done
	}
}

func TestHuntC11_CallerMalformedResult(t *testing.T) {
	out, ok := runChild(t, "caller-malformed-result")
	report(t, "reverse caller receives a malformed result record from a provider", out, ok)
}

func TestHuntC11_CallerListTypeSlice(t *testing.T) {
	out, ok := runChild(t, "caller-listtypeslice")
	report(t, "reverse caller on a service with ListTypeSlice receives a healthy two-valued result", out, ok)
}

// ---------------------------------------------------------------------------------------
// 4. HTTP client: the Content-Length of a response sizes an allocation unchecked
//    (rpc/http/common.go readAll): a response that lies about its length is a panic of the
//    calling goroutine ("makeslice: len out of range"), or, with a length the runtime tries
//    to satisfy (1<<40), "fatal error: runtime: out of memory".

func c11LyingHTTPServer(t *testing.T, contentLength string) (url string, closer func()) {
	l, err := net.Listen("tcp", "127.0.0.1:0")
	if err != nil {
		t.Fatal(err)
	}
	go func() {
		for {
			c, err := l.Accept()
			if err != nil {
				return
			}
			go func(c net.Conn) {
				defer c.Close()
				buf := make([]byte, 65536)
				_, _ = c.Read(buf) // the request
				fmt.Fprintf(c, "HTTP/1.1 200 OK\r\nContent-Type: text/plain\r\nContent-Length: %s\r\n\r\nRi3;z", contentLength)
				time.Sleep(200 * time.Millisecond)
			}(c)
		}
	}()
	return "http://" + l.Addr().String() + "/", func() { l.Close() }
}

func init() {
	children["http-client-content-length"] = func(t *testing.T) {
		length := "4611686018427387904"
		if l := os.Getenv("HUNT_C11_LENGTH"); l != "" {
			length = l // e.g. 1099511627776: the runtime tries, and dies with "out of memory"
		}
		url, closer := c11LyingHTTPServer(t, length)
		defer closer()
		client := rpc.NewClient(url)
		client.Timeout = 3 * time.Second
		done := make(chan struct{})
		go func() { // a goroutine of the client application
			defer close(done)
			r, err := client.Invoke("add", []interface{}{1, 2})
			fmt.Printf("invoke returned: %v %.100v\n", r, err)
		}()
		<-done
	}
}

func TestHuntC11_HTTPClientContentLength(t *testing.T) {
	out, ok := runChild(t, "http-client-content-length")
	report(t, "http client receives a response whose Content-Length is 1<<62", out, ok)
}

// ---------------------------------------------------------------------------------------
// 5. Service.Handle encodes the error of a failed call OUTSIDE the recover of Service.handle:
//    a panic there (the Error method of the error a service function returned, here the
//    classic typed nil pointer) escapes Handle. The mock transport and fasthttp run Handle in
//    goroutines without a recover, so the process dies; socket/websocket/udp turn it into a
//    connection-level error that fails every call in flight on the connection.

type c11Err struct{ msg string }

func (e *c11Err) Error() string { return e.msg } // dereferences the receiver

func c11Validate(n int) error {
	var e *c11Err
	if n < 0 {
		e = &c11Err{"negative"}
	}
	return e // a non-nil error holding a nil *c11Err when n >= 0
}

func init() {
	children["error-method-panics-mock"] = func(t *testing.T) {
		service := rpc.NewService()
		service.AddFunction(func(a, b int) int { return a + b }, "add")
		service.AddFunction(c11Validate, "validate")
		server := mock.Server{Address: "huntc11-errpanic"}
		if err := service.Bind(server); err != nil {
			t.Fatal(err)
		}
		defer server.Close()
		client := rpc.NewClient("mock://huntc11-errpanic")
		var proxy struct {
			Add      func(a, b int) (int, error)
			Validate func(n int) error
		}
		client.UseService(&proxy)
		sentinel(t, "before", proxy.Add)
		fmt.Printf("validate(-1) returned: %v\n", proxy.Validate(-1))
		fmt.Printf("validate(1) returned: %v\n", proxy.Validate(1))
		sentinel(t, "after", proxy.Add)
	}
}

func init() {
	children["error-method-panics-fasthttp"] = func(t *testing.T) {
		service := rpc.NewService()
		service.AddFunction(func(a, b int) int { return a + b }, "add")
		service.AddFunction(c11Validate, "validate")
		l, err := net.Listen("tcp", "127.0.0.1:0")
		if err != nil {
			t.Fatal(err)
		}
		server := &fasthttp.Server{}
		if err := service.Bind(server); err != nil {
			t.Fatal(err)
		}
		go server.Serve(l)
		defer server.Shutdown()
		time.Sleep(20 * time.Millisecond)
		client := rpc.NewClient("http://" + l.Addr().String() + "/")
		client.Timeout = 3 * time.Second
		var proxy struct {
			Add      func(a, b int) (int, error)
			Validate func(n int) error
		}
		client.UseService(&proxy)
		sentinel(t, "before", proxy.Add)
		fmt.Printf("validate(-1) returned: %v\n", proxy.Validate(-1))
		fmt.Printf("validate(1) returned: %v\n", proxy.Validate(1))
		sentinel(t, "after", proxy.Add)
	}
}

func TestHuntC11_ErrorMethodPanicsFastHTTP(t *testing.T) {
	out, ok := runChild(t, "error-method-panics-fasthttp")
	report(t, "service function returns an error whose Error method panics (fasthttp server)", out, ok)
}

func TestHuntC11_ErrorMethodPanicsMock(t *testing.T) {
	out, ok := runChild(t, "error-method-panics-mock")
	report(t, "service function returns an error whose Error method panics (mock transport)", out, ok)
}

// ---------------------------------------------------------------------------------------
// 6. Faults that no recover can contain: the goroutine stack is exhausted ("fatal error:
//    stack overflow") while the response of ONE call is produced.

type c11Node struct {
	Name       string
	Prev, Next *c11Node
}

func init() {
	// 6a: the panic value of a service function contains itself; PanicError.Error() formats it
	// with fmt "%v", which recurses without end.
	children["panic-value-contains-itself"] = func(t *testing.T) {
		service := rpc.NewService()
		service.AddFunction(func(a, b int) int { return a + b }, "add")
		service.AddFunction(func() {
			state := map[string]interface{}{"op": "boom"}
			state["self"] = state
			panic(state)
		}, "boom")
		server := mock.Server{Address: "huntc11-selfpanic"}
		if err := service.Bind(server); err != nil {
			t.Fatal(err)
		}
		defer server.Close()
		client := rpc.NewClient("mock://huntc11-selfpanic")
		var proxy struct {
			Add  func(a, b int) (int, error)
			Boom func() error
		}
		client.UseService(&proxy)
		sentinel(t, "before", proxy.Add)
		err := proxy.Boom()
		fmt.Printf("boom returned: %.100v\n", err)
		sentinel(t, "after", proxy.Add)
	}
	// 6b: a service in simple mode (rpc.WithSimple(true)) returns a doubly linked list of two
	// nodes. Maps, lists and interfaces that contain themselves end with ErrNestedTooDeep
	// since 4cd6b0e; a cycle made of struct pointers alone does not.
	children["simple-mode-cyclic-struct"] = func(t *testing.T) {
		service := rpc.NewService()
		service.Codec = rpc.NewServiceCodec(rpc.WithSimple(true))
		service.AddFunction(func(a, b int) int { return a + b }, "add")
		service.AddFunction(func() *c11Node {
			first := &c11Node{Name: "first"}
			first.Next = &c11Node{Name: "second", Prev: first}
			return first
		}, "tree")
		server := mock.Server{Address: "huntc11-tree"}
		if err := service.Bind(server); err != nil {
			t.Fatal(err)
		}
		defer server.Close()
		client := rpc.NewClient("mock://huntc11-tree")
		var proxy struct {
			Add  func(a, b int) (int, error)
			Tree func() (*c11Node, error)
		}
		client.UseService(&proxy)
		sentinel(t, "before", proxy.Add)
		_, err := proxy.Tree()
		fmt.Printf("tree returned: %.100v\n", err)
		sentinel(t, "after", proxy.Add)
	}
}

func TestHuntC11_PanicValueContainsItself(t *testing.T) {
	out, ok := runChild(t, "panic-value-contains-itself")
	report(t, "service function panics with a value that contains itself", out, ok)
}

func TestHuntC11_SimpleModeCyclicStruct(t *testing.T) {
	out, ok := runChild(t, "simple-mode-cyclic-struct")
	report(t, "service in simple mode returns a struct graph with a pointer cycle", out, ok)
}

// ---------------------------------------------------------------------------------------
// 7. The log plugin marshals arguments and results with jsoniter, which follows cycles for
//    ever. A well-formed request of 19 bytes whose argument is a reference to the argument
//    list itself ("r0;") kills a server that uses the log plugin and publishes any function
//    with an interface{} parameter (or a missing-method handler): fatal stack overflow.
//    The same response kills a client that uses the plugin.

func c11Raw(raw string) core.PluginHandler {
	return func(ctx context.Context, request []byte, next core.NextIOHandler) ([]byte, error) {
		if strings.Contains(strings.ToLower(string(request)), "\"echo\"") {
			request = []byte(raw)
		}
		return next(ctx, request)
	}
}

func init() {
	children["log-plugin-cyclic-argument"] = func(t *testing.T) {
		service := rpc.NewService()
		service.Use(log.New(func(v ...interface{}) {}))
		service.AddFunction(func(a, b int) int { return a + b }, "add")
		service.AddFunction(func(v interface{}) string { return "got it" }, "echo")
		server := mock.Server{Address: "huntc11-log"}
		if err := service.Bind(server); err != nil {
			t.Fatal(err)
		}
		defer server.Close()
		client := rpc.NewClient("mock://huntc11-log")
		client.Use(c11Raw("Cs4\"echo\"a1{r0;}z")) // what a hostile or broken peer would send
		var proxy struct {
			Add  func(a, b int) (int, error)
			Echo func(v interface{}) (string, error)
		}
		client.UseService(&proxy)
		sentinel(t, "before", proxy.Add)
		r, err := proxy.Echo(1)
		fmt.Printf("echo returned: %q %.100v\n", r, err)
		sentinel(t, "after", proxy.Add)
	}
}

func TestHuntC11_LogPluginCyclicArgument(t *testing.T) {
	out, ok := runChild(t, "log-plugin-cyclic-argument")
	report(t, "request whose argument refers to the argument list itself, service uses the log plugin", out, ok)
}
