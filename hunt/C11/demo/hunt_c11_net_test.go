// Copy into the package directory rpc/ (package rpc_test):
//
//	cp _hunt/demo/hunt_c11_net_test.go rpc/hunt_c11_net_test.go
//
// These tests open loopback ports: run them under  unshare -n sh -c 'ip link set lo up; go test ...'
package rpc_test

import (
	"fmt"
	"hash/crc32"
	"net"
	"net/http"
	"strings"
	"sync"
	"testing"
	"time"

	"github.com/hprose/hprose-golang/v3/rpc"
)

type c11Proxy struct {
	Add     func(a, b int) (int, error)
	Slow    func(d time.Duration) (string, error)
	BadTime func() (time.Time, error)
	Big     func(n int) (string, error)
	Echo    func(s string) (string, error)
}

func c11Service() *rpc.Service {
	service := rpc.NewService()
	service.AddFunction(func(a, b int) int { return a + b }, "add")
	service.AddFunction(func(d time.Duration) string { time.Sleep(d); return "slow done" }, "slow")
	// a value the hprose encoder refuses (year outside 0..9999): Codec.Encode returns an error
	service.AddFunction(func() time.Time { return time.Date(10000, 1, 1, 0, 0, 0, 0, time.UTC) }, "badTime")
	service.AddFunction(func(n int) string { return strings.Repeat("x", n) }, "big")
	service.AddFunction(func(s string) string { return s }, "echo")
	return service
}

// c11Start binds a fresh service to the scheme and returns a client URL and a closer.
func c11Start(t *testing.T, scheme string, service *rpc.Service) (string, func()) {
	t.Helper()
	switch scheme {
	case "tcp":
		l, err := net.Listen("tcp", "127.0.0.1:0")
		if err != nil {
			t.Fatal(err)
		}
		if err = service.Bind(l); err != nil {
			t.Fatal(err)
		}
		return "tcp://" + l.Addr().String() + "/", func() { l.Close() }
	case "unix":
		path := t.TempDir() + "/c11.sock"
		l, err := net.Listen("unix", path)
		if err != nil {
			t.Fatal(err)
		}
		if err = service.Bind(l); err != nil {
			t.Fatal(err)
		}
		return "unix://" + path, func() { l.Close() }
	case "udp":
		c, err := net.ListenUDP("udp", &net.UDPAddr{IP: net.IPv4(127, 0, 0, 1)})
		if err != nil {
			t.Fatal(err)
		}
		if err = service.Bind(c); err != nil {
			t.Fatal(err)
		}
		return "udp://" + c.LocalAddr().String() + "/", func() { c.Close() }
	case "ws", "http":
		l, err := net.Listen("tcp", "127.0.0.1:0")
		if err != nil {
			t.Fatal(err)
		}
		server := &http.Server{}
		if err = service.Bind(server); err != nil {
			t.Fatal(err)
		}
		go server.Serve(l)
		return scheme + "://" + l.Addr().String() + "/", func() { server.Close() }
	}
	t.Fatalf("unknown scheme %s", scheme)
	return "", nil
}

// c11Interleave starts a healthy slow call, lets it get in flight, runs the faulty call on
// the same client (the same connection for tcp, unix, ws and udp), and reports what happened to
// the healthy call in flight and to a healthy call issued afterwards.
func c11Interleave(t *testing.T, scheme string, what string, service *rpc.Service, faulty func(p *c11Proxy) error) {
	url, closer := c11Start(t, scheme, service)
	defer closer()
	time.Sleep(20 * time.Millisecond)
	client := rpc.NewClient(url)
	client.Timeout = 5 * time.Second
	var proxy c11Proxy
	client.UseService(&proxy)
	if r, err := proxy.Add(1, 2); err != nil || r != 3 {
		t.Fatalf("%s: sentinel before: %v %v", scheme, r, err)
	}
	var wg sync.WaitGroup
	var slowResult string
	var slowErr error
	wg.Add(1)
	go func() {
		defer wg.Done()
		slowResult, slowErr = proxy.Slow(400 * time.Millisecond)
	}()
	time.Sleep(100 * time.Millisecond) // the healthy call is now being executed by the server
	ferr := faulty(&proxy)
	t.Logf("%s: %s: the faulty call itself returned: %.80v", scheme, what, ferr)
	if ferr == nil {
		fmt.Printf("VIOLATION: %s: %s: the faulty call itself reported success (no error)\n", scheme, what)
		t.Fail()
	}
	wg.Wait()
	if slowErr != nil || slowResult != "slow done" {
		fmt.Printf("VIOLATION: %s: %s: the healthy call in flight on the same client failed: result=%q err=%.120v\n", scheme, what, slowResult, slowErr)
		t.Fail()
	}
	if r, err := proxy.Add(1, 2); err != nil || r != 3 {
		fmt.Printf("VIOLATION: %s: %s: a healthy call issued afterwards failed: %v %v\n", scheme, what, r, err)
		t.Fail()
	}
}

// A result the encoder refuses is a fault of that call only.
func TestHuntC11_UnencodableResult(t *testing.T) {
	for _, scheme := range []string{"http", "tcp", "unix", "ws", "udp"} {
		c11Interleave(t, scheme, "result that cannot be encoded", c11Service(), func(p *c11Proxy) error {
			v, err := p.BadTime()
			if err == nil {
				t.Logf("%s: the call returned the value %v", scheme, v)
			}
			return err
		})
	}
}

// A response that does not fit a datagram is a fault of that call only.
func TestHuntC11_UDPOversizedResponse(t *testing.T) {
	c11Interleave(t, "udp", "response larger than a datagram", c11Service(), func(p *c11Proxy) error {
		_, err := p.Big(70000)
		return err
	})
}

// A request larger than Service.MaxRequestLength is a fault of that call only.
func TestHuntC11_RequestTooLargeForService(t *testing.T) {
	for _, scheme := range []string{"http", "udp", "tcp", "ws"} {
		service := c11Service()
		service.MaxRequestLength = 1000
		c11Interleave(t, scheme, "request larger than MaxRequestLength", service, func(p *c11Proxy) error {
			_, err := p.Echo(strings.Repeat("y", 2000))
			return err
		})
	}
}

// ---------------------------------------------------------------------------------------
// Worker pool on: the workers deliver responses through an unbuffered per-connection queue
// whose only reader is the connection's send loop, and that loop writes without a deadline.
// One peer that sends requests and does not read the answers parks every worker of the
// shared pool in sendResponse; calls on OTHER connections are never executed.

type c11Pool struct{ tasks chan func() }

func (p *c11Pool) Submit(f func()) { p.tasks <- f }

func newC11Pool(workers int) *c11Pool {
	p := &c11Pool{tasks: make(chan func(), 1024)}
	for i := 0; i < workers; i++ {
		go func() {
			for f := range p.tasks {
				f()
			}
		}()
	}
	return p
}

func TestHuntC11_WorkerPoolStalledPeer(t *testing.T) {
	service := c11Service()
	rpc.SocketHandler(service).Pool = newC11Pool(4)
	url, closer := c11Start(t, "tcp", service)
	defer closer()
	client := rpc.NewClient(url)
	client.Timeout = 3 * time.Second
	var proxy c11Proxy
	client.UseService(&proxy)
	if r, err := proxy.Add(1, 2); err != nil || r != 3 {
		t.Fatalf("sentinel before: %v %v", r, err)
	}
	// the faulty peer: asks 64 times for 1 MiB and never reads
	peer, err := net.Dial("tcp", url[len("tcp://"):len(url)-1])
	if err != nil {
		t.Fatal(err)
	}
	defer peer.Close()
	body := []byte("Cs3\"big\"a1{i1048576;}z")
	for i := 0; i < 64; i++ {
		peer.Write(c11Frame(body, uint32(i)))
	}
	time.Sleep(500 * time.Millisecond)
	start := time.Now()
	r, err := proxy.Add(1, 2)
	if err != nil || r != 3 {
		fmt.Printf("VIOLATION: worker pool on: a healthy call on another connection failed after %v while a peer does not read its responses: %v %v\n", time.Since(start).Round(time.Millisecond), r, err)
		t.Fail()
	}
}

func c11Frame(body []byte, index uint32) []byte {
	h := make([]byte, 12, 12+len(body))
	length := uint32(len(body))
	h[4], h[5], h[6], h[7] = byte(length>>24)|0x80, byte(length>>16), byte(length>>8), byte(length)
	h[8], h[9], h[10], h[11] = byte(index>>24), byte(index>>16), byte(index>>8), byte(index)
	crc := crc32.ChecksumIEEE(h[4:])
	h[0], h[1], h[2], h[3] = byte(crc>>24), byte(crc>>16), byte(crc>>8), byte(crc)
	return append(h, body...)
}
