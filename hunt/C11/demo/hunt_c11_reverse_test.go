// Copy into the package directory rpc/ (package rpc_test):
//
//	cp _hunt/demo/hunt_c11_reverse_test.go rpc/hunt_c11_reverse_test.go
//
// Uses the mock transport only (no ports).
package rpc_test

import (
	"fmt"
	"sync"
	"sync/atomic"
	"testing"
	"time"

	"github.com/hprose/hprose-golang/v3/rpc"
	"github.com/hprose/hprose-golang/v3/rpc/mock"
	"github.com/hprose/hprose-golang/v3/rpc/plugins/reverse"
)

// A reverse provider function returns a value the encoder refuses. Provider.dispatch sends the
// results of the whole batch with one "=" call and repeats it for ever when it fails; an
// encoding error fails it every time. The healthy call that travelled in the same batch is
// never answered, the faulty call gets no error either, and the goroutine retries until the
// process ends.
func TestHuntC11_ProviderUnencodableResult(t *testing.T) {
	service := rpc.NewService()
	caller := reverse.NewCaller(service)
	caller.Timeout = 2500 * time.Millisecond
	server := mock.Server{Address: "huntc11-provider-unenc"}
	if err := service.Bind(server); err != nil {
		t.Fatal(err)
	}
	defer server.Close()

	client := rpc.NewClient("mock://huntc11-provider-unenc")
	provider := reverse.NewProvider(client, "1")
	provider.RetryInterval = 100 * time.Millisecond
	var retries int32
	provider.OnError = func(err error) {
		if atomic.AddInt32(&retries, 1) == 1 {
			t.Logf("provider OnError: %v", err)
		}
	}
	provider.AddFunction(func(a, b int) int { return a + b }, "add")
	provider.AddFunction(func() time.Time { return time.Date(10000, 1, 1, 0, 0, 0, 0, time.UTC) }, "badTime")

	var proxy struct {
		Add     func(a, b int) (int, error)
		BadTime func() (time.Time, error)
	}
	caller.UseService(&proxy, "1")

	// both calls are published before the provider polls: they travel in one batch
	var wg sync.WaitGroup
	var sum int
	var addErr, badErr error
	wg.Add(2)
	go func() { defer wg.Done(); sum, addErr = proxy.Add(1, 2) }()
	go func() { defer wg.Done(); _, badErr = proxy.BadTime() }()
	time.Sleep(100 * time.Millisecond)
	go provider.Listen()
	wg.Wait()
	t.Logf("faulty call returned: %v", badErr)
	if addErr != nil || sum != 3 {
		fmt.Printf("VIOLATION: the healthy reverse call in the same batch as the faulty one failed: %v %v\n", sum, addErr)
		t.Fail()
	}
	if rpc.IsTimeoutError(badErr) {
		fmt.Printf("VIOLATION: the faulty reverse call got no error of its own, it ran into the caller's timeout: %v\n", badErr)
		t.Fail()
	}
	// a call issued afterwards (a new batch) works, but the old batch is still being retried
	if r, err := proxy.Add(2, 3); err != nil || r != 5 {
		fmt.Printf("VIOLATION: a healthy reverse call issued afterwards failed: %v %v\n", r, err)
		t.Fail()
	}
	before := atomic.LoadInt32(&retries)
	time.Sleep(time.Second)
	after := atomic.LoadInt32(&retries)
	if after > before {
		fmt.Printf("VIOLATION: long after both calls ended the provider still retries the batch: %d attempts so far, %d in the last second\n", after, after-before)
		t.Fail()
	}
	_ = provider.Close()
}
