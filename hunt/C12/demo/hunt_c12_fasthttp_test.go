// Demonstration for property C12. Copy this file into rpc/http/fasthttp/ (package fasthttp_test):
//
//	cp _hunt/demo/hunt_c12_fasthttp_test.go rpc/http/fasthttp/hunt_c12_fasthttp_test.go &&
//	unshare -n sh -c 'ip link set lo up; go test -vet=off -count=1 -v -run "TestHuntC12_" ./rpc/http/fasthttp/' ; rm rpc/http/fasthttp/hunt_c12_fasthttp_test.go
package fasthttp_test

import (
	"bytes"
	"context"
	"testing"
	"time"

	"github.com/hprose/hprose-golang/v3/rpc/core"
	rpchttp "github.com/hprose/hprose-golang/v3/rpc/http"
	. "github.com/hprose/hprose-golang/v3/rpc/http/fasthttp"
	"github.com/valyala/fasthttp"
)

// The fasthttp transport with SetCompression(true) announces "Accept-Encoding: gzip" and then
// hands the caller the body as it came off the wire, i.e. still compressed.
func TestHuntC12_fasthttpGzip(t *testing.T) {
	service := core.NewService()
	service.Use(func(ctx context.Context, request []byte, next core.NextIOHandler) ([]byte, error) {
		return append([]byte{}, request...), nil // IO-level echo
	})
	h := service.GetHandler("http").(*rpchttp.Handler)
	// a server (or a reverse proxy in front of it) that honours Accept-Encoding
	server := &fasthttp.Server{Handler: fasthttp.CompressHandler(h.ServeFastHTTP)}
	go server.ListenAndServe("127.0.0.1:18444")
	defer server.Shutdown()
	time.Sleep(50 * time.Millisecond)

	client := core.NewClient("http://127.0.0.1:18444/")
	client.GetTransport("fasthttp").(*Transport).SetCompression(true)
	for _, n := range []int{10, 199, 200, 1000, 65536} {
		req := bytes.Repeat([]byte("abcdefghij"), n/10+1)[:n]
		cc := core.NewClientContext()
		cc.Init(client)
		resp, err := client.Request(core.WithContext(context.Background(), cc), req)
		if err != nil {
			t.Errorf("len %d: %v", n, err)
			continue
		}
		if !bytes.Equal(resp, req) {
			m := len(resp)
			if m > 12 {
				m = 12
			}
			t.Errorf("VIOLATION: len %d: the service produced %d bytes %q..., the caller was handed %d bytes % x... and no error",
				n, len(req), req[:10], len(resp), resp[:m])
		}
	}
}
