// Demonstrations for property C12. Copy this file into rpc/ (package rpc_test):
//
//	cp _hunt/demo/hunt_c12_rpc_test.go rpc/hunt_c12_rpc_test.go &&
//	unshare -n sh -c 'ip link set lo up; go test -vet=off -count=1 -v -run "TestHuntC12_" ./rpc/' ; rm rpc/hunt_c12_rpc_test.go
package rpc_test

import (
	"bytes"
	"context"
	"hash/crc32"
	"io"
	"net"
	"net/http"
	"sync"
	"testing"
	"time"

	"github.com/hprose/hprose-golang/v3/rpc"
	"github.com/hprose/hprose-golang/v3/rpc/core"
	"github.com/valyala/fasthttp"
)

// huntRaw is a raw Client.Request: no codec, the bytes go to the transport as they are.
func huntRaw(client *core.Client, req []byte, timeout time.Duration) ([]byte, error) {
	cc := core.NewClientContext()
	cc.Timeout = timeout
	cc.Init(client)
	return client.Request(core.WithContext(context.Background(), cc), req)
}

func huntUDPHeader(length, index int) []byte {
	h := make([]byte, 8)
	h[4], h[5], h[6], h[7] = byte(length>>8), byte(length), byte(index>>8), byte(index)
	crc := crc32.ChecksumIEEE(h[4:])
	h[0], h[1], h[2], h[3] = byte(crc>>24), byte(crc>>16), byte(crc>>8), byte(crc)
	return h
}

// ---------------------------------------------------------------------------------------
// 1. udp: the answer to a call that was given up is handed to a later call that got the
//    same 15-bit identifier.
// ---------------------------------------------------------------------------------------

func TestHuntC12_udpStaleResponse(t *testing.T) {
	releaseA := make(chan struct{})
	releaseB := make(chan struct{})
	service := rpc.NewService()
	service.Use(func(ctx context.Context, request []byte, next core.NextIOHandler) ([]byte, error) {
		switch {
		case bytes.HasPrefix(request, []byte("SLOW-A")):
			<-releaseA
		case bytes.HasPrefix(request, []byte("SLOW-B")):
			<-releaseB
		}
		return append([]byte("echo:"), request...), nil
	})
	ua, _ := net.ResolveUDPAddr("udp", "127.0.0.1:18423")
	us, err := net.ListenUDP("udp", ua)
	if err != nil {
		t.Fatal(err)
	}
	defer us.Close()
	service.Bind(us)
	time.Sleep(20 * time.Millisecond)
	client := rpc.NewClient("udp://127.0.0.1:18423")
	defer client.Abort()

	// call A: the service is slow, the caller gives up after 100ms (identifier 1)
	_, err = huntRaw(client, []byte("SLOW-A the answer to an abandoned call"), 100*time.Millisecond)
	t.Logf("call A: %v", err)
	// 32767 other calls come and go (about 5 seconds)
	for i := 0; i < 0x7fff; i++ {
		resp, err := huntRaw(client, []byte("fast"), 5*time.Second)
		if err != nil || string(resp) != "echo:fast" {
			t.Fatalf("fast call %d: %q %v", i, resp, err)
		}
	}
	// call B gets the identifier call A had; only now does the service answer A
	go func() {
		time.Sleep(200 * time.Millisecond)
		close(releaseA)
		time.Sleep(500 * time.Millisecond)
		close(releaseB)
	}()
	resp, err := huntRaw(client, []byte("SLOW-B"), 5*time.Second)
	if err != nil {
		t.Fatalf("call B: %v", err)
	}
	if string(resp) != "echo:SLOW-B" {
		t.Fatalf("VIOLATION: call B submitted %q and was handed %q, the response the service produced for call A", "SLOW-B", resp)
	}
}

// ---------------------------------------------------------------------------------------
// 2. socket: a body of 2 GiB or more wraps the 31-bit length field; the receiver is handed
//    the first len mod 2^31 bytes. (The slices are untouched zero pages: ~200 MB resident.)
// ---------------------------------------------------------------------------------------

func TestHuntC12_socket2GiBRequest(t *testing.T) {
	var mu sync.Mutex
	var seen []string
	service := rpc.NewService() // MaxRequestLength is the default 0x7FFFFFFF
	service.Use(func(ctx context.Context, request []byte, next core.NextIOHandler) ([]byte, error) {
		mu.Lock()
		n := len(request)
		if n > 16 {
			n = 16
		}
		seen = append(seen, string(request[:n]))
		mu.Unlock()
		return []byte("ok"), nil
	})
	tcp, err := net.Listen("tcp", "127.0.0.1:18452")
	if err != nil {
		t.Fatal(err)
	}
	defer tcp.Close()
	service.Bind(tcp)
	time.Sleep(20 * time.Millisecond)
	client := rpc.NewClient("tcp://127.0.0.1:18452")
	defer client.Abort()
	const extra = 5
	req := make([]byte, 1<<31+extra)
	copy(req, "HELLO")
	resp, err := huntRaw(client, req, 20*time.Second)
	time.Sleep(100 * time.Millisecond)
	mu.Lock()
	defer mu.Unlock()
	t.Logf("caller: response %q err %v; requests handed to the service: %q", resp, err, seen)
	for _, s := range seen {
		if len(s) == extra {
			t.Errorf("VIOLATION: the client submitted %d bytes, the header declared %d and the service was handed the truncated request %q", len(req), extra, s)
		}
	}
}

func TestHuntC12_socket2GiBResponse(t *testing.T) {
	const extra = 7
	service := rpc.NewService()
	service.Use(func(ctx context.Context, request []byte, next core.NextIOHandler) ([]byte, error) {
		resp := make([]byte, 1<<31+extra)
		copy(resp, "PARTIAL")
		return resp, nil
	})
	tcp, err := net.Listen("tcp", "127.0.0.1:18453")
	if err != nil {
		t.Fatal(err)
	}
	defer tcp.Close()
	service.Bind(tcp)
	time.Sleep(20 * time.Millisecond)
	client := rpc.NewClient("tcp://127.0.0.1:18453")
	defer client.Abort()
	resp, err := huntRaw(client, []byte("give me 2GiB+7"), 20*time.Second)
	if err == nil && len(resp) != 1<<31+extra {
		t.Errorf("VIOLATION: the service produced %d bytes, the caller was handed %d bytes %q and no error", 1<<31+extra, len(resp), resp)
	} else {
		t.Logf("len %d err %v", len(resp), err)
	}
}

// ---------------------------------------------------------------------------------------
// 3. net/http transport: a 301/302/303 on the way turns the POST into a GET without a body;
//    the handler accepts the GET as an empty request and the caller gets its answer.
// ---------------------------------------------------------------------------------------

func TestHuntC12_httpRedirectRaw(t *testing.T) {
	var mu sync.Mutex
	var seen [][]byte
	service := rpc.NewService()
	service.Use(func(ctx context.Context, request []byte, next core.NextIOHandler) ([]byte, error) {
		mu.Lock()
		seen = append(seen, append([]byte{}, request...))
		mu.Unlock()
		return append([]byte("echo:"), request...), nil
	})
	mux := http.NewServeMux()
	mux.Handle("/rpc/", rpc.HTTPHandler(service)) // the usual subtree registration
	hs := &http.Server{Addr: "127.0.0.1:18434", Handler: mux}
	go hs.ListenAndServe()
	defer hs.Close()
	time.Sleep(50 * time.Millisecond)

	client := rpc.NewClient("http://127.0.0.1:18434/rpc") // no trailing slash: ServeMux answers 301
	req := []byte("these bytes never arrive")
	resp, err := huntRaw(client, req, 5*time.Second)
	mu.Lock()
	defer mu.Unlock()
	if err == nil && string(resp) != "echo:"+string(req) {
		t.Errorf("VIOLATION: the client submitted %q, the service was handed %q and the caller got %q without an error", req, seen, resp)
	} else {
		t.Logf("response %q err %v; the service was handed %q", resp, err, seen)
	}
}

func TestHuntC12_httpRedirectCall(t *testing.T) {
	service := rpc.NewService()
	service.AddFunction(func(prefix string) []string { return []string{prefix + "alice", prefix + "bob"} }, "users")
	mux := http.NewServeMux()
	mux.Handle("/rpc/", rpc.HTTPHandler(service))
	hs := &http.Server{Addr: "127.0.0.1:18435", Handler: mux}
	go hs.ListenAndServe()
	defer hs.Close()
	time.Sleep(50 * time.Millisecond)
	client := rpc.NewClient("http://127.0.0.1:18435/rpc")
	var proxy struct {
		Users func(prefix string) ([]string, error)
	}
	client.UseService(&proxy)
	result, err := proxy.Users("user:")
	if err == nil && (len(result) != 2 || result[0] != "user:alice") {
		t.Errorf("VIOLATION: users(\"user:\") returned %q without an error: the answer to an empty request, the request bytes were lost in the redirect", result)
	} else {
		t.Logf("result %q err %v", result, err)
	}
}

// ---------------------------------------------------------------------------------------
// 4. every transport: a zero-length response of the service reaches the caller as "Rnz".
// ---------------------------------------------------------------------------------------

func TestHuntC12_zeroLengthResponse(t *testing.T) {
	service := rpc.NewService()
	service.Use(func(ctx context.Context, request []byte, next core.NextIOHandler) ([]byte, error) {
		return append([]byte{}, request...), nil // IO-level echo
	})
	tcp, err := net.Listen("tcp", "127.0.0.1:18412")
	if err != nil {
		t.Fatal(err)
	}
	defer tcp.Close()
	service.Bind(tcp)
	ua, _ := net.ResolveUDPAddr("udp", "127.0.0.1:18413")
	us, err := net.ListenUDP("udp", ua)
	if err != nil {
		t.Fatal(err)
	}
	defer us.Close()
	service.Bind(us)
	hs := &http.Server{Addr: "127.0.0.1:18414"}
	service.Bind(hs)
	go hs.ListenAndServe()
	defer hs.Close()
	fs := &fasthttp.Server{}
	service.Bind(fs)
	go fs.ListenAndServe("127.0.0.1:18415")
	defer fs.Shutdown()
	time.Sleep(50 * time.Millisecond)

	for _, u := range []string{"tcp://127.0.0.1:18412", "udp://127.0.0.1:18413", "http://127.0.0.1:18414/", "ws://127.0.0.1:18414/", "http://127.0.0.1:18415/", "ws://127.0.0.1:18415/"} {
		client := rpc.NewClient(u)
		for _, n := range []int{0, 1, 2} {
			req := bytes.Repeat([]byte{'x'}, n)
			resp, err := huntRaw(client, req, 5*time.Second)
			if err != nil {
				t.Errorf("%s len=%d: %v", u, n, err)
			} else if !bytes.Equal(resp, req) {
				t.Errorf("VIOLATION: %s: the service produced %d bytes %q, the caller was handed %d bytes %q", u, n, req, len(resp), resp)
			}
		}
		client.Abort()
	}
}

// ---------------------------------------------------------------------------------------
// 5. udp over IPv6: a datagram larger than the 65507 byte receive buffer is cut by the
//    kernel; when its header declares 65499 the cut datagram passes the length check.
// ---------------------------------------------------------------------------------------

func TestHuntC12_udp6TruncatedDatagram(t *testing.T) {
	var mu sync.Mutex
	var seen []int
	service := rpc.NewService()
	service.Use(func(ctx context.Context, request []byte, next core.NextIOHandler) ([]byte, error) {
		mu.Lock()
		seen = append(seen, len(request))
		mu.Unlock()
		return []byte("ok"), nil
	})
	ua, _ := net.ResolveUDPAddr("udp", "[::1]:18463")
	us, err := net.ListenUDP("udp", ua)
	if err != nil {
		t.Skip(err) // no IPv6 loopback
	}
	defer us.Close()
	service.Bind(us)
	time.Sleep(20 * time.Millisecond)
	c, err := net.Dial("udp", "[::1]:18463")
	if err != nil {
		t.Fatal(err)
	}
	defer c.Close()
	// an IPv6 datagram carries up to 65527 bytes: 8 bytes header + 65519 bytes body, declared as 65499
	const actual, declared = 65519, 65499
	frame := append(huntUDPHeader(declared, 1), make([]byte, actual)...)
	for i := range frame[8:] {
		frame[8+i] = byte(i)
	}
	if _, err = c.Write(frame); err != nil {
		t.Fatal(err)
	}
	c.SetReadDeadline(time.Now().Add(2 * time.Second))
	buf := make([]byte, 65536)
	n, err := c.Read(buf)
	mu.Lock()
	defer mu.Unlock()
	t.Logf("answer: %d bytes, err %v; request lengths handed to the service: %v", n, err, seen)
	if len(seen) > 0 {
		t.Errorf("VIOLATION: a datagram with a %d byte body whose header declares %d was handed to the service as %v bytes (cut by the 65507 byte receive buffer) instead of being rejected", actual, declared, seen)
	}
}

// ---------------------------------------------------------------------------------------
// 6. socket: a header without the marker bit (0x80 of byte 4) that makeHeader always sets
//    is accepted when its CRC is right. (minor)
// ---------------------------------------------------------------------------------------

func TestHuntC12_socketNoMarkerBit(t *testing.T) {
	service := rpc.NewService()
	service.Use(func(ctx context.Context, request []byte, next core.NextIOHandler) ([]byte, error) {
		return append([]byte("echo:"), request...), nil
	})
	tcp, err := net.Listen("tcp", "127.0.0.1:18472")
	if err != nil {
		t.Fatal(err)
	}
	defer tcp.Close()
	service.Bind(tcp)
	time.Sleep(20 * time.Millisecond)
	body := []byte("hello")
	h := make([]byte, 12)
	h[7] = byte(len(body)) // length 5, marker bit NOT set
	h[11] = 3              // index 3
	crc := crc32.ChecksumIEEE(h[4:])
	h[0], h[1], h[2], h[3] = byte(crc>>24), byte(crc>>16), byte(crc>>8), byte(crc)
	c, err := net.Dial("tcp", "127.0.0.1:18472")
	if err != nil {
		t.Fatal(err)
	}
	defer c.Close()
	c.Write(append(h, body...))
	c.SetReadDeadline(time.Now().Add(500 * time.Millisecond))
	buf, _ := io.ReadAll(c)
	if len(buf) > 12 {
		t.Errorf("VIOLATION: a frame whose header lacks the marker bit was served: answer % x %q", buf[:12], buf[12:])
	}
}
