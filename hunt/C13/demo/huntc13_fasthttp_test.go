// Hunt C13 (MaxRequestLength) - fasthttp client transport and fasthttp server in streaming mode.
// Copy into rpc/http/fasthttp/ (package fasthttp_test) and run from the worktree root:
//   cp _hunt/demo/huntc13_fasthttp_test.go rpc/http/fasthttp/huntc13_fasthttp_test.go && unshare -n sh -c 'ip link set lo up; go test -vet=off -count=1 -v -run TestHuntC13_ ./rpc/http/fasthttp/' ; rm rpc/http/fasthttp/huntc13_fasthttp_test.go
package fasthttp_test

import (
	"bufio"
	"context"
	"fmt"
	"io/ioutil"
	"log"
	"net"
	"net/http"
	"runtime"
	"strings"
	"sync/atomic"
	"testing"
	"time"

	"github.com/hprose/hprose-golang/v3/rpc/core"
	"github.com/valyala/fasthttp"
)

type c13fh struct {
	service *core.Service
	ioSeen  int32
	addr    string
	close   func()
}

func newC13fh(t *testing.T, limit int, fast bool, stream bool) *c13fh {
	s := &c13fh{service: core.NewService()}
	s.service.MaxRequestLength = limit
	s.service.AddFunction(func(x string) int { return len(x) }, "size")
	s.service.Use(func(ctx context.Context, request []byte, next core.NextIOHandler) ([]byte, error) {
		atomic.AddInt32(&s.ioSeen, 1)
		return next(ctx, request)
	})
	l, err := net.Listen("tcp", "127.0.0.1:0")
	if err != nil {
		t.Fatal(err)
	}
	s.addr = l.Addr().String()
	if fast {
		server := &fasthttp.Server{Logger: log.New(ioutil.Discard, "", 0), StreamRequestBody: stream}
		if err := s.service.Bind(server); err != nil {
			t.Fatal(err)
		}
		go server.Serve(l)
		s.close = func() { server.Shutdown() }
	} else {
		server := &http.Server{}
		if err := s.service.Bind(server); err != nil {
			t.Fatal(err)
		}
		go server.Serve(l)
		s.close = func() { server.Close() }
	}
	time.Sleep(5 * time.Millisecond)
	return s
}

// Finding 2 (fasthttp client). The fasthttp client transport (http:// in this package) writes the whole
// request before it looks for an answer. The net/http handler answers 413 from the declared length and
// the server closes the connection with the body unread: the caller gets "broken pipe" /
// "connection reset" instead of ErrRequestEntityTooLarge. (1 MiB still works, 8 MiB never does.)
func TestHuntC13_FastHTTPClientFarAbove(t *testing.T) {
	for _, size := range []int{1 << 20, 8 << 20} {
		s := newC13fh(t, 10, false, false)
		big := strings.Repeat("x", size)
		res := map[string]int{}
		const rounds = 10
		for i := 0; i < rounds; i++ {
			client := core.NewClient("http://" + s.addr + "/")
			var proxy struct {
				Size func(s string) (int, error)
			}
			client.UseService(&proxy)
			_, err := proxy.Size(big)
			if err == core.ErrRequestEntityTooLarge {
				res["ErrRequestEntityTooLarge"]++
			} else {
				e := fmt.Sprint(err)
				if i := strings.LastIndex(e, ": "); i >= 0 {
					e = e[i+2:]
				}
				res[e]++
			}
		}
		s.close()
		t.Logf("fasthttp client -> net/http handler, limit 10, request %d MiB: %v", size>>20, res)
		if res["ErrRequestEntityTooLarge"] != rounds {
			t.Errorf("VIOLATION: request of %d MiB, limit 10: callers did not receive ErrRequestEntityTooLarge: %v", size>>20, res)
		}
	}
}

// Finding 5 (bound, second instance). fasthttp server with StreamRequestBody: ServeFastHTTP calls
// ctx.Request.Body(), which reads the complete chunked stream into memory (fasthttp's MaxRequestBodySize
// does not apply to a chunked stream either) before the limit is looked at.
func TestHuntC13_FastHTTPStreamUnbounded(t *testing.T) {
	s := newC13fh(t, 10, true, true)
	defer s.close()
	c, err := net.Dial("tcp", s.addr)
	if err != nil {
		t.Fatal(err)
	}
	defer c.Close()
	var m0, m1 runtime.MemStats
	runtime.GC()
	runtime.ReadMemStats(&m0)
	w := bufio.NewWriterSize(c, 1<<20)
	w.WriteString("POST / HTTP/1.1\r\nHost: x\r\nConnection: close\r\nTransfer-Encoding: chunked\r\n\r\n")
	chunk := make([]byte, 1<<20)
	total := 0
	c.SetDeadline(time.Now().Add(30 * time.Second))
	for i := 0; i < 64; i++ {
		fmt.Fprintf(w, "%x\r\n", len(chunk))
		w.Write(chunk)
		if _, err := w.WriteString("\r\n"); err != nil {
			t.Logf("the server stopped reading after %d bytes: %v", total, err)
			break
		}
		total += len(chunk)
	}
	w.Flush()
	time.Sleep(200 * time.Millisecond)
	runtime.ReadMemStats(&m1)
	grew := (m1.TotalAlloc - m0.TotalAlloc) >> 20
	w.WriteString("0\r\n\r\n")
	w.Flush()
	resp, err := http.ReadResponse(bufio.NewReader(c), nil)
	status := 0
	if resp != nil {
		status = resp.StatusCode
	}
	t.Logf("streamed %d MiB of one unfinished chunked body to a service with limit 10: the process allocated %d MiB meanwhile; then status=%d err=%v; IO plugin saw %d", total>>20, grew, status, err, atomic.LoadInt32(&s.ioSeen))
	if total == 64<<20 && grew > 32 {
		t.Errorf("VIOLATION: limit 10 bytes, yet the server accepted and buffered all %d MiB (%d MiB allocated) before refusing", total>>20, grew)
	}
}
