// Hunt C13 (MaxRequestLength) - net/http handler and client, fasthttp server.
// Copy into rpc/http/ (package http_test) and run from the worktree root:
//   cp _hunt/demo/huntc13_http_test.go rpc/http/huntc13_http_test.go && unshare -n sh -c 'ip link set lo up; go test -vet=off -count=1 -v -run TestHuntC13_ ./rpc/http/' ; rm rpc/http/huntc13_http_test.go
package http_test

import (
	"bufio"
	"context"
	"fmt"
	"io"
	"io/ioutil"
	"log"
	"math"
	"net"
	"net/http"
	"strings"
	"sync/atomic"
	"testing"
	"time"

	"github.com/hprose/hprose-golang/v3/rpc/core"
	"github.com/valyala/fasthttp"
)

type c13http struct {
	service *core.Service
	ioSeen  int32
	fnSeen  int32
	lastLen int64
	addr    string
	close   func()
}

func newC13http(t *testing.T, limit int, fast bool) *c13http {
	s := &c13http{service: core.NewService()}
	s.service.MaxRequestLength = limit
	s.service.AddFunction(func(x string) int {
		atomic.AddInt32(&s.fnSeen, 1)
		return len(x)
	}, "size")
	s.service.Use(func(ctx context.Context, request []byte, next core.NextIOHandler) ([]byte, error) {
		atomic.AddInt32(&s.ioSeen, 1)
		atomic.StoreInt64(&s.lastLen, int64(len(request)))
		return next(ctx, request)
	})
	l, err := net.Listen("tcp", "127.0.0.1:0")
	if err != nil {
		t.Fatal(err)
	}
	s.addr = l.Addr().String()
	if fast {
		server := &fasthttp.Server{Logger: log.New(ioutil.Discard, "", 0)}
		if err := s.service.Bind(server); err != nil {
			t.Fatal(err)
		}
		go server.Serve(l)
		s.close = func() { server.Shutdown() }
	} else {
		server := &http.Server{}
		if err := s.service.Bind(server); err != nil {
			t.Fatal(err)
		}
		go server.Serve(l)
		s.close = func() { server.Close() }
	}
	time.Sleep(5 * time.Millisecond)
	return s
}

func c13rawHTTP(addr string, raw []byte) (status int, body string, err error) {
	c, err := net.Dial("tcp", addr)
	if err != nil {
		return 0, "", err
	}
	defer c.Close()
	c.SetDeadline(time.Now().Add(5 * time.Second))
	go c.Write(raw)
	resp, err := http.ReadResponse(bufio.NewReader(c), nil)
	if err != nil {
		return 0, "", err
	}
	b, _ := io.ReadAll(resp.Body)
	return resp.StatusCode, string(b), nil
}

func c13chunked(body []byte, chunk int) []byte {
	var sb strings.Builder
	sb.WriteString("POST / HTTP/1.1\r\nHost: x\r\nConnection: close\r\nTransfer-Encoding: chunked\r\n\r\n")
	for len(body) > 0 {
		n := chunk
		if n > len(body) {
			n = len(body)
		}
		fmt.Fprintf(&sb, "%x\r\n%s\r\n", n, body[:n])
		body = body[n:]
	}
	sb.WriteString("0\r\n\r\n")
	return []byte(sb.String())
}

// Finding 4. limit = math.MaxInt (the natural way to say "no limit"): for a request without a declared
// length ServeHTTP computes int64(limit)+1, which overflows to a negative LimitReader bound; the body
// is read as EMPTY and the empty request is processed (it answers with the list of functions).
func TestHuntC13_HTTPMaxIntLimitChunked(t *testing.T) {
	s := newC13http(t, math.MaxInt64, false)
	defer s.close()
	body := []byte("Cs4\"size\"a1{s3\"abc\"}z")
	status, resp, err := c13rawHTTP(s.addr, []byte(fmt.Sprintf("POST / HTTP/1.1\r\nHost: x\r\nConnection: close\r\nContent-Length: %d\r\n\r\n%s", len(body), body)))
	t.Logf("declared length: status=%d err=%v response=%q, IO plugin saw %d bytes", status, err, resp, atomic.LoadInt64(&s.lastLen))
	if resp != "R3z" {
		t.Errorf("declared length: unexpected response %q", resp)
	}
	status, resp, err = c13rawHTTP(s.addr, c13chunked(body, 7))
	t.Logf("chunked:         status=%d err=%v response=%q, IO plugin saw %d bytes, size() ran %d time(s) in total", status, err, resp, atomic.LoadInt64(&s.lastLen), atomic.LoadInt32(&s.fnSeen))
	if resp != "R3z" {
		t.Errorf("VIOLATION: a 21-byte chunked request (limit MaxInt64) was processed as a request of %d bytes: response %q, want %q", atomic.LoadInt64(&s.lastLen), resp, "R3z")
	}
}

type c13httpProxy struct {
	Size func(s string) (int, error)
}

func c13calls(addr string, size int, rounds int) map[string]int {
	big := strings.Repeat("x", size)
	res := map[string]int{}
	for i := 0; i < rounds; i++ {
		client := core.NewClient("http://" + addr + "/")
		var proxy c13httpProxy
		client.UseService(&proxy)
		n, err := proxy.Size(big)
		switch {
		case err == core.ErrRequestEntityTooLarge:
			res["ErrRequestEntityTooLarge"]++
		case err != nil:
			e := err.Error()
			if i := strings.LastIndex(e, ": "); i >= 0 {
				e = e[i+2:]
			}
			res[e]++
		default:
			res[fmt.Sprint("ok ", n)]++
		}
	}
	return res
}

// Finding 3. Bound to a *fasthttp.Server the service's limit is not the only one: fasthttp's own
// MaxRequestBodySize (4 MiB by default, nothing in Bind aligns it with MaxRequestLength) refuses the body
// first - with 400 or a reset connection, never with request-too-large.
//   a) limit 16 MiB, request 5 MiB: at or below the limit, yet never processed.
//   b) limit 10, request 5 MiB: the caller does not receive ErrRequestEntityTooLarge.
// (3 MiB requests behave as stated in both cases.)
func TestHuntC13_FastHTTPServerBodyOver4MiB(t *testing.T) {
	s := newC13http(t, 16<<20, true)
	res := c13calls(s.addr, 3<<20, 5)
	t.Logf("limit 16 MiB, request 3 MiB: %v", res)
	res = c13calls(s.addr, 5<<20, 10)
	t.Logf("limit 16 MiB, request 5 MiB: %v; IO plugin saw %d requests", res, atomic.LoadInt32(&s.ioSeen)-5)
	if res[fmt.Sprint("ok ", 5<<20)] != 10 {
		t.Errorf("VIOLATION: limit 16 MiB: 5 MiB requests were not processed normally: %v", res)
	}
	s.close()

	s = newC13http(t, 10, true)
	res = c13calls(s.addr, 3<<20, 5)
	t.Logf("limit 10, request 3 MiB: %v", res)
	res = c13calls(s.addr, 5<<20, 10)
	t.Logf("limit 10, request 5 MiB: %v", res)
	if res["ErrRequestEntityTooLarge"] != 10 {
		t.Errorf("VIOLATION: limit 10: callers of 5 MiB requests did not receive ErrRequestEntityTooLarge: %v", res)
	}
	s.close()
}
