// Hunt C13 (MaxRequestLength) - socket transport (tcp, unix).
// Copy into rpc/socket/ (package socket_test) and run from the worktree root:
//   cp _hunt/demo/huntc13_socket_test.go rpc/socket/huntc13_socket_test.go && unshare -n sh -c 'ip link set lo up; go test -vet=off -count=1 -v -run TestHuntC13_ ./rpc/socket/' ; rm rpc/socket/huntc13_socket_test.go
package socket_test

import (
	"context"
	"fmt"
	"net"
	"os"
	"strings"
	"sync/atomic"
	"testing"
	"time"

	"github.com/hprose/hprose-golang/v3/rpc/core"
)

type c13sock struct {
	service  *core.Service
	ioSeen   int32
	lastLen  int32
	sizeSeen int32
	slowSeen int32
	listener net.Listener
	uri      string
}

func newC13sock(t *testing.T, network string, limit int) *c13sock {
	s := &c13sock{service: core.NewService()}
	s.service.MaxRequestLength = limit
	s.service.AddFunction(func(x string) int {
		atomic.AddInt32(&s.sizeSeen, 1)
		return len(x)
	}, "size")
	s.service.AddFunction(func() string {
		atomic.AddInt32(&s.slowSeen, 1)
		time.Sleep(300 * time.Millisecond)
		return "ok"
	}, "slow")
	s.service.Use(func(ctx context.Context, request []byte, next core.NextIOHandler) ([]byte, error) {
		atomic.AddInt32(&s.ioSeen, 1)
		atomic.StoreInt32(&s.lastLen, int32(len(request)))
		return next(ctx, request)
	})
	addr := "127.0.0.1:0"
	if network == "unix" {
		addr = fmt.Sprintf("%s/huntc13_%d.sock", os.TempDir(), os.Getpid())
		os.Remove(addr)
	}
	l, err := net.Listen(network, addr)
	if err != nil {
		t.Fatal(err)
	}
	s.listener = l
	if network == "unix" {
		s.uri = "unix://" + addr
	} else {
		s.uri = "tcp://" + l.Addr().String() + "/"
	}
	if err = s.service.Bind(l); err != nil {
		t.Fatal(err)
	}
	time.Sleep(5 * time.Millisecond)
	return s
}

type c13sockProxy struct {
	Slow func() (string, error)
	Size func(s string) (int, error)
}

// Finding 1. A 12-byte request (limit 100) that is in flight on the client's single multiplexed
// connection when another goroutine sends an oversized request: the server executes it, then drops
// the connection; the client fails it with ErrRequestEntityTooLarge.
func TestHuntC13_SocketSmallCallFailsWithTooLarge(t *testing.T) {
	s := newC13sock(t, "tcp", 100)
	defer s.listener.Close()
	client := core.NewClient(s.uri)
	var proxy c13sockProxy
	client.UseService(&proxy)
	type res struct {
		s   string
		err error
	}
	ch := make(chan res, 1)
	go func() {
		r, err := proxy.Slow()
		ch <- res{r, err}
	}()
	time.Sleep(50 * time.Millisecond)
	_, err := proxy.Size(strings.Repeat("x", 1000))
	if err != core.ErrRequestEntityTooLarge {
		t.Errorf("oversized call: want ErrRequestEntityTooLarge, got %v", err)
	}
	r := <-ch
	t.Logf("small call: result=%q err=%v; slow() executed %d time(s) on the server, size() %d time(s)", r.s, r.err, atomic.LoadInt32(&s.slowSeen), atomic.LoadInt32(&s.sizeSeen))
	if r.err != nil || r.s != "ok" {
		t.Errorf("VIOLATION: a 12-byte request (limit 100) was not processed normally: result=%q err=%v", r.s, r.err)
	}
	// later use of the client is fine again
	if n, err := proxy.Size("abc"); n != 3 || err != nil {
		t.Errorf("call after the refusal: %d %v", n, err)
	}
}

// Finding 2. Far above the limit (8 MiB, limit 10) the caller gets the error of its own write
// (ECONNRESET / EPIPE) instead of ErrRequestEntityTooLarge: the server answers after the 12-byte
// header and closes with the body unread; the client's send loop and receive loop race to fail the call.
func TestHuntC13_SocketFarAboveWriteError(t *testing.T) {
	for _, network := range []string{"tcp", "unix"} {
		s := newC13sock(t, network, 10)
		big := strings.Repeat("x", 8<<20)
		bad := map[string]int{}
		const rounds = 30
		for i := 0; i < rounds; i++ {
			client := core.NewClient(s.uri)
			var proxy c13sockProxy
			client.UseService(&proxy)
			_, err := proxy.Size(big)
			if err != core.ErrRequestEntityTooLarge {
				e := fmt.Sprint(err)
				if i := strings.LastIndex(e, ": "); i >= 0 {
					e = e[i+2:]
				}
				bad[e]++
			}
		}
		s.listener.Close()
		if len(bad) > 0 {
			t.Errorf("VIOLATION: %s: of %d calls with an 8 MiB request (limit 10) these did not end with ErrRequestEntityTooLarge: %v (server processed %d)", network, rounds, bad, atomic.LoadInt32(&s.ioSeen))
		}
	}
}

// Finding 6. The length field of the frame header has 31 bits and makeHeader silently truncates: the
// library's own client declares a request of 2 GiB + 21 bytes as 21 bytes. The service (limit 100)
// processes the first 21 bytes: the IO plugin and the published function both run.
// (The 2 GiB buffer is never written to, so it costs almost no resident memory.)
func TestHuntC13_Socket2GiBTruncatedLength(t *testing.T) {
	if testing.Short() {
		t.Skip()
	}
	s := newC13sock(t, "tcp", 100)
	defer s.listener.Close()
	client := core.NewClient(s.uri)
	prefix := []byte("Cs4\"size\"a1{s3\"abc\"}z")
	huge := make([]byte, 1<<31+len(prefix))
	copy(huge, prefix)
	// stands for any way to produce such a request (a 2 GiB argument, a padding/encrypting plugin ...)
	client.Use(func(ctx context.Context, request []byte, next core.NextIOHandler) ([]byte, error) {
		return next(ctx, huge)
	})
	var proxy c13sockProxy
	client.UseService(&proxy)
	n, err := proxy.Size("whatever")
	time.Sleep(100 * time.Millisecond)
	t.Logf("request of %d bytes, limit 100: result=%d err=%v; IO plugin saw %d request(s) (last of %d bytes), size() ran %d time(s)",
		len(huge), n, err, atomic.LoadInt32(&s.ioSeen), atomic.LoadInt32(&s.lastLen), atomic.LoadInt32(&s.sizeSeen))
	if atomic.LoadInt32(&s.ioSeen) != 0 || atomic.LoadInt32(&s.sizeSeen) != 0 {
		t.Errorf("VIOLATION: a request of %d bytes reached the IO plugin (%d times, %d bytes) and the function (%d times) of a service whose limit is 100",
			len(huge), s.ioSeen, s.lastLen, s.sizeSeen)
	}
	if err != core.ErrRequestEntityTooLarge {
		t.Errorf("VIOLATION: caller got %v (result %d), want ErrRequestEntityTooLarge", err, n)
	}
}
