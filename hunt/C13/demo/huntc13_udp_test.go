// Hunt C13 (MaxRequestLength) - udp transport.
// Copy into rpc/udp/ (package udp_test) and run from the worktree root:
//   cp _hunt/demo/huntc13_udp_test.go rpc/udp/huntc13_udp_test.go && unshare -n sh -c 'ip link set lo up; go test -vet=off -count=1 -v -run TestHuntC13_ ./rpc/udp/' ; rm rpc/udp/huntc13_udp_test.go
package udp_test

import (
	"context"
	"fmt"
	"hash/crc32"
	"net"
	"strings"
	"sync/atomic"
	"testing"
	"time"

	"github.com/hprose/hprose-golang/v3/rpc/core"
)

type c13udp struct {
	service  *core.Service
	ioSeen   int32
	slowSeen int32
	conn     *net.UDPConn
	addr     string
}

func newC13udp(t *testing.T, limit int) *c13udp {
	s := &c13udp{service: core.NewService()}
	s.service.MaxRequestLength = limit
	s.service.AddFunction(func(x string) int { return len(x) }, "size")
	s.service.AddFunction(func() string {
		atomic.AddInt32(&s.slowSeen, 1)
		time.Sleep(300 * time.Millisecond)
		return "ok"
	}, "slow")
	s.service.Use(func(ctx context.Context, request []byte, next core.NextIOHandler) ([]byte, error) {
		atomic.AddInt32(&s.ioSeen, 1)
		return next(ctx, request)
	})
	a, _ := net.ResolveUDPAddr("udp", "127.0.0.1:0")
	c, err := net.ListenUDP("udp", a)
	if err != nil {
		t.Fatal(err)
	}
	s.conn = c
	s.addr = c.LocalAddr().String()
	if err := s.service.Bind(c); err != nil {
		t.Fatal(err)
	}
	time.Sleep(5 * time.Millisecond)
	return s
}

type c13udpProxy struct {
	Slow func() (string, error)
	Size func(s string) (int, error)
}

// Finding 1 (udp). The server answers the oversized datagram with an error datagram that carries the
// call's index and goes on serving; the client ignores the index, closes its socket and fails EVERY
// pending call with ErrRequestEntityTooLarge - also the 12-byte call the server is executing.
func TestHuntC13_UDPSmallCallFailsWithTooLarge(t *testing.T) {
	s := newC13udp(t, 100)
	defer s.conn.Close()
	client := core.NewClient("udp://" + s.addr + "/")
	var proxy c13udpProxy
	client.UseService(&proxy)
	type res struct {
		s   string
		err error
	}
	ch := make(chan res, 1)
	go func() {
		r, err := proxy.Slow()
		ch <- res{r, err}
	}()
	time.Sleep(50 * time.Millisecond)
	_, err := proxy.Size(strings.Repeat("x", 1000))
	if err != core.ErrRequestEntityTooLarge {
		t.Errorf("oversized call: want ErrRequestEntityTooLarge, got %v", err)
	}
	r := <-ch
	t.Logf("small call: result=%q err=%v; slow() executed %d time(s) on the server", r.s, r.err, atomic.LoadInt32(&s.slowSeen))
	if r.err != nil || r.s != "ok" {
		t.Errorf("VIOLATION: a 12-byte request (limit 100) was not processed normally: result=%q err=%v", r.s, r.err)
	}
}

func c13udpHeader(length int, index int) (header [8]byte) {
	header[7] = byte(index & 0xff)
	header[6] = byte(index >> 8 & 0xff)
	header[5] = byte(length & 0xff)
	header[4] = byte(length >> 8 & 0xff)
	crc := crc32.ChecksumIEEE(header[4:])
	header[3] = byte(crc & 0xff)
	header[2] = byte(crc >> 8 & 0xff)
	header[1] = byte(crc >> 16 & 0xff)
	header[0] = byte(crc >> 24 & 0xff)
	return
}

// Finding 7 (minor). An oversized datagram whose header declares another length than it has is dropped
// without any answer: it is refused, but the caller never receives the request-too-large error.
func TestHuntC13_UDPMisdeclaredNoError(t *testing.T) {
	s := newC13udp(t, 30)
	defer s.conn.Close()
	c, err := net.Dial("udp", s.addr)
	if err != nil {
		t.Fatal(err)
	}
	defer c.Close()
	body := []byte(fmt.Sprintf("Cs4\"size\"a1{s%d\"%s\"}z", 100, strings.Repeat("x", 100))) // 120 bytes, limit 30
	for _, declared := range []int{len(body), 20, 30, 2000} {
		h := c13udpHeader(declared, 7)
		before := atomic.LoadInt32(&s.ioSeen)
		c.Write(append(h[:], body...))
		c.SetReadDeadline(time.Now().Add(500 * time.Millisecond))
		buf := make([]byte, 65536)
		n, err := c.Read(buf)
		seen := atomic.LoadInt32(&s.ioSeen) - before
		t.Logf("declared=%d actual=%d: processed=%d reply=%q err=%v", declared, len(body), seen, buf[:n], err)
		if seen != 0 {
			t.Errorf("VIOLATION: processed")
		}
		if err != nil || !strings.HasSuffix(string(buf[:n]), core.RequestEntityTooLarge) {
			t.Errorf("VIOLATION: declared=%d actual=%d limit=30: no request-too-large answer (%v)", declared, len(body), err)
		}
	}
}

// Finding 8 (minor). With a limit above what a datagram carries, a request at or below the limit is
// refused by the client itself with ErrRequestEntityTooLarge.
func TestHuntC13_UDPBelowLimitRefused(t *testing.T) {
	s := newC13udp(t, 100000)
	defer s.conn.Close()
	client := core.NewClient("udp://" + s.addr + "/")
	var proxy c13udpProxy
	client.UseService(&proxy)
	n, err := proxy.Size(strings.Repeat("x", 66000))
	t.Logf("limit 100000, request of about 66020 bytes: result=%d err=%v", n, err)
	if err != nil {
		t.Errorf("VIOLATION: a request below the limit (100000) ended with %v", err)
	}
}
