// Hunt C13 (MaxRequestLength) - websocket transport.
// Copy into rpc/websocket/ (package websocket_test) and run from the worktree root:
//   cp _hunt/demo/huntc13_ws_test.go rpc/websocket/huntc13_ws_test.go && unshare -n sh -c 'ip link set lo up; go test -vet=off -count=1 -v -run TestHuntC13_ ./rpc/websocket/' ; rm rpc/websocket/huntc13_ws_test.go
package websocket_test

import (
	"context"
	"net"
	"net/http"
	"runtime"
	"strings"
	"sync/atomic"
	"testing"
	"time"

	ws "github.com/fasthttp/websocket"
	"github.com/hprose/hprose-golang/v3/rpc/core"
)

type c13ws struct {
	service  *core.Service
	ioSeen   int32
	slowSeen int32
	addr     string
	server   *http.Server
}

func newC13ws(t *testing.T, limit int) *c13ws {
	s := &c13ws{service: core.NewService()}
	s.service.MaxRequestLength = limit
	s.service.AddFunction(func(x string) int { return len(x) }, "size")
	s.service.AddFunction(func() string {
		atomic.AddInt32(&s.slowSeen, 1)
		time.Sleep(300 * time.Millisecond)
		return "ok"
	}, "slow")
	s.service.Use(func(ctx context.Context, request []byte, next core.NextIOHandler) ([]byte, error) {
		atomic.AddInt32(&s.ioSeen, 1)
		return next(ctx, request)
	})
	l, err := net.Listen("tcp", "127.0.0.1:0")
	if err != nil {
		t.Fatal(err)
	}
	s.addr = l.Addr().String()
	s.server = &http.Server{}
	if err := s.service.Bind(s.server); err != nil {
		t.Fatal(err)
	}
	go s.server.Serve(l)
	time.Sleep(5 * time.Millisecond)
	return s
}

type c13wsProxy struct {
	Slow func() (string, error)
	Size func(s string) (int, error)
}

// Finding 1 (websocket). Same as on the socket transport: the 12-byte call that shares the connection
// with an oversized one is executed by the server and then failed with ErrRequestEntityTooLarge.
func TestHuntC13_WSSmallCallFailsWithTooLarge(t *testing.T) {
	s := newC13ws(t, 100)
	defer s.server.Close()
	client := core.NewClient("ws://" + s.addr + "/")
	var proxy c13wsProxy
	client.UseService(&proxy)
	type res struct {
		s   string
		err error
	}
	ch := make(chan res, 1)
	go func() {
		r, err := proxy.Slow()
		ch <- res{r, err}
	}()
	time.Sleep(50 * time.Millisecond)
	_, err := proxy.Size(strings.Repeat("x", 1000))
	if err != core.ErrRequestEntityTooLarge {
		t.Errorf("oversized call: want ErrRequestEntityTooLarge, got %v", err)
	}
	r := <-ch
	t.Logf("small call: result=%q err=%v; slow() executed %d time(s) on the server", r.s, r.err, atomic.LoadInt32(&s.slowSeen))
	if r.err != nil || r.s != "ok" {
		t.Errorf("VIOLATION: a 12-byte request (limit 100) was not processed normally: result=%q err=%v", r.s, r.err)
	}
}

// Finding 5 (bound). The websocket handler applies the limit only after ReadMessage has buffered the
// complete message (no SetReadLimit): a peer that streams one fragmented message of 128 MiB to a service
// whose limit is 10 bytes makes the server allocate several times 128 MiB before it refuses.
func TestHuntC13_WSUnboundedBuffering(t *testing.T) {
	s := newC13ws(t, 10)
	defer s.server.Close()
	c, _, err := ws.DefaultDialer.Dial("ws://"+s.addr+"/", http.Header{"Sec-WebSocket-Protocol": []string{"hprose"}})
	if err != nil {
		t.Fatal(err)
	}
	defer c.Close()
	var m0, m1 runtime.MemStats
	runtime.GC()
	runtime.ReadMemStats(&m0)
	w, err := c.NextWriter(ws.BinaryMessage)
	if err != nil {
		t.Fatal(err)
	}
	w.Write([]byte{0, 0, 0, 1})
	chunk := make([]byte, 1<<20)
	total := 0
	for i := 0; i < 128; i++ {
		if _, err := w.Write(chunk); err != nil {
			t.Logf("the server stopped reading after %d bytes: %v", total, err)
			break
		}
		total += len(chunk)
	}
	time.Sleep(100 * time.Millisecond)
	runtime.ReadMemStats(&m1)
	grew := (m1.TotalAlloc - m0.TotalAlloc) >> 20
	t.Logf("streamed %d MiB of one unfinished message to a service with limit 10: the process allocated %d MiB meanwhile (HeapSys %d MiB), IO plugin saw %d", total>>20, grew, m1.HeapSys>>20, atomic.LoadInt32(&s.ioSeen))
	w.Close()
	_, msg, err := c.ReadMessage()
	t.Logf("answer: %q %v", msg, err)
	if total == 128<<20 && grew > 64 {
		t.Errorf("VIOLATION: limit 10 bytes, yet the server accepted and buffered all %d MiB (%d MiB allocated) before refusing", total>>20, grew)
	}
}
