// Demonstrations for property C14 at the RPC codecs.
//
// Copy this file into the package directory  rpc/core/  of the worktree:
//
//	cp _hunt/demo/zz_huntc14_core_test.go rpc/core/ && go test -vet=off -count=1 -run 'TestHuntC14_' ./rpc/core/ ; rm rpc/core/zz_huntc14_core_test.go
package core_test

import (
	"testing"

	. "github.com/hprose/hprose-golang/v3/rpc/core"
)

// The error a codec returns for a message with an unknown leading tag keeps the caller's buffer
// (InvalidResponseError{response}, InvalidRequestError{request}) instead of a copy: overwriting
// or re-using the input buffer afterwards changes the error.
func TestHuntC14_CodecErrorAliasesInput(t *testing.T) {
	resp := []byte(`Xs5"hello"z`)
	_, err := NewClientCodec().Decode(resp, NewClientContext())
	if err == nil {
		t.Fatal("expected an error")
	}
	before := err.Error()
	for i := range resp {
		resp[i] = 'Q' // the transport re-uses its read buffer
	}
	if after := err.Error(); after != before {
		t.Errorf("VIOLATION: ClientCodec.Decode: the returned error changed with the input buffer: %q -> %q", before, after)
	}

	svc := NewService()
	svc.AddFunction(func(s string) string { return s }, "f")
	req := []byte(`Xs1"f"a1{s3"abc"}z`)
	_, _, err = NewServiceCodec().Decode(req, NewServiceContext(svc))
	if err == nil {
		t.Fatal("expected an error")
	}
	before = err.Error()
	for i := range req {
		req[i] = 'Q'
	}
	if after := err.Error(); after != before {
		t.Errorf("VIOLATION: ServiceCodec.Decode: the returned error changed with the input buffer: %q -> %q", before, after)
	}
}
