// Demonstrations for property C14 (serialization safe under concurrency; pooled coders leak no
// state; decoded values alias nothing).
//
// Copy this file into the package directory  io/  of the worktree:
//
//	cp _hunt/demo/zz_huntc14_io_test.go io/ && go test -vet=off -count=1 -run 'TestHuntC14_' ./io/ ; rm io/zz_huntc14_io_test.go
//
// Cases that kill the process (fatal stack overflow, SIGSEGV) are run in a child process: the
// test re-executes its own binary with HUNTC14_CHILD=<case>, so the other tests still run.
package io_test

import (
	"bytes"
	"fmt"
	"os"
	"os/exec"
	"reflect"
	"runtime"
	"runtime/debug"
	"strings"
	"testing"

	. "github.com/hprose/hprose-golang/v3/io"
)

// ---------------------------------------------------------------------------------------------
// 1. recursive types that do not pass through a NAMED struct: building the decoder recurses for
//    ever (getValueDecoder -> getMapDecoder/getSliceDecoder -> GetDecodeHandler -> getValueDecoder)
//    and the process dies with "fatal error: stack overflow" on the first use of the type.
// ---------------------------------------------------------------------------------------------

type huntTree map[string]huntTree            // a directory tree, a trie ...
type huntNested []huntNested                 // nested lists
type huntAnon []struct{ Next huntAnon }      // recursion through an anonymous struct
type huntPtrTree map[string]*huntPtrTree     // the same with a pointer
type huntHolder struct {                     // a perfectly ordinary named struct that merely HAS such a field
	Name string
	Dirs huntTree
}

func huntChild(name string) {
	debug.SetMaxStack(64 << 20) // die sooner than after 1 GB of stack; the failure is the same
	switch name {
	case "tree-unmarshal":
		var v huntTree
		err := Unmarshal([]byte(`m1{s1"a"m1{s1"b"n}}`), &v)
		fmt.Println("child survived:", v, err)
	case "nested-unmarshal":
		var v huntNested
		err := Unmarshal([]byte(`a2{a{}a1{a{}}}`), &v)
		fmt.Println("child survived:", v, err)
	case "ptrtree-unmarshal":
		var v huntPtrTree
		err := Unmarshal([]byte(`m1{s1"a"m{}}`), &v)
		fmt.Println("child survived:", v, err)
	case "anon-marshal":
		// even ENCODING dies: the struct encoder also builds the decode handlers of its fields
		data, err := Marshal(huntAnon{{Next: huntAnon{{}}}})
		fmt.Printf("child survived: %s %v\n", data, err)
	case "holder-marshal":
		data, err := Marshal(huntHolder{"x", huntTree{"a": nil}})
		fmt.Printf("child survived: %s %v\n", data, err)
	case "tree-unmarshal-concurrent":
		// the same from several goroutines at once (first use of the type)
		done := make(chan struct{})
		for i := 0; i < 4; i++ {
			go func() {
				var v huntTree
				_ = Unmarshal([]byte(`m1{s1"a"m1{s1"b"n}}`), &v)
				done <- struct{}{}
			}()
		}
		for i := 0; i < 4; i++ {
			<-done
		}
		fmt.Println("child survived")
	case "extra-cyclic-pointer-simple":
		type node struct {
			V    int
			Next *node
		}
		n := &node{V: 1}
		n.Next = n
		data, err := Marshal(n) // Marshal is simple mode: no references
		fmt.Printf("child survived: %d bytes, %v\n", len(data), err)
	case "extra-interface-field":
		type withStringer struct {
			Msg fmt.Stringer // any non-empty interface: error, fmt.Stringer, io.Reader ...
			N   int
		}
		var v withStringer
		err := Unmarshal([]byte(`m2{s3"msg"s3"abc"s1"n"i5;}`), &v)
		fmt.Println("decoded without error:", err, "Msg==nil:", v.Msg == nil)
		fmt.Println(v.Msg.String()) // the itab word holds a *rtype: jumps into data
		fmt.Println("child survived")
	}
}

func TestHuntC14_child(t *testing.T) {
	if name := os.Getenv("HUNTC14_CHILD"); name != "" {
		huntChild(name)
	}
}

func runChild(t *testing.T, name string) (out string, err error) {
	cmd := exec.Command(os.Args[0], "-test.run=^TestHuntC14_child$", "-test.count=1")
	cmd.Env = append(os.Environ(), "HUNTC14_CHILD="+name)
	var buf bytes.Buffer
	cmd.Stdout = &buf
	cmd.Stderr = &buf
	err = cmd.Run()
	return buf.String(), err
}

func firstLines(s string, n int) string {
	lines := strings.Split(s, "\n")
	if len(lines) > n {
		lines = lines[:n]
	}
	return strings.Join(lines, "\n")
}

func TestHuntC14_RecursiveTypes(t *testing.T) {
	// sanity: encoding the plain recursive map and list types works, so they are "supported"
	if data, err := Marshal(huntTree{"a": huntTree{"b": nil}}); err != nil || string(data) != `m1{uam1{ubn}}` {
		t.Fatalf("unexpected: %s %v", data, err)
	}
	for _, name := range []string{"tree-unmarshal", "nested-unmarshal", "ptrtree-unmarshal", "anon-marshal", "holder-marshal", "tree-unmarshal-concurrent"} {
		out, err := runChild(t, name)
		if err != nil || !strings.Contains(out, "child survived") {
			t.Errorf("VIOLATION: %s: the process died (%v):\n%s", name, err, firstLines(out, 4))
		} else {
			t.Logf("%s: ok: %s", name, firstLines(out, 1))
		}
	}
}

// ---------------------------------------------------------------------------------------------
// 2. reference mode: a string read earlier and referred to by a []byte destination (or the other
//    way round) is not copied: the []byte shares the memory of the Go string. Changing the decoded
//    bytes changes a decoded string - here the KEY of the decoded map, which corrupts the map.
// ---------------------------------------------------------------------------------------------

func TestHuntC14_RefStringBytesAlias(t *testing.T) {
	f := Formatter{Simple: false}
	data, err := f.Marshal(map[string]string{"xyz": "xyz"}) // m1{s3"xyz"r1;}
	if err != nil {
		t.Fatal(err)
	}
	var m map[string][]byte
	if err := f.Unmarshal(data, &m); err != nil {
		t.Fatal(err)
	}
	if string(m["xyz"]) != "xyz" {
		t.Fatalf("unexpected %v", m)
	}
	m["xyz"][0] = 'A' // the caller owns the decoded bytes
	_, okOld := m["xyz"]
	_, okNew := m["Ayz"]
	var keys []string
	for k := range m {
		keys = append(keys, k)
	}
	if !okOld {
		t.Errorf("VIOLATION: writing into the decoded []byte value changed the decoded string key: wire %q, keys now %q, lookup \"xyz\"=%v lookup \"Ayz\"=%v (hash no longer matches)", data, keys, okOld, okNew)
	}

	// the same between two values of one struct / list
	var pair struct {
		S string
		B []byte
	}
	if err := f.Unmarshal([]byte(`m2{s1"s"s5"hello"s1"b"r2;}`), &pair); err != nil {
		t.Fatal(err)
	}
	if len(pair.B) == 5 {
		pair.B[0] = 'J'
		if pair.S != "hello" {
			t.Errorf("VIOLATION: immutable decoded string changed to %q after writing into the decoded []byte", pair.S)
		}
	}
}

// ---------------------------------------------------------------------------------------------
// 3. the per-type registries depend on history: Register(T, tag) is honoured by the encoder but
//    ignored by the decoder (and by encoders of containing structs) when the field map / coder of
//    T was built before - which already happens when a struct that CONTAINS T is registered first.
//    Identical types, identical calls, different bytes and lost data.
// ---------------------------------------------------------------------------------------------

type huntInnerA struct {
	Name string `custom:"nm"`
}
type huntOuterA struct {
	In huntInnerA `custom:"in"`
}
type huntInnerB struct {
	Name string `custom:"nm"`
}
type huntOuterB struct {
	In huntInnerB `custom:"in"`
}
type huntLate struct {
	Name string `custom:"nm"`
}

func TestHuntC14_RegisterOrder(t *testing.T) {
	// A: inner first, outer second.   B: outer first, inner second.
	Register((*huntInnerA)(nil), "custom")
	Register((*huntOuterA)(nil), "custom")
	Register((*huntOuterB)(nil), "custom")
	Register((*huntInnerB)(nil), "custom")

	da, _ := Marshal(huntInnerA{"x"})
	db, _ := Marshal(huntInnerB{"x"})
	var a huntInnerA
	var b huntInnerB
	_ = Unmarshal(da, &a)
	errB := Unmarshal(db, &b)
	if a.Name != "x" {
		t.Fatalf("order A broken too: %+v", a)
	}
	if b.Name != "x" {
		t.Errorf("VIOLATION: round trip of huntInnerB loses the field (err=%v): wire %q decoded %+v; the identical type huntInnerA registered in the other order gives %+v", errB, db, b, a)
	}
	oa, _ := Marshal(huntOuterA{huntInnerA{"x"}})
	ob, _ := Marshal(huntOuterB{huntInnerB{"x"}})
	if strings.ReplaceAll(string(ob), "B", "A") != string(oa) {
		t.Errorf("VIOLATION: same types, same value, different bytes depending on the order of Register:\n  inner first: %s\n  outer first: %s", oa, ob)
	}

	// C: a type used once (encoded and decoded) before it is registered with a tag
	d0, _ := Marshal(huntLate{"x"})
	var c0 huntLate
	_ = Unmarshal(d0, &c0)
	Register((*huntLate)(nil), "custom")
	dc, _ := Marshal(huntLate{"x"})
	var c huntLate
	errC := Unmarshal(dc, &c)
	if c.Name != "x" {
		t.Errorf("VIOLATION: after Register(huntLate, \"custom\") the encoder writes %q but the decoder still uses the field map cached by the earlier use: decoded %+v err=%v", dc, c, errC)
	}
}

// ---------------------------------------------------------------------------------------------
// 4. Decoder.ResetBytes / ResetReader ("reuse decoder instance") keep the Error of the previous
//    input: the next, perfectly good input decodes to zero values and reports the old error.
// ---------------------------------------------------------------------------------------------

func TestHuntC14_ResetBytesKeepsError(t *testing.T) {
	dec := NewDecoder([]byte(`a2{i1;`)) // cut off
	var first []int
	dec.Decode(&first)
	if dec.Error == nil {
		t.Fatal("expected an error for the truncated input")
	}
	dec.ResetBytes([]byte(`a3{1i22;i333;}`)).Reset()
	var second []int
	dec.Decode(&second)
	if dec.Error != nil || !reflect.DeepEqual(second, []int{1, 22, 333}) {
		t.Errorf("VIOLATION: after ResetBytes(good input) the decoder returns %v with Error=%v (the error of the previous input); alone it gives [1 22 333] <nil>", second, dec.Error)
	}

	dec2 := NewDecoderFromReader(strings.NewReader(`s5"ab`))
	var s string
	dec2.Decode(&s)
	dec2.ResetReader(strings.NewReader(`a2{s1"x"s1"y"}`)).Reset()
	var l []string
	dec2.Decode(&l)
	if dec2.Error != nil || !reflect.DeepEqual(l, []string{"x", "y"}) {
		t.Errorf("VIOLATION: after ResetReader(good input) the decoder returns %q with Error=%v", l, dec2.Error)
	}
}

// ---------------------------------------------------------------------------------------------
// 5. a recycled decoder keeps pointers to the values it decoded for the previous user:
//    decoderRefer.Reset truncates the table (ref = ref[:0]) without clearing it. The values stay
//    reachable (here 8 MiB) for as long as the decoder lives in the pool / is in use again.
// ---------------------------------------------------------------------------------------------

type huntBig struct {
	Name string
	Data []byte
}

func TestHuntC14_RecycledDecoderRetains(t *testing.T) {
	f := Formatter{Simple: false}
	data, err := f.Marshal(&huntBig{"big", make([]byte, 8<<20)})
	if err != nil {
		t.Fatal(err)
	}
	collected := make(chan struct{})
	func() {
		var p *huntBig
		if err := f.Unmarshal(data, &p); err != nil {
			t.Fatal(err)
		}
		runtime.SetFinalizer(p, func(*huntBig) { close(collected) })
	}()
	data = nil
	// the decoder is back in the pool; take the pooled decoders out again (as the next users
	// would) and hold them, so that the GC clearing the pool does not hide the retention
	var held []*Decoder
	for i := 0; i < 4*runtime.GOMAXPROCS(0); i++ {
		held = append(held, GetDecoder())
	}
	for i := 0; i < 6; i++ {
		runtime.GC()
	}
	select {
	case <-collected:
		t.Log("collected: no retention observed")
	default:
		var ms runtime.MemStats
		runtime.ReadMemStats(&ms)
		t.Errorf("VIOLATION: the value decoded by the previous user is still reachable from a recycled decoder after 6 GCs (HeapAlloc %d MiB)", ms.HeapAlloc>>20)
	}
	// the next user really works with such a decoder, and it still decodes correctly
	for _, d := range held {
		d.ResetBytes([]byte(`s2"ok"`))
		var s string
		d.Decode(&s)
		if s != "ok" {
			t.Errorf("unexpected %q", s)
		}
	}
	for i := 0; i < 3; i++ {
		runtime.GC()
	}
	select {
	case <-collected:
	default:
		t.Logf("still retained after the decoders were used again for small messages")
	}
	runtime.KeepAlive(held)
}

// ---------------------------------------------------------------------------------------------
// Extras found on the way; they kill the process but are outside the wording of C14.
// ---------------------------------------------------------------------------------------------

func TestHuntC14_Extra_ProcessDeath(t *testing.T) {
	for _, name := range []string{"extra-cyclic-pointer-simple", "extra-interface-field"} {
		out, err := runChild(t, name)
		if err != nil || !strings.Contains(out, "child survived") {
			t.Errorf("VIOLATION: %s: the process died (%v):\n%s", name, err, firstLines(out, 5))
		}
	}
}
