import sys
N=int(sys.argv[1])
out=[]
out.append('''package io

import (
	"bytes"
	"fmt"
	"reflect"
	"sync"
	"testing"
)

type stressCase struct {
	name  string
	val   func() interface{}   // value to marshal
	newp  func() interface{}   // pointer to decode into
}
''')
for i in range(N):
    out.append(f'''
type SI{i} struct {{ A int; B string }}
type SO{i} struct {{ In SI{i}; P *SI{i}; L []SI{i}; M map[string]SI{i}; Arr [2]SI{i} }}
type SR{i} struct {{ V int; Next *SR{i}; Kids []SR{i}; ByName map[string]*SR{i} }}
type SA{i} struct {{ N int; B *SB{i} }}
type SB{i} struct {{ S string; A *SA{i}; As []SA{i} }}
''')
out.append('var stressCases = [][]stressCase{\n')
for i in range(N):
    out.append(f'''	{{
		{{"SI{i}", func() interface{{}} {{ return SI{i}{{1, "x"}} }}, func() interface{{}} {{ return new(SI{i}) }}}},
		{{"*SI{i}", func() interface{{}} {{ return &SI{i}{{1, "x"}} }}, func() interface{{}} {{ return new(*SI{i}) }}}},
		{{"SO{i}", func() interface{{}} {{ return SO{i}{{SI{i}{{1, "x"}}, &SI{i}{{2, "y"}}, []SI{i}{{{{3, "z"}}}}, map[string]SI{i}{{"k": {{4, "w"}}}}, [2]SI{i}{{{{5, "u"}}, {{6, "v"}}}}}} }}, func() interface{{}} {{ return new(SO{i}) }}}},
		{{"[]SO{i}", func() interface{{}} {{ return []SO{i}{{{{In: SI{i}{{1, "x"}}}}}} }}, func() interface{{}} {{ return new([]SO{i}) }}}},
		{{"SR{i}", func() interface{{}} {{ return SR{i}{{1, &SR{i}{{V: 2}}, []SR{i}{{{{V: 3}}}}, map[string]*SR{i}{{"k": {{V: 4}}}}}} }}, func() interface{{}} {{ return new(SR{i}) }}}},
		{{"*SR{i}", func() interface{{}} {{ return &SR{i}{{1, &SR{i}{{V: 2}}, []SR{i}{{{{V: 3}}}}, map[string]*SR{i}{{"k": {{V: 4}}}}}} }}, func() interface{{}} {{ return new(*SR{i}) }}}},
		{{"[]SR{i}", func() interface{{}} {{ return []SR{i}{{{{V: 1, Next: &SR{i}{{V: 2}}}}}} }}, func() interface{{}} {{ return new([]SR{i}) }}}},
		{{"SA{i}", func() interface{{}} {{ return SA{i}{{1, &SB{i}{{"s", &SA{i}{{N: 2}}, []SA{i}{{{{N: 3}}}}}}}} }}, func() interface{{}} {{ return new(SA{i}) }}}},
		{{"SB{i}", func() interface{{}} {{ return SB{i}{{"s", &SA{i}{{N: 2, B: &SB{i}{{S: "t"}}}}, []SA{i}{{{{N: 3}}}}}} }}, func() interface{{}} {{ return new(SB{i}) }}}},
		{{"map[string]SB{i}", func() interface{{}} {{ return map[string]SB{i}{{"k": {{S: "s", A: &SA{i}{{N: 2}}}}}} }}, func() interface{{}} {{ return new(map[string]SB{i}) }}}},
	}},
''')
out.append('}\n')
out.append('''
func stressRun(t *testing.T, f Formatter, group []stressCase, G int) {
	type res struct {
		data []byte
		err  error
		back interface{}
		derr error
	}
	results := make([][]res, len(group))
	var wg sync.WaitGroup
	start := make(chan struct{})
	for ci := range group {
		results[ci] = make([]res, G)
		for g := 0; g < G; g++ {
			wg.Add(1)
			go func(ci, g int) {
				defer wg.Done()
				c := group[ci]
				v := c.val()
				p := c.newp()
				<-start
				var r res
				func() {
					defer func() {
						if e := recover(); e != nil {
							r.err = fmt.Errorf("panic: %v", e)
						}
					}()
					r.data, r.err = f.Marshal(v)
					if r.err == nil {
						r.derr = f.Unmarshal(r.data, p)
						r.back = reflect.ValueOf(p).Elem().Interface()
					}
				}()
				results[ci][g] = r
			}(ci, g)
		}
	}
	close(start)
	wg.Wait()
	for ci, c := range group {
		// warm, alone
		want, err := f.Marshal(c.val())
		if err != nil {
			t.Errorf("%s: warm marshal error %v", c.name, err)
			continue
		}
		for g, r := range results[ci] {
			if r.err != nil {
				t.Errorf("VIOLATION: %s goroutine %d: marshal error %v", c.name, g, r.err)
				continue
			}
			if !bytes.Equal(r.data, want) {
				t.Errorf("VIOLATION: %s goroutine %d: concurrent first-use bytes %q, alone %q", c.name, g, r.data, want)
			}
			if r.derr != nil {
				t.Errorf("VIOLATION: %s goroutine %d: unmarshal error %v", c.name, g, r.derr)
				continue
			}
			if !reflect.DeepEqual(r.back, c.val()) {
				t.Errorf("VIOLATION: %s goroutine %d: decoded %+v, want %+v", c.name, g, r.back, c.val())
			}
		}
	}
}

func TestStress_FirstUse(t *testing.T) {
	for gi, group := range stressCases {
		f := Formatter{Simple: gi%2 == 0}
		stressRun(t, f, group, 3)
	}
}
''')
open('io/zz_stress_test.go','w').write(''.join(out))
