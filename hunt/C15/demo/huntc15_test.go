// Demonstrations for property C15 (plugins run as an ordered onion around the core handler).
//
// Copy this file into the package directory rpc/mock/ (it is in package mock_test and relies
// on the init() of rpc/mock/mock_test.go, which registers the mock handler and transport):
//
//	cp _hunt/demo/huntc15_test.go rpc/mock/huntc15_test.go && \
//	  go test -vet=off -count=1 -run 'TestHuntC15_' ./rpc/mock/ ; rm rpc/mock/huntc15_test.go
//
// Every test compares the trace produced by trace-recording handlers with a plain list model:
// Use appends, Unuse(h) removes h (and only h), a call runs the list in order, then "core",
// then the list backwards.
package mock_test

import (
	"context"
	"fmt"
	"os"
	"os/exec"
	"strings"
	"sync"
	"testing"
	"time"

	"github.com/hprose/hprose-golang/v3/rpc/core"
	. "github.com/hprose/hprose-golang/v3/rpc/mock"
	"github.com/hprose/hprose-golang/v3/rpc/plugins/limiter"
	"github.com/hprose/hprose-golang/v3/rpc/plugins/log"
	"github.com/hprose/hprose-golang/v3/rpc/plugins/timeout"
)

// ---------------------------------------------------------------------------------------
// trace helpers
// ---------------------------------------------------------------------------------------

type huntTrace struct {
	mu sync.Mutex
	ev []string
}

func (t *huntTrace) add(s string) {
	t.mu.Lock()
	t.ev = append(t.ev, s)
	t.mu.Unlock()
}

func (t *huntTrace) take() string {
	t.mu.Lock()
	defer t.mu.Unlock()
	s := strings.Join(t.ev, " ")
	t.ev = nil
	return s
}

// huntInvoke returns a distinguishable invoke handler (a closure, the way every tutorial
// writes a parameterised middleware). It is kept out of line so that the result does not
// depend on the inliner: when the compiler inlines such a factory, every call SITE gets its
// own copy of the function literal and the handlers happen to be distinguishable by code
// address; made in a loop, through a non-inlinable factory, or built with -gcflags=-l they
// are not.
//
//go:noinline
func huntInvoke(tr *huntTrace, id string) core.InvokeHandler {
	return func(ctx context.Context, name string, args []interface{}, next core.NextInvokeHandler) ([]interface{}, error) {
		tr.add(">" + id)
		r, err := next(ctx, name, args)
		tr.add("<" + id)
		return r, err
	}
}

// huntIO returns a distinguishable IO handler.
//
//go:noinline
func huntIO(tr *huntTrace, id string) core.IOHandler {
	return func(ctx context.Context, request []byte, next core.NextIOHandler) ([]byte, error) {
		tr.add(">" + id)
		r, err := next(ctx, request)
		tr.add("<" + id)
		return r, err
	}
}

// huntInvokePlugin is a one-sided plugin object (method Handler, invoke flavour).
type huntInvokePlugin struct {
	tr *huntTrace
	id string
}

func (p *huntInvokePlugin) Handler(ctx context.Context, name string, args []interface{}, next core.NextInvokeHandler) ([]interface{}, error) {
	p.tr.add(">" + p.id)
	r, err := next(ctx, name, args)
	p.tr.add("<" + p.id)
	return r, err
}

// huntOtherInvokePlugin is a DIFFERENT type of one-sided invoke plugin.
type huntOtherInvokePlugin struct {
	tr *huntTrace
	id string
}

func (p *huntOtherInvokePlugin) Handler(ctx context.Context, name string, args []interface{}, next core.NextInvokeHandler) ([]interface{}, error) {
	p.tr.add(">" + p.id)
	r, err := next(ctx, name, args)
	p.tr.add("<" + p.id)
	return r, err
}

// huntIOPlugin is a one-sided plugin object (method Handler, IO flavour).
type huntIOPlugin struct {
	tr *huntTrace
	id string
}

func (p *huntIOPlugin) Handler(ctx context.Context, request []byte, next core.NextIOHandler) ([]byte, error) {
	p.tr.add(">" + p.id)
	r, err := next(ctx, request)
	p.tr.add("<" + p.id)
	return r, err
}

// huntTwoSided is a two-sided plugin.
type huntTwoSided struct {
	tr *huntTrace
	id string
}

func (p *huntTwoSided) InvokeHandler(ctx context.Context, name string, args []interface{}, next core.NextInvokeHandler) ([]interface{}, error) {
	p.tr.add(">" + p.id + ".inv")
	r, err := next(ctx, name, args)
	p.tr.add("<" + p.id + ".inv")
	return r, err
}

func (p *huntTwoSided) IOHandler(ctx context.Context, request []byte, next core.NextIOHandler) ([]byte, error) {
	p.tr.add(">" + p.id + ".io")
	r, err := next(ctx, request)
	p.tr.add("<" + p.id + ".io")
	return r, err
}

// huntOtherTwoSided is a DIFFERENT type of two-sided plugin.
type huntOtherTwoSided struct {
	tr *huntTrace
	id string
}

func (p *huntOtherTwoSided) InvokeHandler(ctx context.Context, name string, args []interface{}, next core.NextInvokeHandler) ([]interface{}, error) {
	p.tr.add(">" + p.id + ".inv")
	r, err := next(ctx, name, args)
	p.tr.add("<" + p.id + ".inv")
	return r, err
}

func (p *huntOtherTwoSided) IOHandler(ctx context.Context, request []byte, next core.NextIOHandler) ([]byte, error) {
	p.tr.add(">" + p.id + ".io")
	r, err := next(ctx, request)
	p.tr.add("<" + p.id + ".io")
	return r, err
}

var huntSeq int
var huntSeqMu sync.Mutex

// huntPair builds a service with the function "hello" (and "a", "b") on a fresh mock address
// and a client for it. The function records "core" in the trace.
func huntPair(t *testing.T, tr *huntTrace) (*core.Service, *core.Client, func()) {
	huntSeqMu.Lock()
	huntSeq++
	addr := fmt.Sprintf("huntC15n%d", huntSeq)
	huntSeqMu.Unlock()
	service := core.NewService()
	service.AddFunction(func(name string) string {
		tr.add("core")
		return "hello " + name
	}, "hello")
	service.AddFunction(func(name string) string {
		tr.add("core:a")
		return "a " + name
	}, "a")
	service.AddFunction(func(name string) string {
		tr.add("core:b")
		return "b " + name
	}, "b")
	server := Server{Address: addr}
	if err := service.Bind(server); err != nil {
		t.Fatal(err)
	}
	client := core.NewClient("mock://" + addr)
	client.Timeout = 5 * time.Second
	return service, client, server.Close
}

func huntCall(t *testing.T, client *core.Client, tr *huntTrace) string {
	t.Helper()
	r, err := client.Invoke("hello", []interface{}{"x"})
	if err != nil || len(r) != 1 || r[0] != "hello x" {
		t.Errorf("call failed: result=%v err=%v", r, err)
	}
	return tr.take()
}

func huntCheck(t *testing.T, what, got, want string) {
	t.Helper()
	if got != want {
		t.Errorf("VIOLATION: %s\n    observed trace: %q\n    expected trace: %q", what, got, want)
		fmt.Printf("VIOLATION: %s: observed %q, expected %q\n", what, got, want)
	}
}

// ---------------------------------------------------------------------------------------
// 1. Unuse of one closure handler removes every handler made by the same function literal
// ---------------------------------------------------------------------------------------

func TestHuntC15_UnuseClosureRemovesSiblings(t *testing.T) {
	tr := &huntTrace{}
	_, client, closeServer := huntPair(t, tr)
	defer closeServer()
	a, b, c := huntInvoke(tr, "A"), huntInvoke(tr, "B"), huntInvoke(tr, "C")
	client.Use(a, b, c)
	huntCheck(t, "client Use(A,B,C)", huntCall(t, client, tr), ">A >B >C core <C <B <A")
	client.Unuse(b)
	huntCheck(t, "client Use(A,B,C); Unuse(B): A and C must still run", huntCall(t, client, tr), ">A >C core <C <A")

	// the same on the service, with IO handlers
	tr2 := &huntTrace{}
	service, client2, closeServer2 := huntPair(t, tr2)
	defer closeServer2()
	x, y, z := huntIO(tr2, "X"), huntIO(tr2, "Y"), huntIO(tr2, "Z")
	service.Use(x, y, z)
	huntCheck(t, "service Use(X,Y,Z)", huntCall(t, client2, tr2), ">X >Y >Z core <Z <Y <X")
	service.Unuse(z)
	huntCheck(t, "service Use(X,Y,Z); Unuse(Z): X and Y must still run", huntCall(t, client2, tr2), ">X >Y core <Y <X")
}

// ---------------------------------------------------------------------------------------
// 2. Unuse of a handler that was never installed (absent) removes installed handlers
// ---------------------------------------------------------------------------------------

func TestHuntC15_UnuseAbsentRemovesInstalled(t *testing.T) {
	tr := &huntTrace{}
	_, client, closeServer := huntPair(t, tr)
	defer closeServer()
	a, b := huntInvoke(tr, "A"), huntInvoke(tr, "B")
	never := huntInvoke(tr, "NEVER-INSTALLED")
	client.Use(a, b)
	client.Unuse(never)
	huntCheck(t, "client Use(A,B); Unuse(absent handler) must be a no-op", huntCall(t, client, tr), ">A >B core <B <A")

	// an absent plugin OBJECT of an unrelated type
	tr2 := &huntTrace{}
	_, client2, closeServer2 := huntPair(t, tr2)
	defer closeServer2()
	p := &huntInvokePlugin{tr2, "P"}
	client2.Use(p)
	client2.Unuse(&huntOtherInvokePlugin{tr2, "ABSENT-OTHER-TYPE"})
	huntCheck(t, "client Use(P); Unuse(absent plugin object of another type) must be a no-op", huntCall(t, client2, tr2), ">P core <P")
}

// ---------------------------------------------------------------------------------------
// 3. Unuse of one plugin object removes every plugin object of the same interface shape,
//    even of unrelated types; shown with the library's own plugins
// ---------------------------------------------------------------------------------------

func TestHuntC15_UnusePluginObjectRemovesOtherPlugins(t *testing.T) {
	tr := &huntTrace{}
	_, client, closeServer := huntPair(t, tr)
	defer closeServer()
	p1, p2 := &huntInvokePlugin{tr, "P1"}, &huntInvokePlugin{tr, "P2"}
	q := &huntOtherInvokePlugin{tr, "Q"}
	client.Use(p1, q, p2)
	huntCheck(t, "client Use(P1,Q,P2)", huntCall(t, client, tr), ">P1 >Q >P2 core <P2 <Q <P1")
	client.Unuse(p1)
	huntCheck(t, "client Use(P1,Q,P2); Unuse(P1): Q (another type) and P2 (another instance) must still run",
		huntCall(t, client, tr), ">Q >P2 core <P2 <Q")

	// two-sided plugins of different types on the service
	tr2 := &huntTrace{}
	service, client2, closeServer2 := huntPair(t, tr2)
	defer closeServer2()
	s1 := &huntTwoSided{tr2, "S1"}
	s2 := &huntOtherTwoSided{tr2, "S2"}
	service.Use(s1, s2)
	huntCheck(t, "service Use(S1,S2)", huntCall(t, client2, tr2),
		">S1.io >S2.io >S1.inv >S2.inv core <S2.inv <S1.inv <S2.io <S1.io")
	service.Unuse(s1)
	huntCheck(t, "service Use(S1,S2); Unuse(S1): S2 (another type) must still run",
		huntCall(t, client2, tr2), ">S2.io >S2.inv core <S2.inv <S2.io")
}

// The same with the plugins that ship with the library: removing the log plugin from a
// service silently removes its rate limiter (both are two-sided plugin objects, as are the
// circuit breaker and forward; likewise every object with a Handler method of one flavour:
// ExecuteTimeout/Oneway, or Cluster/ConcurrentLimiter/all load balancers).
func TestHuntC15_UnuseLogRemovesRateLimiter(t *testing.T) {
	tr := &huntTrace{}
	service, client, closeServer := huntPair(t, tr)
	defer closeServer()
	var lines int
	var mu sync.Mutex
	logger := log.New(func(v ...interface{}) { mu.Lock(); lines++; mu.Unlock() })
	rl := limiter.NewRateLimiter(1, limiter.WithMaxPermits(1), limiter.WithTimeout(time.Millisecond)) // 1 call per second, waits at most 1ms
	service.Use(logger, rl)
	// with the limiter installed a burst of calls must be refused
	refused := 0
	for i := 0; i < 20; i++ {
		if _, err := client.Invoke("hello", []interface{}{"x"}); err != nil {
			refused++
		}
	}
	if refused == 0 {
		t.Skip("rate limiter did not refuse anything; options differ from what this demo assumes")
	}
	service.Unuse(logger) // take the logger out, nothing else
	refused = 0
	for i := 0; i < 20; i++ {
		if _, err := client.Invoke("hello", []interface{}{"x"}); err != nil {
			refused++
		}
	}
	if refused == 0 {
		t.Errorf("VIOLATION: service.Use(log, rateLimiter); service.Unuse(log) removed the rate limiter too: 20 of 20 calls of a 1/s limiter were admitted")
		fmt.Println("VIOLATION: Unuse(log plugin) also removed the rate limiter (two-sided plugin of another type)")
	}
}

// ---------------------------------------------------------------------------------------
// 4. Use/Unuse while a call is in flight changes THAT call: the IO chain (client) or the
//    invoke chain (service) is looked up only when the call gets there
// ---------------------------------------------------------------------------------------

// huntGateInvoke blocks the call between "entered" and "release".
func huntGateInvoke(tr *huntTrace, id string, entered chan<- struct{}, release <-chan struct{}) core.InvokeHandler {
	return func(ctx context.Context, name string, args []interface{}, next core.NextInvokeHandler) ([]interface{}, error) {
		tr.add(">" + id)
		entered <- struct{}{}
		<-release
		r, err := next(ctx, name, args)
		tr.add("<" + id)
		return r, err
	}
}

func huntGateIO(tr *huntTrace, id string, entered chan<- struct{}, release <-chan struct{}) core.IOHandler {
	return func(ctx context.Context, request []byte, next core.NextIOHandler) ([]byte, error) {
		tr.add(">" + id)
		entered <- struct{}{}
		<-release
		r, err := next(ctx, request)
		tr.add("<" + id)
		return r, err
	}
}

func TestHuntC15_UseDuringCallChangesCallInFlight(t *testing.T) {
	// client: the call is inside its invoke handlers when an IO handler is added
	tr := &huntTrace{}
	_, client, closeServer := huntPair(t, tr)
	defer closeServer()
	entered, release := make(chan struct{}), make(chan struct{})
	client.Use(huntGateInvoke(tr, "G", entered, release))
	done := make(chan string)
	go func() { done <- huntCall(t, client, tr) }()
	<-entered // the call is in flight, it has passed G
	client.Use(&huntIOPlugin{tr, "LATE"})
	close(release)
	huntCheck(t, "client: Use(LATE io handler) after the call had started must not affect that call",
		<-done, ">G core <G")

	// service: the call is inside its IO handlers when an invoke handler is added
	tr2 := &huntTrace{}
	service, client2, closeServer2 := huntPair(t, tr2)
	defer closeServer2()
	entered2, release2 := make(chan struct{}), make(chan struct{})
	service.Use(huntGateIO(tr2, "G", entered2, release2))
	done2 := make(chan string)
	go func() { done2 <- huntCall(t, client2, tr2) }()
	<-entered2
	service.Use(&huntInvokePlugin{tr2, "LATE"})
	close(release2)
	huntCheck(t, "service: Use(LATE invoke handler) after the call had started must not affect that call",
		<-done2, ">G core <G")
}

// A two-sided plugin removed (or added) while a call is in flight is applied to that call
// with one half only: the call enters P.InvokeHandler and never meets P.IOHandler. A plugin
// whose halves belong together (sign in one, frame in the other; count in one, release in the
// other) is torn.
func TestHuntC15_UnuseDuringCallTearsTwoSidedPlugin(t *testing.T) {
	tr := &huntTrace{}
	_, client, closeServer := huntPair(t, tr)
	defer closeServer()
	entered, release := make(chan struct{}), make(chan struct{})
	p := &huntTwoSided{tr, "P"}
	client.Use(p, huntGateInvoke(tr, "G", entered, release))
	done := make(chan string)
	go func() { done <- huntCall(t, client, tr) }()
	<-entered // the call has passed P.inv and G
	client.Unuse(p)
	close(release)
	huntCheck(t, "client: Unuse(P) while a call is between P.inv and P.io must leave that call alone",
		<-done, ">P.inv >G >P.io core <P.io <G <P.inv")

	tr2 := &huntTrace{}
	service, client2, closeServer2 := huntPair(t, tr2)
	defer closeServer2()
	entered2, release2 := make(chan struct{}), make(chan struct{})
	p2 := &huntTwoSided{tr2, "P"}
	service.Use(p2, huntGateIO(tr2, "G", entered2, release2))
	done2 := make(chan string)
	go func() { done2 <- huntCall(t, client2, tr2) }()
	<-entered2
	service.Unuse(p2)
	close(release2)
	huntCheck(t, "service: Unuse(P) while a call is between P.io and P.inv must leave that call alone",
		<-done2, ">P.io >G >P.inv core <P.inv <G <P.io")
}

// ---------------------------------------------------------------------------------------
// 5. A service invoke handler that alters the name of the call is ignored by the built-in
//    handler (Execute runs serviceContext.Method, which the codec chose before the chain)
// ---------------------------------------------------------------------------------------

func TestHuntC15_ServiceInvokeHandlerCannotAlterName(t *testing.T) {
	tr := &huntTrace{}
	service, client, closeServer := huntPair(t, tr)
	defer closeServer()
	service.Use(func(ctx context.Context, name string, args []interface{}, next core.NextInvokeHandler) ([]interface{}, error) {
		if name == "a" {
			name = "b" // route a to b
		}
		return next(ctx, name, args)
	})
	r, err := client.Invoke("a", []interface{}{"x"})
	got := fmt.Sprint(r, err, " ", tr.take())
	want := "[b x] <nil> core:b"
	if got != want {
		t.Errorf("VIOLATION: service invoke handler rewrote the call a -> b, the built-in handler executed: %q, expected %q", got, want)
		fmt.Printf("VIOLATION: service invoke handler rewrote the name a -> b; observed %q, expected %q\n", got, want)
	}
	// the same alteration made by a client invoke handler does work
	client.Use(func(ctx context.Context, name string, args []interface{}, next core.NextInvokeHandler) ([]interface{}, error) {
		if name == "hello" {
			name = "b"
		}
		return next(ctx, name, args)
	})
	r, err = client.Invoke("hello", []interface{}{"x"})
	t.Logf("for comparison, client-side rewrite hello -> b: %v %v %s", r, err, tr.take())
}

// ---------------------------------------------------------------------------------------
// 6. A handler of a defined func type is refused with a panic
// ---------------------------------------------------------------------------------------

type huntMiddleware func(ctx context.Context, name string, args []interface{}, next core.NextInvokeHandler) ([]interface{}, error)

func TestHuntC15_DefinedFuncTypeHandlerPanics(t *testing.T) {
	tr := &huntTrace{}
	_, client, closeServer := huntPair(t, tr)
	defer closeServer()
	var mw huntMiddleware = huntMiddleware(huntInvoke(tr, "M"))
	func() {
		defer func() {
			if p := recover(); p != nil {
				t.Errorf("VIOLATION: client.Use(handler of a defined func type with the InvokeHandler signature) panicked: %v", p)
				fmt.Printf("VIOLATION: Use(defined func type) panicked: %v\n", p)
			}
		}()
		client.Use(mw)
	}()
	huntCheck(t, "client Use(M of defined func type)", huntCall(t, client, tr), ">M core <M")
}

// ---------------------------------------------------------------------------------------
// 7. Repeated handler: installed twice it runs twice, one Unuse removes both
// ---------------------------------------------------------------------------------------

func TestHuntC15_RepeatedHandler(t *testing.T) {
	tr := &huntTrace{}
	_, client, closeServer := huntPair(t, tr)
	defer closeServer()
	a := &huntInvokePlugin{tr, "A"}
	client.Use(a)
	client.Use(a) // a second component installs the same shared plugin
	got := huntCall(t, client, tr)
	if got != ">A core <A" {
		t.Errorf("VIOLATION: Use(A); Use(A): the call passes through A %d times (%q), statement says each installed handler exactly once", strings.Count(got, ">A"), got)
		fmt.Printf("VIOLATION: Use(A); Use(A): observed %q\n", got)
	}
	client.Unuse(a) // one of the two components leaves
	got = huntCall(t, client, tr)
	t.Logf("after Use(A); Use(A); Unuse(A): %q", got)
}

// ---------------------------------------------------------------------------------------
// 8. stress: Use/Unuse concurrent with calls; every call must see a well-formed onion of
//    handlers that were installed at some moment (run with -race as well)
// ---------------------------------------------------------------------------------------

type huntCtxKey struct{}

type huntStressPlugin struct{ id string }

func (p *huntStressPlugin) InvokeHandler(ctx context.Context, name string, args []interface{}, next core.NextInvokeHandler) ([]interface{}, error) {
	tr := ctx.Value(huntCtxKey{}).(*huntTrace)
	tr.add(">" + p.id)
	r, err := next(ctx, name, args)
	tr.add("<" + p.id)
	return r, err
}

func (p *huntStressPlugin) IOHandler(ctx context.Context, request []byte, next core.NextIOHandler) ([]byte, error) {
	tr := ctx.Value(huntCtxKey{}).(*huntTrace)
	tr.add(">" + p.id + "'")
	r, err := next(ctx, request)
	tr.add("<" + p.id + "'")
	return r, err
}

func TestHuntC15_StressTornPlugin(t *testing.T) {
	dummy := &huntTrace{}
	_, client, closeServer := huntPair(t, dummy)
	defer closeServer()
	p := &huntStressPlugin{"P"}
	stop := make(chan struct{})
	var wg sync.WaitGroup
	wg.Add(1)
	go func() {
		defer wg.Done()
		for {
			select {
			case <-stop:
				return
			default:
			}
			client.Use(p)
			client.Unuse(p)
		}
	}()
	torn := map[string]int{}
	var mu sync.Mutex
	var cw sync.WaitGroup
	for g := 0; g < 4; g++ {
		cw.Add(1)
		go func() {
			defer cw.Done()
			for i := 0; i < 3000; i++ {
				tr := &huntTrace{}
				ctx := context.WithValue(context.Background(), huntCtxKey{}, tr)
				if _, err := client.InvokeContext(ctx, "hello", []interface{}{"x"}); err != nil {
					t.Errorf("call: %v", err)
					return
				}
				s := tr.take()
				if s != "" && s != ">P >P' <P' <P" {
					mu.Lock()
					torn[s]++
					mu.Unlock()
				}
			}
		}()
	}
	cw.Wait()
	close(stop)
	wg.Wait()
	if len(torn) > 0 {
		t.Errorf("VIOLATION: calls concurrent with Use(P)/Unuse(P) of a two-sided plugin saw half of it: %v", torn)
		fmt.Printf("VIOLATION: torn two-sided plugin under concurrent Use/Unuse: %v\n", torn)
	}
}

// ---------------------------------------------------------------------------------------
// 9. The error of a panicking service function does not travel back through the invoke
//    handlers (Process recovers it above the whole invoke chain); with the library's own
//    ExecuteTimeout plugin in the chain the panic is raised in the plugin's goroutine and
//    kills the server process
// ---------------------------------------------------------------------------------------

func TestHuntC15_PanicSkipsInvokeHandlers(t *testing.T) {
	tr := &huntTrace{}
	service, client, closeServer := huntPair(t, tr)
	defer closeServer()
	service.AddFunction(func() string { tr.add("core:boom"); panic("boom") }, "boom")
	sawErr := map[string]error{}
	var mu sync.Mutex
	service.Use(
		func(ctx context.Context, request []byte, next core.NextIOHandler) ([]byte, error) {
			tr.add(">X")
			r, err := next(ctx, request)
			mu.Lock()
			sawErr["X"] = err
			mu.Unlock()
			tr.add("<X")
			return r, err
		},
		func(ctx context.Context, name string, args []interface{}, next core.NextInvokeHandler) ([]interface{}, error) {
			tr.add(">A")
			r, err := next(ctx, name, args)
			mu.Lock()
			sawErr["A"] = err
			mu.Unlock()
			tr.add("<A")
			return r, err
		},
	)
	_, err := client.Invoke("boom", nil)
	got := tr.take()
	t.Logf("client error: %v; io handler X saw: %v; invoke handler A saw: %v", err, sawErr["X"], sawErr["A"])
	huntCheck(t, "service function panics: its error must travel back through invoke handler A as it does through IO handler X",
		got, ">X >A core:boom <A <X")
}

func TestHuntC15_PanicUnderTimeoutPluginKillsProcess(t *testing.T) {
	if os.Getenv("HUNT_C15_CHILD") == "1" {
		tr := &huntTrace{}
		service, client, closeServer := huntPair(t, tr)
		defer closeServer()
		service.AddFunction(func() string { panic("boom") }, "boom")
		_, err := client.Invoke("boom", nil)
		fmt.Println("CHILD: without plugin the panic is contained, client error:", err)
		service.Use(timeout.New(time.Second))
		_, err = client.Invoke("boom", nil)
		fmt.Println("CHILD: survived with ExecuteTimeout installed, client error:", err)
		return
	}
	cmd := exec.Command(os.Args[0], "-test.run", "^TestHuntC15_PanicUnderTimeoutPluginKillsProcess$", "-test.v")
	cmd.Env = append(os.Environ(), "HUNT_C15_CHILD=1")
	out, err := cmd.CombinedOutput()
	text := string(out)
	if len(text) > 1500 {
		text = text[:1500] + "\n..."
	}
	if err != nil || !strings.Contains(string(out), "CHILD: survived") {
		t.Errorf("VIOLATION: service.Use(timeout.New(1s)) + a panicking function: the server process died (%v):\n%s", err, text)
		fmt.Println("VIOLATION: a panicking service function under the ExecuteTimeout plugin killed the process:", err)
	}
}

// ---------------------------------------------------------------------------------------
// 10. A client invoke handler that short-circuits with a result whose dynamic type is not
//     exactly the proxy's return type makes the proxy function panic in the caller
// ---------------------------------------------------------------------------------------

func TestHuntC15_ShortCircuitThroughProxyPanics(t *testing.T) {
	tr := &huntTrace{}
	_, client, closeServer := huntPair(t, tr)
	defer closeServer()
	client.Use(func(ctx context.Context, name string, args []interface{}, next core.NextInvokeHandler) ([]interface{}, error) {
		return []interface{}{1}, nil // e.g. a cache, a mock service of a circuit breaker
	})
	var proxy struct {
		Hello func(name string) (int64, error)
	}
	client.UseService(&proxy)
	defer func() {
		if p := recover(); p != nil {
			t.Errorf("VIOLATION: short-circuiting invoke handler returned int(1) for a proxy method returning (int64, error): panic in the caller: %v", p)
			fmt.Printf("VIOLATION: short-circuit result through proxy panicked: %v\n", p)
		}
	}()
	r, err := proxy.Hello("x")
	t.Log(r, err)
}
