// Demonstrations for property C16 (cluster retries / forking / broadcast).
//
// Copy this file into the package directory rpc/plugins/cluster/ (it is an
// external test package, cluster_test) and run from the worktree root:
//
//   cp _hunt/demo/hunt_c16_test.go rpc/plugins/cluster/hunt_c16_test.go && \
//     go test -vet=off -count=1 -v -run 'TestHuntC16_' ./rpc/plugins/cluster/ ; \
//     rm rpc/plugins/cluster/hunt_c16_test.go
//
// No sockets are opened: the "servers" are a scripted next-handler that records
// every attempt and the URL it was aimed at.  The two cases that kill the
// process (stack overflow) re-run the test binary as a child via os/exec.
package cluster_test

import (
	"bytes"
	"context"
	"errors"
	"fmt"
	"os"
	"os/exec"
	"runtime/debug"
	"strings"
	"sync"
	"testing"
	"time"

	"github.com/hprose/hprose-golang/v3/rpc/core"
	"github.com/hprose/hprose-golang/v3/rpc/plugins/cluster"
)

func huntURLs(n int) []string {
	var u []string
	for i := 0; i < n; i++ {
		u = append(u, fmt.Sprintf("mock://s%d", i))
	}
	return u
}

func huntCtx(n int) (context.Context, *core.ClientContext) {
	client := core.NewClient(huntURLs(n)...)
	cc := core.NewClientContext()
	cc.Init(client)
	return core.WithContext(context.Background(), cc), cc
}

// huntScript: one letter per attempt. S success, E error, P panic("..."), N panic(nil).
// Attempts beyond the script fail with an error.
func huntScript(script string, log *[]string) core.NextIOHandler {
	i := 0
	return func(ctx context.Context, request []byte) ([]byte, error) {
		k := i
		i++
		*log = append(*log, core.GetClientContext(ctx).URL.Host)
		c := byte('E')
		if k < len(script) {
			c = script[k]
		}
		switch c {
		case 'S':
			return []byte(fmt.Sprintf("resp%d", k)), nil
		case 'P':
			panic(fmt.Sprintf("panic%d", k))
		case 'N':
			panic(nil)
		}
		return nil, fmt.Errorf("err%d", k)
	}
}

// ---------------------------------------------------------------------------
// 1. Forking: one fork ends with panic(nil), every other server fails -> the
//    call never returns (the module says "go 1.13", so recover() returns nil
//    for panic(nil): the fork neither decrements count nor closes done).
// ---------------------------------------------------------------------------
func TestHuntC16_ForkingNilPanicHangs(t *testing.T) {
	ctx, _ := huntCtx(3)
	type res struct {
		resp []byte
		err  error
	}
	ch := make(chan res, 1)
	go func() {
		resp, err := cluster.Forking(ctx, []byte("req"), func(ctx context.Context, req []byte) ([]byte, error) {
			if core.GetClientContext(ctx).URL.Host == "s1" {
				panic(nil)
			}
			return nil, errors.New("server down")
		})
		ch <- res{resp, err}
	}()
	select {
	case r := <-ch:
		if r.err == nil {
			t.Errorf("VIOLATION: every server failed but Forking reported success (resp=%q)", r.resp)
		}
	case <-time.After(2 * time.Second):
		t.Errorf("VIOLATION: every one of the 3 servers failed (s0 error, s1 panic(nil), s2 error) and Forking still has not returned after 2s: it hangs for ever instead of failing")
	}
}

// ---------------------------------------------------------------------------
// 2. Cluster.Handler: an attempt that ends with panic(nil) is taken for a
//    success: no OnFailure, no fail-over, no retry, (nil, nil) is returned.
// ---------------------------------------------------------------------------
func TestHuntC16_HandlerNilPanicCountsAsSuccess(t *testing.T) {
	failures := 0
	cfg := cluster.FailoverConfig(cluster.WithRetry(3), cluster.WithIdempotent(true), cluster.WithMinInterval(0))
	inner := cfg.OnFailure
	cfg.OnFailure = func(ctx context.Context) { failures++; inner(ctx) }
	c := cluster.New(cfg)
	ctx, _ := huntCtx(3)
	var log []string
	resp, err := c.Handler(ctx, []byte("req"), huntScript("NS", &log))
	if len(log) != 2 || string(resp) != "resp1" || err != nil {
		t.Errorf("VIOLATION: idempotent call, retry=3, outcomes [panic(nil), success]: attempts=%v resp=%q err=%v onFailure=%d; expected 2 attempts [s0 s1], resp=\"resp1\", err=nil", log, resp, err, failures)
	}
}

// ---------------------------------------------------------------------------
// 3. Broadcast: a server whose invocation ends with panic(nil) is reported as
//    a success with a nil result.
// ---------------------------------------------------------------------------
func TestHuntC16_BroadcastNilPanicCountsAsSuccess(t *testing.T) {
	ctx, _ := huntCtx(3)
	res, err := cluster.Broadcast(ctx, "f", nil, func(ctx context.Context, name string, args []interface{}) ([]interface{}, error) {
		if core.GetClientContext(ctx).URL.Host == "s1" {
			panic(nil)
		}
		return []interface{}{"ok"}, nil
	})
	if err == nil {
		t.Errorf("VIOLATION: the invocation of s1 panicked (panic(nil)) but Broadcast returned err=nil, result=%v", res)
	}
}

// ---------------------------------------------------------------------------
// 4. The budget is only enforced if the OnRetry callback happens to increment
//    the private context item "retried".  A Config with the caller's own
//    OnRetry (the only way to choose one's own back-off) retries without bound.
// ---------------------------------------------------------------------------
func TestHuntC16_CustomOnRetryIgnoresBudget(t *testing.T) {
	cfg := cluster.FailtryConfig(cluster.WithRetry(2), cluster.WithIdempotent(true))
	cfg.OnRetry = func(ctx context.Context) time.Duration { return 0 } // constant back-off of the caller's choice
	c := cluster.New(cfg)
	ctx, _ := huntCtx(2)
	attempts := 0
	_, err := c.Handler(ctx, []byte("req"), func(ctx context.Context, req []byte) ([]byte, error) {
		attempts++
		if attempts >= 10000 { // stop the demonstration
			return []byte("late"), nil
		}
		return nil, errors.New("down")
	})
	if attempts > 3 {
		t.Errorf("VIOLATION: Retry=2, idempotent, every attempt fails: %d attempts were made (err=%v); expected at most retry+1 = 3", attempts, err)
	}
}

// The same configuration against a server that stays down kills the process:
// the retry loop is a recursion inside deferred functions.
func TestHuntC16_CustomOnRetryStackOverflow(t *testing.T) {
	if os.Getenv("HUNT_C16_CHILD") == "onretry" {
		debug.SetMaxStack(64 << 20) // only to die quickly and cheaply; the default 1 GB limit is reached after ~2.5 million attempts
		cfg := cluster.Config{Retry: 2, Idempotent: true, OnRetry: func(ctx context.Context) time.Duration { return 0 }}
		c := cluster.New(cfg)
		ctx, _ := huntCtx(1)
		_, err := c.Handler(ctx, nil, func(ctx context.Context, req []byte) ([]byte, error) { return nil, errors.New("down") })
		fmt.Println("child returned", err)
		return
	}
	out, err := huntChild("TestHuntC16_CustomOnRetryStackOverflow", "onretry")
	if err != nil && strings.Contains(out, "stack overflow") {
		t.Errorf("VIOLATION: Config{Retry:2, Idempotent:true, OnRetry: constant} against a server that stays down: process died: %v; %s", err, huntFirstLines(out, 2))
	} else {
		t.Logf("child: err=%v out=%s", err, huntFirstLines(out, 3))
	}
}

// ---------------------------------------------------------------------------
// 5. A legal but large budget with the built-in FailtryConfig: the attempts are
//    nested calls in deferred functions, nothing is released until the last
//    attempt returns, and the process dies of stack overflow.
// ---------------------------------------------------------------------------
func TestHuntC16_LargeBudgetStackOverflow(t *testing.T) {
	if os.Getenv("HUNT_C16_CHILD") == "deep" {
		// default stack limit (1 GB on 64-bit): 3,000,000 retries without back-off
		c := cluster.New(cluster.FailtryConfig(cluster.WithRetry(3000000), cluster.WithIdempotent(true), cluster.WithMinInterval(0)))
		ctx, _ := huntCtx(1)
		n := 0
		_, err := c.Handler(ctx, nil, func(ctx context.Context, req []byte) ([]byte, error) { n++; return nil, errors.New("down") })
		fmt.Println("child returned after", n, "attempts:", err)
		return
	}
	if os.Getenv("HUNT_C16_BIG") == "" {
		t.Skip("needs about 1 GB of memory for 2 seconds; set HUNT_C16_BIG=1 to run")
	}
	out, err := huntChild("TestHuntC16_LargeBudgetStackOverflow", "deep")
	if err != nil && strings.Contains(out, "stack overflow") {
		t.Errorf("VIOLATION: FailtryConfig(WithRetry(3000000), WithIdempotent(true), WithMinInterval(0)) against a server that stays down: process died instead of returning the last error: %v; %s", err, huntFirstLines(out, 2))
	} else {
		t.Logf("child: err=%v out=%s", err, huntFirstLines(out, 3))
	}
}

func huntChild(test, mode string) (string, error) {
	cmd := exec.Command(os.Args[0], "-test.run", "^"+test+"$", "-test.v")
	cmd.Env = append(os.Environ(), "HUNT_C16_CHILD="+mode)
	var buf bytes.Buffer
	cmd.Stdout = &buf
	cmd.Stderr = &buf
	err := cmd.Run()
	return buf.String(), err
}

func huntFirstLines(s string, n int) string {
	lines := strings.Split(s, "\n")
	var keep []string
	for _, l := range lines {
		if strings.HasPrefix(l, "===") || strings.TrimSpace(l) == "" {
			continue
		}
		keep = append(keep, l)
		if len(keep) == n {
			break
		}
	}
	return strings.Join(keep, " | ")
}

// ---------------------------------------------------------------------------
// 6 and 7 go through the real client and proxy.  The last IO plugin plays the
// servers, so no transport is needed.
// ---------------------------------------------------------------------------
type huntServers struct {
	mu     sync.Mutex
	log    []string // "method@host"
	script func(method, host string, nth int) bool
}

func (s *huntServers) handler(ctx context.Context, request []byte, next core.NextIOHandler) ([]byte, error) {
	s.mu.Lock()
	defer s.mu.Unlock()
	method := "?"
	for _, m := range []string{"Get", "Pay"} {
		if bytes.Contains(request, []byte(m)) {
			method = m
		}
	}
	host := core.GetClientContext(ctx).URL.Host
	nth := 0
	for _, l := range s.log {
		if strings.HasPrefix(l, method+"@") {
			nth++
		}
	}
	s.log = append(s.log, method+"@"+host)
	if s.script(method, host, nth) {
		return []byte("Rnz"), nil
	}
	return nil, errors.New("connection reset by " + host)
}

type huntProxy struct {
	Get func(ctx *core.ClientContext) error `context:"idempotent,retry:2"`
	Pay func(ctx *core.ClientContext) error // not idempotent
}

// 6. The tags of an idempotent method are written into the caller's
// ClientContext and stay there: the next, unmarked, method called with the
// same context is retried, i.e. sent more than once.
func TestHuntC16_IdempotentTagLeaksToNextCall(t *testing.T) {
	servers := &huntServers{script: func(method, host string, nth int) bool { return method == "Get" }}
	client := core.NewClient(huntURLs(3)...)
	client.Use(cluster.New(cluster.FailoverConfig(cluster.WithMinInterval(0))), servers.handler) // plugin default: not idempotent
	var proxy huntProxy
	client.UseService(&proxy)

	cc := core.NewClientContext()
	if err := proxy.Get(cc); err != nil {
		t.Fatalf("Get: %v", err)
	}
	err := proxy.Pay(cc) // every server answers Pay with a connection error
	pays := 0
	for _, l := range servers.log {
		if strings.HasPrefix(l, "Pay@") {
			pays++
		}
	}
	if pays != 1 {
		t.Errorf("VIOLATION: Pay is not marked idempotent (no tag, plugin default false) but was sent %d times: %v (err=%v); expected exactly 1 attempt", pays, servers.log, err)
	}
}

// 7. "retried" is never reset: the second idempotent call made with the same
// ClientContext finds the budget of the first one spent, does not fail over
// and returns the first error although the other servers are healthy.
func TestHuntC16_RetriedSurvivesInReusedContext(t *testing.T) {
	servers := &huntServers{script: func(method, host string, nth int) bool { return host == "s2" }} // s0, s1 down; s2 healthy
	client := core.NewClient(huntURLs(3)...)
	client.Use(cluster.New(cluster.FailoverConfig(cluster.WithMinInterval(0))), servers.handler)
	var proxy huntProxy
	client.UseService(&proxy)

	cc := core.NewClientContext()
	if err := proxy.Get(cc); err != nil {
		t.Fatalf("first Get: %v (%v)", err, servers.log)
	}
	first := len(servers.log)
	err := proxy.Get(cc)
	if err != nil {
		t.Errorf("VIOLATION: second idempotent Get (retry:2) with the same ClientContext: attempts=%v err=%v, retried item=%v; expected fail-over s0 -> s1 -> s2 and success as in the first call %v", servers.log[first:], err, cc.Items().GetInt("retried"), servers.log[:first])
	}
}

// ---------------------------------------------------------------------------
// 8. A panic of the OnSuccess callback is handled as a failure of the attempt:
//    the call, which has been answered, is sent again / reported as failed.
// ---------------------------------------------------------------------------
func TestHuntC16_OnSuccessPanicResendsAnsweredCall(t *testing.T) {
	cfg := cluster.FailoverConfig(cluster.WithRetry(2), cluster.WithIdempotent(true), cluster.WithMinInterval(0))
	n := 0
	cfg.OnSuccess = func(ctx context.Context) {
		n++
		if n == 1 {
			panic("metrics backend gone")
		}
	}
	c := cluster.New(cfg)
	ctx, _ := huntCtx(2)
	var log []string
	resp, err := c.Handler(ctx, []byte("req"), huntScript("SS", &log))
	if len(log) != 1 || string(resp) != "resp0" {
		t.Errorf("VIOLATION: first attempt succeeded (resp0) but attempts=%v resp=%q err=%v; expected to stop at the first success and return its response", log, resp, err)
	}
	// not idempotent: the answered call is reported as failed and the response is dropped
	cfg.Idempotent = false
	n = 0
	c = cluster.New(cfg)
	ctx, _ = huntCtx(2)
	log = nil
	resp, err = c.Handler(ctx, []byte("req"), huntScript("S", &log))
	if err != nil {
		t.Errorf("VIOLATION: non-idempotent call answered with resp0 by s0 is returned as resp=%q err=%v", resp, err)
	}
}
