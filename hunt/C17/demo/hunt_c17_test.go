// Demonstrations for property C17 (limiters).
//
// COPY INTO: rpc/plugins/limiter/   (package limiter, internal test file)
//
//	cp _hunt/demo/hunt_c17_test.go rpc/plugins/limiter/hunt_c17_test.go && \
//	  go test -vet=off -count=1 -v -run 'TestHuntC17_' ./rpc/plugins/limiter/ ; \
//	  rm rpc/plugins/limiter/hunt_c17_test.go
//
// No test opens a port (the service test uses the in-process mock transport).
// Every test that demonstrates a finding FAILS on the unchanged library and prints a
// line starting with "VIOLATION:". TestHuntC17_ConcurrentStressNoLeak is a negative
// result (it passes) that documents what was tried and held.
package limiter

import (
	"context"
	"errors"
	"math"
	"sync"
	"sync/atomic"
	"testing"
	"time"

	"github.com/hprose/hprose-golang/v3/rpc/core"
	"github.com/hprose/hprose-golang/v3/rpc/mock"
	"github.com/hprose/hprose-golang/v3/rpc/plugins/timeout"
)

// ---------------------------------------------------------------------------------
// F1. RateLimiter: a caller that is REJECTED with ErrTimeout has already moved
// l.next forward by its tokens. Rejected callers therefore consume permits, a burst
// of rejected callers pushes next-free-time arbitrarily far into the future and the
// limiter wedges: it rejects every caller for minutes although nothing is admitted.
// ---------------------------------------------------------------------------------
func TestHuntC17_RateRejectedCallersConsumePermits(t *testing.T) {
	run := func(t *testing.T, concurrent bool) {
		const rate = 10 // permits per second, interval 100ms
		const wait = 50 * time.Millisecond
		rl := NewRateLimiter(rate, WithMaxPermits(1), WithTimeout(wait))
		ctx := context.Background()
		var admitted, rejected int64
		one := func() {
			if err := rl.Acquire(ctx, 1); err == nil {
				atomic.AddInt64(&admitted, 1)
			} else if err == core.ErrTimeout {
				atomic.AddInt64(&rejected, 1)
			} else {
				t.Errorf("unexpected error %v", err)
			}
		}
		start := time.Now()
		const n = 2000
		if concurrent {
			var wg sync.WaitGroup
			wg.Add(n)
			for i := 0; i < n; i++ {
				go func() { defer wg.Done(); one() }()
			}
			wg.Wait()
		} else {
			for i := 0; i < n; i++ {
				one()
			}
		}
		burst := time.Since(start)
		t.Logf("burst of %d callers took %v: admitted=%d rejected=%d", n, burst, admitted, rejected)
		// Everything that was admitted is paid for after admitted/rate seconds. Sleep
		// well beyond that: a correct limiter now has a free permit, a caller needs
		// no wait at all.
		time.Sleep(time.Duration(admitted)*time.Second/rate + 500*time.Millisecond)
		ahead := time.Duration(atomic.LoadInt64(&rl.next) - time.Now().UnixNano())
		// probe for a while: count how many of the probes are admitted
		var ok, ko int
		probeStart := time.Now()
		for time.Since(probeStart) < time.Second {
			if err := rl.Acquire(ctx, 1); err == nil {
				ok++
			} else {
				ko++
			}
			time.Sleep(20 * time.Millisecond)
		}
		t.Logf("after the burst: next-free-time is %v in the future; probes over 1s: admitted=%d rejected=%d", ahead, ok, ko)
		if ok == 0 {
			t.Errorf("VIOLATION: %d admitted permits in %v, yet every one of %d later callers (spread over 1s, rate %d/s, timeout %v) was rejected with ErrTimeout; the limiter stays wedged for about %v because the %d rejected callers consumed permits",
				admitted, time.Since(start), ko, rate, wait, ahead, rejected)
		}
	}
	t.Run("sequential", func(t *testing.T) { run(t, false) })
	t.Run("concurrent", func(t *testing.T) { run(t, true) })
}

// ---------------------------------------------------------------------------------
// F2. RateLimiter: a caller whose context ends during the wait keeps the permits it
// reserved (nothing is given back). Callers that give up starve the ones that do not.
// ---------------------------------------------------------------------------------
func TestHuntC17_RateCancelledWaitersKeepPermits(t *testing.T) {
	const rate = 10
	rl := NewRateLimiter(rate, WithMaxPermits(1)) // no limiter timeout: callers use their own context
	if err := rl.Acquire(context.Background(), 1); err != nil {
		t.Fatal(err)
	}
	start := time.Now()
	gaveUp := 0
	for i := 0; i < 100; i++ {
		ctx, cancel := context.WithTimeout(context.Background(), time.Millisecond)
		err := rl.Acquire(ctx, 1)
		cancel()
		if err == nil {
			continue
		}
		if !errors.Is(err, context.DeadlineExceeded) {
			t.Fatalf("unexpected error %v", err)
		}
		gaveUp++
	}
	elapsed := time.Since(start)
	ahead := time.Duration(atomic.LoadInt64(&rl.next) - time.Now().UnixNano())
	t.Logf("%d callers gave up after 1ms each (%v in total); next-free-time is now %v in the future", gaveUp, elapsed, ahead)
	// One permit was admitted, at most a handful more while the loop ran. A patient caller
	// must get a permit within one interval (100ms); give it ten.
	ctx, cancel := context.WithTimeout(context.Background(), time.Second)
	defer cancel()
	t0 := time.Now()
	err := rl.Acquire(ctx, 1)
	if err != nil {
		t.Errorf("VIOLATION: a caller willing to wait 1s (10 intervals) got %v after %v: the %d callers that gave up kept their permits, the limiter is booked for %v although it admitted nobody",
			err, time.Since(t0), gaveUp, ahead)
	}
}

// ---------------------------------------------------------------------------------
// F3. RateLimiter: WithMaxPermits(M) lets M+2 single-permit callers through at one
// instant (the clamp is applied AFTER the caller's tokens are taken, and a caller that
// finds the bucket exactly empty, last <= now, is admitted on credit).
// ---------------------------------------------------------------------------------
func TestHuntC17_RateBurstExceedsMaxPermits(t *testing.T) {
	for _, m := range []int{0, 1, 3, 10} {
		const rate = 10 // interval 100ms
		// timeout 1ns: whoever would have to wait is rejected, so "admitted" counts
		// exactly the callers let through without any wait
		rl := NewRateLimiter(rate, WithMaxPermits(float64(m)), WithTimeout(time.Nanosecond))
		// idle long enough for the bucket to be full and the clamp to be active
		time.Sleep(time.Duration(m+2)*time.Second/rate + 50*time.Millisecond)
		start := time.Now()
		admitted := 0
		for i := 0; i < m+20; i++ {
			if rl.Acquire(context.Background(), 1) == nil {
				admitted++
			}
		}
		elapsed := time.Since(start)
		bound := float64(m) + rate*elapsed.Seconds()
		t.Logf("maxPermits=%d: %d callers admitted without wait in %v; burst+rate*elapsed = %.4f", m, admitted, elapsed, bound)
		if float64(admitted) > bound {
			t.Errorf("VIOLATION: maxPermits=%d rate=%d/s: %d permits admitted within %v, bound burst+rate*elapsed = %.4f", m, rate, admitted, elapsed, bound)
		}
	}
}

// Same defect seen with blocking callers: every window of the admission history is
// checked one-sidedly (window = from BEFORE the first Acquire was called to AFTER the
// last one returned, so the elapsed time is over-estimated, never under-estimated).
func TestHuntC17_RateWindowBound(t *testing.T) {
	const rate = 100
	const m = 2
	rl := NewRateLimiter(rate, WithMaxPermits(m))
	time.Sleep(100 * time.Millisecond)
	const n = 30
	var before, after [n]time.Time
	for i := 0; i < n; i++ {
		before[i] = time.Now()
		if err := rl.Acquire(context.Background(), 1); err != nil {
			t.Fatal(err)
		}
		after[i] = time.Now()
	}
	worst, wi, wj := 0.0, 0, 0
	for i := 0; i < n; i++ {
		for j := i; j < n; j++ {
			el := after[j].Sub(before[i]).Seconds()
			excess := float64(j-i+1) - (m + rate*el)
			if excess > worst {
				worst, wi, wj = excess, i, j
			}
		}
	}
	if worst > 0 {
		t.Errorf("VIOLATION: calls %d..%d: %d permits admitted within %v, bound burst+rate*elapsed = %.3f (excess %.3f permits)",
			wi, wj, wj-wi+1, after[wj].Sub(before[wi]), m+rate*after[wj].Sub(before[wi]).Seconds(), worst)
	}
}

// ---------------------------------------------------------------------------------
// F4. RateLimiter: a request for K tokens is admitted at once whenever next <= now, however
// large K is (IOHandler asks for len(request) tokens). K permits are admitted at one instant,
// K is not bounded by the burst; the debt is charged to the NEXT callers.
// ---------------------------------------------------------------------------------
func TestHuntC17_RateLargeRequestAdmittedAtOnce(t *testing.T) {
	const rate = 1000 // bytes per second
	const m = 100     // burst of 100 bytes
	rl := NewRateLimiter(rate, WithMaxPermits(m), WithTimeout(time.Second))
	time.Sleep(200 * time.Millisecond) // bucket full
	var calls int32
	next := func(ctx context.Context, request []byte) ([]byte, error) {
		atomic.AddInt32(&calls, 1)
		return nil, nil
	}
	big := make([]byte, 1000000) // 1 MB: 1000 s worth of permits, 10000 bursts
	start := time.Now()
	_, err := rl.IOHandler(context.Background(), big, next)
	elapsed := time.Since(start)
	bound := m + rate*elapsed.Seconds()
	t.Logf("1MB request through a 1000 B/s limiter with burst 100: err=%v after %v", err, elapsed)
	if err == nil && float64(len(big)) > bound {
		t.Errorf("VIOLATION: %d permits admitted within %v; bound burst+rate*elapsed = %.2f", len(big), elapsed, bound)
	}
	// and the following one-byte request pays for it
	_, err = rl.IOHandler(context.Background(), []byte{1}, next)
	ahead := time.Duration(atomic.LoadInt64(&rl.next) - time.Now().UnixNano())
	t.Logf("following 1-byte request: err=%v; next-free-time %v in the future", err, ahead)
}

// ---------------------------------------------------------------------------------
// F5. ConcurrentLimiter without its own timeout (NewConcurrentLimiter(n)) ignores the
// request's context while waiting: a request whose deadline passes in the queue is
// neither released nor refused, it takes a permit later and runs with a dead context.
// ---------------------------------------------------------------------------------
func TestHuntC17_ConcurrentIgnoresRequestContext(t *testing.T) {
	cl := NewConcurrentLimiter(1)
	hold := make(chan struct{})
	holding := make(chan struct{})
	go func() {
		_, _ = cl.Handler(context.Background(), nil, func(ctx context.Context, request []byte) ([]byte, error) {
			close(holding)
			<-hold
			return nil, nil
		})
	}()
	<-holding
	ctx, cancel := context.WithTimeout(context.Background(), 50*time.Millisecond)
	defer cancel()
	type res struct {
		err      error
		ran      bool
		ctxErr   error
		inFlight int
	}
	done := make(chan res, 1)
	start := time.Now()
	go func() {
		var r res
		_, r.err = cl.Handler(ctx, nil, func(ctx context.Context, request []byte) ([]byte, error) {
			r.ran = true
			r.ctxErr = ctx.Err()
			r.inFlight = cl.ConcurrentRequests()
			return nil, nil
		})
		done <- r
	}()
	select {
	case r := <-done:
		t.Logf("returned after %v: %+v", time.Since(start), r)
		if r.ran {
			t.Errorf("request ran although it could not get a permit before its deadline")
		}
		return
	case <-time.After(500 * time.Millisecond):
		t.Logf("the request's context ended after 50ms; 500ms later it is still blocked in Acquire (goroutine cannot be cancelled)")
	}
	close(hold) // the holder finishes: the dead request now takes the permit
	r := <-done
	if r.ran {
		t.Errorf("VIOLATION: a request that timed out waiting (deadline 50ms) stayed queued for %v, then consumed a permit (in use: %d) and executed with ctx.Err()=%v; Handler returned err=%v",
			time.Since(start), r.inFlight, r.ctxErr, r.err)
	}
}

// ---------------------------------------------------------------------------------
// F6. ConcurrentLimiter on a service together with the ExecuteTimeout plugin of the
// same library: ExecuteTimeout answers ErrTimeout and lets the method run on in its
// goroutine; the limiter's deferred Release returns the permit although the request is
// still executing beyond it. More than N requests execute beyond the limiter.
// ---------------------------------------------------------------------------------
func TestHuntC17_ConcurrentOveradmitsWithExecuteTimeout(t *testing.T) {
	mock.RegisterHandler()
	mock.RegisterTransport()
	const limit = 2
	var inFlight, peak int32
	service := core.NewService()
	service.AddFunction(func() {
		n := atomic.AddInt32(&inFlight, 1)
		for {
			p := atomic.LoadInt32(&peak)
			if n <= p || atomic.CompareAndSwapInt32(&peak, p, n) {
				break
			}
		}
		time.Sleep(400 * time.Millisecond)
		atomic.AddInt32(&inFlight, -1)
	}, "slow")
	cl := NewConcurrentLimiter(limit)
	service.Use(cl)                                 // IO plugin
	service.Use(timeout.New(20 * time.Millisecond)) // invoke plugin, runs inside the limiter
	server := mock.Server{Address: "huntC17overadmit"}
	if err := service.Bind(server); err != nil {
		t.Fatal(err)
	}
	defer server.Close()
	client := core.NewClient("mock://huntC17overadmit")
	var proxy struct {
		Slow func() error
	}
	client.UseService(&proxy)
	var wg sync.WaitGroup
	for i := 0; i < 12; i++ {
		wg.Add(1)
		go func() {
			defer wg.Done()
			_ = proxy.Slow()
		}()
	}
	wg.Wait()
	now := atomic.LoadInt32(&inFlight)
	t.Logf("limit=%d: all 12 calls answered; limiter reports %d in use; service method executions still running=%d, peak=%d", limit, cl.ConcurrentRequests(), now, atomic.LoadInt32(&peak))
	if p := atomic.LoadInt32(&peak); p > limit {
		t.Errorf("VIOLATION: ConcurrentLimiter(%d): %d requests were executing beyond the limiter at the same instant (limiter itself reported %d in use)", limit, p, cl.ConcurrentRequests())
	}
	time.Sleep(500 * time.Millisecond)
}

// ---------------------------------------------------------------------------------
// F7 (minor). ConcurrentLimiter with a very short timeout (the library's own test uses
// time.Nanosecond) refuses callers with ErrTimeout although every permit is free and
// nobody else is calling: the derived context is already expired when select looks at
// it, and select picks among ready cases at random.
// ---------------------------------------------------------------------------------
func TestHuntC17_ConcurrentSpuriousTimeoutWithFreePermits(t *testing.T) {
	cl := NewConcurrentLimiter(3, time.Nanosecond)
	refused := 0
	const n = 1000
	for i := 0; i < n; i++ { // strictly sequential: 0 permits in use at every call
		_, err := cl.Handler(context.Background(), nil, func(ctx context.Context, request []byte) ([]byte, error) { return nil, nil })
		if err != nil {
			refused++
		}
	}
	t.Logf("sequential calls, 3 permits, none in use: %d of %d refused with ErrTimeout", refused, n)
	if refused > 0 {
		t.Errorf("VIOLATION: %d of %d sequential callers timed out 'waiting' although 3 of 3 permits were free (no wait was needed)", refused, n)
	}
	// same with a generous limiter timeout but a caller whose context is already over
	cl = NewConcurrentLimiter(3, time.Minute)
	ctx, cancel := context.WithCancel(context.Background())
	cancel()
	ran := 0
	for i := 0; i < n; i++ {
		_, err := cl.Handler(ctx, nil, func(ctx context.Context, request []byte) ([]byte, error) { ran++; return nil, nil })
		_ = err
	}
	t.Logf("caller context already cancelled, limiter timeout 1m: %d of %d requests were nevertheless executed, the others got ErrTimeout (not context.Canceled)", ran, n)
}

// ---------------------------------------------------------------------------------
// F8 (minor). RateLimiter.Acquire with a token count whose cost does not fit int64
// nanoseconds: float->int64 conversion overflows, next becomes a huge negative number
// and stays there; the limiter then admits everything at once, for ever.
// ---------------------------------------------------------------------------------
func TestHuntC17_RateHugeTokenCountDisablesLimiter(t *testing.T) {
	rl := NewRateLimiter(1, WithMaxPermits(1), WithTimeout(time.Millisecond)) // 1 permit per second
	err := rl.Acquire(context.Background(), math.MaxInt32*8)                  // 1.7e10 s worth of permits = 1.7e19 ns > MaxInt64
	t.Logf("Acquire(%d) = %v; next = %d", math.MaxInt32*8, err, atomic.LoadInt64(&rl.next))
	start := time.Now()
	admitted := 0
	for i := 0; i < 100000; i++ {
		if rl.Acquire(context.Background(), 1) == nil {
			admitted++
		}
	}
	elapsed := time.Since(start)
	t.Logf("then %d of 100000 single-permit callers admitted in %v at 1 permit/s; next = %d", admitted, elapsed, atomic.LoadInt64(&rl.next))
	if float64(admitted) > 1+elapsed.Seconds() {
		t.Errorf("VIOLATION: %d permits admitted in %v at rate 1/s burst 1 after one oversized request", admitted, elapsed)
	}
	// the same overflow with permitsPerSecond = 0 (interval = +Inf), which the constructor accepts:
	// "no permits at all" turns into "no limit at all"
	rl = NewRateLimiter(0, WithTimeout(time.Millisecond))
	admitted = 0
	for i := 0; i < 1000; i++ {
		if rl.Acquire(context.Background(), 1) == nil {
			admitted++
		}
	}
	t.Logf("NewRateLimiter(0): %d of 1000 callers admitted at once; next = %d", admitted, atomic.LoadInt64(&rl.next))
	if admitted > 1 {
		t.Errorf("VIOLATION: NewRateLimiter(0) admitted %d of 1000 callers without wait", admitted)
	}
}

// ---------------------------------------------------------------------------------
// Negative result: ConcurrentLimiter under a storm of normal returns, errors, panics and
// wait time-outs racing with releases. Bound and permit accounting held in every run.
// ---------------------------------------------------------------------------------
func TestHuntC17_ConcurrentStressNoLeak(t *testing.T) {
	const limit = 3
	cl := NewConcurrentLimiter(limit, 2*time.Millisecond)
	var inFlight, peak, timedOut, ran int32
	var wg sync.WaitGroup
	for i := 0; i < 5000; i++ {
		wg.Add(1)
		if i%50 == 0 {
			time.Sleep(time.Millisecond)
		}
		go func(i int) {
			defer wg.Done()
			defer func() { _ = recover() }()
			_, err := cl.Handler(context.Background(), nil, func(ctx context.Context, request []byte) ([]byte, error) {
				n := atomic.AddInt32(&inFlight, 1)
				defer atomic.AddInt32(&inFlight, -1)
				atomic.AddInt32(&ran, 1)
				for {
					p := atomic.LoadInt32(&peak)
					if n <= p || atomic.CompareAndSwapInt32(&peak, p, n) {
						break
					}
				}
				time.Sleep(time.Duration(i%7) * 50 * time.Microsecond)
				switch i % 3 {
				case 0:
					panic("boom")
				case 1:
					return nil, errors.New("failed")
				}
				return nil, nil
			})
			if err == core.ErrTimeout {
				atomic.AddInt32(&timedOut, 1)
			}
		}(i)
	}
	wg.Wait()
	t.Logf("ran=%d timedOut=%d peak=%d inUseAtQuiescence=%d", ran, timedOut, peak, cl.ConcurrentRequests())
	if peak > limit {
		t.Errorf("VIOLATION: peak %d > limit %d", peak, limit)
	}
	if cl.ConcurrentRequests() != 0 {
		t.Errorf("VIOLATION: %d permits leaked", cl.ConcurrentRequests())
	}
}
