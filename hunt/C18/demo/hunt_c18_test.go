// Demonstrations for property C18 (load balancers).
// Copy this file into rpc/plugins/loadbalance/ (it is an in-package test:
// package loadbalance). It opens no ports and needs no server: every balancer
// is driven through its exported Handler with a recording next-handler that
// looks at ClientContext.URL.
package loadbalance

import (
	"context"
	"errors"
	"fmt"
	"net/url"
	"os"
	"sync"
	"sync/atomic"
	"testing"
	"time"

	"github.com/hprose/hprose-golang/v3/rpc/core"
)

var errHuntC18 = errors.New("hunt: call failed")

func huntCtx(client *core.Client) (context.Context, *core.ClientContext) {
	cc := core.NewClientContext()
	cc.Init(client)
	return core.WithContext(context.Background(), cc), cc
}

type huntHandler interface {
	Handler(ctx context.Context, request []byte, next core.NextIOHandler) ([]byte, error)
}

// huntCall makes one call through lb and returns the URL the next-handler saw.
func huntCall(lb huntHandler, client *core.Client, outcome func(u *url.URL) error) (seen *url.URL, err error) {
	ctx, cc := huntCtx(client)
	_, err = lb.Handler(ctx, nil, func(ctx context.Context, request []byte) ([]byte, error) {
		seen = cc.URL
		if outcome != nil {
			return nil, outcome(seen)
		}
		return nil, nil
	})
	return
}

// WeightedLeastActiveLoadBalance.Handler prints every URL to stdout; keep the
// test output readable.
func huntSilenceStdout() func() {
	old := os.Stdout
	if f, err := os.OpenFile(os.DevNull, os.O_WRONLY, 0); err == nil {
		os.Stdout = f
		return func() { os.Stdout = old; f.Close() }
	}
	return func() {}
}

// ---------------------------------------------------------------------------
// 1. Round-robin is not equal under concurrent callers.
// ---------------------------------------------------------------------------
func TestHuntC18_RoundRobinConcurrentUnequal(t *testing.T) {
	for _, n := range []int{2, 3, 5} {
		uris := make([]string, n)
		for i := range uris {
			uris[i] = fmt.Sprintf("mock://rr%d", i)
		}
		client := core.NewClient(uris...)
		lb := NewRoundRobinLoadBalance()
		const goroutines = 16
		perG := 20000 * n // the total is a whole number of cycles
		counts := make([]int64, n)
		pos := map[*url.URL]int{}
		for i, u := range client.URLs {
			pos[u] = i
		}
		var wg sync.WaitGroup
		start := make(chan struct{})
		for g := 0; g < goroutines; g++ {
			wg.Add(1)
			go func() {
				defer wg.Done()
				<-start
				for k := 0; k < perG; k++ {
					u, _ := huntCall(lb, client, nil)
					i, ok := pos[u]
					if !ok {
						t.Errorf("VIOLATION: out of range server %v", u)
						return
					}
					atomic.AddInt64(&counts[i], 1)
				}
			}()
		}
		close(start)
		wg.Wait()
		want := int64(goroutines * perG / n)
		equal := true
		for _, c := range counts {
			if c != want {
				equal = false
			}
		}
		if !equal {
			t.Errorf("VIOLATION: round-robin over %d servers, %d concurrent callers, %d calls (= %d full cycles): per-server counts %v, want %d each",
				n, goroutines, goroutines*perG, want, counts, want)
		}
	}
}

// ---------------------------------------------------------------------------
// 2. LeastActive: adding a server while calls are in flight wipes the
// in-flight counters; they go negative when those calls finish and the
// balancer then prefers a busy server over an idle one, for ever.
// ---------------------------------------------------------------------------
func TestHuntC18_LeastActiveGrowResetsCounters(t *testing.T) {
	client := core.NewClient("mock://a", "mock://b")
	lb := NewLeastActiveLoadBalance()

	// two long calls in flight, one on a and one on b
	release := make(chan struct{})
	var wg sync.WaitGroup
	entered := make(chan *url.URL, 2)
	for i := 0; i < 2; i++ {
		wg.Add(1)
		go func() {
			defer wg.Done()
			huntCall(lb, client, func(u *url.URL) error { entered <- u; <-release; return nil })
		}()
		<-entered
	}
	t.Logf("two calls in flight, actives=%v", []int64(lb.actives))

	// the operator adds a third server (exported API), one short call is made
	client.SetURI("mock://a", "mock://b", "mock://c")
	huntCall(lb, client, nil)
	t.Logf("after SetURI(a,b,c) and one short call, two calls still in flight: actives=%v", []int64(lb.actives))

	close(release)
	wg.Wait()
	got := append([]int64{}, lb.actives...)
	for _, a := range got {
		if a != 0 {
			t.Errorf("VIOLATION: all calls have finished but the in-flight counters are %v, want all 0", got)
			break
		}
	}

	// consequence: long calls are started one after the other, each is in
	// flight before the next one starts. Every call must go to a server with
	// the fewest calls in flight (counted by the test itself), but the
	// counters [-1 -1 0] make the balancer prefer a and b over the idle c.
	release2 := make(chan struct{})
	inflight := map[string]int{"a": 0, "b": 0, "c": 0}
	var mu sync.Mutex
	var wg2 sync.WaitGroup
	bad := ""
	for i := 1; i <= 12 && bad == ""; i++ {
		wg2.Add(1)
		ch := make(chan struct{})
		go func(i int) {
			defer wg2.Done()
			huntCall(lb, client, func(u *url.URL) error {
				mu.Lock()
				min := inflight["a"]
				for _, h := range []string{"b", "c"} {
					if inflight[h] < min {
						min = inflight[h]
					}
				}
				if inflight[u.Host] > min && bad == "" {
					bad = fmt.Sprintf("call %d was sent to %s, which had %d in flight, while the in-flight calls per server were %v", i, u.Host, inflight[u.Host], inflight)
				}
				inflight[u.Host]++
				mu.Unlock()
				close(ch)
				<-release2
				return nil
			})
		}(i)
		<-ch
	}
	close(release2)
	wg2.Wait()
	if bad != "" {
		t.Errorf("VIOLATION: least-active did not pick a server with the fewest requests in flight: %s", bad)
	}
}

// ---------------------------------------------------------------------------
// 3. LeastActive / WeightedLeastActive: choosing the server and counting the
// call are two separate critical sections, so concurrent callers choose from
// the same stale counters. G callers on G idle servers must get one server
// each; they do not.
// ---------------------------------------------------------------------------
func huntConcurrentPick(t *testing.T, name string, lb huntHandler, client *core.Client, hosts []string) {
	G := len(hosts)
	for round := 0; round < 20000; round++ {
		var arrived sync.WaitGroup
		arrived.Add(G)
		var done sync.WaitGroup
		start := make(chan struct{})
		counts := map[string]int{}
		var mu sync.Mutex
		for g := 0; g < G; g++ {
			done.Add(1)
			go func() {
				defer done.Done()
				<-start
				huntCall(lb, client, func(u *url.URL) error {
					mu.Lock()
					counts[u.Host]++
					mu.Unlock()
					arrived.Done()
					arrived.Wait() // all G calls are in flight at the same time
					return nil
				})
			}()
		}
		close(start)
		done.Wait()
		for h, c := range counts {
			if c > 1 {
				t.Errorf("VIOLATION: %s, round %d: %d calls started on %d idle servers and all %d were in flight together; server %s carried %d of them while another server carried none: %v",
					name, round, G, G, G, h, c, counts)
				return
			}
		}
	}
	t.Logf("%s: not observed in 20000 rounds", name)
}

func TestHuntC18_LeastActiveConcurrentPickNotAtomic(t *testing.T) {
	hosts := []string{"a", "b", "c", "d"}
	uris := []string{}
	weights := map[string]int{}
	for _, h := range hosts {
		uris = append(uris, "mock://"+h)
		weights["mock://"+h] = 1
	}
	client := core.NewClient(uris...)
	t.Run("LeastActive", func(t *testing.T) {
		huntConcurrentPick(t, "LeastActiveLoadBalance", NewLeastActiveLoadBalance(), client, hosts)
	})
	t.Run("WeightedLeastActive", func(t *testing.T) {
		defer huntSilenceStdout()()
		huntConcurrentPick(t, "WeightedLeastActiveLoadBalance", NewWeightedLeastActiveLoadBalance(weights), client, hosts)
	})
}

// ---------------------------------------------------------------------------
// 4. Failure-aware balancers: a server whose effective weight has reached 0 is
// never tried again, so its share is never restored although every later call
// succeeds. With weight 1 a single failed call is enough.
// ---------------------------------------------------------------------------
func TestHuntC18_FailureAwareShareNeverRestored(t *testing.T) {
	defer huntSilenceStdout()()
	client := core.NewClient("mock://a", "mock://b")
	weights := map[string]int{"mock://a": 1, "mock://b": 1}
	type mk struct {
		name string
		new  func() huntHandler
	}
	for _, m := range []mk{
		{"NginxRoundRobin", func() huntHandler { return NewNginxRoundRobinLoadBalance(weights) }},
		{"WeightedRandom", func() huntHandler { return NewWeightedRandomLoadBalance(weights) }},
		{"WeightedLeastActive", func() huntHandler { return NewWeightedLeastActiveLoadBalance(weights) }},
	} {
		lb := m.new()
		// the very first call fails (whatever server it goes to), every
		// later call on every server succeeds.
		var victim string
		for victim == "" {
			u, err := huntCall(lb, client, func(u *url.URL) error { return errHuntC18 })
			if err != nil {
				victim = u.Host
			}
		}
		counts := map[string]int{}
		const calls = 10000
		for i := 0; i < calls; i++ {
			u, err := huntCall(lb, client, nil)
			if err != nil {
				t.Fatal(err)
			}
			counts[u.Host]++
		}
		if counts[victim] == 0 {
			t.Errorf("VIOLATION: %s, weights a=1 b=1: one call to %s failed, then %d calls were made and all succeeded; %s got %d of them (%v), its share was never restored",
				m.name, victim, calls, victim, counts[victim], counts)
		}
	}

	// a short outage of all servers pins the client to a single server
	weights3 := map[string]int{"mock://a": 2, "mock://b": 2, "mock://c": 2}
	client3 := core.NewClient("mock://a", "mock://b", "mock://c")
	for _, m := range []mk{
		{"NginxRoundRobin", func() huntHandler { return NewNginxRoundRobinLoadBalance(weights3) }},
		{"WeightedRandom", func() huntHandler { return NewWeightedRandomLoadBalance(weights3) }},
		{"WeightedLeastActive", func() huntHandler { return NewWeightedLeastActiveLoadBalance(weights3) }},
	} {
		lb := m.new()
		for i := 0; i < 200; i++ { // outage: everything fails
			huntCall(lb, client3, func(u *url.URL) error { return errHuntC18 })
		}
		counts := map[string]int{}
		const calls = 9000
		for i := 0; i < calls; i++ { // all servers are back
			u, _ := huntCall(lb, client3, nil)
			counts[u.Host]++
		}
		if len(counts) < 3 {
			t.Errorf("VIOLATION: %s, weights a=2 b=2 c=2: after an outage of 200 failed calls all servers are healthy again, %d successful calls were distributed %v; want about %d each",
				m.name, calls, counts, calls/3)
		}
	}
}

// ---------------------------------------------------------------------------
// 5. LeastActive keeps its in-flight counters by position in Client.URLs, not
// by server: removing (or reordering, Client.ShuffleURLs) a server while calls
// are in flight attributes them to another server.
// ---------------------------------------------------------------------------
func TestHuntC18_LeastActiveCountsByPosition(t *testing.T) {
	client := core.NewClient("mock://a", "mock://b", "mock://c")
	lb := NewLeastActiveLoadBalance()
	release := make(chan struct{})
	var wg sync.WaitGroup
	inflight := map[string]int{}
	// fill until a has a long call in flight and b, c have none: start long
	// calls until each server has one, then finish those of b and c.
	rel := map[string]chan struct{}{"a": release, "b": make(chan struct{}), "c": make(chan struct{})}
	for i := 0; i < 3; i++ {
		wg.Add(1)
		ch := make(chan struct{})
		go func() {
			defer wg.Done()
			huntCall(lb, client, func(u *url.URL) error {
				inflight[u.Host]++
				close(ch)
				<-rel[u.Host]
				return nil
			})
		}()
		<-ch
	}
	if inflight["a"] != 1 || inflight["b"] != 1 || inflight["c"] != 1 {
		t.Fatalf("setup: %v", inflight)
	}
	// a is taken out of service while its long call is still running
	client.SetURI("mock://b", "mock://c")
	close(rel["c"]) // the call on c finishes; b's and a's calls go on
	for lbActive := int64(1); lbActive != 0; {
		time.Sleep(time.Millisecond)
		lb.rwlock.RLock()
		lbActive = lb.actives[2]
		lb.rwlock.RUnlock()
	}
	// now: b has 1 in flight, c has 0. A new call must go to c.
	u, _ := huntCall(lb, client, nil)
	seen := map[string]int{}
	for i := 0; i < 50; i++ {
		u, _ = huntCall(lb, client, nil)
		seen[u.Host]++
	}
	if seen["b"] > 0 {
		t.Errorf("VIOLATION: servers [b c], b has one call in flight and c none, yet %d of 50 sequential calls were sent to b (%v); actives=%v are the counts of the removed server a and of b",
			seen["b"], seen, []int64(lb.actives))
	}
	close(rel["b"])
	close(release)
	wg.Wait()
}

// ---------------------------------------------------------------------------
// 6. A next-handler that panics with a nil value is counted as a success by
// the three failure-aware balancers (and the panic is swallowed: the call
// returns nil, nil). go.mod says go 1.13, so recover() returns nil for it.
// ---------------------------------------------------------------------------
func TestHuntC18_PanicNilCountedAsSuccess(t *testing.T) {
	defer huntSilenceStdout()()
	client := core.NewClient("mock://a")
	weights := map[string]int{"mock://a": 3}
	check := func(name string, lb huntHandler, eff func() int64) {
		// one ordinary failure brings the effective weight to 2
		huntCall(lb, client, func(*url.URL) error { return errHuntC18 })
		before := eff()
		var resp []byte
		var err error
		panicked := true
		func() {
			defer func() {
				if r := recover(); r != nil {
					// go >= 1.21 semantics: *runtime.PanicNilError, treated as a failure
					err = fmt.Errorf("%v", r)
				}
			}()
			ctx, _ := huntCtx(client)
			resp, err = lb.Handler(ctx, nil, func(context.Context, []byte) ([]byte, error) {
				var v interface{}
				panic(v)
			})
			panicked = false
		}()
		after := eff()
		if err == nil && !panicked {
			t.Errorf("VIOLATION: %s: the call panicked (panic(nil)) but Handler returned response=%v err=%v and the effective weight went from %d to %d (a failure must lower it)",
				name, resp, err, before, after)
		}
	}
	n := NewNginxRoundRobinLoadBalance(weights)
	check("NginxRoundRobin", n, func() int64 { return n.effectiveWeights[0] })
	r := NewWeightedRandomLoadBalance(weights)
	check("WeightedRandom", r, func() int64 { return r.effectiveWeights[0] })
	l := NewWeightedLeastActiveLoadBalance(weights)
	check("WeightedLeastActive", l, func() int64 { return l.effectiveWeights[0] })
}

// ---------------------------------------------------------------------------
// 7. The weighted constructors accept a key that url.Parse refuses and keep a
// nil *url.URL for it; the balancer then "selects" nil. They also accept an
// empty map, after which every call panics (integer divide by zero / Intn(0)).
// ---------------------------------------------------------------------------
func TestHuntC18_UnparsableKeySelectsNilServer(t *testing.T) {
	defer huntSilenceStdout()()
	client := core.NewClient("mock://a")
	weights := map[string]int{"mock://a:1": 1, "mock://b:80a0": 1} // typo in the port
	for name, lb := range map[string]huntHandler{
		"WeightedRoundRobin":  NewWeightedRoundRobinLoadBalance(weights),
		"NginxRoundRobin":     NewNginxRoundRobinLoadBalance(weights),
		"WeightedRandom":      NewWeightedRandomLoadBalance(weights),
		"WeightedLeastActive": NewWeightedLeastActiveLoadBalance(weights),
	} {
		nils := 0
		for i := 0; i < 64; i++ {
			ctx, cc := huntCtx(client)
			lb.Handler(ctx, nil, func(context.Context, []byte) ([]byte, error) {
				if cc.URL == nil {
					nils++
				}
				return nil, nil
			})
		}
		if nils > 0 {
			t.Errorf("VIOLATION: %s built from %v: %d of 64 calls were given ClientContext.URL == nil (Client.Transport dereferences it)", name, weights, nils)
		}
	}
	// end to end: the call panics in core.Client.Transport
	func() {
		defer func() {
			if r := recover(); r != nil {
				t.Errorf("VIOLATION: client.Invoke through WeightedRoundRobin with the unparsable key panicked in the caller: %v", r)
			}
		}()
		c := core.NewClient("mock://a")
		c.Use(NewWeightedRoundRobinLoadBalance(map[string]int{"mock://b:80a0": 1}))
		_, err := c.Invoke("hello", nil)
		t.Logf("Invoke returned err=%v", err)
	}()
	// empty map
	func() {
		defer func() {
			if r := recover(); r != nil {
				t.Errorf("VIOLATION: NewWeightedRoundRobinLoadBalance(map[string]int{}) is accepted and the first call panics: %v", r)
			}
		}()
		huntCall(NewWeightedRoundRobinLoadBalance(map[string]int{}), client, nil)
	}()
}

// ---------------------------------------------------------------------------
// 8. (minor) weights whose sum does not fit an int64: the total wraps and the
// smallest server gets the largest share.
// ---------------------------------------------------------------------------
func TestHuntC18_WeightSumOverflow(t *testing.T) {
	const big = int(^uint(0) >> 1) // max int
	if big < 1<<62 {
		t.Skip("needs 64-bit int")
	}
	client := core.NewClient("mock://a")
	weights := map[string]int{"mock://a": big, "mock://b": big, "mock://c": 3}
	// the outcome of WeightedRandom depends on the (random) map order in the
	// constructor; take an instance in which c came first.
	wr := NewWeightedRandomLoadBalance(weights)
	for wr.URLs[0].Host != "c" {
		wr = NewWeightedRandomLoadBalance(weights)
	}
	for name, lb := range map[string]huntHandler{
		"NginxRoundRobin": NewNginxRoundRobinLoadBalance(weights),
		"WeightedRandom":  wr,
	} {
		counts := map[string]int{}
		for i := 0; i < 1000; i++ {
			u, _ := huntCall(lb, client, nil)
			counts[u.Host]++
		}
		if counts["c"] > 10 {
			t.Errorf("VIOLATION: %s with weights a=MaxInt64 b=MaxInt64 c=3: c got %d of 1000 calls (%v); its share should be about 3/2^64", name, counts["c"], counts)
		}
	}
}
