// Copy into rpc/plugins/push/ (external test package push_test; uses only the public API:
// Broker, Prosumer, rpc.NewClient/NewService, the mock and the tcp transport).
// The tcp test opens a port on 127.0.0.1: run it under  unshare -n sh -c 'ip link set lo up; go test ...'
package push_test

import (
	"context"
	"fmt"
	"math/rand"
	"net"
	"sync"
	"sync/atomic"
	"testing"
	"time"

	"github.com/hprose/hprose-golang/v3/rpc"
	"github.com/hprose/hprose-golang/v3/rpc/core"
	"github.com/hprose/hprose-golang/v3/rpc/mock"
	"github.com/hprose/hprose-golang/v3/rpc/plugins/push"
)

func huntWait(t *testing.T, what string, d time.Duration, cond func() bool) bool {
	deadline := time.Now().Add(d)
	for time.Now().Before(deadline) {
		if cond() {
			return true
		}
		time.Sleep(time.Millisecond)
	}
	return cond()
}

// Every Prosumer.Subscribe starts ANOTHER poll loop (go p.message()). If the first loop is busy
// in a callback at that moment (so it has no poll pending that the new loop could displace),
// two loops poll and dispatch for the same client at the same time: a later batch of a topic
// is handed to the callback while an earlier batch of the same topic is still being
// dispatched, i.e. out of acceptance order.
func TestHuntC19_SecondSubscribeReorders(t *testing.T) {
	broker := push.NewBroker(rpc.NewService())
	server := mock.Server{Address: "huntC19reorder"}
	if err := broker.Bind(server); err != nil {
		t.Fatal(err)
	}
	defer server.Close()
	client := rpc.NewClient("mock://huntC19reorder")
	consumer := push.NewProsumer(client, "c1")
	var mu sync.Mutex
	var order []int
	gates := map[int]chan struct{}{0: make(chan struct{}), 1: make(chan struct{})}
	count := func() int { mu.Lock(); defer mu.Unlock(); return len(order) }
	if _, err := consumer.Subscribe("t1", func(data int) {
		mu.Lock()
		order = append(order, data)
		mu.Unlock()
		if g, ok := gates[data]; ok {
			<-g // a callback that takes its time
		}
	}); err != nil {
		t.Fatal(err)
	}
	pub := func(i int) {
		if r := broker.Push(i, "t1", "c1"); !r["c1"] {
			t.Fatalf("publish %d refused", i)
		}
	}
	pub(0)
	if !huntWait(t, "0", 5*time.Second, func() bool { return count() == 1 }) {
		t.Fatal("message 0 not delivered")
	}
	pub(1) // cached: the client is busy in the callback of 0
	pub(2)
	close(gates[0]) // the loop polls again and gets the batch [1 2]; the callback of 1 blocks
	if !huntWait(t, "1", 5*time.Second, func() bool { return count() == 2 }) {
		t.Fatal("message 1 not delivered")
	}
	// the application subscribes to a second topic while the callback of 1 is running
	if _, err := consumer.Subscribe("t2", func(data int) {}); err != nil {
		t.Fatal(err)
	}
	pub(3)
	huntWait(t, "3", 2*time.Second, func() bool { return count() == 3 })
	mu.Lock()
	early := append([]int(nil), order...)
	mu.Unlock()
	close(gates[1])
	huntWait(t, "all", 5*time.Second, func() bool { return count() == 4 })
	mu.Lock()
	final := append([]int(nil), order...)
	mu.Unlock()
	consumer.Unsubscribe("t1")
	consumer.Unsubscribe("t2")
	for i, v := range final {
		if v != i {
			fmt.Printf("VIOLATION: accepted order on topic t1 was 0 1 2 3, the callback saw %v (while the callback of 1 was still running it had already seen %v)\n", final, early)
			t.Fatalf("out of order delivery: %v", final)
		}
	}
	if len(final) != 4 {
		t.Fatalf("delivered %v", final)
	}
}

// The client gives up a poll after Client.Timeout (30s by default) while the broker keeps the
// poll's responder for Broker.Timeout (2 minutes by default). On tcp/websocket/udp nothing
// tells the broker that the caller has gone. Prosumer.message treats the time-out as normal:
// it subscribes again and polls again. A publish that arrives after the client's time-out and
// before the new poll reaches the broker is put into the abandoned responder: the publish
// reports success, the broker writes the batch as the answer of a call nobody waits for, and
// the message is gone. (The test only stretches that window with a client-side plugin that
// delays the re-subscribe call, as a slow network would.)
func TestHuntC19_ClientPollTimeoutLosesMessage(t *testing.T) {
	broker := push.NewBroker(rpc.NewService()) // default Timeout 2min, HeartBeat 10s
	listener, err := net.Listen("tcp", "127.0.0.1:0")
	if err != nil {
		t.Skip("cannot listen: ", err)
	}
	defer listener.Close()
	if err := broker.Bind(listener); err != nil {
		t.Fatal(err)
	}
	time.Sleep(10 * time.Millisecond)
	client := rpc.NewClient("tcp://" + listener.Addr().String() + "/")
	client.Timeout = 300 * time.Millisecond // shorter than the broker's, like the defaults (30s < 2min)
	var subscribes int32
	resubscribing := make(chan struct{}, 16)
	proceed := make(chan struct{}, 16)
	client.Use(func(ctx context.Context, name string, args []interface{}, next core.NextInvokeHandler) ([]interface{}, error) {
		if name == "+" && atomic.AddInt32(&subscribes, 1) == 2 {
			resubscribing <- struct{}{} // the poll has just timed out on the client
			<-proceed
		}
		return next(ctx, name, args)
	})
	consumer := push.NewProsumer(client, "c1")
	var mu sync.Mutex
	var got []string
	if _, err := consumer.Subscribe("t", func(data string) {
		mu.Lock()
		got = append(got, data)
		mu.Unlock()
	}); err != nil {
		t.Fatal(err)
	}
	defer consumer.Unsubscribe("t")
	select {
	case <-resubscribing:
	case <-time.After(5 * time.Second):
		t.Fatal("the poll never timed out on the client")
	}
	r1 := broker.Push("m1", "t", "c1")
	proceed <- struct{}{}
	time.Sleep(500 * time.Millisecond)
	r2 := broker.Push("m2", "t", "c1")
	huntWait(t, "m2", 3*time.Second, func() bool {
		mu.Lock()
		defer mu.Unlock()
		return len(got) > 0 && got[len(got)-1] == "m2"
	})
	time.Sleep(200 * time.Millisecond)
	mu.Lock()
	defer mu.Unlock()
	if !r1["c1"] || !r2["c1"] {
		t.Fatalf("publishes refused: %v %v", r1, r2)
	}
	if len(got) != 2 || got[0] != "m1" || got[1] != "m2" {
		fmt.Printf("VIOLATION: Push(m1) and Push(m2) both reported success for the subscribed, continuously polling client c1; its callback saw %v\n", got)
		t.Fatalf("accepted message lost around a client-side poll time-out: saw %v, want [m1 m2]", got)
	}
}

// The same loss without any plugin: publishes that happen to fall near the moment at which the
// client gives up a poll. Client.Timeout (20ms) < Broker.Timeout (2min), as with the defaults
// (30s < 2min). Every publish reports success for every client; a few percent never arrive.
func huntNaturalTimeoutLoss(t *testing.T, url string, broker *push.Broker) {
	const nc = 8
	const per = 250
	var mu sync.Mutex
	got := map[string][]int{}
	var consumers []*push.Prosumer
	for c := 0; c < nc; c++ {
		id := fmt.Sprintf("c%d", c)
		client := rpc.NewClient(url)
		client.Timeout = 20 * time.Millisecond
		consumer := push.NewProsumer(client, id)
		if _, err := consumer.Subscribe("a", func(data int) {
			mu.Lock()
			got[id] = append(got[id], data)
			mu.Unlock()
		}); err != nil {
			t.Fatal(err)
		}
		consumers = append(consumers, consumer)
	}
	time.Sleep(50 * time.Millisecond)
	for i := 0; i < per; i++ {
		time.Sleep(time.Duration(15000+rand.Intn(10000)) * time.Microsecond)
		r := broker.Push(i, "a")
		for c := 0; c < nc; c++ {
			if !r[fmt.Sprintf("c%d", c)] {
				t.Fatalf("publish %d refused: %v", i, r)
			}
		}
	}
	time.Sleep(500 * time.Millisecond)
	mu.Lock()
	lost, unordered := 0, 0
	detail := ""
	for c := 0; c < nc; c++ {
		id := fmt.Sprintf("c%d", c)
		lost += per - len(got[id])
		for k := 1; k < len(got[id]); k++ {
			if got[id][k] <= got[id][k-1] {
				unordered++
			}
		}
		detail += fmt.Sprintf(" %s:%d/%d", id, len(got[id]), per)
	}
	mu.Unlock()
	for _, c := range consumers {
		c.Unsubscribe("a")
	}
	if lost != 0 || unordered != 0 {
		fmt.Printf("VIOLATION: every one of %d broadcasts reported success for all %d polling clients; delivered:%s (lost %d, out of order or duplicated %d)\n", per, nc, detail, lost, unordered)
		t.Fatalf("%d accepted messages lost", lost)
	}
}

func TestHuntC19_ClientPollTimeoutNaturalMock(t *testing.T) {
	broker := push.NewBroker(rpc.NewService())
	server := mock.Server{Address: "huntC19natural"}
	if err := broker.Bind(server); err != nil {
		t.Fatal(err)
	}
	defer server.Close()
	huntNaturalTimeoutLoss(t, "mock://huntC19natural", broker)
}

func TestHuntC19_ClientPollTimeoutNaturalTCP(t *testing.T) {
	broker := push.NewBroker(rpc.NewService())
	listener, err := net.Listen("tcp", "127.0.0.1:0")
	if err != nil {
		t.Skip("cannot listen: ", err)
	}
	defer listener.Close()
	if err := broker.Bind(listener); err != nil {
		t.Fatal(err)
	}
	time.Sleep(10 * time.Millisecond)
	huntNaturalTimeoutLoss(t, "tcp://"+listener.Addr().String()+"/", broker)
}

// End-to-end form of TestHuntC19_HeartbeatArmedAfterRepoll (see the internal test file): real
// Prosumers over the mock transport. After a delivery the Prosumer polls again within
// microseconds, but the broker arms the heartbeat of that delivery in a goroutine that may run
// after the new poll has arrived; nothing cancels it then, and HeartBeat later the client is
// taken offline in the middle of its poll: its Prosumer loop ends silently (nil answer) and
// every later publish is refused. A service plugin records when each poll reaches the broker.
func TestHuntC19_HeartbeatTakesPollingProsumerOffline(t *testing.T) {
	broker := push.NewBroker(rpc.NewService())
	broker.Timeout = 10 * time.Second
	broker.HeartBeat = 250 * time.Millisecond
	var pollsMu sync.Mutex
	lastPoll := map[string]time.Time{}
	broker.Use(func(ctx context.Context, name string, args []interface{}, next core.NextInvokeHandler) ([]interface{}, error) {
		if name == "<" {
			id := core.GetServiceContext(ctx).RequestHeaders().GetString("id")
			pollsMu.Lock()
			lastPoll[id] = time.Now()
			pollsMu.Unlock()
		}
		return next(ctx, name, args)
	})
	server := mock.Server{Address: "huntC19hb"}
	if err := broker.Bind(server); err != nil {
		t.Fatal(err)
	}
	const nc = 64
	const rounds = 30
	var wg sync.WaitGroup
	var offline int32
	var first sync.Once
	var consumers []*push.Prosumer
	for c := 0; c < nc; c++ {
		id := fmt.Sprintf("c%d", c)
		client := rpc.NewClient("mock://huntC19hb")
		client.Timeout = time.Minute
		consumer := push.NewProsumer(client, id)
		consumers = append(consumers, consumer)
		var lastDelivery atomic.Value
		if _, err := consumer.Subscribe("a", func(data int) { lastDelivery.Store(time.Now()) }); err != nil {
			t.Fatal(err)
		}
		wg.Add(1)
		go func() {
			defer wg.Done()
			time.Sleep(100 * time.Millisecond)
			for i := 0; i < rounds; i++ {
				if !broker.Push(i, "a", id)[id] {
					now := time.Now()
					d, _ := lastDelivery.Load().(time.Time)
					pollsMu.Lock()
					p := lastPoll[id]
					pollsMu.Unlock()
					if p.Sub(d) < 0 || p.Sub(d) > broker.HeartBeat/4 {
						return // the client was slow (busy machine): inconclusive
					}
					atomic.AddInt32(&offline, 1)
					first.Do(func() {
						fmt.Printf("VIOLATION: publish %d to %s refused (Exists=%v). The callback got message %d at T, the client's next poll reached the broker at T+%v (HeartBeat %v) and was still the current poll; the refusal came at T+%v\n",
							i, id, broker.Exists("a", id), i-1, p.Sub(d), broker.HeartBeat, now.Sub(d))
					})
					return
				}
				time.Sleep(2 * broker.HeartBeat)
			}
		}()
	}
	wg.Wait()
	for _, c := range consumers {
		c.Unsubscribe("a")
	}
	if n := atomic.LoadInt32(&offline); n > 0 {
		t.Fatalf("%d of %d Prosumers that polled again at once were taken offline by the heartbeat", n, nc)
	}
}
