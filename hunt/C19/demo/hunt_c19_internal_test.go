// Copy into rpc/plugins/push/ (package push, internal test: it calls the unexported
// broker functions "<", "+", "-" directly, exactly as the service would).
package push

import (
	"context"
	"fmt"
	"sync"
	"sync/atomic"
	"testing"
	"time"

	"github.com/hprose/hprose-golang/v3/rpc/core"
)

func huntCtx(b *Broker, id string) context.Context {
	sc := core.NewServiceContext(b.Service)
	sc.RequestHeaders().Set("id", id)
	return core.WithContext(context.Background(), sc)
}

// A publish that lands between the poll's empty check (send) and the registration of its
// responder is accepted (true) but wakes nobody: the poll sleeps on although the message is
// in the cache. With Timeout <= 0 (documented as "no time-out") it sleeps for ever.
func TestHuntC19_LostWakeup(t *testing.T) {
	b := NewBroker(core.NewService())
	b.Timeout = 0 // a poll waits until there is a message
	b.HeartBeat = 0
	ctx := huntCtx(b, "c1")
	b.subscribe(ctx, "t")
	for k := 0; k < 32; k++ { // a client with several topics: the empty check visits them all
		b.subscribe(ctx, fmt.Sprintf("other%d", k))
	}
	const rounds = 300000
	for i := 0; i < rounds; i++ {
		got := make(chan map[string][]Message, 1)
		var start sync.WaitGroup
		start.Add(2)
		go func() {
			start.Done()
			start.Wait()
			got <- b.message(ctx)
		}()
		var accepted bool
		done := make(chan struct{})
		go func() {
			start.Done()
			start.Wait()
			accepted = b.Unicast(context.Background(), i, "t", "c1", "p")
			close(done)
		}()
		<-done
		if !accepted {
			t.Fatalf("round %d: publish refused", i)
		}
		select {
		case r := <-got:
			if len(r["t"]) != 1 || r["t"][0].Data != i {
				t.Fatalf("round %d: got %v", i, r)
			}
		case <-time.After(2 * time.Second):
			cached := 0
			if topics, ok := b.messages.Load("c1"); ok {
				if c, ok := topics.(*syncMapAlias).Load("t"); ok {
					c.(*MessageCache).l.Lock()
					cached = len(c.(*MessageCache).m)
					c.(*MessageCache).l.Unlock()
				}
			}
			_, waiting := b.responders.Get("c1")
			fmt.Printf("VIOLATION: round %d: Unicast returned true, the poll is registered (waiting=%v) and still blocked after 2s; messages sitting in the cache: %d\n", i, waiting, cached)
			t.Fatalf("accepted message not handed to the polling client (lost wake-up), round %d", i)
		}
	}
}

type syncMapAlias = sync.Map

var _ = atomic.AddInt32

// The heartbeat that follows a delivery is armed by a goroutine that send starts AFTER it has
// put the result into the responder. A client that polls again at once can run its
// signals.Pop before that goroutine has stored the signal: the new poll cancels nothing, the
// heartbeat stays armed while the client is waiting in its poll, and after HeartBeat the
// client is taken offline (topics deleted, poll answered with nil, later publishes refused)
// although it never stopped polling. The test measures how long after the delivery the next
// poll was registered at the broker and only counts rounds in which that was < HeartBeat/4.
func TestHuntC19_HeartbeatArmedAfterRepoll(t *testing.T) {
	b := NewBroker(core.NewService())
	b.Timeout = time.Minute
	b.HeartBeat = 200 * time.Millisecond
	var unsub int32
	b.OnUnsubscribe = func(ctx context.Context, id, topic string, m []Message) { atomic.AddInt32(&unsub, 1) }
	const clients = 128
	const rounds = 25
	var wg sync.WaitGroup
	var violations int32
	var first sync.Once
	for c := 0; c < clients; c++ {
		id := fmt.Sprintf("c%d", c)
		ctx := huntCtx(b, id)
		b.subscribe(ctx, "t")
		polled := make(chan map[string][]Message)
		stop := make(chan struct{})
		go func() { // the client: polls again as soon as a poll has returned
			for {
				r := b.message(ctx)
				select {
				case polled <- r:
				case <-stop:
					return
				}
				if r == nil {
					return
				}
			}
		}()
		wg.Add(1)
		go func() {
			defer wg.Done()
			defer close(stop)
			waitRegistered := func() {
				for {
					if _, ok := b.responders.Get(id); ok {
						return
					}
					time.Sleep(20 * time.Microsecond)
				}
			}
			for i := 0; i < rounds; i++ {
				waitRegistered()
				if !b.Unicast(context.Background(), i, "t", id, "p") {
					t.Errorf("%s round %d: publish refused", id, i)
					return
				}
				r := <-polled
				delivered := time.Now()
				if len(r["t"]) != 1 {
					t.Errorf("%s round %d: got %v", id, i, r)
					return
				}
				waitRegistered() // the next poll is waiting at the broker
				repoll := time.Since(delivered)
				select {
				case r := <-polled:
					answered := time.Since(delivered)
					if repoll > b.HeartBeat/4 {
						return // machine too busy, inconclusive
					}
					atomic.AddInt32(&violations, 1)
					first.Do(func() {
						fmt.Printf("VIOLATION: client %s had its next poll registered %v after the delivery of round %d (HeartBeat %v) and stayed in that poll; %v after the delivery the poll was answered %v (nil=%v), Exists(t)=%v, next Unicast=%v\n",
							id, repoll, i, b.HeartBeat, answered, r, r == nil, b.Exists("t", id), b.Unicast(context.Background(), "x", "t", id, "p"))
					})
					return
				case <-time.After(2 * b.HeartBeat):
				}
			}
		}()
	}
	wg.Wait()
	if v := atomic.LoadInt32(&violations); v > 0 {
		t.Fatalf("%d of %d continuously polling clients were taken offline by a heartbeat their re-poll could not cancel (OnUnsubscribe calls: %d)", v, clients, atomic.LoadInt32(&unsub))
	}
}

// Unicast looks the cache up, then appends to it. An unsubscribe (followed by a new subscribe)
// in between deletes that cache from the topic map: the append goes into an orphan, Unicast
// still answers true, and the message is neither polled by the client nor handed to
// OnUnsubscribe.
func TestHuntC19_PublishRacesResubscribe(t *testing.T) {
	b := NewBroker(core.NewService())
	b.Timeout = 5 * time.Millisecond
	b.HeartBeat = 0
	ctx := huntCtx(b, "c1")
	var mu sync.Mutex
	seen := map[int]int{}   // polled by the client
	handed := map[int]int{} // handed to OnUnsubscribe
	b.OnUnsubscribe = func(ctx context.Context, id, topic string, m []Message) {
		mu.Lock()
		for _, x := range m {
			handed[x.Data.(int)]++
		}
		mu.Unlock()
	}
	b.subscribe(ctx, "t")
	stop := make(chan struct{})
	var wg sync.WaitGroup
	var accepted []int
	wg.Add(3)
	go func() { // publisher
		defer wg.Done()
		for i := 0; ; i++ {
			select {
			case <-stop:
				return
			default:
			}
			if b.Unicast(context.Background(), i, "t", "c1", "p") {
				accepted = append(accepted, i)
			}
		}
	}()
	go func() { // the client unsubscribes and subscribes again during traffic
		defer wg.Done()
		for {
			select {
			case <-stop:
				return
			default:
			}
			b.unsubscribe(ctx, "t")
			b.subscribe(ctx, "t")
		}
	}()
	pollOnce := func() {
		r := b.message(ctx)
		mu.Lock()
		for _, x := range r["t"] {
			seen[x.Data.(int)]++
		}
		mu.Unlock()
	}
	go func() { // the client's poll loop
		defer wg.Done()
		for {
			select {
			case <-stop:
				return
			default:
			}
			pollOnce()
		}
	}()
	time.Sleep(2 * time.Second)
	close(stop)
	wg.Wait()
	b.subscribe(ctx, "t")
	pollOnce()
	pollOnce()
	lost, dup := 0, 0
	firstLost := -1
	for _, i := range accepted {
		n := seen[i] + handed[i]
		if n == 0 {
			lost++
			if firstLost < 0 {
				firstLost = i
			}
		} else if n > 1 {
			dup++
		}
	}
	if lost > 0 || dup > 0 {
		fmt.Printf("VIOLATION: %d publishes reported success; %d of them were neither polled by the client nor handed to OnUnsubscribe (first: %d); %d seen twice\n", len(accepted), lost, firstLost, dup)
		t.Fatalf("accepted messages vanished: %d of %d", lost, len(accepted))
	}
}

// Producer.Deny(id, topic) marks the topic with topics.Store(topic, nil). send then does
// value.(*MessageCache) on that nil interface value, which panics. From then on EVERY poll of
// the client panics inside send (the nil entry is never removed), so messages that the broker
// keeps accepting for the client's other topics are never handed over.
func TestHuntC19_DenyPoisonsPolls(t *testing.T) {
	b := NewBroker(core.NewService())
	b.Timeout = 50 * time.Millisecond
	b.HeartBeat = 0
	ctx := huntCtx(b, "c1")
	b.subscribe(ctx, "news")
	b.subscribe(ctx, "chat")
	b.Deny(context.Background(), "c1", "chat") // the server throws the client out of "chat"
	if !b.Unicast(context.Background(), "hello", "news", "c1", "p") {
		t.Fatal("publish to the topic that is still subscribed was refused")
	}
	for attempt := 1; attempt <= 3; attempt++ {
		var r map[string][]Message
		var p interface{}
		func() {
			defer func() { p = recover() }()
			r = b.message(ctx)
		}()
		if p != nil {
			cached := -1
			if topics, ok := b.messages.Load("c1"); ok {
				if c, ok := topics.(*sync.Map).Load("news"); ok && c != nil {
					c.(*MessageCache).l.Lock()
					cached = len(c.(*MessageCache).m)
					c.(*MessageCache).l.Unlock()
				}
			}
			fmt.Printf("VIOLATION: poll %d after Deny(c1, chat) panicked: %v; the message accepted for topic news was not handed over (messages left in the cache of news: %d; 0 means the panicking poll had already taken it out and it is gone)\n", attempt, p, cached)
			if attempt == 3 {
				t.Fatalf("every poll panics after Deny; accepted message for another topic never delivered")
			}
			continue
		}
		if len(r["news"]) == 1 {
			return
		}
		t.Fatalf("poll %d returned %v", attempt, r)
	}
}

// Same defect with a poll pending: Deny -> response pops the poll's responder, send panics,
// the responder is lost. The poll can then neither be answered nor withdrawn: at its time-out
// it spins for ever in the "for !RemoveCb" loop (one core busy, the request never answered).
// NOTE: leaves one spinning goroutine behind for the rest of the test binary.
func TestHuntC19_DenyWithPendingPollSpins(t *testing.T) {
	b := NewBroker(core.NewService())
	b.Timeout = 50 * time.Millisecond
	b.HeartBeat = 0
	ctx := huntCtx(b, "c1")
	b.subscribe(ctx, "news")
	b.subscribe(ctx, "chat")
	done := make(chan map[string][]Message, 1)
	go func() {
		defer func() { recover() }()
		done <- b.message(ctx)
	}()
	for {
		if _, ok := b.responders.Get("c1"); ok {
			break
		}
		time.Sleep(time.Millisecond)
	}
	var p interface{}
	func() {
		defer func() { p = recover() }()
		b.Deny(context.Background(), "c1", "chat")
	}()
	select {
	case r := <-done:
		if _, ok := r["chat"]; !ok || p != nil {
			t.Fatalf("poll answered %v, Deny panicked with %v", r, p)
		}
	case <-time.After(2 * time.Second):
		fmt.Printf("VIOLATION: Deny panicked with %q; the pending poll (Timeout 50ms) has neither been answered nor timed out after 2s: it spins in the withdraw loop\n", fmt.Sprint(p))
		t.Fatalf("pending poll hangs (busy loop) after Deny")
	}
}
