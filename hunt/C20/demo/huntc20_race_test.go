// Copy this file into rpc/plugins/circuitbreaker/ (package directory of the circuit breaker).
//
//   cp _hunt/demo/huntc20_race_test.go rpc/plugins/circuitbreaker/huntc20_race_test.go && \
//   go test -vet=off -count=1 -v -run 'TestHuntC20R_' ./rpc/plugins/circuitbreaker/ ; \
//   rm rpc/plugins/circuitbreaker/huntc20_race_test.go
//
// Schedule-dependent demonstrations (concurrent callers). They search for the interleaving by
// repetition and need at least 2 CPUs; every verdict is sound (see the comments), only the
// number of trials needed varies. HUNTC20_BUDGET (a duration, default 20s) bounds the search
// of each test.

package circuitbreaker_test

import (
	"context"
	"errors"
	"math/rand"
	"os"
	"runtime"
	"sync"
	"sync/atomic"
	"testing"
	"time"

	"github.com/hprose/hprose-golang/v3/rpc/plugins/circuitbreaker"
)

var errDownR = errors.New("downstream failed")

func budget() time.Duration {
	if d, err := time.ParseDuration(os.Getenv("HUNTC20_BUDGET")); err == nil && d > 0 {
		return d
	}
	return 20 * time.Second
}

func failNext(ctx context.Context, request []byte) ([]byte, error) { return nil, errDownR }

//go:noinline
func spin(n int) {
	for i := 0; i < n; i++ {
		runtime.KeepAlive(i)
	}
}

// ---------------------------------------------------------------------------------------
// R1. Recovery time zero ("effectively zero": the breaker is never to reject). IOHandler reads
// the clock first and the time of the last failure second; a failure of a concurrent call that
// is stamped in between makes the interval negative, negative < 0 == recoverTime, and the call
// is rejected with ErrBreaker.
// ---------------------------------------------------------------------------------------
func TestHuntC20R_ZeroRecoverTimeRejects(t *testing.T) {
	if runtime.GOMAXPROCS(0) < 2 {
		t.Skip("needs 2 CPUs")
	}
	cb := circuitbreaker.New(circuitbreaker.WithThreshold(1), circuitbreaker.WithRecoverTime(0))
	var rejected, forwarded, calls int64
	next := func(ctx context.Context, request []byte) ([]byte, error) {
		atomic.AddInt64(&forwarded, 1)
		return nil, errDownR
	}
	deadline := time.Now().Add(budget())
	var wg sync.WaitGroup
	var stop int32
	for g := 0; g < 4; g++ {
		wg.Add(1)
		go func() {
			defer wg.Done()
			for atomic.LoadInt32(&stop) == 0 {
				_, err := cb.IOHandler(context.Background(), nil, next)
				atomic.AddInt64(&calls, 1)
				if err == circuitbreaker.ErrBreaker {
					if atomic.AddInt64(&rejected, 1) >= 5 {
						atomic.StoreInt32(&stop, 1)
					}
				}
				if time.Now().After(deadline) {
					atomic.StoreInt32(&stop, 1)
				}
			}
		}()
	}
	wg.Wait()
	t.Logf("recoverTime=0, threshold=1, 4 concurrent callers, every forwarded call fails: %d calls, %d forwarded, %d rejected with ErrBreaker",
		calls, forwarded, rejected)
	if rejected > 0 {
		t.Errorf("VIOLATION: with a recovery time of zero the breaker rejected %d of %d calls with ErrBreaker", rejected, calls)
	}
}

// ---------------------------------------------------------------------------------------
// Harness for R2 and R3: one breaker per trial.
//
//   - a slow call Q is forwarded while the breaker is closed and waits inside the downstream
//     handler;
//   - threshold+1 failures open the breaker; the recovery time passes (once per batch);
//   - Q returns (its outcome is the parameter) while, at the same moment, the main goroutine
//     makes the call P that finds the recovery time elapsed. P's downstream handler fails.
//   - afterwards `after` more calls are made one by one, all failing if forwarded.
//
// The racing window is inside IOHandler between its atomic.LoadUint64(&cb.failCount) and its
// atomic.StoreUint64(&cb.failCount, cb.threshold>>1): an update of the count by Q in that
// window is overwritten.
// ---------------------------------------------------------------------------------------
type trial struct {
	cb      *circuitbreaker.CircuitBreaker
	release chan struct{}
	ready   int32
	gate    int32
	done    chan struct{}
}

func prepare(threshold uint64, recoverTime time.Duration, qErr error, n int) []*trial {
	trials := make([]*trial, n)
	for i := range trials {
		tr := &trial{
			cb:      circuitbreaker.New(circuitbreaker.WithThreshold(threshold), circuitbreaker.WithRecoverTime(recoverTime)),
			release: make(chan struct{}),
			done:    make(chan struct{}),
		}
		trials[i] = tr
		entered := make(chan struct{})
		go func() {
			d := rand.Intn(96)
			_, _ = tr.cb.IOHandler(context.Background(), nil, func(ctx context.Context, request []byte) ([]byte, error) {
				close(entered)
				<-tr.release
				atomic.StoreInt32(&tr.ready, 1)
				for atomic.LoadInt32(&tr.gate) == 0 {
				}
				spin(d)
				return []byte{}, qErr
			})
			close(tr.done)
		}()
		<-entered
		for k := uint64(0); k <= threshold; k++ {
			_, _ = tr.cb.IOHandler(context.Background(), nil, failNext)
		}
	}
	return trials
}

// race lets Q return and makes the call P at the same moment; it returns P's error.
// The controls: mode 1 makes P only after Q has returned, mode 2 lets Q return only after P
// has returned.
func (tr *trial) race(mode int) error {
	close(tr.release)
	for atomic.LoadInt32(&tr.ready) == 0 {
	}
	if mode == 2 {
		_, err := tr.cb.IOHandler(context.Background(), nil, failNext)
		atomic.StoreInt32(&tr.gate, 1)
		<-tr.done
		return err
	}
	d := rand.Intn(160)
	atomic.StoreInt32(&tr.gate, 1)
	if mode == 1 {
		<-tr.done
	}
	spin(d)
	_, err := tr.cb.IOHandler(context.Background(), nil, failNext)
	<-tr.done
	return err
}

func mode(round int) int {
	switch round {
	case 0:
		return 1
	case 1:
		return 2
	}
	return 0
}

// R2. Q SUCCEEDS. Threshold 5 (the recovery sets the count to 2), P fails, then 4 more calls
// that fail if forwarded. In every serial order of Q's "failCount = 0" and P's steps the success
// is followed by at most 1 (P) + 3 = 4 failures before the last of these calls, so none of
// them may be rejected (count before them at most 1, 2, 3, 4 <= 5). If Q's "failCount = 0"
// falls between P's load (6) and P's store (2) it is lost: P's failure makes 3, the next three
// failures 6, and the fourth call is rejected with ErrBreaker: 4 consecutive failures with a
// threshold of 5.
func TestHuntC20R_RecoveryOverwritesSuccess(t *testing.T) {
	if runtime.GOMAXPROCS(0) < 2 {
		t.Skip("needs 2 CPUs")
	}
	const threshold, after, batch = 5, 4, 4000
	const recoverTime = 250 * time.Millisecond
	deadline := time.Now().Add(budget())
	trialsDone, pRejected, hits, controlHits := 0, 0, 0, 0
	for round := 0; hits == 0 && time.Now().Before(deadline); round++ {
		control := round < 2 // first two batches: the same trials in the two serial orders
		trials := prepare(threshold, recoverTime, nil, batch)
		time.Sleep(recoverTime + 20*time.Millisecond)
		for _, tr := range trials {
			if !control {
				trialsDone++
			}
			perr := tr.race(mode(round))
			if perr == circuitbreaker.ErrBreaker && !control {
				// impossible in this variant: Q does not fail
				pRejected++
			}
			seen := []error{perr}
			violated := false
			for k := 0; k < after; k++ {
				_, err := tr.cb.IOHandler(context.Background(), nil, failNext)
				seen = append(seen, err)
				if err == circuitbreaker.ErrBreaker {
					violated = true
				}
			}
			if violated && control {
				controlHits++
			} else if violated {
				if hits++; hits <= 3 {
					t.Logf("trial %d: the call in flight succeeded; the errors of the next %d calls were %v", trialsDone, after+1, seen)
				}
			}
		}
	}
	t.Logf("controls (Q returns before P is made; P returns before Q does): %d hits in 2x%d trials; concurrent: %d hits in %d trials (P itself rejected: %d)",
		controlHits, batch, hits, trialsDone, pRejected)
	if controlHits > 0 {
		t.Fatalf("the control found %d hits: the harness is wrong", controlHits)
	}
	if hits > 0 {
		t.Errorf("VIOLATION: threshold %d: in %d of %d trials the breaker rejected a call after a success followed by fewer than %d failures "+
			"(the recovery's failCount=%d overwrote the success's failCount=0)", threshold, hits, trialsDone, threshold+1, threshold>>1)
	}
}

// R3. Q FAILS. Threshold 2 (reset value 1). Serial orders: Q's failure before P's check: count 4
// and a fresh failure time, P is rejected, breaker open. Q's failure after P's reset: 1 -> 2,
// P's failure -> 3 > 2, open (either order of the two failures). So after both calls have
// returned the breaker is open with a last failure microseconds old, and the next call X must
// be rejected. If Q's increment (3 -> 4) falls between P's load and P's store of 1, it is lost:
// P's failure makes 2, and X is forwarded.
func TestHuntC20R_RecoveryOverwritesFailure(t *testing.T) {
	if runtime.GOMAXPROCS(0) < 2 {
		t.Skip("needs 2 CPUs")
	}
	const threshold, batch = 2, 4000
	const recoverTime = 250 * time.Millisecond
	deadline := time.Now().Add(budget())
	trialsDone, pRejected, hits, controlHits := 0, 0, 0, 0
	for round := 0; hits == 0 && time.Now().Before(deadline); round++ {
		control := round < 2 // first two batches: the same trials in the two serial orders
		trials := prepare(threshold, recoverTime, errDownR, batch)
		time.Sleep(recoverTime + 20*time.Millisecond)
		for _, tr := range trials {
			if !control {
				trialsDone++
			}
			start := time.Now()
			perr := tr.race(mode(round))
			if perr == circuitbreaker.ErrBreaker && !control {
				pRejected++
			}
			_, xerr := tr.cb.IOHandler(context.Background(), nil, failNext)
			el := time.Since(start)
			if xerr != circuitbreaker.ErrBreaker && el < recoverTime/2 && control {
				controlHits++
			} else if xerr != circuitbreaker.ErrBreaker && el < recoverTime/2 {
				if hits++; hits <= 3 {
					t.Logf("trial %d: the call in flight failed, the probe returned %q, and %v after the start of both the next call returned %q",
						trialsDone, perr, el, xerr)
				}
			}
		}
	}
	t.Logf("controls (Q returns before P is made; P returns before Q does): %d hits in 2x%d trials; concurrent: %d hits in %d trials (probe rejected because the other failure came first: %d)",
		controlHits, batch, hits, trialsDone, pRejected)
	if controlHits > 0 {
		t.Fatalf("the control found %d hits: the harness is wrong", controlHits)
	}
	if hits > 0 {
		t.Errorf("VIOLATION: threshold %d, recoverTime %v: in %d of %d trials, after %d failures, the recovery time and two more failed calls "+
			"(one in flight since before the breaker opened, one probe) the next call was forwarded microseconds after the last failure "+
			"(the recovery's failCount=%d overwrote the increment of the concurrent failure)",
			threshold, recoverTime, hits, trialsDone, threshold+1, threshold>>1)
	}
}
