// Copy this file into rpc/plugins/circuitbreaker/ (package directory of the circuit breaker).
//
//   cp _hunt/demo/huntc20_seq_test.go rpc/plugins/circuitbreaker/huntc20_seq_test.go && \
//   go test -vet=off -count=1 -run 'TestHuntC20_' ./rpc/plugins/circuitbreaker/ ; \
//   rm rpc/plugins/circuitbreaker/huntc20_seq_test.go
//
// Deterministic demonstrations (no sockets are opened; the last one uses the in-process
// "mock" transport of the library).

package circuitbreaker_test

import (
	"context"
	"errors"
	"sync/atomic"
	"testing"
	"time"

	"github.com/hprose/hprose-golang/v3/rpc/core"
	"github.com/hprose/hprose-golang/v3/rpc/mock"
	"github.com/hprose/hprose-golang/v3/rpc/plugins/circuitbreaker"
)

var errDown = errors.New("downstream failed")

const hour = time.Hour

// scripted downstream handler that counts its invocations.
type downstream struct {
	calls int64
	fn    func(n int64) ([]byte, error)
}

func (d *downstream) next(ctx context.Context, request []byte) ([]byte, error) {
	n := atomic.AddInt64(&d.calls, 1)
	return d.fn(n)
}

func (d *downstream) n() int64 { return atomic.LoadInt64(&d.calls) }

func fail(int64) ([]byte, error) { return nil, errDown }

// ---------------------------------------------------------------------------------------
// 1. panic(nil) of the forwarded call is neither a failure nor a success.
//
// The module's go.mod says "go 1.13", so every binary built from it runs with
// GODEBUG=panicnil=1: recover() returns nil for panic(nil). IOHandler's deferred function
// then sees e == nil and err == nil: the panic is swallowed, the caller gets (nil, nil) as if
// the call had succeeded, the failure is not counted, and the breaker never opens however
// many such calls fail in a row.
// ---------------------------------------------------------------------------------------
func TestHuntC20_PanicNil(t *testing.T) {
	cb := circuitbreaker.New(circuitbreaker.WithThreshold(2), circuitbreaker.WithRecoverTime(hour))
	d := &downstream{fn: func(int64) ([]byte, error) { panic(nil) }}
	const calls = 10
	nilnil, rejected := 0, 0
	for i := 0; i < calls; i++ {
		resp, err := cb.IOHandler(context.Background(), []byte("req"), d.next)
		if err == nil && resp == nil {
			nilnil++
		}
		if err == circuitbreaker.ErrBreaker {
			rejected++
		}
	}
	t.Logf("threshold=2 recoverTime=1h, %d calls whose downstream handler panics with nil: "+
		"downstream invoked %d times, %d calls returned (nil, nil), %d rejected with ErrBreaker",
		calls, d.n(), nilnil, rejected)
	if d.n() != 3 || rejected != calls-3 || nilnil != 0 {
		t.Errorf("VIOLATION: expected 3 forwarded calls that fail with a panic error and then %d "+
			"rejections; got %d forwarded, %d reported as success (nil, nil), %d rejected",
			calls-3, d.n(), nilnil, rejected)
	}
}

// a panic(nil) in the middle of a failure burst is not counted either: F F P(nil) F opens
// after 4 outcomes with threshold 2 instead of after 3.
func TestHuntC20_PanicNilInBurst(t *testing.T) {
	cb := circuitbreaker.New(circuitbreaker.WithThreshold(2), circuitbreaker.WithRecoverTime(hour))
	d := &downstream{fn: func(n int64) ([]byte, error) {
		if n == 3 {
			panic(nil)
		}
		return nil, errDown
	}}
	var errs []error
	for i := 0; i < 4; i++ {
		_, err := cb.IOHandler(context.Background(), nil, d.next)
		errs = append(errs, err)
	}
	t.Logf("outcomes fail, fail, panic(nil), then one more call: errors %v; downstream invoked %d times", errs, d.n())
	if errs[2] == nil {
		t.Errorf("VIOLATION: the third call panicked in the downstream handler but returned a nil error")
	}
	if errs[3] != circuitbreaker.ErrBreaker || d.n() != 3 {
		t.Errorf("VIOLATION: after 3 consecutive failed calls (threshold 2) the 4th call was forwarded: err=%v, downstream invoked %d times", errs[3], d.n())
	}
}

// ---------------------------------------------------------------------------------------
//  2. A call that was forwarded before the breaker opened and succeeds afterwards closes the
//     open breaker at once, although the recovery time (1 hour) has not elapsed.
//
// ---------------------------------------------------------------------------------------
func TestHuntC20_LateSuccessClosesOpenBreaker(t *testing.T) {
	cb := circuitbreaker.New(circuitbreaker.WithThreshold(2), circuitbreaker.WithRecoverTime(hour))
	entered := make(chan struct{})
	release := make(chan struct{})
	slowDone := make(chan error, 1)
	go func() {
		_, err := cb.IOHandler(context.Background(), nil, func(ctx context.Context, request []byte) ([]byte, error) {
			close(entered)
			<-release
			return []byte("late"), nil
		})
		slowDone <- err
	}()
	<-entered // the slow call has passed the breaker and is inside the downstream handler

	d := &downstream{fn: fail}
	for i := 0; i < 3; i++ { // threshold+1 failures: the breaker opens
		if _, err := cb.IOHandler(context.Background(), nil, d.next); err != errDown {
			t.Fatalf("failure %d: %v", i, err)
		}
	}
	if _, err := cb.IOHandler(context.Background(), nil, d.next); err != circuitbreaker.ErrBreaker || d.n() != 3 {
		t.Fatalf("breaker should be open now: err=%v calls=%d", err, d.n())
	}
	close(release)
	if err := <-slowDone; err != nil {
		t.Fatal(err)
	}
	// 3 consecutive failures, the last of them a few microseconds ago, recovery time 1h:
	// the breaker is to stay open.
	forwarded := 0
	for i := 0; i < 3; i++ {
		before := d.n()
		_, err := cb.IOHandler(context.Background(), nil, d.next)
		if d.n() != before {
			forwarded++
		}
		t.Logf("call %d after the late success: err=%v", i, err)
	}
	if forwarded != 0 {
		t.Errorf("VIOLATION: breaker open (3 failures > threshold 2, recoverTime 1h); the success of a call "+
			"that had been forwarded before it opened closed it: %d of the next 3 calls reached the failing downstream handler", forwarded)
	}
}

// ---------------------------------------------------------------------------------------
//  3. After the recovery time, a probe that fails does not re-open the breaker: the count
//     restarts at threshold/2, so the breaker keeps forwarding to a handler that has now
//     failed threshold+2, +3, ... times in a row, milliseconds after the last failure.
//
// ---------------------------------------------------------------------------------------
func TestHuntC20_FailedProbeDoesNotReopen(t *testing.T) {
	const recoverTime = 300 * time.Millisecond
	cb := circuitbreaker.New(circuitbreaker.WithThreshold(5), circuitbreaker.WithRecoverTime(recoverTime))
	d := &downstream{fn: fail}
	for i := 0; i < 6; i++ {
		_, _ = cb.IOHandler(context.Background(), nil, d.next)
	}
	if _, err := cb.IOHandler(context.Background(), nil, d.next); err != circuitbreaker.ErrBreaker || d.n() != 6 {
		t.Fatalf("breaker should be open: err=%v calls=%d", err, d.n())
	}
	time.Sleep(recoverTime + 50*time.Millisecond)
	start := time.Now()
	if _, err := cb.IOHandler(context.Background(), nil, d.next); err != errDown || d.n() != 7 {
		t.Fatalf("the probe after the recovery time should be forwarded: err=%v calls=%d", err, d.n())
	}
	// 7 consecutive failures > 5, the last one just now: every call of the next 300ms is to
	// be rejected.
	extra := 0
	for i := 0; i < 5; i++ {
		before := d.n()
		_, err := cb.IOHandler(context.Background(), nil, d.next)
		if d.n() != before {
			extra++
		}
		t.Logf("call %d after the failed probe (+%v): err=%v", i, time.Since(start), err)
	}
	if el := time.Since(start); el >= recoverTime {
		t.Skipf("machine too slow (%v), inconclusive", el)
	}
	if extra != 0 {
		t.Errorf("VIOLATION: threshold 5, recoverTime %v: after 6 failures, the recovery time and a failed probe "+
			"(7 consecutive failures) %d further calls were forwarded within %v of the last failure",
			recoverTime, extra, time.Since(start))
	}
}

// ---------------------------------------------------------------------------------------
//  4. The plugin used by a core.Service (service.Use(cb), the same Use that the client has):
//     the IO handler rejects with ErrBreaker outside of the invoke chain, so the invoke handler
//     never sees the break error and the configured mock service is never consulted.
//
// ---------------------------------------------------------------------------------------
func TestHuntC20_ServiceSideMockServiceIgnored(t *testing.T) {
	mock.RegisterHandler()
	mock.RegisterTransport()
	var mocked, invoked int64
	cb := circuitbreaker.New(
		circuitbreaker.WithThreshold(1),
		circuitbreaker.WithRecoverTime(hour),
		circuitbreaker.WithMockService(func(ctx context.Context, name string, args []interface{}) ([]interface{}, error) {
			atomic.AddInt64(&mocked, 1)
			return []interface{}{"mocked"}, nil
		}),
	)
	service := core.NewService()
	service.AddFunction(func() (string, error) {
		atomic.AddInt64(&invoked, 1)
		return "", errDown
	}, "work")
	service.Use(cb)
	server := mock.Server{Address: "huntC20service"}
	if err := service.Bind(server); err != nil {
		t.Fatal(err)
	}
	defer server.Close()
	client := core.NewClient("mock://huntC20service")
	var results []string
	for i := 0; i < 4; i++ {
		r, err := client.Invoke("work", nil)
		if err != nil {
			results = append(results, "error: "+err.Error())
		} else {
			results = append(results, r[0].(string))
		}
	}
	t.Logf("results %q; function invoked %d times, mock service called %d times", results, invoked, mocked)
	if invoked != 2 {
		t.Fatalf("expected the breaker to open after 2 failures, function invoked %d times", invoked)
	}
	if mocked != 2 || results[2] != "mocked" {
		t.Errorf("VIOLATION: breaker with a mock service on a Service: calls 3 and 4 were answered with %q / %q, the mock service was called %d times",
			results[2], results[3], mocked)
	}
}
