package io_test

// Demonstrations for the typed round trip property (C01), hunt 2.
// Each test fails on the tree with a line starting "VIOLATION:".

import (
	"math"
	"reflect"
	"testing"
	"time"

	hio "github.com/hprose/hprose-golang/v3/io"
)

func h2RoundTrip(v interface{}, f hio.Formatter) (out interface{}, data []byte, err error) {
	defer func() {
		if e := recover(); e != nil {
			err = &h2Panic{e}
		}
	}()
	if data, err = f.Marshal(v); err != nil {
		return nil, data, err
	}
	p := reflect.New(reflect.TypeOf(v))
	if err = f.Unmarshal(data, p.Interface()); err != nil {
		return nil, data, err
	}
	return p.Elem().Interface(), data, nil
}

type h2Panic struct{ v interface{} }

func (p *h2Panic) Error() string { return "PANIC: " + reflect.ValueOf(p.v).String() }

var h2Modes = []hio.Formatter{{Simple: true}, {Simple: false}}

// 1. the sign of a zero imaginary part is lost: complex(x, -0) is written as the real number x.
func TestHunt2ComplexNegativeZeroImag(t *testing.T) {
	negZero := math.Copysign(0, -1)
	for _, f := range h2Modes {
		v := complex(1.5, negZero)
		out, data, err := h2RoundTrip(v, f)
		if err != nil {
			t.Fatalf("%v", err)
		}
		if o := out.(complex128); !math.Signbit(imag(o)) {
			t.Errorf("VIOLATION: simple=%v complex128(1.5-0i) -> %q -> %v: the imaginary part comes back as +0 (Signbit false)", f.Simple, data, o)
		}
		v32 := []complex64{complex(float32(negZero), float32(negZero))}
		out, data, _ = h2RoundTrip(v32, f)
		if o := out.([]complex64); len(o) != 1 || !math.Signbit(float64(imag(o[0]))) {
			t.Errorf("VIOLATION: simple=%v []complex64{(-0-0i)} -> %q -> %v: the imaginary part comes back as +0", f.Simple, data, o)
		}
	}
}

// 2. which decoder a pointer to a named string / named empty interface type gets depends on what
// has been decoded before in the process. Once the named type has been decoded on its own
// (top level) and then a pointer to it, every type built later that contains *T gets the
// generic ptrDecoder, whose TagRef case can not convert the referred value.
type H2Str string
type H2Any interface{}

func TestHunt2PtrToNamedTypeAfterTopLevelUse(t *testing.T) {
	f := hio.Formatter{Simple: false}
	x, y := H2Str("\xff\xfe"), H2Str("\xff\xfe") // invalid UTF-8: written as bytes, the second as a reference
	type pair struct{ A, B *H2Str }
	var a, b H2Any = "hello", "hello"
	type ipair struct{ A, B *H2Any }

	// harmless uses of the element types: top-level T, then top-level *T
	for _, v := range []interface{}{x, &x} {
		if _, _, err := h2RoundTrip(v, f); err != nil {
			t.Fatalf("warm-up %T: %v", v, err)
		}
	}
	data, _ := f.Marshal(a)
	var wa H2Any
	var wpa *H2Any
	if err := f.Unmarshal(data, &wa); err != nil || wa != a {
		t.Fatalf("warm-up H2Any: %v %v", wa, err)
	}
	if err := f.Unmarshal(data, &wpa); err != nil || *wpa != a {
		t.Fatalf("warm-up *H2Any: %v", err)
	}
	if out, data, err := h2RoundTrip(pair{&x, &y}, f); err != nil {
		t.Errorf("VIOLATION: struct{A,B *H2Str}{&\"\\xff\\xfe\", &\"\\xff\\xfe\"} reference mode: %q: %v", data, err)
	} else if o := out.(pair); *o.A != x || *o.B != y {
		t.Errorf("VIOLATION: pair mismatch %q %q", *o.A, *o.B)
	}
	if out, data, err := h2RoundTrip(ipair{&a, &b}, f); err != nil {
		t.Errorf("VIOLATION: struct{A,B *H2Any}{&\"hello\", &\"hello\"} reference mode: %q: %v", data, err)
	} else if o := out.(ipair); *o.A != a || *o.B != b {
		t.Errorf("VIOLATION: ipair mismatch %v %v", *o.A, *o.B)
	}
}

// 3. a []interface{} of more than 16384 elements whose FIRST element refers to the list itself
// (reference mode): the reference is resolved to a copy of the slice header taken while the
// list was still at its first allocation (preallocList), so it has 16384 elements instead of N.
func TestHunt2SelfReferenceInLongList(t *testing.T) {
	f := hio.Formatter{Simple: false}
	for _, n := range []int{16384, 16385, 50000} {
		s := make([]interface{}, n)
		for i := range s {
			s[i] = i
		}
		s[0] = &s
		data, err := f.Marshal(&s)
		if err != nil {
			t.Fatal(err)
		}
		var out *[]interface{}
		if err := f.Unmarshal(data, &out); err != nil {
			t.Errorf("VIOLATION: n=%d decode error %v", n, err)
			continue
		}
		inner, _ := (*out)[0].([]interface{})
		if len(*out) != n || len(inner) != n {
			t.Errorf("VIOLATION: n=%d: the list has %d elements, its element 0 (a reference to the list itself) decodes to a list of %d elements", n, len(*out), len(inner))
		} else if inner[n-1] != n-1 {
			t.Errorf("VIOLATION: n=%d: last element of the self reference is %v", n, inner[n-1])
		}
	}
}

// 4. two exported fields with the same alias: Marshal panics (encoding/json drops both).
type H2Dup struct {
	Name string
	X    string `json:"name"`
}

func TestHunt2DuplicateAliasPanics(t *testing.T) {
	for _, f := range h2Modes {
		if _, _, err := h2RoundTrip(H2Dup{"a", "b"}, f); err != nil {
			t.Errorf("VIOLATION: simple=%v H2Dup{Name, X `json:\"name\"`}: %v", f.Simple, err)
		}
	}
}

// 5. interface{} holding a uint64 above MaxInt64, default LongType: comes back as a negative int.
func TestHunt2Uint64InInterfaceWraps(t *testing.T) {
	for _, f := range h2Modes {
		out, data, err := h2RoundTrip([]interface{}{uint64(math.MaxUint64)}, f)
		if err != nil {
			t.Errorf("VIOLATION: %v", err)
			continue
		}
		if o := out.([]interface{})[0]; reflect.ValueOf(o).Kind() == reflect.Int && o.(int) < 0 {
			t.Errorf("VIOLATION: simple=%v []interface{}{uint64(MaxUint64)} -> %q -> %T(%v): silently wrapped, no error", f.Simple, data, o, o)
		}
	}
}

// 6. map[interface{}]V with an array (or anonymous struct) key encodes but can not be decoded.
func TestHunt2InterfaceKeyArray(t *testing.T) {
	for _, f := range h2Modes {
		if _, data, err := h2RoundTrip(map[interface{}]int{[2]int{1, 2}: 1}, f); err != nil {
			t.Errorf("VIOLATION: simple=%v map[interface{}]int{[2]int{1,2}:1} -> %q: %v", f.Simple, data, err)
		}
		if _, data, err := h2RoundTrip(map[interface{}]int{struct{ A int }{1}: 1}, f); err != nil {
			t.Errorf("VIOLATION: simple=%v map[interface{}]int{struct{A int}{1}:1} -> %q: %v", f.Simple, data, err)
		}
	}
}

// 7. a string that is not valid UTF-8 stored in an interface{} comes back as []byte.
func TestHunt2InvalidUTF8StringInInterface(t *testing.T) {
	for _, f := range h2Modes {
		out, data, err := h2RoundTrip([]interface{}{"x\xffy"}, f)
		if err != nil {
			t.Errorf("VIOLATION: %v", err)
			continue
		}
		if o := out.([]interface{})[0]; o != "x\xffy" {
			t.Errorf("VIOLATION: simple=%v []interface{}{\"x\\xffy\"} -> %q -> %T(%v)", f.Simple, data, o, o)
		}
	}
}

// 8. a pointer to a nil slice or nil map collapses to a nil pointer (the stated normalisations
// only name a pointer to a nil pointer; a pointer to an EMPTY slice stays a pointer).
func TestHunt2PtrToNilContainerCollapses(t *testing.T) {
	type H struct {
		S *[]int
		M *map[string]int
	}
	var ns []int
	var nm map[string]int
	for _, f := range h2Modes {
		out, data, err := h2RoundTrip(H{&ns, &nm}, f)
		if err != nil {
			t.Errorf("VIOLATION: %v", err)
			continue
		}
		if o := out.(H); o.S == nil || o.M == nil {
			t.Errorf("VIOLATION: simple=%v H{S:&[]int(nil), M:&map(nil)} -> %q -> S=%v M=%v (nil pointers)", f.Simple, data, o.S, o.M)
		}
	}
}

// 9. a time in time.Local during the repeated hour at the end of DST: the instant moves by an hour.
func TestHunt2LocalRepeatedHour(t *testing.T) {
	ny, err := time.LoadLocation("America/New_York")
	if err != nil {
		t.Skip(err)
	}
	saved := time.Local
	time.Local = ny
	defer func() { time.Local = saved }()
	tm := time.Date(2021, 11, 7, 6, 30, 0, 0, time.UTC).In(time.Local) // 01:30 EST, the second 01:30 of that night
	for _, f := range h2Modes {
		out, data, err := h2RoundTrip(tm, f)
		if err != nil {
			t.Errorf("VIOLATION: %v", err)
			continue
		}
		if o := out.(time.Time); !o.Equal(tm) {
			t.Errorf("VIOLATION: simple=%v %v (time.Local) -> %q -> %v: the instant differs by %v", f.Simple, tm, data, o, tm.Sub(o))
		}
	}
}

// 10. ListTypeSlice: a nil element of a []interface{} becomes the zero value of the other elements' type.
func TestHunt2ListTypeSliceNilBecomesZero(t *testing.T) {
	for _, simple := range []bool{true, false} {
		enc := new(hio.Encoder).Simple(simple)
		if err := enc.Encode([]interface{}{nil, 1, 2}); err != nil {
			t.Fatal(err)
		}
		dec := hio.NewDecoder(enc.Bytes()).Simple(simple)
		dec.ListType = hio.ListTypeSlice
		var out interface{}
		dec.Decode(&out)
		if dec.Error != nil {
			t.Errorf("VIOLATION: %v", dec.Error)
		} else if s, ok := out.([]int); ok && len(s) == 3 && s[0] == 0 {
			t.Errorf("VIOLATION: simple=%v ListTypeSlice: []interface{}{nil, 1, 2} -> %q -> %#v: nil has become 0", simple, enc.Bytes(), out)
		}
	}
}

// 11. RealTypeBigFloat: a NaN in an interface{} can not be decoded at all.
func TestHunt2RealTypeBigFloatNaN(t *testing.T) {
	for _, simple := range []bool{true, false} {
		f := hio.Formatter{Simple: simple, RealType: hio.RealTypeBigFloat}
		if _, data, err := h2RoundTrip([]interface{}{1.5, math.NaN()}, f); err != nil {
			t.Errorf("VIOLATION: simple=%v RealTypeBigFloat []interface{}{1.5, NaN} -> %q: %v", simple, data, err)
		}
	}
}
