package core_test

// Demonstrations for property C07 (RPC codec round trip), core codec.
// Copy into rpc/core/ and run:
//   go test -vet=off -count=1 -run TestHunt2C07 ./rpc/core/

import (
	"context"
	"fmt"
	"math"
	"math/big"
	"reflect"
	"testing"

	"github.com/hprose/hprose-golang/v3/rpc/core"
)

type h2Call struct {
	copts, sopts []core.CodecOption
	reqHeaders   map[string]interface{}
	ret          []reflect.Type
}

type h2Result struct {
	req, resp []byte
	results   []interface{}
	err       error
}

// h2RoundTrip encodes the call with the client codec, lets the service decode, execute and
// encode it (Service.Handle), and decodes the response with the client codec.
func h2RoundTrip(c h2Call, fn interface{}, name string, args []interface{}) (r h2Result) {
	service := core.NewService()
	service.Codec = core.NewServiceCodec(c.sopts...)
	if m, ok := fn.(core.Method); ok {
		service.Add(m)
	} else {
		service.AddFunction(fn, name)
	}
	cc := core.NewClientCodec(c.copts...)
	cctx := core.NewClientContext()
	cctx.ReturnType = c.ret
	for k, v := range c.reqHeaders {
		cctx.RequestHeaders().Set(k, v)
	}
	var err error
	if r.req, err = cc.Encode(name, args, cctx); err != nil {
		r.err = fmt.Errorf("client encode: %w", err)
		return
	}
	sctx := core.NewServiceContext(service)
	r.resp, err = service.Handle(core.WithContext(context.Background(), sctx), r.req)
	if err != nil {
		r.err = fmt.Errorf("service handle: %w", err)
		return
	}
	r.results, r.err = cc.Decode(r.resp, cctx)
	return
}

func h2Types(v ...interface{}) (ts []reflect.Type) {
	for _, x := range v {
		ts = append(ts, reflect.TypeOf(x))
	}
	return
}

var h2Iface = reflect.TypeOf((*interface{})(nil)).Elem()

type H2Point struct {
	X, Y int
}

// The same pointer passed for two parameters of different types: in reference mode (the
// default) the second argument is a reference to the first, and the reference is only
// converted between identical types. The same call in simple mode (every argument written
// in full) succeeds, so does the call with two distinct but equal values.
func TestHunt2C07SharedPointerDifferentParamTypes(t *testing.T) {
	type tc struct {
		label string
		fn    func(got *[]interface{}) interface{}
		arg   interface{}
	}
	ints := &[]int{1, 2, 3}
	pt := &H2Point{1, 2} // not registered: an interface{} parameter gets it as a map
	m := &map[string]int{"x": 1}
	cases := []tc{
		{"f(a interface{}, b []int) with the same *[]int twice", func(got *[]interface{}) interface{} {
			return func(a interface{}, b []int) { *got = []interface{}{a, b} }
		}, ints},
		{"f(a []int, b []int64) with the same *[]int twice", func(got *[]interface{}) interface{} {
			return func(a []int, b []int64) { *got = []interface{}{a, b} }
		}, ints},
		{"f(a interface{}, b *H2Point) with the same *H2Point twice", func(got *[]interface{}) interface{} {
			return func(a interface{}, b *H2Point) { *got = []interface{}{a, b} }
		}, pt},
		{"f(a H2Point, b map[string]interface{}) with the same *H2Point twice", func(got *[]interface{}) interface{} {
			return func(a H2Point, b map[string]interface{}) { *got = []interface{}{a, b} }
		}, pt},
		{"f(a map[string]int, b map[string]interface{}) with the same *map[string]int twice", func(got *[]interface{}) interface{} {
			return func(a map[string]int, b map[string]interface{}) { *got = []interface{}{a, b} }
		}, m},
	}
	for _, c := range cases {
		var gotSimple, gotRef []interface{}
		rs := h2RoundTrip(h2Call{copts: []core.CodecOption{core.WithSimple(true)}}, c.fn(&gotSimple), "f", []interface{}{c.arg, c.arg})
		rr := h2RoundTrip(h2Call{}, c.fn(&gotRef), "f", []interface{}{c.arg, c.arg})
		if rs.err != nil {
			t.Logf("%s: simple mode fails too: %v", c.label, rs.err)
			continue
		}
		if rr.err != nil || fmt.Sprint(gotRef) != fmt.Sprint(gotSimple) {
			t.Errorf("VIOLATION: %s: client Simple=true delivers %v; client Simple=false (request %q) delivers %v, error %v", c.label, gotSimple, rr.req, gotRef, rr.err)
		}
	}
	// results: the same pointer returned twice, the caller declares (interface{}, []int)
	r := h2RoundTrip(h2Call{ret: []reflect.Type{h2Iface, reflect.TypeOf([]int(nil))}}, func() (*[]int, *[]int) { return ints, ints }, "g", nil)
	if r.err != nil {
		t.Errorf("VIOLATION: results (p, p) of type *[]int into return types (interface{}, []int): response %q, results %v, error %v", r.resp, r.results, r.err)
	}
}

// An unsigned 64-bit value above MaxInt64 and a big integer, passed where the other side has
// no narrower type to blame (an interface{} parameter, the arguments of a missing-method
// handler, a header value, the interface{} return type Client.Invoke declares): with the
// default options they arrive as a wrapped int, silently.
func TestHunt2C07BigIntegersIntoInterface(t *testing.T) {
	big1, _ := new(big.Int).SetString("123456789012345678901234567890", 10)
	for _, v := range []interface{}{uint64(math.MaxUint64), uint64(1) << 63, big1} {
		var got interface{}
		var gotHeader interface{}
		r := h2RoundTrip(h2Call{ret: []reflect.Type{h2Iface}, reqHeaders: map[string]interface{}{"quota": v}},
			func(ctx context.Context, a interface{}) interface{} {
				got = a
				gotHeader, _ = core.GetServiceContext(ctx).RequestHeaders().Get("quota")
				return v
			}, "f", []interface{}{v})
		want := fmt.Sprint(v)
		if r.err == nil && fmt.Sprint(got) != want {
			t.Errorf("VIOLATION: argument %v (%T) for an interface{} parameter arrives as %#v (request %q), no error", v, v, got, r.req)
		}
		if r.err == nil && fmt.Sprint(gotHeader) != want {
			t.Errorf("VIOLATION: request header value %v (%T) arrives as %#v, no error", v, v, gotHeader)
		}
		if r.err == nil && (len(r.results) != 1 || fmt.Sprint(r.results[0]) != want) {
			t.Errorf("VIOLATION: result %v (%T) into the return type interface{} (what Client.Invoke declares) arrives as %#v (response %q), no error", v, v, r.results, r.resp)
		}
		var margs []interface{}
		mm := core.MissingMethod(func(name string, args []interface{}) ([]interface{}, error) {
			margs = args
			return nil, nil
		})
		r = h2RoundTrip(h2Call{}, mm, "nosuch", []interface{}{v})
		if r.err == nil && (len(margs) != 1 || fmt.Sprint(margs[0]) != want) {
			t.Errorf("VIOLATION: argument %v (%T) arrives at the missing-method handler as %#v, no error", v, v, margs)
		}
	}
}

type H2Flag bool

// The reserved "simple" header: the encoder and the peer's decoder each read it with
// Dict.GetBool, but the value changes its Go type on the wire (a named bool, a *bool, a
// named int, a *big.Int/*big.Float arrive as bool, int, float64), so the two disagree: the
// body is written with references and read in simple mode.
func TestHunt2C07SimpleHeaderOfAnotherType(t *testing.T) {
	yes := true
	for _, v := range []interface{}{H2Flag(true), &yes, big.NewInt(1), big.NewFloat(1)} {
		var got []interface{}
		r := h2RoundTrip(h2Call{reqHeaders: map[string]interface{}{"simple": v}, ret: h2Types("")},
			func(a, b string) string { got = []interface{}{a, b}; return a }, "f", []interface{}{"hello", "hello"})
		if r.err != nil || len(got) != 2 || got[1] != "hello" {
			t.Errorf("VIOLATION: request header simple=%#v (%T): request %q, the function got %v, error %v", v, v, r.req, got, r.err)
		}
		r = h2RoundTrip(h2Call{ret: h2Types("", "")}, func(ctx context.Context) (string, string) {
			core.GetServiceContext(ctx).ResponseHeaders().Set("simple", v)
			return "hello", "hello"
		}, "g", nil)
		if r.err != nil || len(r.results) != 2 || r.results[1] != "hello" {
			t.Errorf("VIOLATION: response header simple=%#v (%T): response %q, results %#v, error %v", v, v, r.resp, r.results, r.err)
		}
	}
}

// An empty list is not a null: an empty slice argument arrives as a nil slice (an empty map,
// empty bytes, an empty string arrive empty), and echoed back it is written as null.
func TestHunt2C07EmptyListBecomesNil(t *testing.T) {
	var got []interface{}
	r := h2RoundTrip(h2Call{ret: h2Types([]string{}, map[string]int{}, []byte{}, []interface{}{})},
		func(a []string, b map[string]int, c []byte, d []interface{}) ([]string, map[string]int, []byte, []interface{}) {
			got = []interface{}{a, b, c, d}
			return a, b, c, d
		}, "f", []interface{}{[]string{}, map[string]int{}, []byte{}, []interface{}{}})
	if r.err != nil {
		t.Fatal(r.err)
	}
	for i, g := range got {
		if reflect.ValueOf(g).IsNil() {
			t.Errorf("VIOLATION: argument %d, an empty %T, arrives nil (request %q)", i, g, r.req)
		}
	}
	for i, g := range r.results {
		if reflect.ValueOf(g).IsNil() {
			t.Errorf("VIOLATION: result %d, an empty %T echoed by the service, comes back nil (response %q: it is written as null)", i, g, r.resp)
		}
	}
}

// One result that is a list, decoded by a caller that declares more return types than the
// function has results: a scalar result is taken as the first result and the rest is zero
// (R1z -> (1, "")), a list result is taken apart as if it were the list of results.
func TestHunt2C07SingleListResultSpread(t *testing.T) {
	r := h2RoundTrip(h2Call{ret: h2Types(0, "")}, func() int { return 1 }, "f", nil)
	t.Logf("scalar result into (int, string): %#v err=%v", r.results, r.err)
	r = h2RoundTrip(h2Call{ret: h2Types([]int{}, "")}, func() []int { return []int{1, 2} }, "f", nil)
	if r.err != nil || len(r.results) != 2 || !reflect.DeepEqual(r.results[0], []int{1, 2}) || r.results[1] != "" {
		t.Errorf("VIOLATION: the single result []int{1, 2} into the return types ([]int, string): response %q, results %#v, error %v (a scalar single result gives (value, zero))", r.resp, r.results, r.err)
	}
}
