package jsonrpc_test

// Demonstration for property C07 (RPC codec round trip), JSON-RPC codec.
// Copy into rpc/codec/jsonrpc/ and run:
//   go test -vet=off -count=1 -run TestHunt2C07 ./rpc/codec/jsonrpc/

import (
	"context"
	"fmt"
	"reflect"
	"testing"

	"github.com/hprose/hprose-golang/v3/rpc/codec/jsonrpc"
	"github.com/hprose/hprose-golang/v3/rpc/core"
)

type H2User struct {
	Name string
}

func h2jRoundTrip(json bool, fn interface{}, ret []reflect.Type) (resp []byte, results []interface{}, err error) {
	service := core.NewService()
	var cc core.ClientCodec
	if json {
		service.Codec = jsonrpc.NewServiceCodec(nil)
		cc = jsonrpc.NewClientCodec(nil)
	} else {
		cc = core.NewClientCodec()
	}
	service.AddFunction(fn, "f")
	cctx := core.NewClientContext()
	cctx.ReturnType = ret
	req, err := cc.Encode("f", nil, cctx)
	if err != nil {
		return nil, nil, err
	}
	sctx := core.NewServiceContext(service)
	if resp, err = service.Handle(core.WithContext(context.Background(), sctx), req); err != nil {
		return
	}
	results, err = cc.Decode(resp, cctx)
	return
}

// A null result, no result, and fewer results than the caller's declared return types: the
// hprose client codec returns one value per declared return type (the zero value where the
// response has none); the JSON-RPC client codec returns no value at all for null / a missing
// result, and only as many values as the response has otherwise. results[0] of
// Client.Invoke("f", nil) panics with index out of range when f returns a nil pointer.
func TestHunt2C07JSONRPCNullAndShortResults(t *testing.T) {
	iface := reflect.TypeOf((*interface{})(nil)).Elem()
	cases := []struct {
		label string
		fn    interface{}
		ret   []reflect.Type
	}{
		{"func() *H2User { return nil } into (*H2User)", func() *H2User { return nil }, []reflect.Type{reflect.TypeOf((*H2User)(nil))}},
		{"func() *H2User { return nil } into (interface{}) as Client.Invoke declares", func() *H2User { return nil }, []reflect.Type{iface}},
		{"func() []int { return nil } into ([]int)", func() []int { return nil }, []reflect.Type{reflect.TypeOf([]int(nil))}},
		{"func() interface{} { return nil } into (int)", func() interface{} { return nil }, []reflect.Type{reflect.TypeOf(0)}},
		{"func() {} into (int)", func() {}, []reflect.Type{reflect.TypeOf(0)}},
		{"func() {} into (int, string)", func() {}, []reflect.Type{reflect.TypeOf(0), reflect.TypeOf("")}},
		{"func() int { return 1 } into (int, string)", func() int { return 1 }, []reflect.Type{reflect.TypeOf(0), reflect.TypeOf("")}},
		{"func() (int, string) { return 1, \"a\" } into (int, string, bool)", func() (int, string) { return 1, "a" }, []reflect.Type{reflect.TypeOf(0), reflect.TypeOf(""), reflect.TypeOf(false)}},
	}
	for _, c := range cases {
		_, want, err := h2jRoundTrip(false, c.fn, c.ret)
		if err != nil {
			t.Fatalf("%s: hprose codec: %v", c.label, err)
		}
		resp, got, err := h2jRoundTrip(true, c.fn, c.ret)
		if err != nil {
			t.Errorf("VIOLATION: %s: JSON-RPC: response %q, error %v", c.label, resp, err)
			continue
		}
		if len(got) != len(c.ret) || fmt.Sprintf("%#v", got) != fmt.Sprintf("%#v", want) {
			t.Errorf("VIOLATION: %s: %d declared return types; hprose codec yields %#v; JSON-RPC codec (response %q) yields %#v", c.label, len(c.ret), want, resp, got)
		}
	}
}
