//go:build verif

package io

// VerifDrainPools empties the coder pools (controlled-scheduler builds only: the pool shim is a LIFO).
func VerifDrainPools() {
	encoderPool.Drain()
	decoderPool.Drain()
}
