//go:build verif

package io

import "reflect"

// Accessors used by the verification harnesses (C14). Not part of the library.

type verifRegistry interface {
	Range(f func(key, value interface{}) bool)
	Store(key, value interface{})
	Delete(key interface{})
}

var verifSnapshot []map[interface{}]interface{}

func verifRegistries() []verifRegistry {
	return []verifRegistry{&structEncoderMap, &otherEncoderMap, &namedStructEncoderMap, &decoderMap,
		&namedStructDecoderMap, &structFieldMapCache, &structTypeMap}
}

// VerifSnapshotRegistries remembers the current content of the lazily built per-type registries.
func VerifSnapshotRegistries() {
	verifSnapshot = nil
	for _, r := range verifRegistries() {
		m := map[interface{}]interface{}{}
		r.Range(func(k, v interface{}) bool { m[k] = v; return true })
		verifSnapshot = append(verifSnapshot, m)
	}
}

// VerifResetRegistries restores the registries to the snapshot, so that "first use of a type" can be
// exercised again.
func VerifResetRegistries() {
	for i, r := range verifRegistries() {
		var drop []interface{}
		r.Range(func(k, v interface{}) bool {
			if _, ok := verifSnapshot[i][k]; !ok {
				drop = append(drop, k)
			}
			return true
		})
		for _, k := range drop {
			r.Delete(k)
		}
	}
}

// VerifHasEncoder reports whether a struct encoder for t has been published.
func VerifHasEncoder(t reflect.Type) bool {
	_, ok := structEncoderMap.Load(t)
	return ok
}
