//go:build verif

package core

// VerifResetTransports forgets all registered client transports, so that a harness can register exactly
// the transport under test (Client.Abort starts one goroutine per registered transport).
func VerifResetTransports() {
	var keys []interface{}
	transportFactories.Range(func(k, v interface{}) bool { keys = append(keys, k); return true })
	for _, k := range keys {
		transportFactories.Delete(k)
	}
	keys = nil
	protocols.Range(func(k, v interface{}) bool { keys = append(keys, k); return true })
	for _, k := range keys {
		protocols.Delete(k)
	}
}
