//go:build verif

package loadbalance

// Read-only accessors used by the verification harnesses (C18). Not part of the library.

func (lb *LeastActiveLoadBalance) VerifActives() []int64 {
	lb.rwlock.RLock()
	defer lb.rwlock.RUnlock()
	return append([]int64{}, lb.actives...)
}

func (lb *WeightedLeastActiveLoadBalance) VerifActives() []int64 {
	lb.rwlock.RLock()
	defer lb.rwlock.RUnlock()
	return append([]int64{}, lb.actives...)
}

func (lb *WeightedLeastActiveLoadBalance) VerifEffectiveWeights() []int64 {
	lb.rwlock.RLock()
	defer lb.rwlock.RUnlock()
	return append([]int64{}, lb.effectiveWeights...)
}

func (lb *WeightedRandomLoadBalance) VerifEffectiveWeights() []int64 {
	lb.rwlock.RLock()
	defer lb.rwlock.RUnlock()
	return append([]int64{}, lb.effectiveWeights...)
}

func (lb *NginxRoundRobinLoadBalance) VerifEffectiveWeights() []int64 {
	lb.lock.Lock()
	defer lb.lock.Unlock()
	return append([]int64{}, lb.effectiveWeights...)
}
