//go:build verif

package push

// Accessors used by the verification harness (C19). Not part of the library.

// VerifSetMessageProxy replaces the remote "<" (poll) function of a Prosumer by a scripted one.
func (p *Prosumer) VerifSetMessageProxy(f func() (map[string][]Message, error)) { p.proxy.message = f }

// VerifSetCallback registers a callback without contacting a broker.
func (p *Prosumer) VerifSetCallback(topic string, cb Callback) { p.callbacks.Store(topic, cb) }

// VerifPollLoop runs the Prosumer's poll loop (normally started by Subscribe in its own goroutine).
func (p *Prosumer) VerifPollLoop() { p.message() }

// VerifPendingResponders reports how many long-poll responders are registered at the broker.
func (b *Broker) VerifPendingResponders() int { return b.responders.Count() }

// VerifSetSubscribeProxy replaces the remote "+" (subscribe) function of a Prosumer by a scripted one.
func (p *Prosumer) VerifSetSubscribeProxy(f func(topic string) (bool, error)) { p.proxy.subscribe = f }
