//go:build verif

package udp

// VerifPending reports the number of pooled connections and of pending-call entries on them (C10).
func (trans *Transport) VerifPending() (conns, pending int) {
	trans.lock.RLock()
	defer trans.lock.RUnlock()
	for _, c := range trans.conns {
		conns++
		c.lock.Lock()
		pending += len(c.results)
		c.lock.Unlock()
	}
	return
}

// VerifSetCounter presets the request counter of the pooled connections (index wrap-around at 2^15, C09).
func (trans *Transport) VerifSetCounter(n int32) {
	trans.lock.RLock()
	defer trans.lock.RUnlock()
	for _, c := range trans.conns {
		c.counter = n
	}
}
