//go:build verif

package websocket

// VerifPending reports the number of pooled connections and of pending-call entries on them (C10).
func (trans *Transport) VerifPending() (conns, pending int) {
	trans.lock.RLock()
	defer trans.lock.RUnlock()
	for _, c := range trans.conns {
		conns++
		c.lock.Lock()
		pending += len(c.results)
		c.lock.Unlock()
	}
	return
}
