module verif/lib

go 1.21
