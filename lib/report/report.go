// Package report implements the result protocol shared by all checks (DESIGN.md 2.4.2/2.4.3):
// violations are reduced to signatures, matched against /verif/known_findings.json, written as replay
// files, and the evidence file of the run is produced from counters measured by the run itself.
package report

import (
	"crypto/sha1"
	"encoding/hex"
	"encoding/json"
	"fmt"
	"os"
	"path/filepath"
	"sort"
	"strconv"
	"sync"
	"time"
)

var VerifDir = func() string {
	if d := os.Getenv("VERIF_DIR"); d != "" {
		return d
	}
	return "/verif"
}()

type Finding struct {
	Property  string `json:"property"`
	Signature string `json:"signature"`
	Status    string `json:"status"` // "known" | "fixed"
	Commit    string `json:"commit,omitempty"`
	What      string `json:"what"`
}

type findingsFile struct {
	Findings []Finding `json:"findings"`
}

// Violation is one failing case, reduced to a signature (the failing cell) plus enough data to replay it.
type Violation struct {
	Signature string      `json:"signature"`
	What      string      `json:"what"`
	Replay    interface{} `json:"replay"` // check-specific: input bytes, op list, schedule ...
}

type Run struct {
	ID        string
	Tier      string
	Level     string
	Seed      int64
	start     time.Time
	mu        sync.Mutex
	viol      map[string]*Violation // first violation per signature
	violCount map[string]int
	Coverage  map[string]interface{}
	Assume    []string
	infra     []string
}

func Tier() string {
	t := os.Getenv("VERIF_TIER")
	if t != "thorough" {
		t = "quick"
	}
	return t
}

func New(id, level string) *Run {
	seed, _ := strconv.ParseInt(os.Getenv("VERIF_SEED"), 10, 64)
	return &Run{ID: id, Tier: Tier(), Level: level, Seed: seed, start: time.Now(),
		viol: map[string]*Violation{}, violCount: map[string]int{}, Coverage: map[string]interface{}{}}
}

func (r *Run) Thorough() bool { return r.Tier == "thorough" }

// Violate records a violation; only the first one per signature keeps its replay data.
func (r *Run) Violate(sig, what string, replay interface{}) {
	r.mu.Lock()
	defer r.mu.Unlock()
	r.violCount[sig]++
	if _, ok := r.viol[sig]; !ok {
		r.viol[sig] = &Violation{Signature: sig, What: what, Replay: replay}
	}
}

func (r *Run) NumViolations() int { r.mu.Lock(); defer r.mu.Unlock(); return len(r.viol) }

// Infra records an infrastructure error (not a verdict): the check exits 2 without a VIOLATION line.
func (r *Run) Infra(msg string) {
	r.mu.Lock()
	defer r.mu.Unlock()
	r.infra = append(r.infra, msg)
}

func (r *Run) Set(key string, v interface{}) { r.mu.Lock(); r.Coverage[key] = v; r.mu.Unlock() }
func (r *Run) Add(key string, n int64) {
	r.mu.Lock()
	old, _ := r.Coverage[key].(int64)
	r.Coverage[key] = old + n
	r.mu.Unlock()
}
func (r *Run) Assumption(s string) { r.Assume = append(r.Assume, s) }

func loadFindings() []Finding {
	b, err := os.ReadFile(filepath.Join(VerifDir, "known_findings.json"))
	if err != nil {
		return nil
	}
	var f findingsFile
	if err := json.Unmarshal(b, &f); err != nil {
		fmt.Fprintln(os.Stderr, "known_findings.json: ", err)
		os.Exit(2)
	}
	return f.Findings
}

// Finish writes the evidence file, prints KNOWN-FINDING / VIOLATION lines and exits.
func (r *Run) Finish() {
	known := map[string]Finding{}
	for _, f := range loadFindings() {
		if f.Property == r.ID && f.Status == "known" {
			known[f.Signature] = f
		}
	}
	sigs := make([]string, 0, len(r.viol))
	for s := range r.viol {
		sigs = append(sigs, s)
	}
	sort.Strings(sigs)
	nviol := 0
	var knownSeen []string
	for _, s := range sigs {
		v := r.viol[s]
		if f, ok := known[s]; ok {
			fmt.Printf("KNOWN-FINDING: property=%s %s %s (%d cases this run)\n", r.ID, s, f.What, r.violCount[s])
			knownSeen = append(knownSeen, s)
			continue
		}
		nviol++
		path := r.writeReplay(v)
		fmt.Printf("VIOLATION property=%s replay=%s\n", r.ID, path)
		fmt.Printf("  signature: %s\n  what: %s\n  cases with this signature: %d\n", s, v.What, r.violCount[s])
	}
	for s := range known {
		if _, ok := r.viol[s]; !ok {
			fmt.Fprintf(os.Stderr, "note: stale known finding (did not fail in this run): %s %s\n", r.ID, s)
		}
	}
	r.Coverage["known_findings_seen"] = knownSeen
	ev := map[string]interface{}{
		"property_id": r.ID, "tier": r.Tier, "seed": r.Seed, "level": r.Level,
		"coverage": r.Coverage, "assumptions": r.Assume,
		"wall_s": time.Since(r.start).Seconds(), "violations": nviol,
	}
	if r.Assume == nil {
		ev["assumptions"] = []string{}
	}
	if len(r.infra) > 0 {
		ev["infrastructure_errors"] = r.infra
	}
	b, _ := json.MarshalIndent(ev, "", " ")
	os.MkdirAll(filepath.Join(VerifDir, "evidence"), 0o755)
	if err := os.WriteFile(filepath.Join(VerifDir, "evidence", r.ID+".json"), append(b, '\n'), 0o644); err != nil {
		fmt.Fprintln(os.Stderr, "evidence:", err)
		os.Exit(2)
	}
	if len(r.infra) > 0 {
		for _, m := range r.infra {
			fmt.Fprintln(os.Stderr, "INFRASTRUCTURE ERROR:", m)
		}
		if nviol == 0 {
			os.Exit(2)
		}
	}
	if nviol > 0 {
		os.Exit(1)
	}
	fmt.Printf("OK property=%s tier=%s wall=%.1fs\n", r.ID, r.Tier, time.Since(r.start).Seconds())
	os.Exit(0)
}

func (r *Run) writeReplay(v *Violation) string {
	h := sha1.Sum([]byte(v.Signature))
	dir := filepath.Join(VerifDir, "replays", r.ID)
	os.MkdirAll(dir, 0o755)
	path := filepath.Join(dir, hex.EncodeToString(h[:6])+".json")
	b, _ := json.MarshalIndent(map[string]interface{}{
		"property": r.ID, "signature": v.Signature, "what": v.What, "replay": v.Replay,
	}, "", " ")
	os.WriteFile(path, append(b, '\n'), 0o644)
	return path
}

// LoadReplay reads a replay file and returns its "replay" member as raw JSON.
func LoadReplay(path string) (sig string, raw json.RawMessage) {
	b, err := os.ReadFile(path)
	if err != nil {
		fmt.Fprintln(os.Stderr, err)
		os.Exit(2)
	}
	var x struct {
		Signature string          `json:"signature"`
		Replay    json.RawMessage `json:"replay"`
	}
	if err := json.Unmarshal(b, &x); err != nil {
		fmt.Fprintln(os.Stderr, err)
		os.Exit(2)
	}
	return x.Signature, x.Replay
}

// Samples keeps a bounded list of sample cases for the evidence file.
type Samples struct {
	mu   sync.Mutex
	max  int
	list []interface{}
}

func NewSamples(max int) *Samples { return &Samples{max: max} }
func (s *Samples) Add(x interface{}) {
	s.mu.Lock()
	if len(s.list) < s.max {
		s.list = append(s.list, x)
	}
	s.mu.Unlock()
}
func (s *Samples) List() []interface{} { s.mu.Lock(); defer s.mu.Unlock(); return s.list }
