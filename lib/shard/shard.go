// Package shard runs a list of jobs on worker subprocesses (the check binary re-executed with
// VERIF_WORKER=1). A worker that dies or exceeds the per-job watchdog convicts exactly the job it was
// running and is restarted, so a fatal error (stack overflow, out of memory, os.Exit inside the code
// under test, deadlock) costs one job and can never take the coordinator down.
package shard

import (
	"bufio"
	"encoding/json"
	"fmt"
	"io"
	"os"
	"os/exec"
	"runtime"
	"strconv"
	"sync"
	"time"
)

// IsWorker reports whether this process was started as a worker.
func IsWorker() bool { return os.Getenv("VERIF_WORKER") != "" }

// Serve is the worker loop: one JSON job per stdin line, one JSON result per stdout line.
func Serve(handle func(job json.RawMessage) interface{}) {
	in := bufio.NewReaderSize(os.Stdin, 1<<20)
	// the result pipe is the process's stdout: code under test that prints (there is a stray fmt.Println in
	// the weighted least-active balancer) must not corrupt it, so os.Stdout is pointed at /dev/null.
	proto := os.Stdout
	if null, err := os.OpenFile(os.DevNull, os.O_WRONLY, 0); err == nil {
		os.Stdout = null
	}
	out := bufio.NewWriter(proto)
	for {
		line, err := in.ReadBytes('\n')
		if len(line) > 0 {
			res := handle(json.RawMessage(line))
			b, merr := json.Marshal(res)
			if merr != nil {
				b, _ = json.Marshal(map[string]string{"marshal_error": merr.Error()})
			}
			out.Write(b)
			out.WriteByte('\n')
			out.Flush()
		}
		if err != nil {
			os.Exit(0)
		}
	}
}

// Failure describes a job whose worker died or was killed by the watchdog.
type Failure struct {
	Kind   string // "crash" | "timeout"
	Exit   string
	Stderr string
}

type Options struct {
	Workers    int           // default: NumCPU
	JobTimeout time.Duration // watchdog per job (default 120 s)
	Env        []string      // extra environment for workers
	MemLimitKB int64         // ulimit -v for workers (0 = 16 GiB)
	Deadline   time.Time     // jobs not started by then are skipped (reported through skipped)
}

// Run distributes jobs; onResult is called (serialised) with the job index and either the worker's
// result line or a Failure. It returns the number of jobs skipped because of the deadline.
func Run(jobs []interface{}, opt Options, onResult func(i int, res json.RawMessage, fail *Failure)) (skipped int) {
	if opt.Workers <= 0 {
		opt.Workers = runtime.NumCPU()
	}
	if w, err := strconv.Atoi(os.Getenv("VERIF_WORKERS")); err == nil && w > 0 {
		opt.Workers = w
	}
	if opt.Workers > len(jobs) {
		opt.Workers = len(jobs)
	}
	if opt.JobTimeout == 0 {
		opt.JobTimeout = 120 * time.Second
	}
	if opt.MemLimitKB == 0 {
		opt.MemLimitKB = 16 << 20
	}
	type item struct {
		i int
		b []byte
	}
	ch := make(chan item)
	var mu sync.Mutex
	var wg sync.WaitGroup
	exe, _ := os.Executable()
	for w := 0; w < opt.Workers; w++ {
		wg.Add(1)
		go func() {
			defer wg.Done()
			var cmd *exec.Cmd
			var stdin io.WriteCloser
			var stdout *bufio.Reader
			var stderr *tailBuf
			start := func() {
				// ulimit -v through sh so that an allocation bomb cannot exhaust the sandbox
				cmd = exec.Command("/bin/sh", "-c", fmt.Sprintf("ulimit -v %d; exec \"$0\" \"$@\"", opt.MemLimitKB), exe)
				cmd.Args = append(cmd.Args, os.Args[1:]...)
				cmd.Env = append(append(os.Environ(), "VERIF_WORKER=1", "GOMAXPROCS=2"), opt.Env...)
				stdin, _ = cmd.StdinPipe()
				so, _ := cmd.StdoutPipe()
				stdout = bufio.NewReaderSize(so, 1<<20)
				stderr = &tailBuf{}
				cmd.Stderr = stderr
				if err := cmd.Start(); err != nil {
					panic(err)
				}
			}
			stop := func() {
				if cmd != nil {
					stdin.Close()
					cmd.Process.Kill()
					cmd.Wait()
					cmd = nil
				}
			}
			defer stop()
			for it := range ch {
				if cmd == nil {
					start()
				}
				stdin.Write(append(it.b, '\n'))
				type rd struct {
					line []byte
					err  error
				}
				rc := make(chan rd, 1)
				go func() { l, e := stdout.ReadBytes('\n'); rc <- rd{l, e} }()
				var fail *Failure
				var line []byte
				select {
				case r := <-rc:
					if r.err != nil {
						err := cmd.Wait()
						fail = &Failure{Kind: "crash", Exit: fmt.Sprint(err), Stderr: stderr.String()}
						cmd = nil
					} else {
						line = r.line
					}
				case <-time.After(opt.JobTimeout):
					cmd.Process.Kill()
					cmd.Wait()
					fail = &Failure{Kind: "timeout", Exit: "killed by watchdog after " + opt.JobTimeout.String(), Stderr: stderr.String()}
					cmd = nil
				}
				mu.Lock()
				onResult(it.i, json.RawMessage(line), fail)
				mu.Unlock()
			}
		}()
	}
	for i, j := range jobs {
		if !opt.Deadline.IsZero() && time.Now().After(opt.Deadline) {
			skipped = len(jobs) - i
			break
		}
		b, err := json.Marshal(j)
		if err != nil {
			panic(err)
		}
		ch <- item{i, b}
	}
	close(ch)
	wg.Wait()
	return skipped
}

type tailBuf struct {
	mu   sync.Mutex
	head []byte
	tail []byte
}

func (t *tailBuf) Write(p []byte) (int, error) {
	t.mu.Lock()
	if room := 3000 - len(t.head); room > 0 {
		if room > len(p) {
			room = len(p)
		}
		t.head = append(t.head, p[:room]...)
		t.tail = append(t.tail, p[room:]...)
	} else {
		t.tail = append(t.tail, p...)
	}
	if len(t.tail) > 3000 {
		t.tail = t.tail[len(t.tail)-3000:]
	}
	t.mu.Unlock()
	return len(p), nil
}
func (t *tailBuf) String() string {
	t.mu.Lock()
	defer t.mu.Unlock()
	if len(t.tail) == 0 {
		return string(t.head)
	}
	return string(t.head) + "\n...\n" + string(t.tail)
}
