// C01 — typed round trip. Bounded-exhaustive enumeration of the type universe (constructor depth d over
// the leaf types) x derived value alphabets x entry points x modes x decoder settings; oracle: the
// normalising canonical form of the decoded value equals that of the original.
package main

import (
	"encoding/json"
	"fmt"
	"os"
	"reflect"
	"sort"
	"strings"
	"time"

	"verif/lib/report"
	"verif/lib/shard"
	"verif/mc/gen"
	"verif/mc/iocase"
)

const ID = "C01"

type job struct {
	Type int `json:"type"` // index into the universe
}

type viol struct {
	Kind  string `json:"kind"` // panic | encode-error | decode-error | mismatch
	Type  string `json:"type"`
	Val   int    `json:"val"`
	Cfg   string `json:"cfg"`
	What  string `json:"what"`
	Site  string `json:"site,omitempty"`
	Bytes string `json:"bytes,omitempty"`
}

type result struct {
	Type     string   `json:"type"`
	Cases    int64    `json:"cases"`
	Skipped  int64    `json:"skipped"`
	Distinct int64    `json:"distinct"`
	Viol     []viol   `json:"viol"`
	Samples  []string `json:"samples"`
}

func depthAndWidth(thorough bool) (int, int) {
	if thorough {
		return 4, 4
	}
	return 3, 4
}

var (
	universe []reflect.Type
	alpha    *gen.Alphabet
	width    int
)

func setup(thorough bool) {
	iocase.Init()
	d, w := depthAndWidth(thorough)
	width = w
	universe = gen.Universe(3, true) // all leaves at every depth <= 3
	if thorough {
		// plus depth 4 built on one leaf type per dispatch class
		seen := map[reflect.Type]bool{}
		for _, t := range universe {
			seen[t] = true
		}
		for _, t := range gen.Universe(d, false) {
			if !seen[t] {
				universe = append(universe, t)
			}
		}
	}
	alpha = gen.NewAlphabet()
}

func runCase(t reflect.Type, v reflect.Value, c iocase.Cfg) (vi *viol, data []byte) {
	var encErr, decErr error
	var got reflect.Value
	msg, stack := iocase.Guard(func() {
		var x interface{}
		if v.Kind() != reflect.Interface || !v.IsNil() {
			x = v.Interface()
		}
		data, encErr = iocase.Encode(c, x)
		if encErr != nil {
			return
		}
		p := reflect.New(t)
		decErr = iocase.Decode(c, data, p.Interface())
		got = p.Elem()
	})
	mk := func(kind, what string) *viol {
		return &viol{Kind: kind, Type: t.String(), Cfg: c.String(), What: what, Bytes: trunc(string(data), 200)}
	}
	switch {
	case msg != "":
		x := mk("panic", msg)
		x.Site = iocase.PanicSite(stack)
		return x, data
	case encErr != nil:
		if gen.ProfileOf(v).YearOutOfRange {
			return nil, nil // a year the four-digit date form cannot express: an error (not a panic) is the defined outcome
		}
		return mk("encode-error", encErr.Error()), data
	case decErr != nil:
		return mk("decode-error", decErr.Error()), data
	}
	want, have := gen.Canon(v), gen.Canon(got)
	if want != have {
		return mk("mismatch", fmt.Sprintf("want %s got %s", trunc(want, 300), trunc(have, 300))), data
	}
	return nil, data
}

func trunc(s string, n int) string {
	if len(s) > n {
		return s[:n] + "..."
	}
	return s
}

func runType(ti int) result {
	t := universe[ti]
	res := result{Type: t.String()}
	vs := alpha.Vals(t, width)
	cfgs := iocase.Configs(gen.HasInterface(t))
	seen := map[string]bool{}
	for vi, v := range vs {
		prof := gen.ProfileOf(v)
		for _, c := range cfgs {
			if !iocase.Representable(c, prof) {
				res.Skipped++
				continue
			}
			res.Cases++
			x, data := runCase(t, v, c)
			if len(data) > 1 && !seen[string(data)] {
				seen[string(data)] = true
			}
			if x != nil {
				x.Val = vi
				// keep the first violation per kind for this type
				dup := false
				for _, o := range res.Viol {
					if o.Kind == x.Kind && o.Site == x.Site {
						dup = true
					}
				}
				if !dup {
					res.Viol = append(res.Viol, *x)
				}
			} else if len(res.Samples) < 1 && vi == len(vs)/2 {
				res.Samples = append(res.Samples, fmt.Sprintf("%s %s -> %q", t, trunc(gen.Canon(v), 80), trunc(string(data), 80)))
			}
		}
	}
	res.Distinct = int64(len(seen))
	return res
}

func main() {
	thorough := report.Tier() == "thorough"
	setup(thorough)
	if shard.IsWorker() {
		shard.Serve(func(raw json.RawMessage) interface{} {
			var j job
			json.Unmarshal(raw, &j)
			return runType(j.Type)
		})
	}
	if len(os.Args) > 2 && os.Args[1] == "--replay" {
		replay(os.Args[2])
		return
	}
	run := report.New(ID, "exploration")
	jobs := make([]interface{}, len(universe))
	for i := range universe {
		jobs[i] = job{i}
	}
	var cases, skipped, distinct int64
	samples := report.NewSamples(12)
	violByType := map[string][]viol{}
	shard.Run(jobs, shard.Options{JobTimeout: 300 * time.Second}, func(i int, raw json.RawMessage, fail *shard.Failure) {
		if fail != nil {
			t := universe[i].String()
			violByType[t] = append(violByType[t], viol{Kind: "process-death", Type: t, What: fail.Kind + ": " + fail.Exit + "\n" + trunc(fail.Stderr, 1500)})
			return
		}
		var r result
		if err := json.Unmarshal(raw, &r); err != nil {
			run.Infra("bad worker result: " + err.Error())
			return
		}
		cases += r.Cases
		skipped += r.Skipped
		distinct += r.Distinct
		for _, s := range r.Samples {
			if i%97 == 0 {
				samples.Add(s)
			}
		}
		if len(r.Viol) > 0 {
			violByType[r.Type] = r.Viol
		}
	})
	// Root-cause reduction: a violation at type T is reported only if no strict sub-term type of T has a
	// violation of the same kind (the sub-term's report covers it). All sub-terms are in the universe.
	derived := 0
	var types []string
	for t := range violByType {
		types = append(types, t)
	}
	sort.Strings(types)
	byName := map[string]reflect.Type{}
	for _, t := range universe {
		byName[t.String()] = t
	}
	for _, tn := range types {
		for _, v := range violByType[tn] {
			covered := false
			for _, st := range iocase.Subterms(byName[tn]) {
				for _, o := range violByType[st.String()] {
					if o.Kind == v.Kind {
						covered = true
					}
				}
			}
			if covered {
				derived++
				continue
			}
			sig := fmt.Sprintf("C01|%s|type=%s", v.Kind, v.Type)
			if v.Site != "" {
				sig += "|at=" + v.Site
			}
			run.Violate(sig, v.What+" [cfg "+v.Cfg+", value #"+fmt.Sprint(v.Val)+", bytes "+fmt.Sprintf("%q", v.Bytes)+"]", v)
		}
	}
	d, w := depthAndWidth(thorough)
	run.Set("evaluations", cases)
	run.Set("distinct_nontrivial", distinct)
	run.Set("rule", "one evaluation = one (type, value, entry point, mode, decoder settings) round trip; distinct_nontrivial counts distinct encoded byte strings of length > 1 per type, summed over types")
	run.Set("samples", samples.List())
	run.Set("exhaustive", true)
	run.Set("types", len(universe))
	run.Set("skipped_unrepresentable_under_settings", skipped)
	run.Set("violations_derived_from_subterm", derived)
	run.Set("space", map[string]interface{}{"constructor_depth": d, "element_alphabet_width": w, "leaf_types": len(gen.Leaves()),
		"named_structs": len(gen.NamedStructs()), "specialised_maps": len(gen.SpecialisedMaps()),
		"configs_plain": len(iocase.Configs(false)), "configs_with_interface": len(iocase.Configs(true))})
	run.Assumption("scope hypothesis: types up to the stated constructor depth over the stated leaf alphabets; containers hold at most a handful of elements")
	run.Assumption("local zone fixed to America/New_York so that UTC versus local is observable")
	run.Finish()
}

func replay(path string) {
	_, raw := report.LoadReplay(path)
	var v viol
	json.Unmarshal(raw, &v)
	for _, t := range universe {
		if t.String() != v.Type {
			continue
		}
		vs := alpha.Vals(t, width)
		for _, c := range iocase.Configs(gen.HasInterface(t)) {
			if c.String() != v.Cfg {
				continue
			}
			x, data := runCase(t, vs[v.Val], c)
			fmt.Printf("type %s value %s cfg %s bytes %q\n", t, trunc(gen.Canon(vs[v.Val]), 300), c, data)
			if x != nil {
				fmt.Printf("REPRODUCED %s: %s\n", x.Kind, x.What)
				fmt.Printf("VIOLATION property=%s replay=%s\n", ID, path)
				os.Exit(1)
			}
			fmt.Println("not reproduced")
			os.Exit(0)
		}
	}
	fmt.Println("replay: type/config not found in universe:", v.Type, strings.TrimSpace(v.Cfg))
	os.Exit(2)
}
