// C02 — reference mode preserves shared and cyclic graphs. (a) every pointer graph on n <= 3 (4) nodes
// over struct / slice / map / interface edges; (b) every sequence of <= 3 reference-consuming items
// followed by repeated strings and shared pointers, in four container positions. Oracles: bisimulation
// of original and decoded graph, independent parse of the stream (each distinct object written once,
// every back-reference resolves to the intended item), termination.
package main

import (
	"container/list"
	"encoding/json"
	"fmt"
	"math/big"
	"os"
	"reflect"
	"time"

	"github.com/google/uuid"
	hio "github.com/hprose/hprose-golang/v3/io"
	"verif/lib/report"
	"verif/lib/shard"
	"verif/mc/gen"
	"verif/mc/hpref"
	"verif/mc/iocase"
	"verif/mc/refcheck"
)

const ID = "C02"

// ---- graph node types ----

type Node struct {
	V    int
	A, B *Node
}
type NodeS struct {
	V    int
	Kids []*NodeS
}
type NodeM struct {
	V int
	M map[string]*NodeM
}
type NodeI struct {
	V    int
	X, Y interface{}
}
type NodeP struct {
	V int
	P **NodeP
	Q *[1]*NodeP
}

type job struct {
	Part  string `json:"part"`
	Kind  string `json:"kind"`
	N     int    `json:"n"`
	Lo    int64  `json:"lo"`
	Hi    int64  `json:"hi"`
	Items []int  `json:"items,omitempty"`
}

type viol struct {
	Sig    string `json:"sig"`
	What   string `json:"what"`
	Replay job    `json:"replay"`
}

type result struct {
	Cases    int64    `json:"cases"`
	Distinct int64    `json:"distinct"`
	Viol     []viol   `json:"viol"`
	Samples  []string `json:"samples"`
}

func pow(b, e int) int64 {
	r := int64(1)
	for i := 0; i < e; i++ {
		r *= int64(b)
	}
	return r
}

// buildGraph builds graph number idx of the given kind on n nodes and returns its root as an
// interface{} holding a pointer to node 0.
func buildGraph(kind string, n int, idx int64) interface{} {
	digit := func() int {
		d := int(idx % int64(n+1))
		idx /= int64(n + 1)
		return d - 1 // -1 = nil, else node index
	}
	switch kind {
	case "struct":
		ns := make([]*Node, n)
		for i := range ns {
			ns[i] = &Node{V: i}
		}
		for i := range ns {
			if d := digit(); d >= 0 {
				ns[i].A = ns[d]
			}
			if d := digit(); d >= 0 {
				ns[i].B = ns[d]
			}
		}
		return ns[0]
	case "slice":
		ns := make([]*NodeS, n)
		for i := range ns {
			ns[i] = &NodeS{V: i}
		}
		for i := range ns {
			for k := 0; k < 2; k++ {
				if d := digit(); d >= 0 {
					ns[i].Kids = append(ns[i].Kids, ns[d])
				} else if k == 0 {
					ns[i].Kids = append(ns[i].Kids, nil)
				}
			}
		}
		return ns[0]
	case "map":
		ns := make([]*NodeM, n)
		for i := range ns {
			ns[i] = &NodeM{V: i}
		}
		for i := range ns {
			for _, key := range []string{"left", "right"} {
				if d := digit(); d >= 0 {
					if ns[i].M == nil {
						ns[i].M = map[string]*NodeM{}
					}
					ns[i].M[key] = ns[d]
				}
			}
		}
		return ns[0]
	case "iface":
		ns := make([]*NodeI, n)
		for i := range ns {
			ns[i] = &NodeI{V: i}
		}
		for i := range ns {
			if d := digit(); d >= 0 {
				ns[i].X = ns[d]
			}
			if d := digit(); d >= 0 {
				ns[i].Y = ns[d]
			}
		}
		return ns[0]
	case "ptrptr":
		ns := make([]*NodeP, n)
		for i := range ns {
			ns[i] = &NodeP{V: i}
		}
		for i := range ns {
			if d := digit(); d >= 0 {
				p := ns[d]
				ns[i].P = &p
			}
			if d := digit(); d >= 0 {
				ns[i].Q = &[1]*NodeP{ns[d]}
			}
		}
		return ns[0]
	}
	panic(kind)
}

func countObjects(v *hpref.Value) int {
	seen := map[*hpref.Value]bool{}
	n := 0
	var walk func(v *hpref.Value)
	walk = func(v *hpref.Value) {
		if v == nil || seen[v] {
			return
		}
		seen[v] = true
		if v.Kind == hpref.Object {
			n++
		}
		for _, e := range v.Elems {
			walk(e)
		}
		for _, p := range v.Pairs {
			walk(p[0])
			walk(p[1])
		}
	}
	walk(v)
	return n
}

func checkGraph(kind string, n int, idx int64, res *result, seen map[string]bool) {
	root := buildGraph(kind, n, idx)
	j := job{Part: "graph", Kind: kind, N: n, Lo: idx, Hi: idx + 1}
	add := func(what, msg string) {
		sig := fmt.Sprintf("C02|graph|%s|edges=%s", what, kind)
		for _, v := range res.Viol {
			if v.Sig == sig {
				return
			}
		}
		res.Viol = append(res.Viol, viol{sig, fmt.Sprintf("graph #%d on %d nodes (%s edges): %s", idx, n, kind, msg), j})
	}
	for _, dest := range []string{"typed", "interface"} {
		var data []byte
		var err error
		var decoded interface{}
		done := make(chan struct{})
		var pmsg string
		go func() {
			defer close(done)
			pmsg, _ = iocase.Guard(func() {
				data, err = hio.Formatter{Simple: false}.Marshal(root)
				if err != nil {
					return
				}
				if dest == "typed" {
					p := reflect.New(reflect.TypeOf(root))
					err = hio.Formatter{Simple: false}.Unmarshal(data, p.Interface())
					decoded = p.Elem().Interface()
				} else {
					var x interface{}
					err = hio.Formatter{Simple: false}.Unmarshal(data, &x)
					decoded = x
				}
			})
		}()
		select {
		case <-done:
		case <-time.After(20 * time.Second):
			add("does-not-terminate", "encode/decode still running after 20 s")
			return
		}
		res.Cases++
		if pmsg != "" {
			add("panic", pmsg)
			continue
		}
		if err != nil {
			add("error", err.Error())
			continue
		}
		if dest == "typed" {
			seen[string(data)] = true
		}
		want, derr := hpref.Denote(root, true)
		if derr != nil {
			add("oracle", "Denote(original): "+derr.Error())
			continue
		}
		if d := gen.Bisimilar(reflect.ValueOf(root), reflect.ValueOf(decoded)); d != "" {
			add("decoded-graph-differs|dest="+dest, fmt.Sprintf("bytes %q: the decoded graph does not have the unfolding of the original: %s", trunc(string(data)), d))
			continue
		}
		_ = want
		if dest == "typed" {
			parsed, perr := hpref.Parse(data, hpref.Options{})
			if perr != nil {
				add("stream-not-well-formed", fmt.Sprintf("bytes %q: %v", trunc(string(data)), perr))
				continue
			}
			want2, _ := hpref.Denote(root, true)
			if d := hpref.Diff(refcheck.Normalize(parsed.Values[0]), refcheck.Normalize(want2)); d != "" {
				add("stream-denotes-another-graph", fmt.Sprintf("bytes %q: %s", trunc(string(data)), d))
				continue
			}
			// each distinct reachable object is written once
			want3, _ := hpref.Denote(root, true)
			objs := 0
			for _, r := range parsed.Refs {
				if r != nil && r.Kind == hpref.Object {
					objs++
				}
			}
			if reach := countObjects(want3); objs != reach {
				add("object-written-more-than-once", fmt.Sprintf("bytes %q: %d objects in the stream, %d distinct reachable nodes", trunc(string(data)), objs, reach))
			}
		}
	}
	if len(res.Samples) < 2 && idx%977 == 5 {
		res.Samples = append(res.Samples, fmt.Sprintf("graph %s n=%d #%d", kind, n, idx))
	}
}

// ---- (b) reference-consuming items before back-references ----

type item struct {
	name string
	mk   func() interface{}
}

var sharedInner = &gen.Inner{A: 5, B: "shared-inner"}

func items() []item {
	return []item{
		{"string", func() interface{} { return "xy" }},
		{"bytes", func() interface{} { return []byte{1, 2} }},
		{"time", func() interface{} { return time.Date(2022, 2, 27, 12, 34, 56, 0, time.UTC) }},
		{"uuid", func() interface{} { return uuid.MustParse("01234567-89ab-cdef-0123-456789abcdef") }},
		{"list", func() interface{} { l := list.New(); l.PushBack(1); return l }},
		{"slice", func() interface{} { return []int{1} }},
		{"array", func() interface{} { return [2]int{1, 2} }},
		{"map", func() interface{} { return map[string]int{"k": 1} }},
		{"object-0-fields", func() interface{} { return gen.Empty{} }},
		{"object-1-field", func() interface{} { x := 3; return gen.OneField{P: &x} }},
		{"object-2-fields", func() interface{} { return gen.Inner{A: 1, B: "in"} }},
		{"complex", func() interface{} { return complex(1, 2) }},
		{"rational", func() interface{} { return big.NewRat(1, 3) }},
		{"bigint", func() interface{} { return big.NewInt(7) }},
		{"rows-int", func() interface{} { return [][]int{{1}, nil, {2}} }},
		{"rows-bytes", func() interface{} { return [][]byte{nil, {1}, {}} }},
		{"strings", func() interface{} { return []string{"xy", "xy", "q"} }},
		{"rows-iface", func() interface{} { return [][]interface{}{{"xy", 1}, {"xy"}, {"zz"}} }},
		{"rows-string", func() interface{} { return [][]string{{"xy"}, {"xy", "zz"}} }},
		{"anon-struct", func() interface{} { return struct{ A string }{"xy"} }},
		{"shared-ptr", func() interface{} { return sharedInner }},
		{"invalid-utf8", func() interface{} { return "\xff\xfe" }},
		{"empty-anon-struct", func() interface{} { return struct{}{} }},
		{"ptr-empty-anon-struct", func() interface{} { return &struct{}{} }},
		{"set-of-strings", func() interface{} { return map[string]struct{}{"xy": {}} }},
		{"emb-hidden", func() interface{} { return gen.MakeEmbHidden("xy", nil, "xy", "q") }},
	}
}

type Holder struct {
	F1, F2, F3, F4, F5, F6, F7 interface{}
}

func checkItems(seq []int, res *result, seen map[string]bool) {
	its := items()
	var vals []interface{}
	var names []string
	for _, i := range seq {
		vals = append(vals, its[i].mk())
		names = append(names, its[i].name)
	}
	tail := []interface{}{"shared-string", "shared-string", sharedInner, sharedInner}
	all := append(append([]interface{}{}, vals...), tail...)
	for len(all) < 7 {
		all = append(all, nil)
	}
	containers := map[string]interface{}{
		"slice":  all,
		"struct": Holder{all[0], all[1], all[2], all[3], all[4], all[5], all[6]},
		"array":  [7]interface{}{all[0], all[1], all[2], all[3], all[4], all[5], all[6]},
		"map":    map[string]interface{}{"a": all[0], "b": all[1], "c": all[2], "d": all[3], "e": all[4], "f": all[5], "g": all[6]},
	}
	j := job{Part: "items", Items: seq}
	for pos, c := range containers {
		var data []byte
		var err error
		var decoded reflect.Value
		pmsg, _ := iocase.Guard(func() {
			data, err = hio.Formatter{Simple: false}.Marshal(c)
			if err != nil {
				return
			}
			p := reflect.New(reflect.TypeOf(c))
			err = hio.Formatter{Simple: false}.Unmarshal(data, p.Interface())
			decoded = p.Elem()
		})
		res.Cases++
		add := func(what, msg string) {
			last := "none"
			if len(names) > 0 {
				last = names[len(names)-1]
			}
			sig := fmt.Sprintf("C02|items|%s|last-item-before-the-references=%s", what, last)
			for _, v := range res.Viol {
				if v.Sig == sig {
					return
				}
			}
			res.Viol = append(res.Viol, viol{sig, fmt.Sprintf("items %v then a repeated string and a shared pointer, in a %s: %s", names, pos, msg), j})
		}
		if pmsg != "" {
			add("panic", pmsg+fmt.Sprintf(" (bytes %q)", trunc(string(data))))
			continue
		}
		if err != nil {
			add("error", err.Error()+fmt.Sprintf(" (bytes %q)", trunc(string(data))))
			continue
		}
		seen[string(data)] = true
		if w, g := gen.CanonOf(c), gen.Canon(decoded); w != g {
			add("back-reference-resolves-to-another-item", fmt.Sprintf("bytes %q: want %s got %s", trunc(string(data)), trunc(w), trunc(g)))
			continue
		}
		r := refcheck.Check(data, false, []interface{}{c}, nil, nil)
		if r.Kind != "" && r.Kind != "skipped" {
			add("stream-"+r.Kind, fmt.Sprintf("bytes %q: %s", trunc(string(data)), r.What))
		}
	}
	if len(res.Samples) < 2 && len(seq) == 3 && seq[0] == 4 && seq[1] == 11 {
		res.Samples = append(res.Samples, fmt.Sprintf("items %v + repeated string + shared pointer", names))
	}
}

func trunc(s string) string {
	if len(s) > 260 {
		return s[:260] + "..."
	}
	return s
}

// ---- cycles without a struct node: a map, a list or an interface value that contains itself. Go gives such
// values no identity the encoder could refer back to; what the property demands of them is the first half of
// its statement: encoding ends (with the value or with an error), the process survives. Each kind runs in a
// job of its own, so that a dead worker names it.
var valueCycleKinds = []string{"map-contains-itself", "list-contains-itself", "interface-points-to-itself", "map-in-list-in-map", "list-of-two-lists-containing-each-other",
	"list-contains-itself-twice", "wide-list-contains-itself", "map-contains-itself-under-two-keys", "struct-points-to-itself-twice-beside-a-field-that-fails"}

// cycT: two pointers to itself and, between them, a field whose encoder reports an error of its own (a year
// beyond 9999): the refusal of the first pointer must survive that other error
type cycT struct {
	A *cycT
	T time.Time
	B *cycT
}

func valueCycle(kind string) interface{} {
	switch kind {
	case "map-contains-itself":
		m := map[string]interface{}{"v": 1}
		m["me"] = m
		return m
	case "list-contains-itself":
		s := []interface{}{1, nil}
		s[1] = s
		return s
	case "interface-points-to-itself":
		var x interface{}
		x = &x
		return x
	case "map-in-list-in-map":
		m := map[interface{}]interface{}{}
		m["l"] = []interface{}{m}
		return m
	case "struct-points-to-itself-twice-beside-a-field-that-fails":
		n := &cycT{T: time.Date(10000, 1, 1, 0, 0, 0, 0, time.UTC)}
		n.A, n.B = n, n
		return n
	case "list-contains-itself-twice":
		// an encoder that goes on after it has refused the first occurrence descends again from every level
		s := []interface{}{nil, nil}
		s[0], s[1] = s, s
		return s
	case "wide-list-contains-itself":
		// every lap of the unfolding writes 2000 elements
		s := make([]interface{}, 2000)
		for i := range s {
			s[i] = i
		}
		s[1000] = s
		return s
	case "map-contains-itself-under-two-keys":
		m := map[string]interface{}{}
		m["a"], m["b"] = m, m
		return m
	case "list-of-two-lists-containing-each-other":
		a, b := []interface{}{nil}, []interface{}{nil}
		a[0], b[0] = b, a
		return []interface{}{a, b}
	}
	panic(kind)
}

func checkValueCycle(kind string, res *result) {
	for _, simple := range []bool{false, true} {
		for _, entry := range []string{"formatter", "encoder"} {
			v := valueCycle(kind)
			var err error
			var n int
			sameEncoder := ""
			msg, _ := iocase.Guard(func() {
				if entry == "formatter" {
					var b []byte
					b, err = hio.Formatter{Simple: simple}.Marshal(v)
					n = len(b)
				} else {
					enc := new(hio.Encoder).Simple(simple)
					err = enc.Encode(v)
					n = len(enc.Bytes())
					// the next value on the same encoder is written as it is on an encoder of its own (the error of
					// the refused one stays with the encoder)
					good := map[string]interface{}{"k": []interface{}{1, "xy"}}
					enc.Encode(good)
					fresh := new(hio.Encoder).Simple(true)
					fresh.Encode(good)
					if simple && string(enc.Bytes()[n:]) != string(fresh.Bytes()) {
						sameEncoder = fmt.Sprintf("after the refused value the same encoder writes %q for a sound value, an encoder of its own %q", enc.Bytes()[n:], fresh.Bytes())
					}
				}
			})
			res.Cases++
			if msg != "" {
				res.Viol = append(res.Viol, viol{Sig: "C02|valuecycle|panic|" + kind, What: fmt.Sprintf("%s, simple=%v, %s: encoding panics: %s", kind, simple, entry, msg), Replay: job{Part: "valuecycle", Kind: kind}})
				continue
			}
			if sameEncoder != "" {
				res.Viol = append(res.Viol, viol{Sig: "C02|valuecycle|next-value-on-the-same-encoder-damaged|" + kind, What: kind + ": " + sameEncoder, Replay: job{Part: "valuecycle", Kind: kind}})
			}
			if err == nil {
				res.Viol = append(res.Viol, viol{Sig: "C02|valuecycle|no-error-for-an-infinite-unfolding|" + kind, What: fmt.Sprintf("%s, simple=%v, %s: encoding a value that contains itself returned %d bytes and no error", kind, simple, entry, n), Replay: job{Part: "valuecycle", Kind: kind}})
			}
			// the encoder must be usable afterwards (a pooled one goes back to the pool)
			if b, e := (hio.Formatter{Simple: simple}).Marshal([]interface{}{1, "ab"}); e != nil || len(b) == 0 {
				res.Viol = append(res.Viol, viol{Sig: "C02|valuecycle|encoder-unusable-afterwards|" + kind, What: fmt.Sprintf("%s: the next Marshal fails: %v", kind, e), Replay: job{Part: "valuecycle", Kind: kind}})
			}
		}
	}
	if len(res.Samples) < 1 {
		res.Samples = append(res.Samples, "value cycle "+kind+": encoding ends with an error")
	}
}

// ---- graphs whose types are recursive without passing through a named struct ----
//
// type Tree []Tree, type Dict map[string]Dict, type L []*L (a cycle through a slice only), type Arr [1]*Arr,
// a struct with a field of such a type, map[string]*PTree. The statement quantifies over "struct, slice, map
// and array nodes": these are graphs whose nodes are slices, maps and arrays only. Each kind runs in a job of
// its own (building the coder of such a type once recursed until the stack was exhausted: a dead worker names it).

type recTree []recTree
type recDict map[string]recDict
type recL []*recL
type recArr [1]*recArr
type recPTree map[string]*recPTree
type recHolder struct {
	Name string
	Kids recTree
	Dict recDict
}

type recByte uint8
type recByteHolder struct {
	P, Q *[]recByte
	R    *[]recByte
}

type chainIface struct {
	V    int
	Next interface{}
}
type chainSlice struct {
	V    int
	Kids []*chainSlice
}
type chainPtr struct {
	V    int
	Next *chainPtr
}

type namedStr string
type namedAny interface{}
type namedStrPair struct{ A, B *namedStr }
type namedAnyPair struct{ A, B *namedAny }

type twoViews struct {
	A interface{}
	B *[]int
	C interface{}
	D *[]int
	E interface{}
	F *map[string]int
}

var recTypeKinds = []string{"long-chains", "tree", "dict", "cyclic-slice", "cyclic-array", "struct-field", "map-of-pointers", "tree-first-used-concurrently", "shared-pointer-to-a-slice-of-a-named-byte-type",
	"long-list-points-to-itself", "pointers-to-named-types-after-top-level-use", "one-pointer-in-an-interface-and-in-a-typed-field"}

func checkRecType(kind string, res *result) {
	type tc struct {
		name  string
		value func() interface{}
		dest  func() interface{}
		same  func(orig, got interface{}) string // "" if the decoded graph is the original one
	}
	deep := func(orig, got interface{}) string {
		g := reflect.ValueOf(got).Elem().Interface()
		if !sameTree(reflect.ValueOf(orig), reflect.ValueOf(g)) {
			return fmt.Sprintf("decoded %#v, encoded %#v", g, orig)
		}
		return ""
	}
	var cases []tc
	switch kind {
	case "tree", "tree-first-used-concurrently":
		for _, t := range []recTree{{}, {recTree{}}, {recTree{}, recTree{recTree{}}}, {recTree{recTree{recTree{}}}, recTree{}, recTree{recTree{}, recTree{}}}} {
			t := t
			cases = append(cases, tc{fmt.Sprintf("%#v", t), func() interface{} { return t }, func() interface{} { return new(recTree) }, deep})
		}
	case "dict":
		for _, d := range []recDict{{}, {"a": recDict{}}, {"a": recDict{"b": nil}, "c": recDict{}}, {"a": recDict{"b": recDict{"c": recDict{}}}}} {
			d := d
			cases = append(cases, tc{fmt.Sprintf("%#v", d), func() interface{} { return d }, func() interface{} { return new(recDict) }, deep})
		}
	case "cyclic-slice":
		cases = append(cases, tc{"l := L{nil, nil}; l[0] = &l", func() interface{} {
			l := recL{nil, nil}
			l[0] = &l
			return &l
		}, func() interface{} { return new(*recL) }, func(_, got interface{}) string {
			l := *got.(**recL)
			if l == nil || len(*l) != 2 || (*l)[0] != l || (*l)[1] != nil {
				return fmt.Sprintf("decoded %v: not a two-element list whose first element points to the list itself", l)
			}
			return ""
		}})
	case "cyclic-array":
		cases = append(cases, tc{"var a Arr; a[0] = &a", func() interface{} {
			var a recArr
			a[0] = &a
			return &a
		}, func() interface{} { return new(*recArr) }, func(_, got interface{}) string {
			a := *got.(**recArr)
			if a == nil || a[0] != a {
				return fmt.Sprintf("decoded %v: not an array whose element points to the array itself", a)
			}
			return ""
		}})
	case "struct-field":
		h := &recHolder{"x", recTree{recTree{}, recTree{recTree{}}}, recDict{"a": recDict{"b": nil}}}
		cases = append(cases, tc{"&Holder{x, tree, dict}", func() interface{} { return h }, func() interface{} { return new(*recHolder) }, func(orig, got interface{}) string {
			g := *got.(**recHolder)
			if !sameTree(reflect.ValueOf(orig), reflect.ValueOf(g)) {
				return fmt.Sprintf("decoded %#v", g)
			}
			return ""
		}})
	case "long-chains":
		// acyclic data as deep as the decoder reads (its limit is 100000 levels): nodes linked through an
		// interface field, through a one-element []*T, through a plain pointer (45000 each). The encoder's depth guard must
		// not take them for a value that contains itself.
		n := 45000 // the list-linked shape nests two decoder levels per node
		hio.Register((*chainIface)(nil))
		count := func(what string, n int, length func(interface{}) int) func(orig, got interface{}) string {
			return func(_, got interface{}) string {
				if l := length(got); l != n {
					return fmt.Sprintf("%s: %d nodes came back, %d went in", what, l, n)
				}
				return ""
			}
		}
		cases = append(cases, tc{"90000 nodes linked by an interface{} field", func() interface{} {
			var head interface{}
			for i := 0; i < 2*n; i++ {
				head = &chainIface{i, head}
			}
			return head
		}, func() interface{} { return new(interface{}) }, count("interface chain", 2*n, func(got interface{}) int {
			l := 0
			for x := *got.(*interface{}); x != nil; l++ {
				c, ok := x.(*chainIface)
				if !ok {
					return -1
				}
				x = c.Next
			}
			return l
		})})
		cases = append(cases, tc{"45000 levels linked by a []*T field", func() interface{} {
			var s *chainSlice
			for i := 0; i < n; i++ {
				if s == nil {
					s = &chainSlice{V: i}
				} else {
					s = &chainSlice{i, []*chainSlice{s}}
				}
			}
			return s
		}, func() interface{} { return new(*chainSlice) }, count("slice chain", n, func(got interface{}) int {
			l := 0
			for x := *got.(**chainSlice); x != nil; l++ {
				if len(x.Kids) == 0 {
					x = nil
				} else {
					x = x.Kids[0]
				}
			}
			return l
		})})
		cases = append(cases, tc{"90000 nodes linked by a pointer field", func() interface{} {
			var p *chainPtr
			for i := 0; i < 2*n; i++ {
				p = &chainPtr{i, p}
			}
			return p
		}, func() interface{} { return new(*chainPtr) }, count("pointer chain", 2*n, func(got interface{}) int {
			l := 0
			for x := *got.(**chainPtr); x != nil; x = x.Next {
				l++
			}
			return l
		})})
	case "shared-pointer-to-a-slice-of-a-named-byte-type":
		// not a recursive type, but a node kind the graph generator lacks: the slice is read through the byte
		// path, which enters it in the reference table as []uint8
		b := []recByte{1, 2, 3}
		e := []recByte{}
		cases = append(cases, tc{"&Holder{P: &b, Q: &b, R: &empty}", func() interface{} { return &recByteHolder{&b, &b, &e} }, func() interface{} { return new(*recByteHolder) }, func(orig, got interface{}) string {
			g := *got.(**recByteHolder)
			if !sameTree(reflect.ValueOf(orig), reflect.ValueOf(g)) {
				return fmt.Sprintf("decoded %#v", g)
			}
			return ""
		}})
	case "long-list-points-to-itself":
		// a []interface{} one of whose elements is a pointer to the list, longer than any first allocation the
		// decoder makes on the strength of a count (it grows while it is read): the back-reference is resolved
		// before its target is complete, and must see the complete list all the same. Lengths around the
		// growth steps, the reference at the head, in the middle and at the end.
		for _, n := range []int{2, 16, 17, 1000, 16384, 16385, 32768, 32769, 50000, 200001} {
			for _, at := range []int{0, n / 2, n - 1} {
				n, at := n, at
				cases = append(cases, tc{fmt.Sprintf("s := make([]interface{}, %d); s[%d] = &s", n, at), func() interface{} {
					s := make([]interface{}, n)
					for i := range s {
						s[i] = i
					}
					s[at] = &s
					return &s
				}, func() interface{} { return new(*[]interface{}) }, func(_, got interface{}) string {
					l := *got.(**[]interface{})
					if l == nil || len(*l) != n {
						return fmt.Sprintf("decoded a list of %d elements", len(*l))
					}
					var inner []interface{}
					switch x := (*l)[at].(type) {
					case *[]interface{}:
						inner = *x
					case []interface{}:
						inner = x
					default:
						return fmt.Sprintf("element %d is a %T", at, x)
					}
					if len(inner) != n {
						return fmt.Sprintf("the list has %d elements, its element %d (a reference to the list itself) is a list of %d elements", n, at, len(inner))
					}
					for _, i := range []int{0, n / 3, n - 1} {
						if i != at && (inner[i] != i || (*l)[i] != i) {
							return fmt.Sprintf("element %d is %v in the list and %v in its reference to itself", i, (*l)[i], inner[i])
						}
					}
					if _, ok := inner[at].(*[]interface{}); !ok {
						if _, ok := inner[at].([]interface{}); !ok {
							return fmt.Sprintf("element %d of the reference is a %T", at, inner[at])
						}
					}
					return ""
				}})
			}
		}
	case "pointers-to-named-types-after-top-level-use":
		// which decoder a *T gets depends on whether T has been decoded on its own before (the registered
		// element decoder is preferred to the specialised pointer decoder): the named types are used at top
		// level first, as T and as *T, then two pointers to equal values (the second is written as a reference)
		warm := func(v, dest interface{}) {
			b, _ := hio.Formatter{}.Marshal(v)
			hio.Formatter{}.Unmarshal(b, dest)
		}
		for _, text := range []string{"hello", "\xff\xfe", "", "é"} {
			text := text
			cases = append(cases, tc{fmt.Sprintf("struct{A, B *namedStr}{&%q, &%q}", text, text), func() interface{} {
				x, y := namedStr(text), namedStr(text)
				warm(x, new(namedStr))
				warm(&x, new(*namedStr))
				return namedStrPair{&x, &y}
			}, func() interface{} { return new(namedStrPair) }, func(_, got interface{}) string {
				g := got.(*namedStrPair)
				if g.A == nil || g.B == nil || string(*g.A) != text || string(*g.B) != text {
					return fmt.Sprintf("decoded %v %v", g.A, g.B)
				}
				return ""
			}})
			cases = append(cases, tc{fmt.Sprintf("struct{A, B *namedAny}{&%q, &%q}", text, text), func() interface{} {
				var x, y namedAny = text, text
				warm(x, new(namedAny))
				warm(&x, new(*namedAny))
				return namedAnyPair{&x, &y}
			}, func() interface{} { return new(namedAnyPair) }, func(_, got interface{}) string {
				g := got.(*namedAnyPair)
				if g.A == nil || g.B == nil {
					return fmt.Sprintf("decoded %v %v", g.A, g.B)
				}
				// (text that is not UTF-8 comes into an interface as bytes: C01's normalisation)
				if a, b := fmt.Sprintf("%s", *g.A), fmt.Sprintf("%s", *g.B); a != text || b != text {
					return fmt.Sprintf("decoded %q %q", a, b)
				}
				return ""
			}})
		}
	case "one-pointer-in-an-interface-and-in-a-typed-field":
		// the item is read into the interface{} first (a generic list or map); the typed field that follows is
		// a reference to it. Two lists and a map: each reference must come back with the values of its own item.
		x, y, m := []int{1, 2, 3}, []int{4, 5}, map[string]int{"k": 7}
		cases = append(cases, tc{"&twoViews{A: &x, B: &x, C: &y, D: &y, E: &m, F: &m}", func() interface{} { return &twoViews{&x, &x, &y, &y, &m, &m} }, func() interface{} { return new(*twoViews) }, func(_, got interface{}) string {
			g := *got.(**twoViews)
			if g == nil || g.B == nil || g.D == nil || g.F == nil {
				return fmt.Sprintf("decoded %+v", g)
			}
			if fmt.Sprint(*g.B) != fmt.Sprint(x) || fmt.Sprint(*g.D) != fmt.Sprint(y) || fmt.Sprint(*g.F) != fmt.Sprint(m) {
				return fmt.Sprintf("decoded B=%v D=%v F=%v, encoded %v %v %v", *g.B, *g.D, *g.F, x, y, m)
			}
			if a, c := gen.CanonOf(g.A), gen.CanonOf(g.C); a != gen.CanonOf(x) || c != gen.CanonOf(y) {
				return fmt.Sprintf("decoded A=%s C=%s", a, c)
			}
			return ""
		}})
	case "map-of-pointers":
		leaf := &recPTree{}
		cases = append(cases, tc{"PTree{a: &PTree{b: leaf}, c: leaf}", func() interface{} { return recPTree{"a": &recPTree{"b": leaf}, "c": leaf} }, func() interface{} { return new(recPTree) }, deep})
	}
	for _, c := range cases {
		for _, simple := range []bool{false, true} {
			if simple && (kind == "cyclic-slice" || kind == "cyclic-array" || kind == "long-list-points-to-itself") {
				continue // a cycle has no finite unfolding (see valuecycle)
			}
			orig := c.value()
			var problem string
			msg, _ := iocase.Guard(func() {
				b, err := hio.Formatter{Simple: simple}.Marshal(orig)
				if err != nil {
					problem = "Marshal: " + err.Error()
					return
				}
				run := func() string {
					dest := c.dest()
					if err := (hio.Formatter{Simple: simple}).Unmarshal(b, dest); err != nil {
						return fmt.Sprintf("Unmarshal of %q: %v", b, err)
					}
					return c.same(orig, dest)
				}
				if kind == "tree-first-used-concurrently" {
					out := make(chan string, 8)
					for g := 0; g < 8; g++ {
						go func() {
							msg, _ := iocase.Guard(func() { out <- run() })
							if msg != "" {
								out <- "panic: " + msg
							}
						}()
					}
					for g := 0; g < 8; g++ {
						if p := <-out; p != "" && problem == "" {
							problem = p
						}
					}
					return
				}
				problem = run()
			})
			res.Cases++
			if msg != "" {
				problem = "panic: " + msg
			}
			if problem != "" {
				res.Viol = append(res.Viol, viol{Sig: "C02|rectype|graph-not-reproduced|" + kind, What: fmt.Sprintf("%s (simple=%v): %s", c.name, simple, problem), Replay: job{Part: "rectype", Kind: kind}})
			}
		}
	}
	if len(res.Samples) < 1 && len(cases) > 0 {
		res.Samples = append(res.Samples, "recursive container type "+kind+": "+cases[len(cases)-1].name+" decodes into the same graph")
	}
}

// sameTree compares two acyclic values structurally; a nil and an empty slice or map are the same (the format
// has one empty list).
func sameTree(a, b reflect.Value) bool {
	if a.Kind() != b.Kind() {
		return false
	}
	switch a.Kind() {
	case reflect.Slice, reflect.Array:
		if a.Len() != b.Len() {
			return false
		}
		for i := 0; i < a.Len(); i++ {
			if !sameTree(a.Index(i), b.Index(i)) {
				return false
			}
		}
		return true
	case reflect.Map:
		if a.Len() != b.Len() {
			return false
		}
		for _, k := range a.MapKeys() {
			bv := b.MapIndex(k)
			if !bv.IsValid() || !sameTree(a.MapIndex(k), bv) {
				return false
			}
		}
		return true
	case reflect.Ptr:
		if a.IsNil() || b.IsNil() {
			return a.IsNil() == b.IsNil()
		}
		return sameTree(a.Elem(), b.Elem())
	case reflect.Struct:
		for i := 0; i < a.NumField(); i++ {
			if !sameTree(a.Field(i), b.Field(i)) {
				return false
			}
		}
		return true
	}
	return reflect.DeepEqual(a.Interface(), b.Interface())
}

func runJob(j job) result {
	var res result
	seen := map[string]bool{}
	switch j.Part {
	case "valuecycle":
		checkValueCycle(j.Kind, &res)
	case "rectype":
		checkRecType(j.Kind, &res)
	case "graph":
		for idx := j.Lo; idx < j.Hi; idx++ {
			checkGraph(j.Kind, j.N, idx, &res, seen)
		}
	case "items":
		k := len(items())
		for idx := j.Lo; idx < j.Hi; idx++ {
			// idx enumerates sequences of length 0..3
			var seq []int
			x := idx
			switch {
			case x == 0:
			case x < 1+int64(k):
				seq = []int{int(x - 1)}
			case x < 1+int64(k)+int64(k*k):
				x -= 1 + int64(k)
				seq = []int{int(x / int64(k)), int(x % int64(k))}
			default:
				x -= 1 + int64(k) + int64(k*k)
				seq = []int{int(x / int64(k*k)), int(x / int64(k) % int64(k)), int(x % int64(k))}
			}
			checkItems(seq, &res, seen)
		}
	}
	res.Distinct = int64(len(seen))
	return res
}

func main() {
	iocase.Init()
	for _, p := range []interface{}{Node{}, NodeS{}, NodeM{}, NodeI{}, NodeP{}, Holder{}} {
		hio.Register(p)
	}
	if shard.IsWorker() {
		shard.Serve(func(raw json.RawMessage) interface{} {
			var j job
			json.Unmarshal(raw, &j)
			return runJob(j)
		})
	}
	if len(os.Args) > 2 && os.Args[1] == "--replay" {
		_, raw := report.LoadReplay(os.Args[2])
		var v viol
		json.Unmarshal(raw, &v)
		r := runJob(v.Replay)
		for _, x := range r.Viol {
			fmt.Printf("REPRODUCED %s: %s\n", x.Sig, x.What)
		}
		if len(r.Viol) > 0 {
			fmt.Printf("VIOLATION property=%s replay=%s\n", ID, os.Args[2])
			os.Exit(1)
		}
		fmt.Println("not reproduced")
		os.Exit(0)
	}
	run := report.New(ID, "exploration")
	maxN := 4
	var jobs []interface{}
	space := map[string]interface{}{}
	for _, kind := range []string{"struct", "slice", "map", "iface", "ptrptr"} {
		for n := 1; n <= maxN; n++ {
			if n == 4 && kind != "struct" && kind != "iface" && !run.Thorough() {
				continue
			}
			total := pow(n+1, 2*n)
			space[fmt.Sprintf("graphs/%s/n=%d", kind, n)] = total
			for lo := int64(0); lo < total; lo += 2000 {
				hi := lo + 2000
				if hi > total {
					hi = total
				}
				jobs = append(jobs, job{Part: "graph", Kind: kind, N: n, Lo: lo, Hi: hi})
			}
		}
	}
	k := int64(len(items()))
	totalItems := 1 + k + k*k + k*k*k
	space["item-sequences"] = totalItems
	space["item-kinds"] = k
	space["container-positions"] = 4
	for lo := int64(0); lo < totalItems; lo += 300 {
		hi := lo + 300
		if hi > totalItems {
			hi = totalItems
		}
		jobs = append(jobs, job{Part: "items", Lo: lo, Hi: hi})
	}
	for _, k := range valueCycleKinds {
		jobs = append(jobs, job{Part: "valuecycle", Kind: k})
	}
	space["value_cycle_kinds"] = len(valueCycleKinds)
	for _, k := range recTypeKinds {
		jobs = append(jobs, job{Part: "rectype", Kind: k})
	}
	space["recursive_container_type_kinds"] = len(recTypeKinds)
	var cases, distinct int64
	samples := report.NewSamples(10)
	shard.Run(jobs, shard.Options{JobTimeout: 10 * time.Minute}, func(i int, raw json.RawMessage, fail *shard.Failure) {
		j := jobs[i].(job)
		if fail != nil {
			run.Violate(fmt.Sprintf("C02|%s|process-death|%s", j.Part, j.Kind), fmt.Sprintf("worker %s in job %+v: %s\n%s", fail.Kind, j, fail.Exit, fail.Stderr), j)
			return
		}
		var r result
		if err := json.Unmarshal(raw, &r); err != nil {
			run.Infra("bad worker result: " + err.Error())
			return
		}
		cases += r.Cases
		distinct += r.Distinct
		for _, s := range r.Samples {
			samples.Add(s)
		}
		for _, v := range r.Viol {
			run.Violate(v.Sig, v.What, v)
		}
	})
	run.Set("evaluations", cases)
	run.Set("distinct_nontrivial", distinct)
	run.Set("rule", "one evaluation = one encode + decode of a graph (typed or interface{} destination) or of an item sequence in one container position; distinct_nontrivial = distinct encoded streams (every graph has at least one object)")
	run.Set("samples", samples.List())
	run.Set("exhaustive", true)
	run.Set("space", space)
	run.Assumption("graphs up to the stated node count with two outgoing edges per node; sharing preservation (pointer identity) is not required, only the same unfolding")
	run.Assumption("hpref (independent reader and denotation) is the oracle for what the stream means")
	run.Finish()
}
