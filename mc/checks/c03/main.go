// C03 — encoder output is well-formed Hprose and denotes the encoded value. Bounded-exhaustive
// enumeration of the C01 universe x {simple, reference} x {Encode, Write} and of value sequences on one
// encoder; oracle: an independent reader of the published grammar (hpref.Parse) plus an independent
// denotation of the Go value (hpref.Denote).
package main

import (
	"encoding/json"
	"errors"
	"fmt"
	"os"
	"reflect"
	"sort"
	"time"
	"unicode/utf8"

	hio "github.com/hprose/hprose-golang/v3/io"
	"verif/lib/report"
	"verif/lib/shard"
	"verif/mc/gen"
	"verif/mc/iocase"
	"verif/mc/refcheck"
)

const ID = "C03"

type job struct {
	Type int `json:"type"`
}

type viol struct {
	Kind  string `json:"kind"`
	Type  string `json:"type"`
	Val   int    `json:"val"`
	Cfg   string `json:"cfg"`
	What  string `json:"what"`
	Bytes string `json:"bytes"`
}

type result struct {
	Type     string `json:"type"`
	Cases    int64  `json:"cases"`
	Skipped  int64  `json:"skipped"`
	Distinct int64  `json:"distinct"`
	Viol     []viol `json:"viol"`
	Sample   string `json:"sample"`
}

var (
	universe []reflect.Type
	alpha    *gen.Alphabet
	width    = 4
)

func setup(thorough bool) {
	iocase.Init()
	universe = gen.Universe(2, true)
	if thorough {
		universe = gen.Universe(3, true)
	}
	alpha = gen.NewAlphabet()
	universe = append(universe, errorType) // error values as top-level values (the message is a string item)
	universe = append(universe, withErrType, reflect.PtrTo(errorType))
}

// withErrType: a struct with a field of type error, which is nil in ordinary use
var withErrType = reflect.TypeOf(struct {
	V    int
	Err  error
	Note string
}{})

func withErrVals() []reflect.Value {
	mk := func(v int, e error, n string) reflect.Value {
		x := reflect.New(withErrType).Elem()
		x.Field(0).SetInt(int64(v))
		if e != nil {
			x.Field(1).Set(reflect.ValueOf(e))
		}
		x.Field(2).SetString(n)
		return x
	}
	return []reflect.Value{mk(1, nil, "done"), mk(0, nil, ""), mk(2, nil, "ab")}
}

func errPtrVals() []reflect.Value {
	var nilErr error
	return []reflect.Value{reflect.ValueOf(&nilErr), reflect.Zero(reflect.PtrTo(errorType))}
}

var errorType = reflect.TypeOf((*error)(nil)).Elem()

// errorVals: messages that are empty, one character, ordinary, astral, and not text at all (invalid UTF-8: the
// stream must still be well-formed, i.e. the error tag followed by a string; what the replacement text is, is
// not prescribed, so those values are only parsed, see runType)
// nilSafeErr speaks for a nil receiver: a typed nil pointer of it is an error like any other (err != nil)
type nilSafeErr struct{ msg string }

func (e *nilSafeErr) Error() string {
	if e == nil {
		return "nil-safe"
	}
	return e.msg
}

func errorVals() []reflect.Value {
	var out []reflect.Value
	for _, e := range []error{(*nilSafeErr)(nil), &nilSafeErr{"set"}} {
		v := reflect.New(errorType).Elem()
		v.Set(reflect.ValueOf(e))
		out = append(out, v)
	}
	for _, m := range []string{"", "x", "boom", "你好 \"q\";{}", "😀", "bad \xff msg", "\xf0\x9f", "\xff", "ok then \xe4\xbd"} {
		v := reflect.New(errorType).Elem()
		v.Set(reflect.ValueOf(errors.New(m)))
		out = append(out, v)
	}
	return out
}

func iface(v reflect.Value) interface{} {
	if v.Kind() == reflect.Interface && v.IsNil() {
		return nil
	}
	return v.Interface()
}

func trunc(s string, n int) string {
	if len(s) > n {
		return s[:n] + "..."
	}
	return s
}

func runType(ti int) result {
	t := universe[ti]
	res := result{Type: t.String()}
	var vs []reflect.Value
	if t == errorType {
		vs = errorVals()
	} else if t == withErrType {
		vs = withErrVals()
	} else if t == reflect.PtrTo(errorType) {
		vs = errPtrVals()
	} else {
		vs = alpha.Vals(t, width)
	}
	seen := map[string]bool{}
	add := func(kind, cfg, what string, vi int, data []byte) {
		for _, o := range res.Viol {
			if o.Kind == kind {
				return
			}
		}
		res.Viol = append(res.Viol, viol{kind, t.String(), vi, cfg, what, trunc(string(data), 200)})
	}
	one := func(vi int, cfg string, simple bool, f func(enc *hio.Encoder) ([]interface{}, []int, []int)) {
		var data []byte
		var vals []interface{}
		var ends, resets []int
		var encErr error
		msg, _ := iocase.Guard(func() {
			enc := new(hio.Encoder).Simple(simple)
			vals, ends, resets = f(enc)
			data, encErr = enc.Bytes(), enc.Error
		})
		if msg != "" || encErr != nil {
			res.Skipped++ // panics and encoding errors are C01's business
			return
		}
		res.Cases++
		if len(data) > 1 {
			seen[string(data)] = true
		}
		r := refcheck.Check(data, simple, vals, ends, resets)
		if t == errorType && r.Kind == "denotes-another-value" {
			textual := true
			for _, v := range vals {
				textual = textual && utf8.ValidString(v.(error).Error())
			}
			if !textual {
				r.Kind = "" // well-formed, and an error: the text of a message that is not text is not prescribed
			}
		}
		switch r.Kind {
		case "":
			if res.Sample == "" && vi == len(vs)/2 {
				res.Sample = fmt.Sprintf("%s %s -> %q", t, cfg, trunc(string(data), 80))
			}
		case "skipped":
			res.Skipped++
		default:
			add(r.Kind, cfg, r.What, vi, data)
		}
	}
	for vi, v := range vs {
		x := iface(v)
		for _, simple := range []bool{true, false} {
			for _, entry := range []string{"Encode", "Write"} {
				entry := entry
				one(vi, fmt.Sprintf("%s/simple=%v", entry, simple), simple, func(enc *hio.Encoder) ([]interface{}, []int, []int) {
					if entry == "Encode" {
						enc.Encode(x)
					} else {
						enc.Write(x)
					}
					return []interface{}{x}, []int{len(enc.Bytes())}, nil
				})
			}
			// sequences on one encoder: this value followed by its neighbours, without and with Reset
			if vi+1 < len(vs) {
				y := iface(vs[vi+1])
				var z interface{} = x
				for _, reset := range []bool{false, true} {
					reset := reset
					one(vi, fmt.Sprintf("sequence-of-3/reset=%v/simple=%v", reset, simple), simple, func(enc *hio.Encoder) ([]interface{}, []int, []int) {
						var ends, resets []int
						for k, w := range []interface{}{x, y, z} {
							if reset && k > 0 {
								enc.Reset()
								resets = append(resets, len(enc.Bytes()))
							}
							enc.Encode(w)
							ends = append(ends, len(enc.Bytes()))
						}
						if !reset {
							resets = nil
						} else if resets == nil {
							resets = []int{}
						}
						return []interface{}{x, y, z}, ends, resets
					})
				}
			}
		}
	}
	res.Distinct = int64(len(seen))
	return res
}

func main() {
	thorough := report.Tier() == "thorough"
	setup(thorough)
	if shard.IsWorker() {
		shard.Serve(func(raw json.RawMessage) interface{} {
			var j job
			json.Unmarshal(raw, &j)
			return runType(j.Type)
		})
	}
	if len(os.Args) > 2 && os.Args[1] == "--replay" {
		replay(os.Args[2])
		return
	}
	run := report.New(ID, "exploration")
	jobs := make([]interface{}, len(universe))
	for i := range universe {
		jobs[i] = job{i}
	}
	var cases, skipped, distinct int64
	samples := report.NewSamples(12)
	violByType := map[string][]viol{}
	shard.Run(jobs, shard.Options{JobTimeout: 300 * time.Second}, func(i int, raw json.RawMessage, fail *shard.Failure) {
		if fail != nil {
			run.Infra(fmt.Sprintf("worker %s on type %s: %s\n%s", fail.Kind, universe[i], fail.Exit, fail.Stderr))
			return
		}
		var r result
		if err := json.Unmarshal(raw, &r); err != nil {
			run.Infra("bad worker result: " + err.Error())
			return
		}
		cases += r.Cases
		skipped += r.Skipped
		distinct += r.Distinct
		if r.Sample != "" && i%53 == 0 {
			samples.Add(r.Sample)
		}
		if len(r.Viol) > 0 {
			violByType[r.Type] = r.Viol
		}
	})
	derived := 0
	var types []string
	for t := range violByType {
		types = append(types, t)
	}
	sort.Strings(types)
	byName := map[string]reflect.Type{}
	for _, t := range universe {
		byName[t.String()] = t
	}
	for _, tn := range types {
		for _, v := range violByType[tn] {
			covered := false
			for _, st := range iocase.Subterms(byName[tn]) {
				for _, o := range violByType[st.String()] {
					if o.Kind == v.Kind {
						covered = true
					}
				}
			}
			if covered {
				derived++
				continue
			}
			run.Violate(fmt.Sprintf("C03|%s|type=%s", v.Kind, v.Type), v.What+" [cfg "+v.Cfg+", value #"+fmt.Sprint(v.Val)+", bytes "+fmt.Sprintf("%q", v.Bytes)+"]", v)
		}
	}
	run.Set("evaluations", cases)
	run.Set("distinct_nontrivial", distinct)
	run.Set("rule", "one evaluation = one encoded stream (a single value via Encode or Write, or a sequence of three values on one encoder with or without Reset) parsed by the independent reader and compared with the independent denotation; distinct_nontrivial = distinct streams longer than one byte per type, summed")
	run.Set("samples", samples.List())
	run.Set("exhaustive", true)
	run.Set("types", len(universe))
	run.Set("skipped", skipped)
	run.Set("violations_derived_from_subterm", derived)
	run.Assumption("hpref is my reading of the published grammar; where the text is silent (class field names consume reference indices, the class name does not) it follows what the other official implementations do")
	run.Assumption("nil and empty lists / maps / byte strings are interchangeable (normalisation allowed by C01)")
	run.Finish()
}

func replay(path string) {
	_, raw := report.LoadReplay(path)
	var v viol
	json.Unmarshal(raw, &v)
	for i, t := range universe {
		if t.String() == v.Type {
			r := runType(i)
			for _, x := range r.Viol {
				if x.Kind == v.Kind {
					fmt.Printf("REPRODUCED %s: %s\nVIOLATION property=%s replay=%s\n", x.Kind, x.What, ID, path)
					os.Exit(1)
				}
			}
			fmt.Println("not reproduced")
			os.Exit(0)
		}
	}
	os.Exit(2)
}
