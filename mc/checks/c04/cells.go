package main

import (
	"container/list"
	"context"
	"fmt"
	"io"
	"math/big"
	"reflect"
	"runtime"
	"runtime/metrics"
	"strings"
	"time"

	"github.com/google/uuid"
	hio "github.com/hprose/hprose-golang/v3/io"
	"github.com/hprose/hprose-golang/v3/rpc/core"
	"verif/mc/gen"
	"verif/mc/iocase"
)

// ---- the destination axis (io domain) ----

type anonAB struct {
	A int
	B string
}

var dests = []reflect.Type{
	reflect.TypeOf((*interface{})(nil)).Elem(),
	reflect.TypeOf(int(0)), reflect.TypeOf(int8(0)), reflect.TypeOf(uint64(0)), reflect.TypeOf(float64(0)),
	reflect.TypeOf(false), reflect.TypeOf(""), reflect.TypeOf([]byte(nil)),
	reflect.TypeOf([]int(nil)), reflect.TypeOf([][]int(nil)), reflect.TypeOf([2]int{}),
	reflect.TypeOf(map[string]int(nil)), reflect.TypeOf(map[interface{}]interface{}(nil)), reflect.TypeOf(map[string]interface{}(nil)),
	reflect.TypeOf(gen.Inner{}), reflect.TypeOf((*gen.Inner)(nil)), reflect.TypeOf((*int)(nil)),
	reflect.TypeOf(time.Time{}), reflect.TypeOf(uuid.UUID{}), reflect.TypeOf(big.Int{}), reflect.TypeOf((*list.List)(nil)),
	reflect.TypeOf(gen.Wide{}), reflect.TypeOf([]string(nil)),
	reflect.TypeOf(struct {
		A int
		B string
	}{}),
	reflect.TypeOf([1]*int{}),
}

// ioVariants are the entry points of the io domain. Variants 0,2,4 run in simple mode, 1,3,5 in reference
// mode; the reader variant of a mode runs first (see spin detection below).
var ioVariants = []string{"reader/simple", "reader/ref", "coder/simple", "coder/ref", "marshal/simple", "formatter/ref"}

const nRiskyVariants = 4 // huge-count inputs run reader and coder only (marshal/formatter wrap the same decoder)

func ioCellName(cell int) string {
	return dests[cell/len(ioVariants)].String() + " via " + ioVariants[cell%len(ioVariants)]
}

// ---- the rpc domains ----

var services []*core.Service
var svcNames = []string{"service with published functions", "service with a missing-method handler"}

var cliReturn = [][]reflect.Type{
	{},
	{reflect.TypeOf(int(0))},
	{reflect.TypeOf((*interface{})(nil)).Elem()},
	{reflect.TypeOf("")},
	{reflect.TypeOf([]int(nil))},
	{reflect.TypeOf(gen.Inner{})},
	{reflect.TypeOf(map[string]interface{}(nil))},
	{reflect.TypeOf(""), reflect.TypeOf(int(0)), reflect.TypeOf([]int(nil))},
}

func cliCellName(cell int) string {
	var s []string
	for _, t := range cliReturn[cell] {
		s = append(s, t.String())
	}
	return "client returning (" + strings.Join(s, ", ") + ")"
}

func setupRPC() {
	a := core.NewService()
	a.AddFunction(func(x int) int { return x }, "f")
	a.AddFunction(func(s string, xs []int) string { return s }, "g")
	a.AddFunction(func(args ...interface{}) int { return len(args) }, "v")
	a.AddFunction(func(in gen.Inner) gen.Inner { return in }, "h")
	a.AddFunction(func(m map[string]interface{}, arr [2]int, p *gen.Inner) int { return len(m) }, "k")
	b := core.NewService()
	b.AddMissingMethod(func(name string, args []interface{}) (result []interface{}, err error) {
		return []interface{}{len(args)}, nil
	})
	services = []*core.Service{a, b}
}

func nCells(domain string) int {
	switch domain {
	case "io":
		return len(dests) * len(ioVariants)
	case "svc":
		return len(services)
	case "cli":
		return len(cliReturn)
	}
	panic("domain " + domain)
}

func cellName(domain string, cell int) string {
	switch domain {
	case "io":
		return ioCellName(cell)
	case "svc":
		return svcNames[cell]
	}
	return cliCellName(cell)
}

// ---- one evaluation ----

// The reader variant feeds the bytes through an io.Reader that answers io.EOF once everything has been
// delivered and counts how often the decoder comes back for more after that. A decoder that keeps asking
// is in a loop whose trip count does not depend on the input it has; the reader aborts it with a sentinel
// panic after spinCap(len) post-EOF reads, which makes "does not terminate in time" a deterministic,
// count-based verdict instead of a timing one.
type spinSentinel struct{}

func (spinSentinel) String() string { return "C04-SPIN-SENTINEL" }

type capReader struct {
	data []byte
	off  int
	post int
	cap  int
}

func (r *capReader) Read(p []byte) (int, error) {
	if r.off < len(r.data) {
		n := copy(p, r.data[r.off:])
		r.off += n
		return n, nil
	}
	r.post++
	if r.post > r.cap {
		panic(spinSentinel{})
	}
	return 0, io.EOF
}

func spinCap(n int) int       { return 100000 + 256*n }
func allocBound(n int) uint64 { return 1<<20 + 256*uint64(n) }

type outcome struct {
	Kind string // "ok" | "error" | "panic" | "spin" | "over-allocation"
	Msg  string
	Site string
}

func runCell(domain string, cell int, input []byte) outcome {
	var err error
	var f func()
	switch domain {
	case "io":
		t := dests[cell/len(ioVariants)]
		v := cell % len(ioVariants)
		p := reflect.New(t).Interface()
		switch v {
		case 0, 1:
			f = func() {
				dec := hio.NewDecoderFromReader(&capReader{data: input, cap: spinCap(len(input))}).Simple(v == 0)
				dec.Decode(p)
				err = dec.Error
			}
		case 2, 3:
			f = func() { err = iocase.Decode(iocase.Cfg{Entry: "coder", Simple: v == 2}, input, p) }
		case 4:
			f = func() { err = iocase.Decode(iocase.Cfg{Entry: "marshal", Simple: true}, input, p) }
		default:
			f = func() { err = iocase.Decode(iocase.Cfg{Entry: "formatter"}, input, p) }
		}
	case "svc":
		svc := services[cell]
		f = func() {
			ctx := core.WithContext(context.Background(), core.NewServiceContext(svc))
			// an error response or a returned error is the defined way to refuse a request
			_, _ = svc.Handle(ctx, input)
		}
	case "cli":
		f = func() {
			cc := core.NewClientContext()
			cc.ReturnType = cliReturn[cell]
			_, err = core.NewClientCodec().Decode(input, cc)
		}
	}
	msg, stack := iocase.Guard(f)
	switch {
	case msg == "C04-SPIN-SENTINEL":
		return outcome{Kind: "spin", Msg: fmt.Sprintf("the decoder asked the reader for more data more than %d times after io.EOF", spinCap(len(input))), Site: loopSite(stack)}
	case msg != "":
		return outcome{Kind: "panic", Msg: msg, Site: iocase.PanicSite(stack)}
	case err != nil:
		return outcome{Kind: "error"}
	}
	return outcome{Kind: "ok"}
}

// ---- allocation measurement ----

var allocSample = []metrics.Sample{{Name: "/gc/heap/allocs:bytes"}}

// allocApprox is cheap and may lag behind by the unflushed part of the per-P allocation caches (at most one
// span per size class); it only decides whether to measure exactly.
func allocApprox() uint64 {
	metrics.Read(allocSample)
	return allocSample[0].Value.Uint64()
}

func allocExact() uint64 {
	var ms runtime.MemStats
	runtime.ReadMemStats(&ms)
	return ms.TotalAlloc
}

// runCellMeasured runs one cell with exact allocation accounting.
func runCellMeasured(domain string, cell int, input []byte) (outcome, uint64) {
	before := allocExact()
	o := runCell(domain, cell, input)
	return o, allocExact() - before
}
