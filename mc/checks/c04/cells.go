package main

import (
	"bytes"
	"container/list"
	"context"
	"fmt"
	"io"
	"math/big"
	"reflect"
	"runtime"
	"runtime/metrics"
	"strings"
	"time"

	"github.com/google/uuid"
	hio "github.com/hprose/hprose-golang/v3/io"
	"github.com/hprose/hprose-golang/v3/rpc/core"
	"verif/mc/gen"
	"verif/mc/iocase"
)

// ---- the destination axis (io domain) ----

type anonAB struct {
	A int
	B string
}

var dests = []reflect.Type{
	reflect.TypeOf((*interface{})(nil)).Elem(),
	reflect.TypeOf(int(0)), reflect.TypeOf(int8(0)), reflect.TypeOf(uint64(0)), reflect.TypeOf(float64(0)),
	reflect.TypeOf(false), reflect.TypeOf(""), reflect.TypeOf([]byte(nil)),
	reflect.TypeOf([]int(nil)), reflect.TypeOf([][]int(nil)), reflect.TypeOf([2]int{}),
	reflect.TypeOf(map[string]int(nil)), reflect.TypeOf(map[interface{}]interface{}(nil)), reflect.TypeOf(map[string]interface{}(nil)),
	reflect.TypeOf(gen.Inner{}), reflect.TypeOf((*gen.Inner)(nil)), reflect.TypeOf((*int)(nil)),
	reflect.TypeOf(time.Time{}), reflect.TypeOf(uuid.UUID{}), reflect.TypeOf(big.Int{}), reflect.TypeOf((*list.List)(nil)),
	reflect.TypeOf(gen.Wide{}), reflect.TypeOf([]string(nil)),
	reflect.TypeOf(struct {
		A int
		B string
	}{}),
	reflect.TypeOf([1]*int{}),
	reflect.TypeOf((*big.Int)(nil)), reflect.TypeOf((*big.Float)(nil)), reflect.TypeOf(big.Rat{}), reflect.TypeOf(complex128(0)), reflect.TypeOf([]float64(nil)), reflect.TypeOf([][]byte(nil)),
}

// refDests are the destinations of the "ref" domain: the first field takes a value as it comes, the second is
// the destination of a back-reference to it, so that the decoder has to convert what it has read already
// (decoder.go:convertReference, converter.go) instead of reading a token.
var refDests = func() []reflect.Type {
	iface := reflect.TypeOf((*interface{})(nil)).Elem()
	var out []reflect.Type
	for _, t := range []reflect.Type{
		reflect.TypeOf([4]byte{}), reflect.TypeOf(uuid.UUID{}), reflect.TypeOf(""), reflect.TypeOf([]byte(nil)), reflect.TypeOf([]int(nil)),
		reflect.TypeOf([2]int{}), reflect.TypeOf(gen.Inner{}), reflect.TypeOf((*gen.Inner)(nil)), reflect.TypeOf(map[string]int(nil)),
		reflect.TypeOf(time.Time{}), reflect.TypeOf(int(0)), reflect.TypeOf(big.Int{}), reflect.TypeOf((*list.List)(nil)),
		reflect.TypeOf([]uuid.UUID(nil)), reflect.TypeOf((*[2]byte)(nil)), reflect.TypeOf(float64(0)), iface,
	} {
		out = append(out, reflect.StructOf([]reflect.StructField{{Name: "A", Type: iface}, {Name: "B", Type: t}}))
	}
	return out
}()

const refBase = 1000 // arena index of refDests[0]

func destType(d int) reflect.Type {
	if d >= refBase {
		return refDests[d-refBase]
	}
	return dests[d]
}

// refStreams are the valid streams of the "ref" domain: a map of two entries, a referable token under "a" and a
// back-reference to it under "b".
func refStreams() [][]byte {
	u := uuid.MustParse("01234567-89ab-cdef-0123-456789abcdef")
	toks := []struct {
		tok string
		idx int
	}{
		{`s2"ab"`, 1}, {`s36"01234567-89ab-cdef-0123-456789abcdef"`, 1}, {`b2"ab"`, 1}, {`b4"abcd"`, 1}, {`b16"` + string(u[:]) + `"`, 1},
		{"g{01234567-89ab-cdef-0123-456789abcdef}", 1}, {"D20220227T123456Z", 1}, {"T123456Z", 1},
		{"a2{12}", 1}, {`a1{s2"ab"}`, 1}, {`a1{s2"ab"}`, 2}, {"m1{ua1}", 1}, {`c5"Inner"2{s1"a"s1"b"}o0{1ux}`, 3}, {`c5"Inner"2{s1"a"s1"b"}o0{1ux}`, 1},
	}
	var out [][]byte
	for _, t := range toks {
		out = append(out, []byte(fmt.Sprintf("m2{ua%subr%d;}", t.tok, t.idx)))
	}
	return out
}

// ioVariants are the entry points of the io domain: per mode three stages, the reader-fed decoder first (see
// spin detection below), then the in-memory decoder, then the Formatter wrapper of that mode (Marshal's
// default formatter in simple mode, the pooled decoder of Formatter{Simple:false} in reference mode).
// The third group runs with the non-default decoder settings (big-number long and real types, interface-keyed
// maps, struct values instead of pointers, typed slices): the conversions behind them see wire data too.
var ioVariants = []string{"reader/simple", "coder/simple", "marshal/simple", "reader/ref", "coder/ref", "formatter/ref",
	"reader/ref+settings", "coder/ref+settings", "coder/simple+settings"}

var altSettings = iocase.Cfg{Entry: "coder", Long: hio.LongTypeBigInt, Real: hio.RealTypeBigFloat, Map: hio.MapTypeIIMap, Struct: hio.StructTypeValue, List: hio.ListTypeSlice}

func stageOf(domain string, cell int) int {
	if domain != "io" {
		return 0
	}
	return cell % 3
}

func ioCellName(cell int) string {
	return dests[cell/len(ioVariants)].String() + " via " + ioVariants[cell%len(ioVariants)]
}

// ---- the rpc domains ----

var services []*core.Service
var svcNames = []string{"service with published functions", "service with a missing-method handler"}

var cliReturn = [][]reflect.Type{
	{},
	{reflect.TypeOf(int(0))},
	{reflect.TypeOf((*interface{})(nil)).Elem()},
	{reflect.TypeOf("")},
	{reflect.TypeOf([]int(nil))},
	{reflect.TypeOf(gen.Inner{})},
	{reflect.TypeOf(map[string]interface{}(nil))},
	{reflect.TypeOf(""), reflect.TypeOf(int(0)), reflect.TypeOf([]int(nil))},
}

func cliCellName(cell int) string {
	var s []string
	for _, t := range cliReturn[cell] {
		s = append(s, t.String())
	}
	return "client returning (" + strings.Join(s, ", ") + ")"
}

var (
	client *core.Client
	canned []byte
)

func setupRPC() {
	client = core.NewClient()
	client.Use(func(ctx context.Context, request []byte, next core.NextIOHandler) ([]byte, error) { return canned, nil })
	a := core.NewService()
	a.AddFunction(func(x int) int { return x }, "f")
	a.AddFunction(func(s string, xs []int) string { return s }, "g")
	a.AddFunction(func(args ...interface{}) int { return len(args) }, "v")
	a.AddFunction(func(in gen.Inner) gen.Inner { return in }, "h")
	a.AddFunction(func(m map[string]interface{}, arr [2]int, p *gen.Inner) int { return len(m) }, "k")
	b := core.NewService()
	b.AddMissingMethod(func(name string, args []interface{}) (result []interface{}, err error) {
		return []interface{}{len(args)}, nil
	})
	services = []*core.Service{a, b}
}

func nCells(domain string) int {
	switch domain {
	case "io":
		return len(dests) * len(ioVariants)
	case "svc":
		return len(services)
	case "cli":
		return len(cliReturn)
	case "ref":
		return len(refDests)
	}
	panic("domain " + domain)
}

func cellName(domain string, cell int) string {
	switch domain {
	case "io":
		return ioCellName(cell)
	case "svc":
		return svcNames[cell]
	case "ref":
		return refDests[cell].String() + " via coder/ref"
	}
	return cliCellName(cell)
}

// ---- one evaluation ----

// The reader variant feeds the bytes through an io.Reader that answers io.EOF once everything has been
// delivered and counts how often the decoder comes back for more after that. A decoder that keeps asking
// is in a loop whose trip count does not depend on the input it has; the reader aborts it with a sentinel
// panic after spinCap(len) post-EOF reads, which makes "does not terminate in time" a deterministic,
// count-based verdict instead of a timing one.
type spinSentinel struct{}

func (spinSentinel) String() string { return "C04-SPIN-SENTINEL" }

type capReader struct {
	data []byte
	off  int
	post int
	cap  int
}

func (r *capReader) Read(p []byte) (int, error) {
	if r.off < len(r.data) {
		n := copy(p, r.data[r.off:])
		r.off += n
		return n, nil
	}
	r.post++
	if r.post > r.cap {
		panic(spinSentinel{})
	}
	return 0, io.EOF
}

func spinCap(n int) int       { return 100000 + 256*n }
func allocBound(n int) uint64 { return 1<<20 + 256*uint64(n) }

type outcome struct {
	Kind string // "ok" | "error" | "panic" | "spin" | "over-allocation"
	Msg  string
	Site string
}

func runCell(domain string, cell int, input []byte) outcome {
	var err error
	var f func()
	var ar *arena
	switch domain {
	case "io":
		v := cell % len(ioVariants)
		ar = arenaFor(cell / len(ioVariants))
		p := ar.ptr
		switch v {
		case 0, 3, 6:
			f = func() {
				dec := hio.NewDecoderFromReader(&capReader{data: input, cap: spinCap(len(input))}).Simple(v == 0)
				if v == 6 {
					c := altSettings
					dec.LongType, dec.RealType, dec.MapType, dec.StructType, dec.ListType = c.Long, c.Real, c.Map, c.Struct, c.List
				}
				dec.Decode(p)
				err = dec.Error
			}
		case 7, 8:
			f = func() {
				c := altSettings
				c.Simple = v == 8
				err = iocase.Decode(c, input, p)
			}
		case 1, 4:
			f = func() { err = iocase.Decode(iocase.Cfg{Entry: "coder", Simple: v == 1}, input, p) }
		case 2:
			f = func() { err = iocase.Decode(iocase.Cfg{Entry: "marshal", Simple: true}, input, p) }
		default:
			f = func() { err = iocase.Decode(iocase.Cfg{Entry: "formatter"}, input, p) }
		}
	case "ref":
		ar = arenaFor(refBase + cell)
		p := ar.ptr
		f = func() { err = iocase.Decode(iocase.Cfg{Entry: "coder", Simple: false}, input, p) }
	case "svc":
		svc := services[cell]
		f = func() {
			ctx := core.WithContext(context.Background(), core.NewServiceContext(svc))
			// an error response or a returned error is the defined way to refuse a request
			_, _ = svc.Handle(ctx, input)
		}
	case "cli":
		f = func() {
			// the response arrives at a client: an IO plugin answers every request with the bytes under test, the
			// client decodes them with its codec for the return types of this cell
			cc := core.NewClientContext()
			cc.ReturnType = cliReturn[cell]
			canned = input
			_, err = client.InvokeContext(core.WithContext(context.Background(), cc), "f", nil)
			// and the codec on its own (ClientCodec.Decode is an entry point of its own: Client.InvokeContext turns a
			// panic of the codec into an error, a direct user of the codec has no such net)
			cc2 := core.NewClientContext()
			cc2.ReturnType = cliReturn[cell]
			if _, e := core.NewClientCodec().Decode(append([]byte(nil), input...), cc2); err == nil {
				err = e
			}
		}
	}
	msg, pcs := guard(f)
	if ar != nil {
		if before, after := ar.damage(); before+after > 0 && msg == "" {
			return outcome{Kind: "out-of-bounds-write", Site: "dest-kind=" + ar.val.Kind().String(),
				Msg: fmt.Sprintf("the decoder wrote outside the destination variable: %d bytes damaged before it, %d after it", before, after)}
		}
	}
	switch {
	case msg == "C04-SPIN-SENTINEL":
		return outcome{Kind: "spin", Msg: fmt.Sprintf("the decoder asked the reader for more data more than %d times after io.EOF", spinCap(len(input))), Site: siteOf(pcs, true)}
	case msg != "":
		return outcome{Kind: "panic", Msg: msg, Site: siteOf(pcs, false)}
	case err != nil:
		return outcome{Kind: "error"}
	}
	return outcome{Kind: "ok"}
}

// ---- destination arenas ----

// The destination of an io evaluation lives between two guard areas of a known pattern. A decoder that
// indexes its destination with a wire count writes there instead of into a neighbouring heap object, which
// makes the write observable (and keeps the worker process intact for the evaluations that follow).
const guardBytes = 2048

type arena struct {
	all reflect.Value
	val reflect.Value
	ptr interface{}
	pre []byte
	pst []byte
}

var arenas = map[int]*arena{}

func arenaFor(d int) *arena {
	a := arenas[d]
	if a == nil {
		gt := reflect.TypeOf([guardBytes]byte{})
		st := reflect.StructOf([]reflect.StructField{{Name: "Pre", Type: gt}, {Name: "Val", Type: destType(d)}, {Name: "Post", Type: gt}})
		all := reflect.New(st).Elem()
		a = &arena{all: all, val: all.Field(1), ptr: all.Field(1).Addr().Interface(),
			pre: all.Field(0).Slice(0, guardBytes).Bytes(), pst: all.Field(2).Slice(0, guardBytes).Bytes()}
		a.fill()
		arenas[d] = a
	}
	a.val.SetZero()
	return a
}

func (a *arena) fill() {
	for i := range a.pre {
		a.pre[i], a.pst[i] = 0xA5, 0xA5
	}
}

var guardPattern = bytes.Repeat([]byte{0xA5}, guardBytes)

func (a *arena) damage() (before, after int) {
	if bytes.Equal(a.pre, guardPattern) && bytes.Equal(a.pst, guardPattern) {
		return 0, 0
	}
	for i := range a.pre {
		if a.pre[i] != 0xA5 {
			before++
		}
		if a.pst[i] != 0xA5 {
			after++
		}
	}
	if before+after > 0 {
		a.fill()
	}
	return
}

// ---- allocation measurement ----

var allocSample = []metrics.Sample{{Name: "/gc/heap/allocs:bytes"}}
var mappedSample = []metrics.Sample{{Name: "/memory/classes/total:bytes"}}

// mapped is the address space the Go runtime holds. It never shrinks (heap arenas are not unmapped), so a
// worker that has served an evaluation with a huge allocation has less room under ulimit -v for the ones
// that follow, and one of those could die for lack of address space through no fault of its own. A worker
// above retireAbove therefore hands the rest of its job back and is replaced by a fresh process: every
// evaluation starts with about 1.3 GiB of address space to itself.
func mapped() uint64 {
	metrics.Read(mappedSample)
	return mappedSample[0].Value.Uint64()
}

const retireAbove = 128 << 20

// allocApprox is cheap and may lag behind by the unflushed part of the per-P allocation caches (at most one
// span per size class); it only decides whether to measure exactly.
func allocApprox() uint64 {
	metrics.Read(allocSample)
	return allocSample[0].Value.Uint64()
}

func allocExact() uint64 {
	var ms runtime.MemStats
	runtime.ReadMemStats(&ms)
	return ms.TotalAlloc
}

// runCellMeasured runs one cell with exact allocation accounting.
func runCellMeasured(domain string, cell int, input []byte) (outcome, uint64) {
	before := allocExact()
	o := runCell(domain, cell, input)
	return o, allocExact() - before
}

// guard runs f and converts a panic into its message and the program counters of the panicking stack
// (resolving them to a site is cached: a formatted stack per panic would dominate the run).
func guard(f func()) (msg string, pcs []uintptr) {
	defer func() {
		if r := recover(); r != nil {
			msg = fmt.Sprint(r)
			if msg == "" {
				msg = "(empty panic)"
			}
			buf := make([]uintptr, 64)
			pcs = buf[:runtime.Callers(2, buf)]
		}
	}()
	f()
	return
}

var siteCache = map[string]string{}

func siteOf(pcs []uintptr, loop bool) string {
	key := fmt.Sprint(loop, pcs)
	if s, ok := siteCache[key]; ok {
		return s
	}
	var frames []frame
	it := runtime.CallersFrames(pcs)
	for {
		f, more := it.Next()
		frames = append(frames, frame{f.Function, f.File, f.Line})
		if !more {
			break
		}
	}
	s := "?"
	if loop {
		s = loopSite(frames)
	} else {
		for _, f := range frames {
			if strings.Contains(f.fn, "hprose-golang/v3/") {
				s = shortFn(f.fn)
				break
			}
		}
	}
	siteCache[key] = s
	return s
}

// allocSite names the function of the repository that made the largest allocation of one evaluation: the
// evaluation is repeated with every allocation profiled and the record that grew most is taken. It only
// labels an over-allocation verdict that has already been reached by exact measurement.
func allocSite(domain string, cell int, input []byte) string {
	snap := func() map[[32]uintptr]int64 {
		runtime.GC()
		runtime.GC()
		n, _ := runtime.MemProfile(nil, true)
		recs := make([]runtime.MemProfileRecord, n+64)
		n, ok := runtime.MemProfile(recs, true)
		if !ok {
			return nil
		}
		m := make(map[[32]uintptr]int64, n)
		for _, r := range recs[:n] {
			m[r.Stack0] += r.AllocBytes
		}
		return m
	}
	before := snap()
	old := runtime.MemProfileRate
	runtime.MemProfileRate = 1
	runCell(domain, cell, input)
	runtime.MemProfileRate = old
	after := snap()
	var best [32]uintptr
	var bestN int64
	for k, v := range after {
		if d := v - before[k]; d > bestN {
			best, bestN = k, d
		}
	}
	n := 0
	for n < len(best) && best[n] != 0 {
		n++
	}
	return siteOf(best[:n], false)
}

// hangSite is called by the CPU watchdog when an in-memory evaluation has used up its budget: it samples the
// stack of the main goroutine a few times, keeps the frames common to all samples (counted from the
// outermost) and names the innermost of those that sits in a counted loop: the loop that has been live all
// the time. It only labels the verdict.
func hangSite() string {
	var common []frame
	for k := 0; k < 6; k++ {
		buf := make([]byte, 1<<20)
		buf = buf[:runtime.Stack(buf, true)]
		s := string(buf)
		i := strings.Index(s, "goroutine 1 [")
		if i < 0 {
			return "?"
		}
		s = s[i:]
		if j := strings.Index(s, "\n\n"); j >= 0 {
			s = s[:j]
		}
		fr := parseStack(s)
		for a, b := 0, len(fr)-1; a < b; a, b = a+1, b-1 { // outermost first
			fr[a], fr[b] = fr[b], fr[a]
		}
		if k == 0 {
			common = fr
		} else {
			n := 0
			for n < len(common) && n < len(fr) && common[n].fn == fr[n].fn {
				n++ // the call site inside the live loop differs from sample to sample, the function does not
			}
			common = common[:n]
		}
		time.Sleep(3 * time.Millisecond)
	}
	for a, b := 0, len(common)-1; a < b; a, b = a+1, b-1 { // innermost first again
		common[a], common[b] = common[b], common[a]
	}
	return loopSite(common)
}
