package main

import (
	"go/ast"
	"go/parser"
	"go/token"
	"strconv"
	"strings"
	"sync"
)

// A spinning decoder is named by the loop it spins in: the innermost frame of the aborted decode whose call
// site lies inside a counted loop (a for statement with a condition, or a range statement). After EOF no new
// container can be opened, so the counted loops on the stack are the ones that were open when the input ran
// out, the bounded ones among them finish quickly, and the innermost one still live after 100000 post-EOF
// reads is the loop driven by the wire count. The bare `for { ... }` loops of the buffer layer (loadMore,
// until, next, readUint64) are not counted loops and are skipped by construction. This only chooses the
// label of the signature; the verdict itself is the post-EOF read count (or the CPU budget).

type frame struct {
	fn   string
	file string
	line int
}

// parseStack reads the frames (innermost first) of one goroutine from a textual traceback.
func parseStack(stack string) []frame {
	var out []frame
	lines := strings.Split(stack, "\n")
	for i := 0; i+1 < len(lines); i++ {
		l := lines[i]
		if l == "" || strings.HasPrefix(l, "\t") || strings.HasPrefix(l, "goroutine ") || !strings.HasPrefix(lines[i+1], "\t") {
			continue
		}
		loc := strings.TrimSpace(lines[i+1])
		if j := strings.Index(loc, " "); j > 0 {
			loc = loc[:j]
		}
		k := strings.LastIndex(loc, ":")
		if k < 0 {
			continue
		}
		n, _ := strconv.Atoi(loc[k+1:])
		fn := l
		if j := strings.LastIndex(fn, "("); j > 0 {
			fn = fn[:j]
		}
		out = append(out, frame{fn, loc[:k], n})
	}
	return out
}

func shortFn(fn string) string { return fn[strings.LastIndex(fn, "/")+1:] }

type lineRange struct{ lo, hi int }

var (
	loopMu    sync.Mutex
	loopCache = map[string][]lineRange{}
)

func countedLoops(file string) []lineRange {
	loopMu.Lock()
	defer loopMu.Unlock()
	if r, ok := loopCache[file]; ok {
		return r
	}
	var out []lineRange
	fset := token.NewFileSet()
	if f, err := parser.ParseFile(fset, file, nil, 0); err == nil {
		ast.Inspect(f, func(n ast.Node) bool {
			switch s := n.(type) {
			case *ast.ForStmt:
				if s.Cond != nil {
					out = append(out, lineRange{fset.Position(s.Pos()).Line, fset.Position(s.End()).Line})
				}
			case *ast.RangeStmt:
				out = append(out, lineRange{fset.Position(s.Pos()).Line, fset.Position(s.End()).Line})
			}
			return true
		})
	}
	loopCache[file] = out
	return out
}

// loopSite takes frames innermost first.
func loopSite(frames []frame) string {
	start := 0
	for i, f := range frames {
		if strings.HasSuffix(f.fn, "capReader).Read") {
			start = i + 1
		}
	}
	fallback := "?"
	for _, f := range frames[start:] {
		if !strings.Contains(f.fn, "hprose-golang/v3/") {
			continue
		}
		for _, r := range countedLoops(f.file) {
			if f.line >= r.lo && f.line <= r.hi {
				return shortFn(f.fn)
			}
		}
		switch s := shortFn(f.fn); s {
		case "io.(*Decoder).Decode", "io.(*Decoder).decode", "io.(*Decoder).Read", "io.(*Decoder).fastDecode", "io.(*Decoder).fastDecodePtr":
		default:
			fallback = s // ends up as the outermost value decoder
		}
	}
	return fallback
}
