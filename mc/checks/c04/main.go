// C04 — decoding untrusted bytes never crashes, hangs or over-allocates. Bounded-exhaustive enumeration of
// byte strings (every string over the decoder's tag alphabet up to a length bound; the complete single-edit
// neighbourhood of a corpus of valid streams; grammar-aware replacement of every count, length and index;
// nesting bombs) x destination types x modes x entry points (reader-fed and in-memory Unmarshal, service
// request handling, client response decoding). Oracle: no panic, no process death, no loop that outlives
// its input (post-EOF read count, CPU budget), allocation <= 1 MiB + 256 x len(input).
package main

import (
	"encoding/hex"
	"encoding/json"
	"errors"
	"fmt"
	"os"
	"regexp"
	"sort"
	"strings"
	"sync/atomic"
	"syscall"
	"time"

	"github.com/hprose/hprose-golang/v3/rpc/core"
	"verif/lib/report"
	"verif/lib/shard"
	"verif/mc/corpus"
	"verif/mc/gen"
	"verif/mc/iocase"
)

const ID = "C04"

const memLimitKB = 2 << 20 // workers run under ulimit -v 2 GiB

// ---- jobs ----

// A job is a range [From, To) of the linearised evaluations index = input number x cells + cell over its
// inputs (To = 0: everything). A worker that dies leaves the index it was evaluating in its journal, so the
// coordinator convicts exactly that evaluation and re-issues the rest of the range.
type job struct {
	ID      uint64   `json:"id"`
	Domain  string   `json:"d"`
	Prefix  string   `json:"p,omitempty"` // Sigma family: the inputs are Prefix + SigmaString(i), Lo <= i < Hi
	Lo      int      `json:"lo,omitempty"`
	Hi      int      `json:"hi,omitempty"`
	Inputs  [][]byte `json:"in,omitempty"` // explicit inputs
	Bomb    string   `json:"b,omitempty"`  // generated input "kind:depth"
	From    int      `json:"from,omitempty"`
	To      int      `json:"to,omitempty"`
	Exact   bool     `json:"x,omitempty"`  // measure the allocation of every evaluation exactly
	NoCount bool     `json:"nc,omitempty"` // the inputs of this job are counted by the coordinator
	Meta    string   `json:"m,omitempty"`  // provenance of a single explicit input (kept for signatures)
}

func (j job) bounds() (from, to int) {
	to = j.To
	if to == 0 {
		to = j.nInputs() * nCells(j.Domain)
	}
	return j.From, to
}

func (j job) nInputs() int {
	switch {
	case j.Bomb != "":
		return 1
	case j.Hi > j.Lo:
		return j.Hi - j.Lo
	}
	return len(j.Inputs)
}

func (j job) input(i int) []byte {
	switch {
	case j.Bomb != "":
		return bombBytes(j.Bomb)
	case j.Hi > j.Lo:
		return append([]byte(j.Prefix), corpus.SigmaString(j.Lo+i)...)
	}
	return j.Inputs[i]
}

func bombBytes(spec string) []byte {
	var kind string
	var k int
	i := strings.LastIndex(spec, ":")
	kind = spec[:i]
	fmt.Sscan(spec[i+1:], &k)
	var s string
	switch kind {
	case "list-open":
		s = strings.Repeat("a1{", k)
	case "list-closed":
		s = strings.Repeat("a1{", k) + "n" + strings.Repeat("}", k)
	case "map-open":
		s = strings.Repeat("m1{", k)
	case "map-closed":
		s = strings.Repeat("m1{1", k) + "n" + strings.Repeat("}", k)
	case "svc-list-open":
		s = `Cs1"v"` + strings.Repeat("a1{", k)
	case "svc-list-closed":
		s = `Cs1"v"` + strings.Repeat("a1{", k) + "n" + strings.Repeat("}", k) + "z"
	case "cli-list-open":
		s = "R" + strings.Repeat("a1{", k)
	case "cli-list-closed":
		s = "R" + strings.Repeat("a1{", k) + "n" + strings.Repeat("}", k) + "z"
	default:
		panic("bomb " + spec)
	}
	return []byte(s)
}

// ---- worker ----

type violRec struct {
	Domain string   `json:"domain"`
	Cell   int      `json:"cell"`
	Name   string   `json:"cell_name"`
	Kind   string   `json:"kind"`
	Site   string   `json:"site,omitempty"`
	Msg    string   `json:"msg"`
	Input  []byte   `json:"input_base64"`
	Quoted string   `json:"input_quoted,omitempty"`
	Bomb   string   `json:"bomb,omitempty"`
	Meta   string   `json:"meta,omitempty"`
	Count  int64    `json:"count,omitempty"`
	Cells  []string `json:"cells,omitempty"`
}

type result struct {
	Inputs     int64            `json:"inputs"`
	NonTrivial int64            `json:"nontrivial"`
	Evals      int64            `json:"evals"`
	Subsumed   int64            `json:"subsumed"` // in-memory cells not run because their reader twin spins
	Remeasured int64            `json:"remeasured"`
	Out        map[string]int64 `json:"out"`
	Viol       []violRec        `json:"viol"`
	Sample     string           `json:"sample,omitempty"`
}

var (
	seq       atomic.Uint64
	busy      atomic.Bool
	curDomain string
	curCell   int
	curInput  []byte
)

func cpuNow() time.Duration {
	var ru syscall.Rusage
	syscall.Getrusage(syscall.RUSAGE_SELF, &ru)
	return time.Duration(ru.Utime.Nano() + ru.Stime.Nano())
}

func cpuBudget(n int) time.Duration { return 3*time.Second + time.Duration(n)*10*time.Microsecond }

// cpuWatchdog convicts an evaluation that has consumed more CPU time than the budget without returning
// (CPU time of this process, so machine load cannot trip it). It names the cell on stderr and exits; the
// coordinator reads the verdict from the failure record.
func cpuWatchdog() {
	var last uint64
	var stuck time.Duration
	lastCPU := cpuNow()
	for {
		time.Sleep(100 * time.Millisecond)
		s, c := seq.Load(), cpuNow()
		if busy.Load() && s == last {
			stuck += c - lastCPU
		} else {
			stuck = 0
		}
		last, lastCPU = s, c
		if stuck > cpuBudget(len(curInput)) {
			in := "(long)"
			if len(curInput) <= 200 {
				in = hex.EncodeToString(curInput)
			}
			fmt.Fprintf(os.Stderr, "\nC04-CPU-BUDGET domain=%s cell=%d input=%s cpu=%.1fs\n", curDomain, curCell, in, stuck.Seconds())
			os.Exit(7)
		}
	}
}

func guarded(domain string, cell int, input []byte, f func()) {
	curDomain, curCell, curInput = domain, cell, input
	seq.Add(1)
	f()
}

func quoted(b []byte) string {
	if len(b) > 120 {
		return fmt.Sprintf("%q... (%d bytes)", b[:120], len(b))
	}
	return fmt.Sprintf("%q", b)
}

var digitsRe = regexp.MustCompile(`[0-9]+`)

// msgClass reduces a panic message to its kind: numbers and type names vary with the input, the kind does not.
func msgClass(msg string) string {
	msg = strings.TrimPrefix(msg, "runtime error: ")
	for _, cut := range []string{"unhashable type", "interface conversion", "reflect.Set", "reflect: call of", "reflect:"} {
		if i := strings.Index(msg, cut); i >= 0 {
			msg = msg[:i+len(cut)]
		}
	}
	msg = digitsRe.ReplaceAllString(msg, "N")
	if len(msg) > 60 {
		msg = msg[:60]
	}
	return strings.ReplaceAll(strings.TrimSpace(msg), " ", "_")
}

func runJob(j job) result {
	res := result{Out: map[string]int64{}}
	byKey := map[string]int{}
	record := func(cell int, o outcome, input []byte) {
		key := o.Kind + "|" + o.Site + "|" + msgClass(o.Msg)
		name := cellName(j.Domain, cell)
		if i, ok := byKey[key]; ok {
			v := &res.Viol[i]
			v.Count++
			if len(v.Cells) < 200 {
				dup := false
				for _, c := range v.Cells {
					dup = dup || c == name
				}
				if !dup {
					v.Cells = append(v.Cells, name)
				}
			}
			if len(input) < len(v.Input) {
				v.Input, v.Quoted, v.Cell, v.Name, v.Msg = input, quoted(input), cell, name, o.Msg
			}
			return
		}
		byKey[key] = len(res.Viol)
		v := violRec{Domain: j.Domain, Cell: cell, Name: name, Kind: o.Kind, Site: o.Site, Msg: o.Msg, Input: input, Quoted: quoted(input),
			Meta: j.Meta, Bomb: j.Bomb, Count: 1, Cells: []string{name}}
		if j.Bomb != "" {
			v.Input = nil
		}
		res.Viol = append(res.Viol, v)
	}
	inputs := inputsOf(j)
	busy.Store(true)
	defer busy.Store(false)
	for ii, input := range inputs {
		if j.Cell >= 0 {
			// single cell, exact allocation accounting
			var o outcome
			var alloc uint64
			guarded(j.Domain, j.Cell, input, func() { o, alloc = runCellMeasured(j.Domain, j.Cell, input) })
			res.Evals++
			if (o.Kind == "ok" || o.Kind == "error") && alloc > allocBound(len(input)) {
				o = outcome{Kind: "over-allocation", Msg: fmt.Sprintf("allocated %d bytes decoding %d bytes (bound %d)", alloc, len(input), allocBound(len(input)))}
			}
			res.Out[o.Kind]++
			if o.Kind != "ok" && o.Kind != "error" {
				record(j.Cell, o, input)
			}
			continue
		}
		res.Inputs++
		if len(input) >= 2 {
			res.NonTrivial++
		}
		hist := map[string]int{}
		n := nCells(j.Domain)
		ran := make([]bool, n)
		before := allocApprox()
		spun := [2]bool{}
		for cell := 0; cell < n; cell++ {
			if j.Domain == "io" {
				v := cell % len(ioVariants)
				if v == 0 {
					spun = [2]bool{}
				}
				if v >= 2 && spun[v%2] {
					res.Subsumed++ // the reader twin of this (destination, mode) spins: see the assumptions
					continue
				}
			}
			var o outcome
			guarded(j.Domain, cell, input, func() { o = runCell(j.Domain, cell, input) })
			res.Evals++
			ran[cell] = o.Kind == "ok" || o.Kind == "error"
			res.Out[o.Kind]++
			hist[o.Kind]++
			if o.Kind == "spin" {
				spun[cell%len(ioVariants)%2] = true
			}
			if o.Kind != "ok" && o.Kind != "error" {
				record(cell, o, input)
			}
		}
		if delta := allocApprox() - before; delta > allocBound(len(input))/2 {
			// the batch allocated enough that one evaluation might be over the bound: measure each exactly
			for cell := 0; cell < n; cell++ {
				if !ran[cell] {
					continue
				}
				res.Remeasured++
				var o outcome
				var alloc uint64
				guarded(j.Domain, cell, input, func() { o, alloc = runCellMeasured(j.Domain, cell, input) })
				if (o.Kind == "ok" || o.Kind == "error") && alloc > allocBound(len(input)) {
					record(cell, outcome{Kind: "over-allocation", Msg: fmt.Sprintf("allocated %d bytes decoding %d bytes (bound %d)", alloc, len(input), allocBound(len(input)))}, input)
					res.Out["over-allocation"]++
				}
			}
		}
		if ii == len(inputs)/2 {
			var ks []string
			for k, c := range hist {
				ks = append(ks, fmt.Sprintf("%s x%d", k, c))
			}
			sort.Strings(ks)
			res.Sample = fmt.Sprintf("%s %s -> %s", j.Domain, quoted(input), strings.Join(ks, ", "))
		}
	}
	return res
}

// ---- the enumerated spaces ----

type spaces struct {
	jobs      []job // round 1: bulk jobs and the first stage of the huge-count cells
	corpusN   int
	info      map[string]interface{}
	risky     int64 // distinct huge-count / bomb inputs (they only ever run as single-cell jobs)
	riskyNT   int64
	explicitN map[string]int
}

func chunk(domain string, in [][]byte, size int) []job {
	var out []job
	for i := 0; i < len(in); i += size {
		j := i + size
		if j > len(in) {
			j = len(in)
		}
		out = append(out, job{Domain: domain, Inputs: in[i:j], Cell: -1})
	}
	return out
}

func sigmaJobs(domain, prefix string, maxLen, size int) []job {
	var out []job
	n := corpus.SigmaCount(maxLen)
	for lo := 0; lo < n; lo += size {
		hi := lo + size
		if hi > n {
			hi = n
		}
		out = append(out, job{Domain: domain, Prefix: prefix, Lo: lo, Hi: hi, Cell: -1})
	}
	return out
}

var svcPrefixes = []string{"C", `Cs1"f"`, `Cs1"g"`, `Cs1"v"`, `Cs1"h"`, `Cs1"k"`, "H"}
var cliPrefixes = []string{"R", "E", "H"}

func validRequests() [][]byte {
	type call struct {
		name   string
		args   []interface{}
		simple bool
		header string
	}
	in := gen.Inner{A: 1, B: "x"}
	calls := []call{
		{name: "f", args: []interface{}{1}}, {name: "f", args: []interface{}{2147483648}}, {name: "f", args: []interface{}{"12"}},
		{name: "g", args: []interface{}{"ab", []int{1, 2}}}, {name: "g", args: []interface{}{"你", []int(nil)}},
		{name: "v"}, {name: "v", args: []interface{}{1, "ab", nil, 1.5, true}}, {name: "v", args: []interface{}{"ab", "ab"}},
		{name: "v", args: []interface{}{[]interface{}{1, []int{2}}, map[string]interface{}{"k": 1}}},
		{name: "h", args: []interface{}{in}}, {name: "h", args: []interface{}{&in}}, {name: "h", args: []interface{}{map[string]interface{}{"a": 1}}},
		{name: "k", args: []interface{}{map[string]interface{}{"a": 1}, [2]int{1, 2}, &in}}, {name: "k", args: []interface{}{nil, []int{1}, nil}},
		{name: "~"}, {name: "nosuch", args: []interface{}{1}}, {name: "F", args: []interface{}{1}},
		{name: "f", args: []interface{}{1}, simple: true}, {name: "v", args: []interface{}{"ab", "ab"}, simple: true}, {name: "h", args: []interface{}{in}, simple: true},
		{name: "g", args: []interface{}{"ab", []int{1}}, header: "id"},
	}
	var out [][]byte
	for _, c := range calls {
		cc := core.NewClientContext()
		if c.header != "" {
			cc.RequestHeaders().Set(c.header, 7)
		}
		b, err := core.NewClientCodec(core.WithSimple(c.simple)).Encode(c.name, c.args, cc)
		if err != nil {
			panic(err)
		}
		out = append(out, append([]byte(nil), b...))
	}
	return out
}

func validResponses() [][]byte {
	in := gen.Inner{A: 1, B: "x"}
	type resp struct {
		v      interface{}
		simple bool
	}
	rs := []resp{
		{v: 1}, {v: "ab"}, {v: []int{1, 2}}, {v: in}, {v: &in}, {v: map[string]interface{}{"k": 1}}, {v: nil}, {v: 1.5},
		{v: errors.New("boom")}, {v: errors.New("timeout")}, {v: []interface{}{"ab", 1, []int{1, 2}}}, {v: []interface{}{"ab"}},
		{v: []string{"ab", "ab"}}, {v: 1, simple: true}, {v: in, simple: true}, {v: []interface{}{"ab", 1, []int{1, 2}}, simple: true},
	}
	var out [][]byte
	for _, r := range rs {
		b, err := core.NewServiceCodec(core.WithSimple(r.simple)).Encode(r.v, core.NewServiceContext(services[0]))
		if err != nil {
			panic(err)
		}
		out = append(out, append([]byte(nil), b...))
	}
	return out
}

func coveredBySigma(b []byte, prefixes []string, maxLen int) bool {
	for _, p := range prefixes {
		if strings.HasPrefix(string(b), p) && len(b)-len(p) <= maxLen && corpus.OverSigma(b[len(p):]) {
			return true
		}
	}
	return false
}

func build(thorough bool) spaces {
	sp := spaces{info: map[string]interface{}{}, explicitN: map[string]int{}}
	maxLen, ins := 3, corpus.SigmaIns
	if thorough {
		maxLen, ins = 4, corpus.Sigma
	}
	cs := corpus.Build(gen.NewAlphabet(), 40, 1)
	sp.corpusN = len(cs)
	numSub := corpus.FirstPer(cs, corpus.TagSet)
	if thorough {
		numSub = corpus.FirstPer(cs, corpus.TagSeq)
	}
	inSub := map[string]bool{}
	for _, s := range numSub {
		inSub[string(s.Bytes)] = true
	}
	type riskyIn struct {
		b    []byte
		meta string
	}
	explicit := func(domain string, valid [][]byte, sub func([]byte) bool, prefixes []string) ([][]byte, []riskyIn) {
		seen := map[string]bool{}
		var out [][]byte
		var risky []riskyIn
		var nMut, nNum, nHugeSkipped int
		add := func(b []byte) bool {
			if seen[string(b)] || coveredBySigma(b, prefixes, maxLen) {
				return false
			}
			seen[string(b)] = true
			out = append(out, b)
			return true
		}
		for _, s := range valid {
			add(s)
			for _, m := range corpus.Mutations(s, ins) {
				if add(m) {
					nMut++
				}
			}
			for _, m := range corpus.NumMutations(s) {
				if corpus.Huge(m.Value) {
					if !sub(s) {
						nHugeSkipped++
						continue
					}
					if !seen[string(m.Bytes)] {
						seen[string(m.Bytes)] = true
						risky = append(risky, riskyIn{m.Bytes, fmt.Sprintf("count-of=%c value=%s", m.Tag, m.Value)})
					}
					continue
				}
				if add(m.Bytes) {
					nNum++
				}
			}
		}
		sp.info[domain+"_valid_streams"] = len(valid)
		sp.info[domain+"_single_edit_mutants"] = nMut
		sp.info[domain+"_numeric_mutants_small"] = nNum
		sp.info[domain+"_numeric_mutants_huge"] = len(risky)
		sp.explicitN[domain] = len(out)
		return out, risky
	}
	addRisky := func(domain string, r riskyIn, cells []int) {
		sp.risky++
		if len(r.b) >= 2 {
			sp.riskyNT++
		}
		for _, c := range cells {
			sp.jobs = append(sp.jobs, job{Domain: domain, Inputs: [][]byte{r.b}, Cell: c, Meta: r.meta})
		}
	}

	// io domain
	var valid [][]byte
	for _, s := range cs {
		valid = append(valid, s.Bytes)
	}
	ioIn, ioRisky := explicit("io", valid, func(b []byte) bool { return inSub[string(b)] }, []string{""})
	sp.jobs = append(sp.jobs, sigmaJobs("io", "", maxLen, 400)...)
	sp.jobs = append(sp.jobs, chunk("io", ioIn, 300)...)
	var readerCells []int // stage one of a huge-count input: the reader variants; the coder variants follow per cell
	for d := range dests {
		readerCells = append(readerCells, d*len(ioVariants)+0, d*len(ioVariants)+1)
	}
	for _, r := range ioRisky {
		addRisky("io", r, readerCells)
	}
	sp.info["io_numeric_huge_subcorpus_streams"] = len(numSub)

	// rpc domains: huge-count mutants of every third valid message in the quick tier, of all in thorough
	nth := func(all [][]byte) func([]byte) bool {
		keep := map[string]bool{}
		for i, b := range all {
			if thorough || i%3 == 0 {
				keep[string(b)] = true
			}
		}
		return func(b []byte) bool { return keep[string(b)] }
	}
	all := func(n int) []int {
		out := make([]int, n)
		for i := range out {
			out[i] = i
		}
		return out
	}
	reqs := validRequests()
	svcIn, svcRisky := explicit("svc", reqs, nth(reqs), svcPrefixes)
	for _, p := range svcPrefixes {
		sp.jobs = append(sp.jobs, sigmaJobs("svc", p, maxLen, 4000)...)
	}
	sp.jobs = append(sp.jobs, chunk("svc", svcIn, 2000)...)
	for _, r := range svcRisky {
		addRisky("svc", r, all(len(services)))
	}
	resps := validResponses()
	cliIn, cliRisky := explicit("cli", resps, nth(resps), cliPrefixes)
	for _, p := range cliPrefixes {
		sp.jobs = append(sp.jobs, sigmaJobs("cli", p, maxLen, 4000)...)
	}
	sp.jobs = append(sp.jobs, chunk("cli", cliIn, 2000)...)
	for _, r := range cliRisky {
		addRisky("cli", r, all(len(cliReturn)))
	}

	// nesting bombs: one worker per cell
	depths := []int{10, 100, 1000, 10000, 100000}
	nb := 0
	for _, k := range depths {
		for _, kind := range []string{"list-open", "list-closed", "map-open", "map-closed"} {
			nb++
			sp.risky++
			sp.riskyNT++
			for c := 0; c < nCells("io"); c++ {
				sp.jobs = append(sp.jobs, job{Domain: "io", Bomb: fmt.Sprintf("%s:%d", kind, k), Cell: c})
			}
		}
		for _, kind := range []string{"svc-list-open", "svc-list-closed"} {
			nb++
			sp.risky++
			sp.riskyNT++
			for c := 0; c < nCells("svc"); c++ {
				sp.jobs = append(sp.jobs, job{Domain: "svc", Bomb: fmt.Sprintf("%s:%d", kind, k), Cell: c})
			}
		}
		for _, kind := range []string{"cli-list-open", "cli-list-closed"} {
			nb++
			sp.risky++
			sp.riskyNT++
			for c := 0; c < nCells("cli"); c++ {
				sp.jobs = append(sp.jobs, job{Domain: "cli", Bomb: fmt.Sprintf("%s:%d", kind, k), Cell: c})
			}
		}
	}
	sp.info["sigma_symbols"] = len(corpus.Sigma)
	sp.info["sigma_max_length"] = maxLen
	sp.info["sigma_strings"] = corpus.SigmaCount(maxLen)
	sp.info["sigma_prefixes_svc"] = svcPrefixes
	sp.info["sigma_prefixes_cli"] = cliPrefixes
	sp.info["insertion_symbols"] = len(ins)
	sp.info["nesting_bombs"] = nb
	sp.info["nesting_depths"] = depths
	sp.info["io_destinations"] = len(dests)
	sp.info["io_entry_variants"] = ioVariants
	sp.info["svc_cells"] = len(services)
	sp.info["cli_cells"] = len(cliReturn)
	return sp
}

// ---- coordinator ----

type agg struct {
	sig     string
	count   int64
	cells   map[string]bool
	domains map[string]bool
	rep     violRec
}

func better(a, b violRec) bool { // a is a better representative than b
	la, lb := len(a.Input), len(b.Input)
	if a.Bomb != "" || b.Bomb != "" {
		return a.Bomb != "" && (b.Bomb == "" || len(a.Bomb) < len(b.Bomb) || len(a.Bomb) == len(b.Bomb) && a.Bomb < b.Bomb)
	}
	if la != lb {
		return la < lb
	}
	if c := strings.Compare(string(a.Input), string(b.Input)); c != 0 {
		return c < 0
	}
	if a.Domain != b.Domain {
		return a.Domain < b.Domain
	}
	return a.Cell < b.Cell
}

func metaCount(meta string) string {
	if i := strings.Index(meta, "count-of="); i >= 0 {
		return "|" + meta[i:i+len("count-of=")+1]
	}
	return ""
}

func signature(v violRec) string {
	switch v.Kind {
	case "panic":
		return fmt.Sprintf("C04|panic|at=%s|%s", v.Site, msgClass(v.Msg))
	case "spin":
		return "C04|unbounded-loop|at=" + v.Site
	case "out-of-memory":
		return "C04|out-of-memory|at=" + v.Site
	case "over-allocation":
		return "C04|over-allocation|" + v.Domain + ":" + shortCell(v)
	case "stack-overflow", "cpu-budget", "hang-watchdog":
		what := shortCell(v) + metaCount(v.Meta)
		if v.Bomb != "" {
			what += "|bomb=" + v.Bomb[:strings.LastIndex(v.Bomb, ":")]
		}
		return fmt.Sprintf("C04|%s|%s:%s", v.Kind, v.Domain, what)
	}
	return fmt.Sprintf("C04|%s|at=%s|%s", v.Kind, v.Site, msgClass(v.Msg))
}

func shortCell(v violRec) string {
	if v.Domain == "io" {
		return dests[v.Cell/len(ioVariants)].String()
	}
	if v.Domain == "svc" {
		return []string{"functions", "missing-method"}[v.Cell]
	}
	return strings.TrimPrefix(v.Name, "client returning ")
}

// classify turns the death of a single-cell job into a violation record.
func classify(j job, f *shard.Failure) violRec {
	in := inputsOf(j)[0]
	v := violRec{Domain: j.Domain, Cell: j.Cell, Name: cellName(j.Domain, j.Cell), Input: in, Quoted: quoted(in), Meta: j.Meta, Bomb: j.Bomb, Count: 1}
	if j.Bomb != "" {
		v.Input = nil
	}
	v.Cells = []string{v.Name}
	se := f.Stderr
	firstLine := func(marker string) string {
		if i := strings.Index(se, marker); i >= 0 {
			l := se[i:]
			if k := strings.Index(l, "\n"); k >= 0 {
				l = l[:k]
			}
			return l
		}
		return ""
	}
	switch {
	case strings.Contains(se, "C04-CPU-BUDGET"):
		v.Kind, v.Msg = "cpu-budget", "the evaluation did not return within its CPU budget: "+firstLine("C04-CPU-BUDGET")
	case f.Kind == "timeout":
		v.Kind, v.Msg = "hang-watchdog", f.Exit
	case strings.Contains(se, "out of memory") || strings.Contains(se, "cannot allocate memory"):
		v.Kind, v.Msg, v.Site = "out-of-memory", "the process died under ulimit -v 2 GiB: "+firstLine("runtime: out of memory")+firstLine("runtime: cannot allocate"), iocase.PanicSite(se)
	case strings.Contains(se, "stack overflow") || strings.Contains(se, "stack exceeds"):
		v.Kind, v.Msg = "stack-overflow", "the process died: "+firstLine("runtime: goroutine stack exceeds")
	default:
		msg := firstLine("fatal error:")
		if msg == "" {
			msg = firstLine("panic:")
		}
		if msg == "" {
			msg = firstLine("SIG")
		}
		v.Kind, v.Msg, v.Site = "process-death", f.Exit+": "+msg, iocase.PanicSite(se)
	}
	return v
}

func main() {
	thorough := report.Tier() == "thorough"
	iocase.Init()
	setupRPC()
	if shard.IsWorker() {
		go cpuWatchdog()
		shard.Serve(func(raw json.RawMessage) interface{} {
			var j job
			if err := json.Unmarshal(raw, &j); err != nil {
				return map[string]string{"error": err.Error()}
			}
			return runJob(j)
		})
	}
	if len(os.Args) > 2 && os.Args[1] == "--replay" {
		replay(os.Args[2])
		return
	}
	run := report.New(ID, "exploration")
	sp := build(thorough)

	aggs := map[string]*agg{}
	addViol := func(v violRec) {
		sig := signature(v)
		a := aggs[sig]
		if a == nil {
			a = &agg{sig: sig, cells: map[string]bool{}, domains: map[string]bool{}, rep: v}
			aggs[sig] = a
		} else if better(v, a.rep) {
			a.rep = v
		}
		a.count += v.Count
		a.domains[v.Domain] = true
		for _, c := range v.Cells {
			if len(a.cells) < 400 {
				a.cells[c] = true
			}
		}
	}
	var inputs, nontrivial, evals, subsumed, remeasured, deaths, splits int64
	inputs, nontrivial = sp.risky, sp.riskyNT
	out := map[string]int64{}
	samples := report.NewSamples(16)
	pending := sp.jobs
	rounds := 0
	for len(pending) > 0 {
		rounds++
		cur := pending
		pending = nil
		jobs := make([]interface{}, len(cur))
		for i := range cur {
			jobs[i] = cur[i]
		}
		shard.Run(jobs, shard.Options{JobTimeout: 120 * time.Second, MemLimitKB: memLimitKB}, func(i int, raw json.RawMessage, fail *shard.Failure) {
			j := cur[i]
			stageOne := j.Domain == "io" && j.Cell >= 0 && j.Bomb == "" && j.Cell%len(ioVariants) < 2
			spun := false
			if fail != nil {
				switch {
				case j.Cell >= 0:
					deaths++
					evals++
					v := classify(j, fail)
					out[v.Kind]++
					addViol(v)
				case len(inputsOf(j)) > 1:
					splits++
					for _, in := range inputsOf(j) {
						pending = append(pending, job{Domain: j.Domain, Inputs: [][]byte{in}, Cell: -1})
					}
				default:
					splits++
					inputs++ // this input is now counted here: its all-cells job never reported
					if len(inputsOf(j)[0]) >= 2 {
						nontrivial++
					}
					for c := 0; c < nCells(j.Domain); c++ {
						pending = append(pending, job{Domain: j.Domain, Inputs: j.Inputs, Cell: c, Meta: "split"})
					}
				}
			} else {
				var r result
				if err := json.Unmarshal(raw, &r); err != nil || r.Out == nil {
					run.Infra("bad worker result: " + string(raw))
					return
				}
				inputs += r.Inputs
				nontrivial += r.NonTrivial
				evals += r.Evals
				subsumed += r.Subsumed
				remeasured += r.Remeasured
				for k, c := range r.Out {
					out[k] += c
				}
				for _, v := range r.Viol {
					addViol(v)
					spun = spun || v.Kind == "spin"
				}
				if r.Sample != "" && i%(len(cur)/16+1) == 0 {
					samples.Add(r.Sample)
				}
			}
			if stageOne && j.Meta != "split" {
				// second stage of a huge-count cell: the in-memory twin, unless the reader twin spins
				if spun {
					subsumed++
				} else {
					pending = append(pending, job{Domain: "io", Inputs: j.Inputs, Cell: j.Cell + 2, Meta: j.Meta})
				}
			}
		})
	}

	// every signature's representative once more in a fresh worker; for a spinning reader twin also the
	// in-memory twin that was not run, under the CPU budget
	var sigs []string
	for s := range aggs {
		sigs = append(sigs, s)
	}
	sort.Strings(sigs)
	var confirm []job
	var confirmSig []string
	for _, s := range sigs {
		a := aggs[s]
		in := [][]byte{a.rep.Input}
		if a.rep.Bomb != "" {
			in = nil
		}
		confirm = append(confirm, job{Domain: a.rep.Domain, Inputs: in, Bomb: a.rep.Bomb, Cell: a.rep.Cell, Meta: a.rep.Meta})
		confirmSig = append(confirmSig, s)
		if a.rep.Kind == "spin" {
			confirm = append(confirm, job{Domain: a.rep.Domain, Inputs: in, Cell: a.rep.Cell + 2, Meta: "in-memory-twin"})
			confirmSig = append(confirmSig, s)
		}
	}
	isolated := map[string]string{}
	twin := map[string]string{}
	if len(confirm) > 0 {
		jobs := make([]interface{}, len(confirm))
		for i := range confirm {
			jobs[i] = confirm[i]
		}
		shard.Run(jobs, shard.Options{JobTimeout: 120 * time.Second, MemLimitKB: memLimitKB}, func(i int, raw json.RawMessage, fail *shard.Failure) {
			verdict := "no violation"
			if fail != nil {
				v := classify(confirm[i], fail)
				verdict = v.Kind + ": " + v.Msg
			} else {
				var r result
				json.Unmarshal(raw, &r)
				if len(r.Viol) > 0 {
					verdict = r.Viol[0].Kind + ": " + r.Viol[0].Msg
				}
			}
			if confirm[i].Meta == "in-memory-twin" {
				twin[confirmSig[i]] = verdict
				if verdict == "no violation" {
					run.Infra("the in-memory twin of a spinning reader-fed decode returned normally; skipping in-memory cells is not justified for " + confirmSig[i])
				}
			} else {
				isolated[confirmSig[i]] = verdict
			}
		})
	}
	for _, s := range sigs {
		a := aggs[s]
		cells := corpus.SortedKeys(a.cells)
		if len(cells) > 40 {
			cells = append(cells[:40], fmt.Sprintf("... (%d cells)", len(a.cells)))
		}
		what := fmt.Sprintf("%s [input %s%s; cell: %s; %d evaluations in %d cells of domains %v fail this way; cells: %s; alone in a fresh process: %s",
			a.rep.Msg, a.rep.Quoted, map[bool]string{true: " " + a.rep.Bomb, false: ""}[a.rep.Bomb != ""], a.rep.Name, a.count, len(a.cells),
			corpus.SortedKeys(a.domains), strings.Join(cells, "; "), isolated[s])
		if t, ok := twin[s]; ok {
			what += "; in-memory twin of the same cell: " + t
		}
		what += "]"
		run.Violate(s, what, a.rep)
		for k := int64(1); k < a.count && k < 1000000; k++ {
			run.Violate(s, "", nil)
		}
	}
	run.Set("evaluations", evals)
	run.Set("distinct_nontrivial", nontrivial)
	run.Set("distinct_inputs", inputs)
	run.Set("rule", "one evaluation = one (byte string, cell) decode, a cell being destination type x entry variant (io), service (svc) or return-type list (cli); byte strings are deduplicated across families before they are distributed, so every counted input is distinct within its domain; distinct_nontrivial counts the distinct inputs of at least 2 bytes")
	run.Set("samples", samples.List())
	run.Set("exhaustive", true)
	run.Set("outcomes", out)
	run.Set("inmemory_cells_subsumed_by_spinning_reader_twin", subsumed)
	run.Set("cells_remeasured_exactly_for_allocation", remeasured)
	run.Set("worker_deaths_convicting_one_cell", deaths)
	run.Set("jobs_split_after_worker_death", splits)
	run.Set("rounds", rounds)
	run.Set("signatures", len(sigs))
	run.Set("in_memory_twin_confirmations", twin)
	sp.info["io_explicit_inputs"] = sp.explicitN["io"]
	sp.info["svc_explicit_inputs"] = sp.explicitN["svc"]
	sp.info["cli_explicit_inputs"] = sp.explicitN["cli"]
	sp.info["corpus_streams"] = sp.corpusN
	run.Set("space", sp.info)
	run.Assumption("scope hypothesis: a decoder defect reachable from untrusted bytes shows on a string of at most the stated length over the tag alphabet, on a single-byte edit or a count/length/index replacement of a short valid stream, or on a nesting bomb")
	run.Assumption("a reader-fed decode that asks for more data more than 100000 + 256 x len times after io.EOF is convicted as an unbounded loop; the in-memory variants of that (input, destination, mode) are then not run (they differ only in loadMore and would burn the CPU budget); one in-memory twin per signature is run under the CPU budget to confirm, and a twin that returns normally is an infrastructure error")
	run.Assumption("workers run under ulimit -v 2 GiB: an allocation the address space cannot satisfy kills the worker and convicts the one cell it was running; smaller over-allocations are measured (TotalAlloc delta against 1 MiB + 256 x len)")
	run.Assumption("time oracle: 3 s of process CPU time per evaluation (inputs are at most a few hundred bytes, bombs get 10 us per byte more) and a 120 s wall-clock watchdog per job; nothing below that is judged by the clock")
	run.Finish()
}

func replay(path string) {
	_, raw := report.LoadReplay(path)
	var v violRec
	if err := json.Unmarshal(raw, &v); err != nil {
		fmt.Fprintln(os.Stderr, err)
		os.Exit(2)
	}
	j := job{Domain: v.Domain, Cell: v.Cell, Bomb: v.Bomb, Meta: v.Meta}
	if v.Bomb == "" {
		j.Inputs = [][]byte{v.Input}
	}
	fmt.Printf("domain %s cell %d (%s) input %s %s\n", v.Domain, v.Cell, cellName(v.Domain, v.Cell), v.Quoted, v.Bomb)
	verdict := ""
	shard.Run([]interface{}{j}, shard.Options{Workers: 1, JobTimeout: 120 * time.Second, MemLimitKB: memLimitKB}, func(i int, raw json.RawMessage, fail *shard.Failure) {
		if fail != nil {
			c := classify(j, fail)
			verdict = c.Kind + ": " + c.Msg + " at " + c.Site
			return
		}
		var r result
		json.Unmarshal(raw, &r)
		if len(r.Viol) > 0 {
			verdict = r.Viol[0].Kind + ": " + r.Viol[0].Msg + " at " + r.Viol[0].Site
		}
	})
	if verdict != "" {
		fmt.Printf("REPRODUCED %s\n", verdict)
		fmt.Printf("VIOLATION property=%s replay=%s\n", ID, path)
		os.Exit(1)
	}
	fmt.Println("not reproduced")
	os.Exit(0)
}
