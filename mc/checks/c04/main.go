package main

import (
	"fmt"
	"verif/mc/corpus"
	"verif/mc/gen"
	"verif/mc/iocase"
)

func skel(s []byte) string {
	var out []byte
	for i := 0; i < len(s); i++ {
		c := s[i]
		switch {
		case c >= '0' && c <= '9':
			if len(out) == 0 || out[len(out)-1] != '#' {
				out = append(out, '#')
			}
		case c == '"':
			out = append(out, '"')
			i++
			for i < len(s) && s[i] != '"' {
				i++
			}
			out = append(out, '"')
		default:
			out = append(out, c)
		}
	}
	return string(out)
}
func tags(s []byte) string {
	var out []byte
	for _, r := range corpus.NumRuns(s) {
		out = append(out, r.Tag)
	}
	return string(out)
}

func main() {
	iocase.Init()
	a := gen.NewAlphabet()
	c := corpus.Build(a, 40, 1)
	sk := map[string]bool{}
	tg := map[string]bool{}
	nh, nhq := 0, 0
	for _, s := range c {
		k := skel(s.Bytes)
		if !sk[k] {
			sk[k] = true
			for _, m := range corpus.NumMutations(s.Bytes) {
				if corpus.Huge(m.Value) {
					nh++
				}
			}
		}
		k2 := tags(s.Bytes)
		if !tg[k2] {
			tg[k2] = true
			fmt.Printf("%q %q\n", k2, s.Bytes)
			for _, m := range corpus.NumMutations(s.Bytes) {
				if corpus.Huge(m.Value) {
					nhq++
				}
			}
		}
	}
	fmt.Println(len(c), "skeletons", len(sk), "huge", nh, "tagsigs", len(tg), "huge", nhq)
}
