// C04 — decoding untrusted bytes never crashes, hangs or over-allocates. Bounded-exhaustive enumeration of
// byte strings (every string over the decoder's tag alphabet up to a length bound; the complete single-edit
// neighbourhood of a corpus of valid streams; grammar-aware replacement of every count, length and index;
// nesting bombs) x destination types x modes x entry points (reader-fed and in-memory Unmarshal, service
// request handling, client response decoding). Oracle: no panic, no process death, no loop that outlives
// its input (post-EOF read count, CPU budget), allocation <= 1 MiB + 256 x len(input).
package main

import (
	"encoding/binary"
	"encoding/json"
	"errors"
	"fmt"
	"os"
	"path/filepath"
	"regexp"
	"sort"
	"strings"
	"sync/atomic"
	"syscall"
	"time"

	"github.com/hprose/hprose-golang/v3/rpc/core"
	"verif/lib/report"
	"verif/lib/shard"
	"verif/mc/corpus"
	"verif/mc/gen"
	"verif/mc/iocase"
)

const ID = "C04"

// Workers run under ulimit -v 3 GiB. A Go process reserves about 1.6 GiB of address space before it has
// allocated anything, so an evaluation has about 1.3 GiB to itself (see retireAbove): several times what the
// deepest nesting bomb needs, and little enough that an allocation of 2^31 bytes or elements fails at once
// instead of being zeroed, collected and zeroed again.
const memLimitKB = 3 << 20

// ---- jobs ----

// A job is a range [From, To) of the linearised evaluations index = input number x cells + cell over its
// inputs (To = 0: everything). A worker that dies leaves the index it was evaluating in its journal, so the
// coordinator convicts exactly that evaluation and re-issues the rest of the range.
type job struct {
	ID      uint64   `json:"id"`
	Domain  string   `json:"d"`
	Prefix  string   `json:"p,omitempty"` // Sigma family: the inputs are Prefix + SigmaString(i), Lo <= i < Hi
	Lo      int      `json:"lo,omitempty"`
	Hi      int      `json:"hi,omitempty"`
	Inputs  [][]byte `json:"in,omitempty"` // explicit inputs
	Bomb    string   `json:"b,omitempty"`  // generated input "kind:depth"
	From    int      `json:"from,omitempty"`
	To      int      `json:"to,omitempty"`
	Exact   bool     `json:"x,omitempty"`  // measure the allocation of every evaluation exactly
	NoCount bool     `json:"nc,omitempty"` // the inputs of this job are counted by the coordinator
	Meta    string   `json:"m,omitempty"`  // provenance of a single explicit input (kept for signatures)
}

func (j job) bounds() (from, to int) {
	to = j.To
	if to == 0 {
		to = j.nInputs() * nCells(j.Domain)
	}
	return j.From, to
}

func (j job) nInputs() int {
	switch {
	case j.Bomb != "":
		return 1
	case j.Hi > j.Lo:
		return j.Hi - j.Lo
	}
	return len(j.Inputs)
}

func (j job) input(i int) []byte {
	switch {
	case j.Bomb != "":
		return bombBytes(j.Bomb)
	case j.Hi > j.Lo:
		return append([]byte(j.Prefix), corpus.SigmaString(j.Lo+i)...)
	}
	return j.Inputs[i]
}

// abyss: a nesting depth at which unbounded recursion of the decoder (about 200-700 bytes of stack per level)
// runs into the runtime's 1 GB limit for a goroutine stack: a fatal error that no recover catches.
const abyss = 6000000

func bombBytes(spec string) []byte {
	var k int
	i := strings.LastIndex(spec, ":")
	kind := spec[:i]
	fmt.Sscan(spec[i+1:], &k)
	var s string
	switch kind {
	case "list-open":
		s = strings.Repeat("a1{", k)
	case "list-closed":
		s = strings.Repeat("a1{", k) + "n" + strings.Repeat("}", k)
	case "map-open":
		s = strings.Repeat("m1{", k)
	case "map-closed":
		s = strings.Repeat("m1{1", k) + "n" + strings.Repeat("}", k)
	case "classdefs-open", "svc-classdefs-open", "cli-classdefs-open": // class definitions in front of a value that never comes
		if k >= abyss {
			k /= 3 // a level of this recursion took about a kilobyte of stack: two million levels are the abyss here
		}
		s = map[string]string{"classdefs-open": "", "svc-classdefs-open": "C", "cli-classdefs-open": "R"}[kind] + strings.Repeat(`c""{}`, k)
	case "many-references-to-one-string": // a string of 8 KiB and k references to it (into bytes each one is converted)
		s = fmt.Sprintf("a%d{s8192\"%s\"%s}", k+1, strings.Repeat("x", 8192), strings.Repeat("r1;", k))
	case "ref-shared-maps":
		// the "ref" domain's shape (a value under "a", a back-reference to it under "b"), the value a map of k
		// maps each of which refers twice to the one before: linear to read, 2^k paths to anything that walks
		// it by value (a conversion of the referred item into the typed field that copies what it shares)
		var b strings.Builder
		fmt.Fprintf(&b, "m2{uam%d{i1;m1{uan}", k)
		for j := 2; j <= k; j++ {
			fmt.Fprintf(&b, "i%d;m2{uar%d;ubr%d;}", j, j, j)
		}
		b.WriteString("}ubr1;}")
		s = b.String()
	case "error-tags": // an error tag whose message is an error tag whose message ...
		s = strings.Repeat("E", k)
	case "classdefs-after-an-error": // a class definition with a negative field count, then definitions without end
		if k >= abyss {
			k /= 3
		}
		s = `c1"A"-1{}` + strings.Repeat(`c""{}`, k)
	case "wide-list-open": // every level announces ten million elements
		s = strings.Repeat("a9999999{", k)
	case "wide-map-open":
		s = strings.Repeat("m9999999{", k)
	case "wide-object-open": // a class of k/4 fields (minimum 8), then objects of it nested k deep
		n := k / 4
		if n < 8 {
			n = 8
		}
		var b strings.Builder
		fmt.Fprintf(&b, `c1"W"%d{`, n)
		for i := 0; i < n; i++ {
			b.WriteString("uf")
		}
		b.WriteString("}")
		b.WriteString(strings.Repeat("o0{", k))
		s = b.String()
	case "svc-wide-list-open":
		s = `Cs1"v"` + strings.Repeat("a9999999{", k)
	case "cli-wide-list-open":
		s = "R" + strings.Repeat("a9999999{", k)
	case "svc-list-open":
		s = `Cs1"v"` + strings.Repeat("a1{", k)
	case "svc-list-closed":
		s = `Cs1"v"` + strings.Repeat("a1{", k) + "n" + strings.Repeat("}", k) + "z"
	case "cli-list-open":
		s = "R" + strings.Repeat("a1{", k)
	case "cli-list-closed":
		s = "R" + strings.Repeat("a1{", k) + "n" + strings.Repeat("}", k) + "z"
	default:
		panic("bomb " + spec)
	}
	return []byte(s)
}

// ---- worker ----

type violRec struct {
	Domain string   `json:"domain"`
	Cell   int      `json:"cell"`
	Name   string   `json:"cell_name"`
	Kind   string   `json:"kind"`
	Site   string   `json:"site,omitempty"`
	Msg    string   `json:"msg"`
	Input  []byte   `json:"input_base64"`
	Quoted string   `json:"input_quoted,omitempty"`
	Bomb   string   `json:"bomb,omitempty"`
	Meta   string   `json:"meta,omitempty"`
	Count  int64    `json:"count,omitempty"`
	Cells  []string `json:"cells,omitempty"`
}

type result struct {
	Inputs     int64            `json:"inputs"`
	NonTrivial int64            `json:"nontrivial"`
	Evals      int64            `json:"evals"`
	Subsumed   int64            `json:"subsumed"` // in-memory evaluations not run because their reader twin spins
	Remeasured int64            `json:"remeasured"`
	Out        map[string]int64 `json:"out"`
	Viol       []violRec        `json:"viol"`
	Sample     string           `json:"sample,omitempty"`
	Retired    int64            `json:"retired,omitempty"` // times the worker replaced its process image during this job
	Ms         int64            `json:"ms,omitempty"`
}

// merge adds the results of the rest of a job to the part done before the worker replaced itself.
func (r *result) merge(o result) {
	r.Inputs += o.Inputs
	r.NonTrivial += o.NonTrivial
	r.Evals += o.Evals
	r.Subsumed += o.Subsumed
	r.Remeasured += o.Remeasured
	r.Retired += o.Retired
	r.Ms += o.Ms
	for k, c := range o.Out {
		r.Out[k] += c
	}
	r.Viol = append(r.Viol, o.Viol...)
	if r.Sample == "" {
		r.Sample = o.Sample
	}
}

// retire replaces the process image of a worker whose address space is used up (see retireAbove) by a fresh
// one that carries on with the job at evaluation idx: same pid, same pipes, same journal, so the coordinator
// does not notice. The part of the job already done travels in a file.
func retire(j job, idx int, part result) {
	done := result{Out: map[string]int64{}}
	done.merge(carried) // what earlier images of this worker did of the same job
	done.merge(part)
	done.Retired++
	j.From = idx
	_, j.To = j.bounds()
	b, err := json.Marshal(struct {
		Job  job    `json:"job"`
		Done result `json:"done"`
	}{j, done})
	exe, err2 := os.Executable()
	if err != nil || err2 != nil || journalPath == "" {
		return
	}
	path := journalPath + ".resume"
	if os.WriteFile(path, b, 0o600) != nil {
		return
	}
	env := append(os.Environ(), "C04_RESUME="+path, "C04_JOURNAL_PATH="+journalPath)
	syscall.Exec(exe, os.Args, env) // only returns on failure; then the worker simply carries on
	os.Remove(path)
}

// resume finishes the job a previous process image handed over and answers it.
func resume() {
	path := os.Getenv("C04_RESUME")
	if path == "" {
		return
	}
	os.Unsetenv("C04_RESUME")
	b, err := os.ReadFile(path)
	os.Remove(path)
	var st struct {
		Job  job    `json:"job"`
		Done result `json:"done"`
	}
	if err != nil || json.Unmarshal(b, &st) != nil {
		fmt.Fprintln(os.Stderr, "C04: cannot resume:", err)
		os.Exit(9)
	}
	if st.Done.Out == nil {
		st.Done.Out = map[string]int64{}
	}
	carried = st.Done
	rest := runJob(st.Job) // may hand over again
	carried.merge(rest)
	out, _ := json.Marshal(carried)
	carried = result{}
	os.Stdout.Write(append(out, '\n'))
}

var carried result

// The journal is 16 bytes of a shared file mapping: the id of the job being served and the index of the
// evaluation in flight. Plain stores; the page survives the death of the process.
var journal []byte

func openJournal() {
	dir := os.Getenv("VERIF_SCRATCH")
	if dir == "" {
		dir = filepath.Join(os.TempDir(), "c04-journal")
	}
	os.MkdirAll(dir, 0o755)
	var f *os.File
	var err error
	inherited := os.Getenv("C04_JOURNAL_PATH") // set when this image replaced a retired one: same journal
	if inherited != "" {
		f, err = os.OpenFile(inherited, os.O_RDWR, 0)
	} else {
		f, err = os.CreateTemp(dir, "journal-*")
	}
	if err != nil {
		return
	}
	f.Truncate(16)
	m, err := syscall.Mmap(int(f.Fd()), 0, 16, syscall.PROT_READ|syscall.PROT_WRITE, syscall.MAP_SHARED)
	if err != nil {
		return
	}
	journal, journalPath = m, f.Name()
	if inherited == "" {
		fmt.Fprintf(os.Stderr, "C04-JOURNAL %s\n", f.Name())
	}
}

var journalPath string

var journalRe = regexp.MustCompile(`C04-JOURNAL (\S+)`)

// readJournal returns the evaluation index a dead worker was at, if its journal belongs to job id.
func readJournal(stderr string, id uint64) (int, bool) {
	m := journalRe.FindStringSubmatch(stderr)
	if m == nil {
		return 0, false
	}
	b, err := os.ReadFile(m[1])
	os.Remove(m[1])
	if err != nil || len(b) < 16 || binary.LittleEndian.Uint64(b) != id {
		return 0, false
	}
	idx := binary.LittleEndian.Uint64(b[8:])
	if idx == ^uint64(0) {
		return 0, false
	}
	return int(idx), true
}

var (
	seq      atomic.Uint64
	busy     atomic.Bool
	curInput []byte
)

func cpuNow() time.Duration {
	var ru syscall.Rusage
	syscall.Getrusage(syscall.RUSAGE_SELF, &ru)
	return time.Duration(ru.Utime.Nano() + ru.Stime.Nano())
}

func cpuBudget(n int) time.Duration { return 3*time.Second + time.Duration(n)*10*time.Microsecond }

// cpuWatchdog convicts an evaluation that has consumed more CPU time than the budget without returning
// (CPU time of this process, so machine load cannot trip it). It names the loop on stderr and exits; the
// coordinator finds the evaluation in the journal.
func cpuWatchdog() {
	var last uint64
	var stuck time.Duration
	lastCPU := cpuNow()
	for {
		time.Sleep(100 * time.Millisecond)
		s, c := seq.Load(), cpuNow()
		if busy.Load() && s == last {
			stuck += c - lastCPU
		} else {
			stuck = 0
		}
		last, lastCPU = s, c
		if stuck > cpuBudget(len(curInput)) {
			fmt.Fprintf(os.Stderr, "\nC04-CPU-BUDGET cpu=%.1fs loop=%s\n", stuck.Seconds(), hangSite())
			os.Exit(7)
		}
	}
}

func quoted(b []byte) string {
	if len(b) > 120 {
		return fmt.Sprintf("%q... (%d bytes)", b[:120], len(b))
	}
	return fmt.Sprintf("%q", b)
}

var digitsRe = regexp.MustCompile(`-?[0-9]+`)

// msgClass reduces a panic message to its kind: numbers and type names vary with the input, the kind does not.
func msgClass(msg string) string {
	msg = strings.TrimPrefix(msg, "runtime error: ")
	msg = strings.TrimPrefix(msg, "runtime: ")
	for _, cut := range []string{"out of range", "unhashable type", "interface conversion", "reflect.Set", "reflect: call of", "reflect:"} {
		if i := strings.Index(msg, cut); i >= 0 {
			msg = msg[:i+len(cut)]
		}
	}
	msg = digitsRe.ReplaceAllString(msg, "N")
	if len(msg) > 60 {
		msg = msg[:60]
	}
	return strings.ReplaceAll(strings.TrimSpace(msg), " ", "_")
}

func overAlloc(alloc uint64, n int) string {
	return fmt.Sprintf("allocated %d bytes decoding %d bytes (bound 1 MiB + 256 x length = %d)", alloc, n, allocBound(n))
}

func runJob(j job) (res result) {
	t0 := time.Now()
	defer func() { res.Ms += time.Since(t0).Milliseconds() }()
	res = result{Out: map[string]int64{}}
	byKey := map[string]int{}
	record := func(cell int, o outcome, input []byte) {
		key := o.Kind + "|" + o.Site + "|" + msgClass(o.Msg)
		name := cellName(j.Domain, cell)
		if i, ok := byKey[key]; ok {
			v := &res.Viol[i]
			v.Count++
			if len(v.Cells) < 200 {
				dup := false
				for _, c := range v.Cells {
					dup = dup || c == name
				}
				if !dup {
					v.Cells = append(v.Cells, name)
				}
			}
			if len(input) < len(v.Input) {
				v.Input, v.Quoted, v.Cell, v.Name, v.Msg = input, quoted(input), cell, name, o.Msg
			}
			return
		}
		byKey[key] = len(res.Viol)
		v := violRec{Domain: j.Domain, Cell: cell, Name: name, Kind: o.Kind, Site: o.Site, Msg: o.Msg, Input: input, Quoted: quoted(input),
			Meta: j.Meta, Bomb: j.Bomb, Count: 1, Cells: []string{name}}
		if j.Bomb != "" {
			v.Input = nil
		}
		res.Viol = append(res.Viol, v)
	}
	mark := func(idx int, input []byte) {
		if journal != nil {
			binary.LittleEndian.PutUint64(journal[8:], uint64(idx))
		}
		curInput = input
		seq.Add(1)
	}
	if journal != nil {
		binary.LittleEndian.PutUint64(journal[8:], ^uint64(0))
		binary.LittleEndian.PutUint64(journal, j.ID)
	}
	busy.Store(true)
	defer busy.Store(false)
	n := nCells(j.Domain)
	from, to := j.bounds()
	mid := (from/n + (to-1)/n) / 2
	for ii := from / n; ii*n < to; ii++ {
		handOver := -1
		input := j.input(ii)
		c0, c1 := 0, n
		if ii*n < from {
			c0 = from - ii*n
		}
		if (ii+1)*n > to {
			c1 = to - ii*n
		}
		if (stageOf(j.Domain, c0) == 0 || to-from == 1) && mapped() > retireAbove {
			retire(j, ii*n+c0, res)
		}
		if c0 == 0 && !j.NoCount {
			res.Inputs++
			if len(input) >= 2 {
				res.NonTrivial++
			}
		}
		hist := map[string]int{}
		ran := make([]bool, n)
		var before uint64
		if !j.Exact {
			before = allocApprox()
		}
		spun := false
		for cell := c0; cell < c1; cell++ {
			st := stageOf(j.Domain, cell)
			if st == 0 || cell == c0 {
				spun = false // a range that resumes inside a group resumes after an evaluation that did not spin
			}
			if cell > c0 && st == 0 && mapped() > retireAbove {
				// between two groups of an input: finish the allocation check of the part done, then hand over
				c1 = cell
				handOver = ii*n + cell
				break
			}
			if st > 0 && spun {
				res.Subsumed++ // the reader twin of this (destination, mode) spins: see the assumptions
				continue
			}
			mark(ii*n+cell, input)
			var o outcome
			if j.Exact {
				var alloc uint64
				o, alloc = runCellMeasured(j.Domain, cell, input)
				if (o.Kind == "ok" || o.Kind == "error") && alloc > allocBound(len(input)) {
					o = outcome{Kind: "over-allocation", Msg: overAlloc(alloc, len(input)), Site: allocSite(j.Domain, cell, input)}
				}
			} else {
				o = runCell(j.Domain, cell, input)
			}
			res.Evals++
			ran[cell] = o.Kind == "ok" || o.Kind == "error"
			res.Out[o.Kind]++
			hist[o.Kind]++
			spun = o.Kind == "spin"
			if !ran[cell] {
				record(cell, o, input)
			}
		}
		if !j.Exact {
			if delta := allocApprox() - before; delta > allocBound(len(input))/2 {
				// the batch allocated enough that one evaluation might be over the bound: measure each exactly
				for cell := c0; cell < c1; cell++ {
					if !ran[cell] {
						continue
					}
					res.Remeasured++
					mark(ii*n+cell, input)
					o, alloc := runCellMeasured(j.Domain, cell, input)
					if (o.Kind == "ok" || o.Kind == "error") && alloc > allocBound(len(input)) {
						record(cell, outcome{Kind: "over-allocation", Msg: overAlloc(alloc, len(input)), Site: allocSite(j.Domain, cell, input)}, input)
						res.Out["over-allocation"]++
						res.Out[o.Kind]--
					}
				}
			}
		}
		if handOver >= 0 {
			retire(j, handOver, res)
			// still here: the hand-over failed; go on with the rest of this input
			from = handOver
			ii--
			continue
		}
		if ii == mid {
			var ks []string
			for k, c := range hist {
				ks = append(ks, fmt.Sprintf("%s x%d", k, c))
			}
			sort.Strings(ks)
			res.Sample = fmt.Sprintf("%s %s -> %s", j.Domain, quoted(input), strings.Join(ks, ", "))
		}
	}
	if journal != nil {
		binary.LittleEndian.PutUint64(journal[8:], ^uint64(0))
	}
	return res
}

// ---- the enumerated spaces ----

type spaces struct {
	jobs      []job // bulk jobs and the first stage of the huge-count evaluations
	corpusN   int
	info      map[string]interface{}
	risky     int64 // distinct huge-count / bomb inputs (they only ever run as single-evaluation jobs)
	riskyNT   int64
	explicitN map[string]int
}

// chunk deals the inputs out to jobs of about size inputs like cards: the mutants of one stream are
// neighbours in the list, the expensive ones among them (a date whose tag became a count) would otherwise
// all land in one job and that job would be the tail of the run.
func chunk(domain string, in [][]byte, size int) []job {
	n := (len(in) + size - 1) / size
	out := make([]job, n)
	for i := range out {
		out[i].Domain = domain
	}
	for i, b := range in {
		out[i%n].Inputs = append(out[i%n].Inputs, b)
	}
	return out
}

func sigmaJobs(domain, prefix string, maxLen, size int) []job {
	var out []job
	n := corpus.SigmaCount(maxLen)
	for lo := 0; lo < n; lo += size {
		hi := lo + size
		if hi > n {
			hi = n
		}
		out = append(out, job{Domain: domain, Prefix: prefix, Lo: lo, Hi: hi})
	}
	return out
}

var svcPrefixes = []string{"C", `Cs1"f"`, `Cs1"g"`, `Cs1"v"`, `Cs1"h"`, `Cs1"k"`, "H"}
var cliPrefixes = []string{"R", "E", "H"}

func validRequests() [][]byte {
	type call struct {
		name   string
		args   []interface{}
		simple bool
		header string
	}
	in := gen.Inner{A: 1, B: "x"}
	calls := []call{
		{name: "f", args: []interface{}{1}}, {name: "f", args: []interface{}{2147483648}}, {name: "f", args: []interface{}{"12"}},
		{name: "g", args: []interface{}{"ab", []int{1, 2}}}, {name: "g", args: []interface{}{"你", []int(nil)}},
		{name: "v"}, {name: "v", args: []interface{}{1, "ab", nil, 1.5, true}}, {name: "v", args: []interface{}{"ab", "ab"}},
		{name: "v", args: []interface{}{[]interface{}{1, []int{2}}, map[string]interface{}{"k": 1}}},
		{name: "h", args: []interface{}{in}}, {name: "h", args: []interface{}{&in}}, {name: "h", args: []interface{}{map[string]interface{}{"a": 1}}},
		{name: "k", args: []interface{}{map[string]interface{}{"a": 1}, [2]int{1, 2}, &in}}, {name: "k", args: []interface{}{nil, []int{1}, nil}},
		{name: "~"}, {name: "nosuch", args: []interface{}{1}}, {name: "F", args: []interface{}{1}},
		{name: "f", args: []interface{}{1}, simple: true}, {name: "v", args: []interface{}{"ab", "ab"}, simple: true}, {name: "h", args: []interface{}{in}, simple: true},
		{name: "g", args: []interface{}{"ab", []int{1}}, header: "id"},
	}
	var out [][]byte
	for _, c := range calls {
		cc := core.NewClientContext()
		if c.header != "" {
			cc.RequestHeaders().Set(c.header, 7)
		}
		b, err := core.NewClientCodec(core.WithSimple(c.simple)).Encode(c.name, c.args, cc)
		if err != nil {
			panic(err)
		}
		out = append(out, append([]byte(nil), b...))
	}
	return out
}

func validResponses() [][]byte {
	in := gen.Inner{A: 1, B: "x"}
	type resp struct {
		v      interface{}
		simple bool
	}
	rs := []resp{
		{v: 1}, {v: "ab"}, {v: []int{1, 2}}, {v: in}, {v: &in}, {v: map[string]interface{}{"k": 1}}, {v: nil}, {v: 1.5},
		{v: errors.New("boom")}, {v: errors.New("timeout")}, {v: []interface{}{"ab", 1, []int{1, 2}}}, {v: []interface{}{"ab"}},
		{v: []string{"ab", "ab"}}, {v: 1, simple: true}, {v: in, simple: true}, {v: []interface{}{"ab", 1, []int{1, 2}}, simple: true},
	}
	var out [][]byte
	for _, r := range rs {
		b, err := core.NewServiceCodec(core.WithSimple(r.simple)).Encode(r.v, core.NewServiceContext(services[0]))
		if err != nil {
			panic(err)
		}
		out = append(out, append([]byte(nil), b...))
	}
	return out
}

func coveredBySigma(b []byte, prefixes []string, maxLen int) bool {
	for _, p := range prefixes {
		if strings.HasPrefix(string(b), p) && len(b)-len(p) <= maxLen && corpus.OverSigma(b[len(p):]) {
			return true
		}
	}
	return false
}

func allCells(n int) []int {
	out := make([]int, n)
	for i := range out {
		out[i] = i
	}
	return out
}

type riskyIn struct {
	b    []byte
	meta string
}

func build(thorough bool) spaces {
	sp := spaces{info: map[string]interface{}{}, explicitN: map[string]int{}}
	maxLen, ins := 3, corpus.SigmaIns
	if thorough {
		maxLen, ins = 4, corpus.Sigma
	}
	cs := corpus.Build(gen.NewAlphabet(), 40, 1)
	sp.corpusN = len(cs)
	// thorough: all edits on the whole corpus, huge counts on one stream per sequence of count-owning tags;
	// quick: truncations and deletions on the whole corpus, substitutions and insertions on one stream per set
	// of count-owning tags and one per leading tag, huge counts on every third of the former
	editSub, hugeSub := map[string]bool{}, map[string]bool{}
	if thorough {
		for _, s := range corpus.FirstPer(cs, corpus.TagSeq) {
			hugeSub[string(s.Bytes)] = true
		}
	} else {
		for i, s := range corpus.FirstPer(cs, corpus.TagSet) {
			editSub[string(s.Bytes)] = true
			if i%3 == 0 {
				hugeSub[string(s.Bytes)] = true
			}
		}
		// and one stream per leading tag (dates, times, doubles, guids ... own no counts but turn into counts
		// under a substitution of their tag)
		for _, s := range corpus.FirstPer(cs, func(b []byte) string { return string(b[:1]) }) {
			editSub[string(s.Bytes)] = true
		}
	}
	explicit := func(domain string, valid [][]byte, edits, huge func([]byte) bool, prefixes []string) ([][]byte, []riskyIn) {
		seen := map[string]bool{}
		var out [][]byte
		var risky []riskyIn
		var nMut, nNum, nEdit, nHuge int
		add := func(b []byte) bool {
			if seen[string(b)] || coveredBySigma(b, prefixes, maxLen) {
				return false
			}
			seen[string(b)] = true
			out = append(out, b)
			return true
		}
		for _, s := range valid {
			add(s)
			var muts [][]byte
			if edits(s) {
				nEdit++
				muts = corpus.Mutations(s, ins)
			} else {
				muts = corpus.TruncDel(s)
			}
			for _, m := range muts {
				if add(m) {
					nMut++
				}
			}
			if huge(s) {
				nHuge++
			}
			for _, m := range corpus.NumMutations(s) {
				if corpus.Huge(m.Value) {
					if huge(s) && !seen[string(m.Bytes)] {
						seen[string(m.Bytes)] = true
						risky = append(risky, riskyIn{m.Bytes, fmt.Sprintf("count-of=%c value=%s", m.Tag, m.Value)})
					}
					continue
				}
				if add(m.Bytes) {
					nNum++
				}
			}
		}
		sp.info[domain+"_valid_streams"] = len(valid)
		sp.info[domain+"_streams_with_substitutions_and_insertions"] = nEdit
		sp.info[domain+"_streams_with_huge_counts"] = nHuge
		sp.info[domain+"_single_edit_mutants"] = nMut
		sp.info[domain+"_numeric_mutants_small"] = nNum
		sp.info[domain+"_numeric_mutants_huge"] = len(risky)
		sp.explicitN[domain] = len(out)
		return out, risky
	}
	addRisky := func(domain string, r riskyIn, cells []int) {
		sp.risky++
		if len(r.b) >= 2 {
			sp.riskyNT++
		}
		for _, c := range cells {
			sp.jobs = append(sp.jobs, job{Domain: domain, Inputs: [][]byte{r.b}, From: c, To: c + 1, Exact: true, NoCount: true, Meta: r.meta})
		}
	}
	allOf := func([]byte) bool { return true }
	in := func(m map[string]bool) func([]byte) bool {
		return func(b []byte) bool { return m[string(b)] }
	}

	// io domain
	var valid [][]byte
	for _, s := range cs {
		valid = append(valid, s.Bytes)
	}
	// hand-built valid streams the corpus cannot contain: maps whose keys are lists, maps and objects (an object
	// key with a list inside is comparable as a type and not hashable as a value)
	for _, h := range []string{
		`m1{c8"IfaceKey"2{s1"k"s1"n"}o0{a1{1}2}ux}`, `m1{c8"IfaceKey"2{s1"k"s1"n"}o0{12}ux}`, `m1{a1{1}ux}`, `m1{m{}ux}`,
		`m2{c8"IfaceKey"2{s1"k"s1"n"}o0{12}uxo0{m{}2}uy}`, `a2{c8"IfaceKey"2{s1"k"s1"n"}o0{a1{1}2}m1{r2;1}}`,
	} {
		valid = append(valid, []byte(h))
		editSub[h], hugeSub[h] = true, true
	}
	edits := in(editSub)
	if thorough {
		edits = allOf
	}
	ioIn, ioRisky := explicit("io", valid, edits, in(hugeSub), []string{""})
	sp.jobs = append(sp.jobs, sigmaJobs("io", "", maxLen, 200)...)
	sp.jobs = append(sp.jobs, chunk("io", ioIn, 100)...)
	var readerCells []int // stage one of a huge-count input: the reader variants; the coder variants follow
	for d := range dests {
		readerCells = append(readerCells, d*len(ioVariants)+0, d*len(ioVariants)+3, d*len(ioVariants)+6)
	}
	for _, r := range ioRisky {
		addRisky("io", r, readerCells)
	}
	// exponent bombs: a dozen bytes that denote a number of astronomic size (every destination: the big number
	// types are the ones that could try to write it out)
	nExp := 0
	for _, e := range []string{"400", "5000", "100000", "600000000", "-600000000", "9223372036854775807"} {
		for _, f := range []string{"d1e%s;", "d-1.5e%s;", "a1{d1e%s;}", "m1{d1e%s;1}", "s%s\"\"", "d1e%s"} {
			if strings.HasPrefix(f, "s") && strings.HasPrefix(e, "-") {
				continue
			}
			nExp++
			addRisky("io", riskyIn{[]byte(fmt.Sprintf(f, e)), "exponent=" + e}, readerCells)
		}
	}
	for _, in := range []string{`s24"1e646456992+1e-646456992"`, `s8"1e999999"`, `s10"1e99999999"`, `a2{s8"1e999999"r1;}`, `s12"1/1e99999999"`, `s11"1e9999+1e99i"`} {
		nExp++
		addRisky("io", riskyIn{[]byte(in), "exponent-in-text"}, readerCells)
	}
	sp.info["io_exponent_bombs"] = nExp

	// ref domain: back-references converted into destinations of another type; all edits and all huge values
	refIn, refRisky := explicit("ref", refStreams(), allOf, allOf, nil)
	sp.jobs = append(sp.jobs, chunk("ref", refIn, 400)...)
	for _, r := range refRisky {
		addRisky("ref", r, allCells(len(refDests)))
	}

	// rpc domains: huge counts on every third valid message in the quick tier, on all of them in thorough
	nth := func(all [][]byte) func([]byte) bool {
		keep := map[string]bool{}
		for i, b := range all {
			if thorough || i%3 == 0 {
				keep[string(b)] = true
			}
		}
		return func(b []byte) bool { return keep[string(b)] }
	}
	all := func(n int) []int {
		out := make([]int, n)
		for i := range out {
			out[i] = i
		}
		return out
	}
	reqs := validRequests()
	svcIn, svcRisky := explicit("svc", reqs, allOf, nth(reqs), svcPrefixes)
	for _, p := range svcPrefixes {
		sp.jobs = append(sp.jobs, sigmaJobs("svc", p, maxLen, 4000)...)
	}
	sp.jobs = append(sp.jobs, chunk("svc", svcIn, 1000)...)
	for _, r := range svcRisky {
		addRisky("svc", r, all(len(services)))
	}
	resps := validResponses()
	cliIn, cliRisky := explicit("cli", resps, allOf, nth(resps), cliPrefixes)
	for _, p := range cliPrefixes {
		sp.jobs = append(sp.jobs, sigmaJobs("cli", p, maxLen, 4000)...)
	}
	sp.jobs = append(sp.jobs, chunk("cli", cliIn, 1000)...)
	for _, r := range cliRisky {
		addRisky("cli", r, all(len(cliReturn)))
	}

	// nesting bombs: one job per evaluation
	depths := []int{10, 100, 1000, 10000, 100000}
	nb := 0
	bomb := func(domain, kind string, k int) {
		nb++
		sp.risky++
		sp.riskyNT++
		for c := 0; c < nCells(domain); c++ {
			if !thorough && k == 100000 && domain == "io" && c >= len(ioVariants) {
				continue // quick: the deepest bombs go into interface{} only (every other destination reaches the same recursion through decodeError)
			}
			if k >= abyss && !(domain == "io" && (c == 1 || c == 3 || (thorough && c < len(ioVariants))) || domain == "svc" && c == 1 || domain == "cli" && c == 2) {
				continue // the abyss (deep enough to exhaust a 1 GB goroutine stack if nothing bounds the recursion): interface{} in memory and reader-fed, the missing-method service, the client returning interface{}
			}
			sp.jobs = append(sp.jobs, job{Domain: domain, Bomb: fmt.Sprintf("%s:%d", kind, k), From: c, To: c + 1, Exact: true, NoCount: true})
		}
	}
	for _, k := range []int{10, 100, 1000, 3000} {
		for _, kind := range []string{"wide-list-open", "wide-map-open", "wide-object-open"} {
			bomb("io", kind, k)
		}
		bomb("svc", "svc-wide-list-open", k)
		bomb("cli", "cli-wide-list-open", k)
	}
	for _, kind := range []string{"list-open", "map-open", "classdefs-open", "error-tags", "classdefs-after-an-error"} {
		bomb("io", kind, abyss)
	}
	bomb("svc", "svc-classdefs-open", abyss)
	bomb("cli", "cli-classdefs-open", abyss)
	for _, k := range []int{100, 10000} {
		bomb("io", "classdefs-open", k)
	}
	bomb("io", "many-references-to-one-string", 3000)
	bomb("ref", "ref-shared-maps", 40)
	bomb("svc", "svc-list-open", abyss)
	bomb("cli", "cli-list-open", abyss)
	for _, k := range depths {
		for _, kind := range []string{"list-open", "list-closed", "map-open", "map-closed"} {
			bomb("io", kind, k)
		}
		bomb("svc", "svc-list-open", k)
		bomb("svc", "svc-list-closed", k)
		bomb("cli", "cli-list-open", k)
		bomb("cli", "cli-list-closed", k)
	}
	sp.info["sigma_symbols"] = len(corpus.Sigma)
	sp.info["sigma_max_length"] = maxLen
	sp.info["sigma_strings"] = corpus.SigmaCount(maxLen)
	sp.info["sigma_prefixes_svc"] = svcPrefixes
	sp.info["sigma_prefixes_cli"] = cliPrefixes
	sp.info["insertion_symbols"] = len(ins)
	sp.info["nesting_bombs"] = nb
	sp.info["nesting_depths"] = depths
	sp.info["io_destinations"] = len(dests)
	sp.info["io_entry_variants"] = ioVariants
	sp.info["svc_cells"] = len(services)
	sp.info["cli_cells"] = len(cliReturn)
	// the evaluations that can take seconds (CPU budget, deep bombs) go first so that they overlap with the bulk
	sort.SliceStable(sp.jobs, func(a, b int) bool { return rank(sp.jobs[a]) < rank(sp.jobs[b]) })
	return sp
}

func rank(j job) int {
	switch {
	case j.Domain != "io" && j.Exact && j.Bomb == "":
		return 0 // huge counts at the rpc entry points: no reader twin, the CPU budget decides
	case strings.HasSuffix(j.Bomb, ":100000"):
		return 1
	case j.Exact:
		return 2
	case len(j.Inputs) > 0:
		return 3 // mutants before the Sigma strings: some of them are slow
	}
	return 4
}

// ---- coordinator ----

type agg struct {
	sig     string
	count   int64
	cells   map[string]bool
	domains map[string]bool
	kinds   map[string]bool
	rep     violRec
	spin    *violRec // the spinning reader-fed evaluation with the largest announced count (for the in-memory twin)
}

var valueRe = regexp.MustCompile(`value=([0-9]+)`)

// announced returns the replaced count of a huge-count mutant (as a comparable string), "" otherwise.
func announced(v violRec) string {
	if m := valueRe.FindStringSubmatch(v.Meta); m != nil {
		return fmt.Sprintf("%030s", m[1])
	}
	return ""
}

func better(a, b violRec) bool { // a is a better representative than b
	if a.Bomb != "" || b.Bomb != "" {
		return a.Bomb != "" && (b.Bomb == "" || len(a.Bomb) < len(b.Bomb) || len(a.Bomb) == len(b.Bomb) && a.Bomb < b.Bomb)
	}
	if la, lb := len(a.Input), len(b.Input); la != lb {
		return la < lb
	}
	if c := strings.Compare(string(a.Input), string(b.Input)); c != 0 {
		return c < 0
	}
	if a.Domain != b.Domain {
		return a.Domain < b.Domain
	}
	return a.Cell < b.Cell
}

func signature(v violRec) string {
	switch v.Kind {
	case "panic":
		return fmt.Sprintf("C04|panic|at=%s|%s", v.Site, msgClass(v.Msg))
	case "spin", "cpu-budget", "hang-watchdog":
		// one oracle per entry point (post-EOF read count for reader-fed decodes, CPU budget in memory), one defect
		return "C04|unbounded-loop|at=" + v.Site
	case "out-of-memory", "over-allocation":
		// the allocation the address space could not satisfy and the one that was measured are the same defect
		return "C04|wire-sized-allocation|at=" + v.Site
	case "out-of-bounds-write":
		return "C04|out-of-bounds-write|" + v.Site
	case "stack-overflow":
		what := shortCell(v)
		if v.Bomb != "" {
			what += "|bomb=" + v.Bomb[:strings.LastIndex(v.Bomb, ":")]
		}
		return fmt.Sprintf("C04|stack-overflow|%s:%s", v.Domain, what)
	}
	return fmt.Sprintf("C04|%s|at=%s|%s", v.Kind, v.Site, msgClass(v.Msg))
}

func shortCell(v violRec) string {
	if v.Domain == "io" {
		return dests[v.Cell/len(ioVariants)].String()
	}
	if v.Domain == "svc" {
		return []string{"functions", "missing-method"}[v.Cell]
	}
	if v.Domain == "ref" {
		return refDests[v.Cell].String()
	}
	return strings.TrimPrefix(v.Name, "client returning ")
}

var loopRe = regexp.MustCompile(`loop=(\S+)`)
var blockRe = regexp.MustCompile(`cannot allocate ([0-9]+)-byte block`)

// classify turns the death of a worker during evaluation idx of job j into a violation record.
func classify(j job, idx int, f *shard.Failure) violRec {
	n := nCells(j.Domain)
	in := j.input(idx / n)
	cell := idx % n
	v := violRec{Domain: j.Domain, Cell: cell, Name: cellName(j.Domain, cell), Input: in, Quoted: quoted(in), Meta: j.Meta, Bomb: j.Bomb, Count: 1}
	if j.Bomb != "" {
		v.Input = nil
	}
	v.Cells = []string{v.Name}
	se := f.Stderr
	firstLine := func(marker string) string {
		if i := strings.Index(se, marker); i >= 0 {
			l := se[i:]
			if k := strings.Index(l, "\n"); k >= 0 {
				l = l[:k]
			}
			return l
		}
		return ""
	}
	switch {
	case strings.Contains(se, "C04-CPU-BUDGET"):
		v.Kind, v.Msg, v.Site = "cpu-budget", "the evaluation did not return within its CPU budget ("+firstLine("C04-CPU-BUDGET")+")", "?"
		if m := loopRe.FindStringSubmatch(se); m != nil {
			v.Site = m[1]
		}
	case f.Kind == "timeout":
		v.Kind, v.Msg, v.Site = "hang-watchdog", f.Exit, "?"
	case (strings.Contains(se, "out of memory") || strings.Contains(se, "cannot allocate memory")) && !strings.Contains(se, "runtime.newstack"):
		v.Kind, v.Msg, v.Site = "out-of-memory", "the process died under ulimit -v 3 GiB: "+firstLine("runtime: out of memory")+firstLine("runtime: cannot allocate"), iocase.PanicSite(se)
		if m := blockRe.FindStringSubmatch(se); m != nil && len(m[1]) < 9 {
			// not one wire-sized request but many small ones: the address space was used up by a loop, and which of
			// the allocations under that loop was the last straw is chance; name the loop
			if i := strings.Index(se, "\ngoroutine 1 "); i >= 0 {
				if l := loopSite(parseStack(se[i:])); l != "?" {
					v.Site = l
				}
			}
		}
	case strings.Contains(se, "runtime.newstack"):
		v.Kind, v.Msg = "stack-overflow", "the process died growing a goroutine stack: "+firstLine("runtime: out of memory")+firstLine("runtime: goroutine stack exceeds")
	case strings.Contains(se, "stack overflow") || strings.Contains(se, "stack exceeds"):
		v.Kind, v.Msg = "stack-overflow", "the process died: "+firstLine("runtime: goroutine stack exceeds")
	default:
		msg := firstLine("fatal error:")
		if msg == "" {
			msg = firstLine("panic:")
		}
		if msg == "" {
			msg = firstLine("SIG")
		}
		v.Kind, v.Msg, v.Site = "process-death", msg+" ("+f.Exit+")", iocase.PanicSite(se)
	}
	return v
}

func runJobs(jobs []job, workers int, on func(j job, r *result, fail *shard.Failure)) {
	list := make([]interface{}, len(jobs))
	for i := range jobs {
		list[i] = jobs[i]
	}
	shard.Run(list, shard.Options{Workers: workers, JobTimeout: 120 * time.Second, MemLimitKB: memLimitKB}, func(i int, raw json.RawMessage, fail *shard.Failure) {
		if fail != nil {
			on(jobs[i], nil, fail)
			return
		}
		var r result
		if err := json.Unmarshal(raw, &r); err != nil || r.Out == nil {
			on(jobs[i], nil, &shard.Failure{Kind: "protocol", Exit: "bad worker result: " + string(raw)})
			return
		}
		on(jobs[i], &r, nil)
	})
}

func main() {
	thorough := report.Tier() == "thorough"
	iocase.Init()
	setupRPC()
	if shard.IsWorker() {
		openJournal()
		go cpuWatchdog()
		resume()
		shard.Serve(func(raw json.RawMessage) interface{} {
			var j job
			if err := json.Unmarshal(raw, &j); err != nil {
				return map[string]string{"error": err.Error()}
			}
			return runJob(j)
		})
	}
	if len(os.Args) > 2 && os.Args[1] == "--replay" {
		replay(os.Args[2])
		return
	}
	run := report.New(ID, "exploration")
	tStart := time.Now()
	sp := build(thorough)
	if os.Getenv("C04_DEBUG") != "" {
		fmt.Fprintf(os.Stderr, "build %.1fs, %d jobs\n", time.Since(tStart).Seconds(), len(sp.jobs))
	}

	aggs := map[string]*agg{}
	addViol := func(v violRec) {
		sig := signature(v)
		a := aggs[sig]
		if a == nil {
			a = &agg{sig: sig, cells: map[string]bool{}, domains: map[string]bool{}, kinds: map[string]bool{}, rep: v}
			aggs[sig] = a
		} else if better(v, a.rep) {
			a.rep = v
		}
		if v.Kind == "spin" {
			if a.spin == nil || announced(v) > announced(*a.spin) || announced(v) == announced(*a.spin) && better(v, *a.spin) {
				c := v
				a.spin = &c
			}
		}
		a.count += v.Count
		a.domains[v.Domain] = true
		a.kinds[v.Kind] = true
		for _, c := range v.Cells {
			if len(a.cells) < 400 {
				a.cells[c] = true
			}
		}
	}
	var inputs, nontrivial, evals, subsumed, remeasured, deaths, bisections, retired int64
	inputs, nontrivial = sp.risky, sp.riskyNT
	out, byDomain := map[string]int64{}, map[string]int64{}
	samples := report.NewSamples(16)
	var nextID uint64
	pending := sp.jobs
	rounds := 0
	for len(pending) > 0 {
		rounds++
		cur := pending
		pending = nil
		for i := range cur {
			nextID++
			cur[i].ID = nextID
		}
		nth := 0
		t0, d0 := time.Now(), deaths
		runJobs(cur, 0, func(j job, r *result, fail *shard.Failure) {
			from, to := j.bounds()
			n := nCells(j.Domain)
			single := to-from == 1
			stageOne := single && j.Domain == "io" && j.Bomb == "" && j.NoCount && stageOf("io", from%n) == 0
			spun := false
			if fail != nil {
				if fail.Kind == "protocol" {
					run.Infra(fail.Exit)
					return
				}
				idx, ok := from, single
				if !ok {
					idx, ok = readJournal(fail.Stderr, j.ID)
					ok = ok && idx >= from && idx < to
				}
				if !ok {
					// no journal entry (the worker died outside an evaluation): bisect the range
					bisections++
					mid := (from + to) / 2
					a, b := j, j
					a.To, b.From, b.To = mid, mid, to
					pending = append(pending, a, b)
					return
				}
				deaths++
				evals++
				v := classify(j, idx, fail)
				out[v.Kind]++
				byDomain[j.Domain+":"+v.Kind]++
				addViol(v)
				if idx%n == 0 && !j.NoCount {
					inputs++ // nobody else reports the input whose first evaluation died
					if len(j.input(idx/n)) >= 2 {
						nontrivial++
					}
				}
				if idx > from {
					a := j // the evaluations before idx are run again: their results died with the worker
					a.To = idx
					pending = append(pending, a)
				}
				// the rest. Deaths cluster (the variants of one destination, the neighbouring mutants of one stream) and
				// a chain of them would be walked one round at a time, so the next evaluations of this input go out
				// one by one, then what is left of the input, then the inputs after it in pieces of eight.
				cuts := []int{idx + 1}
				end := (idx/n + 1) * n
				for k := idx + 2; k <= idx+6 && k < end; k++ {
					cuts = append(cuts, k)
				}
				for c := end; c < to; c += 8 * n {
					cuts = append(cuts, c)
				}
				cuts = append(cuts, to)
				for k := 0; k+1 < len(cuts); k++ {
					lo, hi := cuts[k], cuts[k+1]
					if hi > to {
						hi = to
					}
					if lo < hi {
						b := j
						b.From, b.To = lo, hi
						pending = append(pending, b)
					}
				}
			} else {
				inputs += r.Inputs
				nontrivial += r.NonTrivial
				evals += r.Evals
				subsumed += r.Subsumed
				remeasured += r.Remeasured
				for k, c := range r.Out {
					out[k] += c
					byDomain[j.Domain+":"+k] += c
				}
				for _, v := range r.Viol {
					addViol(v)
					spun = spun || v.Kind == "spin"
				}
				nth++
				if r.Sample != "" && nth%(len(cur)/16+1) == 0 {
					samples.Add(r.Sample)
				}
				retired += r.Retired
				if r.Ms > 1500 && os.Getenv("C04_DEBUG") != "" {
					fmt.Fprintf(os.Stderr, "slow job %dms: %s from %d to %d bomb %q inputs %d first %s retired %d evals %d\n", r.Ms, j.Domain, from, to, j.Bomb, j.nInputs(), quoted(j.input(from/n)), r.Retired, r.Evals)
				}
			}
			if stageOne {
				// second stage of a huge-count evaluation: the in-memory twin, unless the reader twin spins
				if spun {
					subsumed++
				} else {
					b := j
					b.From, b.To = from+1, from+2
					pending = append(pending, b)
				}
			}
		})
		if os.Getenv("C04_DEBUG") != "" {
			fmt.Fprintf(os.Stderr, "round %d: %d jobs, %d deaths, %.2fs\n", rounds, len(cur), deaths-d0, time.Since(t0).Seconds())
		}
	}

	if os.Getenv("C04_DEBUG") != "" {
		fmt.Fprintf(os.Stderr, "rounds done at %.1fs\n", time.Since(tStart).Seconds())
	}

	// every signature's representative once more alone in a fresh worker; for a spinning reader-fed decode also
	// the in-memory twin that was not run, under the CPU budget
	var sigs []string
	for s := range aggs {
		sigs = append(sigs, s)
	}
	sort.Strings(sigs)
	var confirm []job
	var confirmSig []string
	for _, s := range sigs {
		a := aggs[s]
		in := [][]byte{a.rep.Input}
		if a.rep.Bomb != "" {
			in = nil
		}
		nextID++
		confirm = append(confirm, job{ID: nextID, Domain: a.rep.Domain, Inputs: in, Bomb: a.rep.Bomb, From: a.rep.Cell, To: a.rep.Cell + 1, Exact: true, NoCount: true, Meta: a.rep.Meta})
		confirmSig = append(confirmSig, s)
		if a.spin != nil {
			nextID++
			confirm = append(confirm, job{ID: nextID, Domain: "io", Inputs: [][]byte{a.spin.Input}, From: a.spin.Cell + 1, To: a.spin.Cell + 2, Exact: true, NoCount: true, Meta: "in-memory-twin"})
			confirmSig = append(confirmSig, s)
		}
	}
	isolated, isolatedSig := map[string]string{}, map[string]string{}
	twin := map[string]string{}
	sigOf := map[uint64]string{}
	for i, j := range confirm {
		sigOf[j.ID] = confirmSig[i]
	}
	if len(confirm) > 0 {
		runJobs(confirm, 0, func(j job, r *result, fail *shard.Failure) {
			verdict, vsig := "no violation", ""
			if fail != nil {
				v := classify(j, j.From, fail)
				verdict, vsig = v.Kind+": "+v.Msg, signature(v)
			} else if len(r.Viol) > 0 {
				verdict, vsig = r.Viol[0].Kind+": "+r.Viol[0].Msg, signature(r.Viol[0])
			}
			s := sigOf[j.ID]
			if j.Meta == "in-memory-twin" {
				twin[s] = fmt.Sprintf("%s via %s: %s", quoted(j.Inputs[0]), cellName("io", j.From), verdict)
			} else {
				isolated[s], isolatedSig[s] = verdict, vsig
			}
		})
	}
	var unconfirmed, folded []string
	skip := map[string]bool{}
	for _, s := range sigs {
		a := aggs[s]
		if isolated[s] == "no violation" {
			// The representative does not fail alone in a fresh process, so the failure depended on what the worker
			// had done before (or, for the wall-clock watchdog, on the load of the machine). That is not evidence
			// against the one evaluation it was charged to: it is recorded, not reported.
			unconfirmed = append(unconfirmed, fmt.Sprintf("%s: %s [input %s %s; cell %s; %d evaluations]", s, a.rep.Msg, a.rep.Quoted, a.rep.Bomb, a.rep.Name, a.count))
			fmt.Fprintf(os.Stderr, "note: not reproduced alone in a fresh process, not reported: %s\n", unconfirmed[len(unconfirmed)-1])
			skip[s] = true
		} else if o := aggs[isolatedSig[s]]; o != nil && isolatedSig[s] != s {
			// Alone, the same evaluation fails in another way that is reported anyway (a decoder that reads stray
			// memory panics, faults or dies depending on what the memory holds): one defect, counted there.
			o.count += a.count
			folded = append(folded, s+" -> "+isolatedSig[s])
			skip[s] = true
		}
	}
	for _, s := range sigs {
		a := aggs[s]
		if skip[s] {
			continue
		}
		cells := corpus.SortedKeys(a.cells)
		if len(cells) > 30 {
			cells = append(cells[:30], fmt.Sprintf("... (%d cells)", len(a.cells)))
		}
		what := fmt.Sprintf("%s [input %s%s; cell: %s; %d evaluations in %d cells of domains %v fail this way (verdicts: %v); cells: %s; alone in a fresh process: %s",
			a.rep.Msg, a.rep.Quoted, map[bool]string{true: " " + a.rep.Bomb, false: ""}[a.rep.Bomb != ""], a.rep.Name, a.count, len(a.cells),
			corpus.SortedKeys(a.domains), corpus.SortedKeys(a.kinds), strings.Join(cells, "; "), isolated[s])
		if t, ok := twin[s]; ok {
			what += "; in-memory twin of the spinning evaluation with the largest count: " + t
		}
		what += "]"
		run.Violate(s, what, a.rep)
		for k := int64(1); k < a.count && k < 1000000; k++ {
			run.Violate(s, "", nil)
		}
	}
	if os.Getenv("VERIF_SCRATCH") == "" {
		os.RemoveAll(filepath.Join(os.TempDir(), "c04-journal"))
	}
	run.Set("evaluations", evals)
	run.Set("distinct_nontrivial", nontrivial)
	run.Set("distinct_inputs", inputs)
	run.Set("rule", "one evaluation = one (byte string, cell) decode, a cell being destination type x entry variant (io), service (svc) or return-type list (cli); byte strings are deduplicated across families before they are distributed, so every counted input is distinct within its domain; distinct_nontrivial counts the distinct inputs of at least 2 bytes")
	run.Set("samples", samples.List())
	run.Set("exhaustive", true)
	run.Set("outcomes", out)
	run.Set("outcomes_by_domain", byDomain)
	run.Set("inmemory_evaluations_subsumed_by_spinning_reader_twin", subsumed)
	run.Set("evaluations_remeasured_exactly_for_allocation", remeasured)
	run.Set("worker_deaths_convicting_one_evaluation", deaths)
	run.Set("ranges_bisected_without_journal", bisections)
	run.Set("worker_retirements", retired)
	run.Set("rounds", rounds)
	run.Set("signatures", len(sigs)-len(unconfirmed)-len(folded))
	if folded == nil {
		folded = []string{}
	}
	run.Set("signatures_folded_into_their_verdict_in_isolation", folded)
	if unconfirmed == nil {
		unconfirmed = []string{}
	}
	run.Set("failures_not_reproduced_in_isolation", unconfirmed)
	run.Set("in_memory_twin_confirmations", twin)
	sp.info["io_explicit_inputs"] = sp.explicitN["io"]
	sp.info["svc_explicit_inputs"] = sp.explicitN["svc"]
	sp.info["cli_explicit_inputs"] = sp.explicitN["cli"]
	sp.info["ref_explicit_inputs"] = sp.explicitN["ref"]
	sp.info["ref_cells"] = len(refDests)
	sp.info["corpus_streams"] = sp.corpusN
	run.Set("space", sp.info)
	run.Assumption("scope hypothesis: a decoder defect reachable from untrusted bytes shows on a string of at most the stated length over the tag alphabet, on a single-byte edit or a count/length/index replacement of a short valid stream, or on a nesting bomb")
	run.Assumption("a reader-fed decode that asks for more data more than 100000 + 256 x len times after io.EOF is convicted as an unbounded loop; the in-memory variants of that (input, destination, mode) are then not run (they run the same loop, differ only in loadMore and would each burn the CPU budget; whatever they did would carry the same signature); per signature the in-memory twin of the spinning evaluation with the largest count is run under the CPU budget and its verdict is recorded")
	run.Assumption("workers run under ulimit -v 3 GiB (about 1.6 GiB of it is reserved by the Go runtime at start) and are replaced once they hold more than 128 MiB, so every evaluation has about 1.3 GiB of address space to itself: an allocation that does not fit kills the worker and convicts the one evaluation named by its journal; smaller over-allocations are measured (TotalAlloc delta against 1 MiB + 256 x len)")
	run.Assumption("time oracle: 3 s of process CPU time per evaluation (plus 10 us per input byte) and a 120 s wall-clock watchdog per job; nothing below that is judged by the clock")
	run.Assumption("every signature's shortest failing evaluation is run once more alone in a fresh worker; a failure that does not show there (it depended on what the worker had done before, or on machine load for the wall-clock watchdog) is listed under failures_not_reproduced_in_isolation and not reported")
	run.Assumption("client entry: the response bytes are handed to core.Client by an IO plugin and decoded by Client.InvokeContext; service entry: Service.Handle with a fresh ServiceContext per request")
	run.Assumption("the at= label of a signature (panic site, allocation site, loop) is derived from stacks and the allocation profile; it names the verdict, it does not decide it")
	run.Finish()
}

func replay(path string) {
	_, raw := report.LoadReplay(path)
	var v violRec
	if err := json.Unmarshal(raw, &v); err != nil {
		fmt.Fprintln(os.Stderr, err)
		os.Exit(2)
	}
	j := job{ID: 1, Domain: v.Domain, From: v.Cell, To: v.Cell + 1, Exact: true, NoCount: true, Bomb: v.Bomb, Meta: v.Meta}
	if v.Bomb == "" {
		j.Inputs = [][]byte{v.Input}
	}
	fmt.Printf("domain %s cell %d (%s) input %s %s\n", v.Domain, v.Cell, cellName(v.Domain, v.Cell), v.Quoted, v.Bomb)
	verdict := ""
	runJobs([]job{j}, 1, func(j job, r *result, fail *shard.Failure) {
		if fail != nil {
			c := classify(j, j.From, fail)
			verdict = c.Kind + ": " + c.Msg + " at " + c.Site
		} else if len(r.Viol) > 0 {
			verdict = r.Viol[0].Kind + ": " + r.Viol[0].Msg + " at " + r.Viol[0].Site
		}
	})
	if verdict != "" {
		fmt.Printf("REPRODUCED %s\n", verdict)
		fmt.Printf("VIOLATION property=%s replay=%s\n", ID, path)
		os.Exit(1)
	}
	fmt.Println("not reproduced")
	os.Exit(0)
}
