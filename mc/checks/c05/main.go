// C05 — streaming decode equals in-memory decode for every fragmentation. Bounded-exhaustive enumeration of
// (valid stream or truncation, destination, sequence of Decode calls) x fragmentation pattern (every two-way
// split, every fixed chunk size, every pattern with at most two reads deviating from "as much as fits",
// each with io.EOF delivered alone or together with the last bytes) x buffer configuration; oracle: values
// (by canonical form), error presence and unread remainder equal those of io.NewDecoder over the same bytes.
package main

import (
	"encoding/json"
	"fmt"
	"io"
	"os"
	"reflect"
	"regexp"
	"sort"
	"strings"
	"time"
	"unicode/utf8"

	"github.com/google/uuid"
	hio "github.com/hprose/hprose-golang/v3/io"
	"verif/lib/report"
	"verif/lib/shard"
	"verif/mc/corpus"
	"verif/mc/gen"
	"verif/mc/iocase"
)

const ID = "C05"

// ---- cases ----

type cse struct {
	Bytes    []byte   `json:"bytes_base64"`
	Types    []string `json:"types"` // destination type of each Decode call ("interface {}" allowed)
	Simple   bool     `json:"simple"`
	Kind     string   `json:"kind"`               // stream kind, for signatures
	Boundary int      `json:"boundary,omitempty"` // the buffer boundary this stream was built around (0: none)
	Trunc    bool     `json:"truncated,omitempty"`
}

var typeByName = map[string]reflect.Type{}

// bigNode is the element of the long self-referential list (see bigListCase): its Peers field takes the list
// by value.
type bigNode struct {
	ID    int        `hprose:"id"`
	Peers []*bigNode `hprose:"peers"`
}

// bigListCase: a list of n objects, longer than any buffer configuration plus the decoder's slack can hold,
// whose first object refers back to the list itself (r0;) in a field that takes the list by value. The copy
// made by that reference is taken while the list is being read: what it holds in the end (length, and whether
// it still shares the list's array) depends on how the decoder sized the slice - which must not depend on how
// much input was buffered at that moment.
func bigListCase(n int) cse {
	var b []byte
	b = append(b, fmt.Sprintf("a%d{c7\"BigNode\"2{s2\"id\"s5\"peers\"}", n)...)
	for i := 0; i < n; i++ {
		id := fmt.Sprintf("i%d;", i)
		if i < 10 {
			id = fmt.Sprint(i)
		}
		peers := "n"
		if i == 0 || i == n/2 {
			peers = "r0;"
		}
		b = append(b, ("o0{" + id + peers + "}")...)
	}
	b = append(b, "}i42;"...)
	return cse{Bytes: b, Types: []string{"[]*main.bigNode"}, Kind: "list-longer-than-the-buffer-referring-to-itself"}
}

func registerTypes() {
	add := func(t reflect.Type) { typeByName[t.String()] = t }
	hio.RegisterName("BigNode", (*bigNode)(nil))
	add(reflect.TypeOf([]*bigNode(nil)))
	for _, t := range gen.Universe(1, true) {
		add(t)
	}
	for _, x := range []interface{}{[]interface{}(nil), [][]byte(nil), []gen.Inner(nil), []time.Time(nil), []float64(nil)} {
		add(reflect.TypeOf(x))
	}
}

// ---- fragmentation patterns ----

// pattern describes how the reader hands out the bytes. split: two arrival segments [0,A) [A,n); chunk:
// arrival segments of A bytes; dev: read call number A returns B bytes (0: a read of zero bytes and a nil
// error) and, if C >= 0, call number C returns D bytes, every other call returns as much as fits.
type pattern struct {
	Kind    string `json:"kind"`
	A       int    `json:"a"`
	B       int    `json:"b,omitempty"`
	C       int    `json:"c"` // -1: no second deviation
	D       int    `json:"d,omitempty"`
	EOFWith bool   `json:"eof_with_last_bytes,omitempty"`
}

func (p pattern) String() string {
	s := ""
	switch p.Kind {
	case "split":
		s = fmt.Sprintf("split@%d", p.A)
	case "chunk":
		s = fmt.Sprintf("chunks-of-%d", p.A)
	case "dev":
		s = fmt.Sprintf("read#%d->%d", p.A, p.B)
		if p.C >= 0 {
			s += fmt.Sprintf(",read#%d->%d", p.C, p.D)
		}
	}
	if p.EOFWith {
		s += "+eof-with-data"
	}
	return s
}

// class names the pattern family for signatures.
func (p pattern) class() string {
	switch p.Kind {
	case "split":
		return "two-way-split"
	case "chunk":
		switch {
		case p.A == 1:
			return "1-byte-chunks"
		case p.A <= 3:
			return "2-3-byte-chunks"
		case p.A < 256:
			return "small-chunks"
		}
		return "large-chunks"
	}
	if p.B == 0 || p.C >= 0 && p.D == 0 {
		return "zero-byte-read"
	}
	return "short-read"
}

type scriptReader struct {
	data  []byte
	off   int
	call  int
	p     pattern
	trace uint64 // FNV-1a over the sizes handed out: two patterns with the same trace are the same fragmentation
	reads int    // reads that handed out data
}

func (r *scriptReader) note(n int) {
	r.trace = (r.trace ^ uint64(n+1)) * 1099511628211
	if n > 0 {
		r.reads++
	}
}

func (r *scriptReader) Read(b []byte) (int, error) {
	rem := len(r.data) - r.off
	if rem == 0 {
		return 0, io.EOF // io.EOF only after every byte has been delivered
	}
	n := len(b)
	if n > rem {
		n = rem
	}
	call := r.call
	r.call++
	switch r.p.Kind {
	case "split":
		if r.off < r.p.A && n > r.p.A-r.off {
			n = r.p.A - r.off
		}
	case "chunk":
		if end := (r.off/r.p.A + 1) * r.p.A; n > end-r.off {
			n = end - r.off
		}
	case "dev":
		if call == r.p.A && n > r.p.B {
			n = r.p.B
		} else if call == r.p.C && n > r.p.D {
			n = r.p.D
		}
	}
	r.note(n)
	if n == 0 {
		return 0, nil // a finite number of these is within the io.Reader contract
	}
	copy(b, r.data[r.off:r.off+n])
	r.off += n
	if r.off == len(r.data) && r.p.EOFWith {
		r.note(1 << 20)
		return n, io.EOF // io.Reader permits the last bytes and io.EOF in one call
	}
	return n, nil
}

// patterns enumerates the fragmentation patterns for a stream of n bytes.
func patterns(n int, boundary int, thorough bool) []pattern {
	var out []pattern
	add := func(p pattern) {
		out = append(out, p)
		p.EOFWith = true
		out = append(out, p)
	}
	for k := 1; k < n; k++ {
		add(pattern{Kind: "split", A: k, C: -1})
	}
	maxChunk := n
	if maxChunk > 300 {
		maxChunk = 300
	}
	for c := 1; c <= maxChunk; c++ {
		if !thorough && c > 32 && (c < 254 || c > 258) && c != n-1 {
			continue
		}
		add(pattern{Kind: "chunk", A: c, C: -1})
	}
	if n > 300 {
		for _, c := range []int{511, 512, 513, 1023, 1024, 1025, n - 1} {
			if c > 300 && c < n {
				add(pattern{Kind: "chunk", A: c, C: -1})
			}
		}
	}
	reads := (n+255)/256 + 1
	if reads > 6 {
		reads = 6
	}
	for j := 0; j <= reads; j++ {
		for k := 0; k <= 3; k++ {
			add(pattern{Kind: "dev", A: j, B: k, C: -1})
			if !thorough {
				continue
			}
			for j2 := j + 1; j2 <= reads+1; j2++ {
				for k2 := 0; k2 <= 3; k2++ {
					add(pattern{Kind: "dev", A: j, B: k, C: j2, D: k2})
				}
			}
		}
	}
	return out
}

// ---- buffer configurations ----

// "pooled": one value by Formatter.UnmarshalFromReader; "pooled-sequence": one UnmarshalFromReader call per
// value of the stream on the same reader - the only stream position that entry point leaves behind is the
// reader's, and the next call starts there.
var bufCfgs = []string{"default", "256", "257", "512", "1024", "pooled", "pooled-sequence"}

func newDecoder(cfg string, r io.Reader) *hio.Decoder {
	switch cfg {
	case "default":
		return hio.NewDecoderFromReader(r)
	case "256":
		return hio.NewDecoderFromReader(r, 256)
	case "257":
		return hio.NewDecoderFromReader(r, 257)
	case "512":
		return hio.NewDecoderFromReader(r, 512)
	case "1024":
		return hio.NewDecoderFromReader(r, 1024)
	}
	panic(cfg)
}

// ---- one evaluation ----

type observed struct {
	vals    []string // canonical form after each Decode call that ended without error
	errs    []bool   // error present after each call
	errStr  string
	remains []byte
	hasRem  bool
	panicM  string
	site    string
}

func destTypes(c cse, variant int) []reflect.Type {
	out := make([]reflect.Type, len(c.Types))
	for i, n := range c.Types {
		t := typeByName[n]
		if variant == 1 || t == nil {
			t = typeByName["interface {}"]
		}
		out[i] = t
	}
	return out
}

// decodeAll performs the Decode calls of a case on dec and observes values, errors and the unread rest.
func decodeAll(dec *hio.Decoder, types []reflect.Type) (o observed) {
	ptrs := make([]reflect.Value, len(types))
	msg, stack := iocase.Guard(func() {
		for i, t := range types {
			ptrs[i] = reflect.New(t)
			dec.Decode(ptrs[i].Interface())
			o.errs = append(o.errs, dec.Error != nil)
		}
		if dec.Error != nil {
			o.errStr = dec.Error.Error()
		}
		// canonical forms are taken when all calls are done: a value that aliases the decoder's buffer and is
		// overwritten by a later refill is a wrong value for the caller
		for i := range types {
			if !o.errs[i] {
				o.vals = append(o.vals, gen.Canon(ptrs[i].Elem()))
			} else {
				o.vals = append(o.vals, "")
			}
		}
		if dec.Error == nil {
			o.remains = dec.Remains()
			o.hasRem = true
		}
	})
	if msg != "" {
		o.panicM, o.site = msg, iocase.PanicSite(stack)
	}
	return
}

func reference(c cse, variant int) observed {
	return decodeAll(hio.NewDecoder(c.Bytes).Simple(c.Simple), destTypes(c, variant))
}

func streamed(c cse, variant int, cfg string, p pattern) (observed, *scriptReader) {
	types := destTypes(c, variant)
	r := &scriptReader{data: c.Bytes, p: p, trace: 14695981039346656037}
	if cfg == "pooled-sequence" {
		var o observed
		ptrs := make([]reflect.Value, len(types))
		msg, stack := iocase.Guard(func() {
			for i, t := range types {
				ptrs[i] = reflect.New(t)
				err := hio.Formatter{Simple: c.Simple}.UnmarshalFromReader(r, ptrs[i].Interface())
				o.errs = append(o.errs, err != nil)
				if err != nil {
					o.errStr = err.Error()
					o.vals = append(o.vals, "")
					for len(o.errs) < len(types) { // like a decoder: after an error every further call fails
						o.errs = append(o.errs, true)
						o.vals = append(o.vals, "")
					}
					break
				}
				o.vals = append(o.vals, gen.Canon(ptrs[i].Elem()))
			}
		})
		if msg != "" {
			o.panicM, o.site = msg, iocase.PanicSite(stack)
		}
		return o, r
	}
	if cfg == "pooled" {
		// Formatter.UnmarshalFromReader: one value from a pooled decoder; the decoder is not reachable afterwards
		var o observed
		ptr := reflect.New(types[0])
		msg, stack := iocase.Guard(func() {
			err := hio.Formatter{Simple: c.Simple}.UnmarshalFromReader(r, ptr.Interface())
			o.errs = []bool{err != nil}
			if err != nil {
				o.errStr = err.Error()
				o.vals = []string{""}
			} else {
				o.vals = []string{gen.Canon(ptr.Elem())}
			}
		})
		if msg != "" {
			o.panicM, o.site = msg, iocase.PanicSite(stack)
		}
		return o, r
	}
	return decodeAll(newDecoder(cfg, r).Simple(c.Simple), types), r
}

type diff struct {
	Kind string // panic | value-differs | error-differs | position-differs
	What string
	Site string
	Call int // the Decode call that differs (the last one for a position difference or a panic)
}

func compare(ref, got observed, pooled bool) *diff {
	d := compare1(ref, got, pooled)
	if d != nil && d.Kind != "panic" && d.Call >= 1 && len(got.errs) == len(ref.errs) && pooled && len(ref.errs) > 1 {
		// (pooled-sequence) the first UnmarshalFromReader call agrees, a later one does not: it did not start
		// where the value before it ended
		d.Kind = "next-UnmarshalFromReader-starts-elsewhere"
	}
	return d
}

func compare1(ref, got observed, pooled bool) *diff {
	if got.panicM != "" {
		return &diff{"panic", got.panicM, got.site, len(got.errs)}
	}
	n := len(ref.errs)
	if pooled && len(got.errs) == 1 {
		n = 1
	}
	for i := 0; i < n; i++ {
		if i >= len(got.errs) {
			return &diff{"error-differs", fmt.Sprintf("call %d missing", i), "", i}
		}
		if ref.errs[i] != got.errs[i] {
			e := ref.errStr
			if got.errs[i] {
				e = got.errStr
			}
			return &diff{"error-differs", fmt.Sprintf("Decode call %d: error present in memory: %v, from the reader: %v (%s)", i+1, ref.errs[i], got.errs[i], e), "", i}
		}
		if !ref.errs[i] && ref.vals[i] != got.vals[i] {
			return &diff{"value-differs", fmt.Sprintf("Decode call %d: in memory %s, from the reader %s", i+1, trunc(ref.vals[i], 160), trunc(got.vals[i], 160)), "", i}
		}
	}
	if !pooled && ref.hasRem && got.hasRem && string(ref.remains) != string(got.remains) {
		return &diff{"position-differs", fmt.Sprintf("unread rest in memory %q, from the reader %q", trunc(string(ref.remains), 60), trunc(string(got.remains), 60)), "", n - 1}
	}
	return nil
}

func trunc(s string, n int) string {
	if len(s) > n {
		return s[:n] + "..."
	}
	return s
}

// ---- worker ----

type violRec struct {
	Case    cse      `json:"case"`
	Quoted  string   `json:"stream_quoted"`
	Variant int      `json:"dest_variant"` // 0: the types of the case, 1: interface{} for every call
	Buf     string   `json:"buffer"`
	Pattern pattern  `json:"pattern"`
	Kind    string   `json:"kind"`
	Type    string   `json:"type"` // destination type of the Decode call that differs
	Classes []string `json:"pattern_classes,omitempty"`
	Site    string   `json:"site,omitempty"`
	What    string   `json:"what"`
	Count   int64    `json:"count,omitempty"`
	Pats    int      `json:"pattern_len,omitempty"`
}

type job struct {
	Cases    []cse `json:"cases"`
	Thorough bool  `json:"thorough"`
	// PatMod > 0: this job takes the patterns whose index is PatRem modulo PatMod (a long stream is spread
	// over several jobs)
	PatMod int `json:"pat_mod,omitempty"`
	PatRem int `json:"pat_rem,omitempty"`
}

type result struct {
	Evals    int64     `json:"evals"`
	Cases    int64     `json:"cases"`
	Distinct int64     `json:"distinct"` // distinct (stream, destination variant, buffer, read trace) combinations
	RefErr   int64     `json:"ref_err"`  // cases whose in-memory decode ends in an error (truncations)
	Viol     []violRec `json:"viol"`
	Sample   string    `json:"sample,omitempty"`
}

var arrayLenRe = regexp.MustCompile(`\[[0-9]+\]`)

// sig names the failing cell: a panic by its site, a difference by the destination type of the Decode call
// that differs (array lengths abstracted), for interface{} destinations together with the kind of stream.
// The fragmentation family is not part of the name: the property quantifies over all of them.
func sig(v violRec) string {
	if v.Kind == "panic" {
		return fmt.Sprintf("C05|panic|at=%s|%s", v.Site, msgClass(v.What))
	}
	if v.Kind == "next-UnmarshalFromReader-starts-elsewhere" {
		return "C05|pooled-sequence|next-UnmarshalFromReader-starts-elsewhere"
	}
	t := arrayLenRe.ReplaceAllString(v.Type, "[N]")
	if v.Type == "interface {}" {
		return fmt.Sprintf("C05|%s|type=interface {}|stream-kind=%s", v.Kind, v.Case.Kind)
	}
	return fmt.Sprintf("C05|%s|type=%s", v.Kind, t)
}

var digitsRe = regexp.MustCompile(`-?[0-9]+`)

func msgClass(msg string) string {
	msg = strings.TrimPrefix(msg, "runtime error: ")
	if i := strings.Index(msg, "out of range"); i >= 0 {
		msg = msg[:i+len("out of range")]
	}
	msg = digitsRe.ReplaceAllString(msg, "N")
	if len(msg) > 60 {
		msg = msg[:60]
	}
	return strings.ReplaceAll(strings.TrimSpace(msg), " ", "_")
}

func runCases(j job) result {
	res := result{Viol: []violRec{}}
	byKey := map[string]int{}
	for ci, c := range j.Cases {
		if j.PatRem == 0 {
			res.Cases++
		}
		pats := patterns(len(c.Bytes), c.Boundary, j.Thorough)
		variants := 2
		allIface := true
		for _, t := range c.Types {
			allIface = allIface && t == "interface {}"
		}
		if allIface {
			variants = 1
		}
		for variant := 0; variant < variants; variant++ {
			ref := reference(c, variant)
			if ref.panicM != "" {
				continue // the in-memory decoder itself panics on this stream: C04's business, nothing to compare with
			}
			if len(ref.errs) > 0 && ref.errs[len(ref.errs)-1] {
				res.RefErr++
			}
			for _, cfg := range bufCfgs {
				seen := map[uint64]bool{}
				for pi, p := range pats {
					if j.PatMod > 0 && pi%j.PatMod != j.PatRem {
						continue
					}
					res.Evals++
					got, rd := streamed(c, variant, cfg, p)
					if !seen[rd.trace] {
						seen[rd.trace] = true
						if rd.reads >= 2 {
							res.Distinct++ // a fragmentation not seen before for this stream, destination and buffer
						}
					}
					d := compare(ref, got, strings.HasPrefix(cfg, "pooled"))
					if d == nil {
						continue
					}
					call := d.Call
					if call >= len(c.Types) {
						call = len(c.Types) - 1
					}
					v := violRec{Case: c, Quoted: trunc(fmt.Sprintf("%q", c.Bytes), 400), Variant: variant, Buf: cfg, Pattern: p, Kind: d.Kind, Site: d.Site, What: d.What, Count: 1,
						Type: destTypes(c, variant)[call].String(), Classes: []string{p.class()}}
					key := sig(v)
					if i, ok := byKey[key]; ok {
						o := &res.Viol[i]
						o.Count++
						o.Classes = addClass(o.Classes, p.class())
						if len(c.Bytes) < len(o.Case.Bytes) {
							v.Count, v.Classes = o.Count, o.Classes
							*o = v
						}
						continue
					}
					byKey[key] = len(res.Viol)
					res.Viol = append(res.Viol, v)
				}
			}
		}
		if ci == len(j.Cases)/2 {
			res.Sample = fmt.Sprintf("%s stream %s into %v: %d patterns x %d buffer configurations x %d destination variants", c.Kind, trunc(fmt.Sprintf("%q", c.Bytes), 100), c.Types, len(pats), len(bufCfgs), variants)
		}
	}
	return res
}

func addClass(cs []string, c string) []string {
	for _, x := range cs {
		if x == c {
			return cs
		}
	}
	cs = append(cs, c)
	sort.Strings(cs)
	return cs
}

// ---- the case space ----

func streamKind(b []byte) string {
	max := 1
	for i := 0; i < len(b); {
		r, n := utf8.DecodeRune(b[i:])
		if r != utf8.RuneError && n > max {
			max = n
		}
		i += n
	}
	switch max {
	case 4:
		return "astral-string"
	case 3:
		return "3-byte-char-string"
	case 2:
		return "2-byte-char-string"
	}
	switch b[0] {
	case 'i', 'l', 'd', '0', '1', '2', '3', '4', '5', '6', '7', '8', '9':
		return "number"
	case 's', 'u':
		return "ascii-string"
	case 'b':
		return "bytes"
	case 'a':
		return "list"
	case 'm':
		return "map"
	case 'c', 'o':
		return "object"
	case 'D', 'T':
		return "time"
	case 'g':
		return "guid"
	}
	return "other"
}

// boundaryCases builds streams that put every byte of a token of every kind on the buffer boundary: a list
// whose first element is padding of the right length and whose second element is the token, followed by a
// second value and a tail so that the position after the last Decode is observable.
func boundaryCases(thorough bool) []cse {
	type tok struct {
		kind   string
		typ    string
		simple bool
		mk     func(pad int) interface{}
	}
	padS := func(n int) string { return strings.Repeat("x", n) }
	ones := func(n int, last int) []int {
		out := make([]int, n+1)
		for i := range out {
			out[i] = 1
		}
		out[n] = last
		return out
	}
	in := gen.Inner{A: -5, B: "你好你"}
	toks := []tok{
		{"2-byte-char-string", "[]string", true, func(p int) interface{} { return []string{padS(p), "éééé"} }},
		{"3-byte-char-string", "[]string", true, func(p int) interface{} { return []string{padS(p), "你好你好"} }},
		{"astral-string", "[]string", true, func(p int) interface{} { return []string{padS(p), "\U0001F600\U0001F600\U0001F600"} }},
		{"mixed-string", "[]string", true, func(p int) interface{} { return []string{padS(p), "aé你\U0001F600b"} }},
		{"single-char", "[]string", true, func(p int) interface{} { return []string{padS(p), "你", "é", "a"} }},
		{"number", "[]int", true, func(p int) interface{} { return ones(p, 1234567890) }},
		{"long-number", "[]uint64", true, func(p int) interface{} {
			o := make([]uint64, p+1)
			for i := range o {
				o[i] = 1
			}
			o[p] = 12345678901234567890
			return o
		}},
		{"double", "[]float64", true, func(p int) interface{} {
			o := make([]float64, p+1)
			for i := range o {
				o[i] = 1
			}
			o[p] = 3.141592653589793
			return o
		}},
		{"bytes", "[][]uint8", true, func(p int) interface{} { return [][]byte{[]byte(padS(p)), []byte("0123456789ab")} }},
		{"long-length-prefix", "[]string", true, func(p int) interface{} { return []string{padS(p), "0123456789abcdefghij"} }},
		{"reference", "[]string", false, func(p int) interface{} { return []string{padS(p), "ab", "ab", "ab"} }},
		{"nested-container", "interface {}", true, func(p int) interface{} {
			return []interface{}{padS(p), []interface{}{1, map[string]interface{}{"k": []int{1, 2}}, []interface{}{}}}
		}},
		{"object", "[]gen.Inner", false, func(p int) interface{} { return []gen.Inner{{A: 1, B: padS(p)}, in, in} }},
		{"time", "interface {}", true, func(p int) interface{} {
			return []interface{}{padS(p), time.Date(2022, 2, 27, 12, 34, 56, 789000000, time.UTC)}
		}},
		{"guid", "interface {}", true, func(p int) interface{} {
			return []interface{}{padS(p), uuid.MustParse("01234567-89ab-cdef-0123-456789abcdef")}
		}},
	}
	bounds := []int{256, 512}
	if thorough {
		bounds = []int{256, 512, 1024}
	}
	var out []cse
	seen := map[string]bool{}
	for _, t := range toks {
		typ := t.typ
		enc := func(p int) []byte {
			b, err := iocase.Encode(iocase.Cfg{Entry: "coder", Simple: t.simple}, t.mk(p))
			if err != nil {
				panic(err)
			}
			return append([]byte(nil), b...)
		}
		b0 := enc(0)
		// where the token starts and ends with no padding; padding p shifts both by p (plus the digits of the
		// pad length, which is why the offsets are searched rather than computed)
		for _, B := range bounds {
			for p := B - len(b0) - 12; p <= B+8; p++ {
				if p < 0 {
					continue
				}
				b := enc(p)
				tokStart := len(b) - (len(b0) - tokenOffset(b0, t.kind))
				// keep the streams whose token region [tokStart-2, end] contains the boundary
				if B < tokStart-2 || B > len(b)+1 {
					continue
				}
				full := append(append(append([]byte(nil), b...), "i7;"...), "i42;"...)
				if seen[string(full)] {
					continue
				}
				seen[string(full)] = true
				out = append(out, cse{Bytes: full, Types: []string{typ, "int"}, Simple: t.simple, Kind: t.kind, Boundary: B})
			}
		}
	}
	return out
}

// tokenOffset finds where the interesting token starts in the unpadded encoding: after the first element.
func tokenOffset(b0 []byte, kind string) int {
	switch kind {
	case "number", "long-number", "double":
		return strings.Index(string(b0), "{") + 1
	case "object":
		i := strings.Index(string(b0), "o0{")
		return i + 1 + strings.Index(string(b0[i+1:]), "o0{") // the second object: the first one holds the padding
	}
	// a2{e<token>...}: the padding element is "e" (empty string) when p == 0
	return strings.Index(string(b0), "{") + 2
}

func buildCases(thorough bool) (cases []cse, info map[string]interface{}) {
	info = map[string]interface{}{}
	cs := corpus.Build(gen.NewAlphabet(), 40, 1)
	info["corpus_streams"] = len(cs)
	seen := map[string]bool{}
	add := func(c cse) {
		k := fmt.Sprint(c.Bytes, c.Types, c.Simple)
		if !seen[k] {
			seen[k] = true
			cases = append(cases, c)
		}
	}
	// every corpus stream alone
	for _, s := range cs {
		add(cse{Bytes: s.Bytes, Types: []string{s.Type.String()}, Simple: s.Simple, Kind: streamKind(s.Bytes)})
	}
	n1 := len(cases)
	// sequences of two values on one stream, with a tail that must be left unread
	for i, s := range cs {
		t := cs[(i+1)%len(cs)]
		if s.Simple != t.Simple {
			t = s
		}
		b := append(append(append([]byte(nil), s.Bytes...), t.Bytes...), "i42;"...)
		add(cse{Bytes: b, Types: []string{s.Type.String(), t.Type.String()}, Simple: s.Simple, Kind: streamKind(b)})
	}
	n2 := len(cases)
	// every truncation of the corpus streams
	for _, s := range cs {
		for k := 0; k < len(s.Bytes); k++ {
			add(cse{Bytes: s.Bytes[:k], Types: []string{s.Type.String()}, Simple: s.Simple, Kind: streamKind(s.Bytes), Trunc: true})
		}
	}
	n3 := len(cases)
	bc := boundaryCases(thorough)
	for _, c := range bc {
		add(c)
	}
	big := bigListCase(1500)
	add(big)
	for _, k := range []int{len(big.Bytes) / 3, len(big.Bytes) - 6} {
		t := big
		t.Bytes, t.Trunc = big.Bytes[:k], true
		add(t)
	}
	info["long_self_referential_lists"] = 3
	n4 := len(cases)
	// truncations of the boundary streams next to the boundary
	for _, c := range bc {
		for _, k := range []int{c.Boundary - 1, c.Boundary, c.Boundary + 1, c.Boundary + 2, len(c.Bytes) - 8} {
			if !thorough && k != c.Boundary && k != c.Boundary+1 {
				continue // quick: the two cuts at the boundary
			}
			if k > 0 && k < len(c.Bytes) {
				t := c
				t.Bytes, t.Trunc = c.Bytes[:k], true
				add(t)
			}
		}
	}
	info["single_streams"] = n1
	info["two_value_sequences"] = n2 - n1
	info["truncations_of_corpus_streams"] = n3 - n2
	info["boundary_streams"] = n4 - n3
	info["truncations_of_boundary_streams"] = len(cases) - n4
	info["buffer_configurations"] = bufCfgs
	return
}

// ---- coordinator ----

func main() {
	thorough := report.Tier() == "thorough"
	iocase.Init()
	registerTypes()
	if shard.IsWorker() {
		shard.Serve(func(raw json.RawMessage) interface{} {
			var j job
			if err := json.Unmarshal(raw, &j); err != nil {
				return map[string]string{"error": err.Error()}
			}
			return runCases(j)
		})
	}
	if len(os.Args) > 2 && os.Args[1] == "--replay" {
		replay(os.Args[2])
		return
	}
	run := report.New(ID, "exploration")
	cases, info := buildCases(thorough)
	for _, c := range cases {
		for _, t := range c.Types {
			if typeByName[t] == nil {
				run.Infra("no destination type named " + t)
			}
		}
	}
	// long streams one per job, short ones in groups
	var jobs []interface{}
	var group []cse
	weight := 0
	for _, c := range cases {
		w := len(c.Bytes) * len(c.Bytes)
		if len(c.Bytes) > 4096 {
			for r := 0; r < 32; r++ {
				jobs = append(jobs, job{Cases: []cse{c}, Thorough: thorough, PatMod: 32, PatRem: r})
			}
			continue
		}
		if weight+w > 40000 && len(group) > 0 {
			jobs = append(jobs, job{Cases: group, Thorough: thorough})
			group, weight = nil, 0
		}
		group = append(group, c)
		weight += w
	}
	if len(group) > 0 {
		jobs = append(jobs, job{Cases: group, Thorough: thorough})
	}
	var evals, distinct, ncases, refErr int64
	samples := report.NewSamples(12)
	type agg struct {
		rep   violRec
		count int64
	}
	aggs := map[string]*agg{}
	shard.Run(jobs, shard.Options{JobTimeout: 300 * time.Second, MemLimitKB: 4 << 20}, func(i int, raw json.RawMessage, fail *shard.Failure) {
		if fail != nil {
			j := jobs[i].(job)
			v := violRec{Case: j.Cases[0], Quoted: trunc(fmt.Sprintf("%q", j.Cases[0].Bytes), 400), Kind: "process-death", What: fail.Kind + ": " + fail.Exit + "\n" + trunc(fail.Stderr, 1200), Count: 1}
			s := "C05|process-death|at=" + iocase.PanicSite(fail.Stderr)
			if aggs[s] == nil {
				aggs[s] = &agg{rep: v}
			}
			aggs[s].count++
			return
		}
		var r result
		if err := json.Unmarshal(raw, &r); err != nil || r.Viol == nil {
			run.Infra("bad worker result: " + trunc(string(raw), 300))
			return
		}
		evals += r.Evals
		distinct += r.Distinct
		ncases += r.Cases
		refErr += r.RefErr
		if r.Sample != "" && i%(len(jobs)/12+1) == 0 {
			samples.Add(r.Sample)
		}
		for _, v := range r.Viol {
			s := sig(v)
			a := aggs[s]
			if a == nil {
				a = &agg{rep: v}
				aggs[s] = a
			} else if len(v.Case.Bytes) < len(a.rep.Case.Bytes) || len(v.Case.Bytes) == len(a.rep.Case.Bytes) && string(v.Case.Bytes) < string(a.rep.Case.Bytes) {
				for _, c := range a.rep.Classes {
					v.Classes = addClass(v.Classes, c)
				}
				a.rep = v
			}
			for _, c := range v.Classes {
				a.rep.Classes = addClass(a.rep.Classes, c)
			}
			a.count += v.Count
		}
	})
	var sigs []string
	for s := range aggs {
		sigs = append(sigs, s)
	}
	sort.Strings(sigs)
	// root-cause reduction as in C01: a difference at destination type T is reported only if no strict sub-term
	// type of T shows a difference of the same kind (the sub-term's report covers it)
	failing := map[string]bool{} // kind|type
	for _, a := range aggs {
		failing[a.rep.Kind+"|"+a.rep.Type] = true
	}
	derived := 0
	for _, s := range sigs {
		a := aggs[s]
		v := a.rep
		if t := typeByName[v.Type]; t != nil && v.Kind != "panic" && v.Kind != "process-death" {
			covered := false
			for _, st := range iocase.Subterms(t) {
				covered = covered || failing[v.Kind+"|"+st.String()]
			}
			if covered {
				derived++
				continue
			}
		}
		what := fmt.Sprintf("%s [stream %s (%d bytes, simple=%v) decoded as %v (destination variant %d), buffer %s, reader pattern %s; %d evaluations fail this way, under pattern families %v]",
			v.What, v.Quoted, len(v.Case.Bytes), v.Case.Simple, v.Case.Types, v.Variant, v.Buf, v.Pattern, a.count, v.Classes)
		run.Violate(s, what, v)
		for k := int64(1); k < a.count && k < 1000000; k++ {
			run.Violate(s, "", nil)
		}
	}
	run.Set("evaluations", evals)
	run.Set("distinct_nontrivial", distinct)
	run.Set("rule", "one evaluation = one (stream, destination variant, buffer configuration, fragmentation pattern) streamed decode compared with the in-memory decode of the same bytes; streams are deduplicated; distinct_nontrivial counts, per (stream, destination variant, buffer configuration), the distinct sequences of read sizes the decoder actually saw (patterns that degenerate to the same sequence count once) in which the data arrived in at least two reads")
	run.Set("samples", samples.List())
	run.Set("exhaustive", true)
	run.Set("cases", ncases)
	run.Set("differences_covered_by_a_subterm_type", derived)
	run.Set("cases_ending_in_error_in_memory", refErr)
	info["tier_patterns"] = map[bool]string{true: "every two-way split, every chunk size 1..min(n,300) (+511..513, 1023..1025, n-1), every <=2 deviations (read #j returns 0..3 bytes, j<=6)", false: "every two-way split, chunk sizes 1..32,254..258,511..513,n-1, every single deviation (read #j returns 0..3 bytes, j<=6)"}[thorough]
	run.Set("space", info)
	run.Assumption("scope hypothesis: a refill defect shows on a short valid stream, one of its truncations, or a stream that puts one token of each kind across a 256/512/1024-byte boundary, under a fragmentation with at most two irregular reads")
	run.Assumption("after a Decode call that ended in an error on both sides, values and the unread rest are not compared (only the presence of the error is): the property fixes them for successful decodes")
	run.Assumption("Remains() of a reader-backed decoder drains the reader, so the unread rest is compared as bytes; the pooled Formatter.UnmarshalFromReader exposes no position and is compared on value and error only")
	run.Finish()
}

func replay(path string) {
	_, raw := report.LoadReplay(path)
	var v violRec
	if err := json.Unmarshal(raw, &v); err != nil {
		fmt.Fprintln(os.Stderr, err)
		os.Exit(2)
	}
	fmt.Printf("stream %s as %v simple=%v variant %d buffer %s pattern %s\n", v.Quoted, v.Case.Types, v.Case.Simple, v.Variant, v.Buf, v.Pattern)
	if v.Kind == "process-death" {
		fmt.Println("process deaths are replayed by running the tier again")
		os.Exit(2)
	}
	ref := reference(v.Case, v.Variant)
	got, _ := streamed(v.Case, v.Variant, v.Buf, v.Pattern)
	if d := compare(ref, got, strings.HasPrefix(v.Buf, "pooled")); d != nil {
		fmt.Printf("REPRODUCED %s: %s %s\n", d.Kind, d.What, d.Site)
		fmt.Printf("VIOLATION property=%s replay=%s\n", ID, path)
		os.Exit(1)
	}
	fmt.Println("not reproduced")
	os.Exit(0)
}
