// C06 — the decoder accepts every well-formed stream and converts losslessly across types. Every wire
// token form (hand-built spellings, including those this encoder never emits) x every destination type x
// every container position x {simple, reference}. Oracles: (1) position independence (differential): the
// outcome — value or error — is the same at top level, in a struct field, behind a pointer, as slice /
// array element, as map value and as map key; (2) exact-or-error for the cells of the conversion table
// with defined semantics; (3) no panic; (4) history independence: in a container of two slots (slice, array,
// map values, struct fields) filled with the tokens X then Y, each slot holds what the token gives alone at top
// level — nothing of X leaks into Y's slot; (5) reference transparency: a back-reference to a token read
// earlier (as interface{} or as its natural type) decodes into a destination like the token itself.
package main

import (
	"container/list"
	"encoding/json"
	"fmt"
	"math"
	"math/big"
	"os"
	"reflect"
	"strconv"
	"strings"
	"time"
	"unicode/utf8"

	"github.com/google/uuid"
	"verif/lib/report"
	"verif/lib/shard"
	"verif/mc/gen"
	"verif/mc/hpref"
	"verif/mc/iocase"
)

const ID = "C06"

// ---- spellings ----

type spelling struct {
	name  string
	bytes func(base int) string // base = number of reference-table entries before the token (reference mode)
	refs  bool                  // uses back-references: reference mode only
	self  int                   // reference index of the token's own value relative to base (field-name strings of a class come first)
	den   den
	// same names the spelling that writes the same value of the same kind in its plainest form: whatever the
	// destination, the two spellings must give the same outcome (oracle 7)
	same string
}

// den is the abstract value a spelling denotes
type den struct {
	kind string // int | double | null | empty | bool | text | bytes | guid | datetime | list | map | object
	i    *big.Int
	f    float64
	s    string
	b    bool
	t    time.Time
	v    interface{} // the natural Go value (what decoding into interface{} must be Canon-equal to)
}

func bi(s string) *big.Int { x, _ := new(big.Int).SetString(s, 10); return x }

func lit(s string) func(int) string { return func(int) string { return s } }

var guidStr = "01234567-89ab-cdef-0123-456789abcdef"

func spellings() []spelling {
	var out []spelling
	addInt := func(name, wire, dec string) {
		n := bi(dec)
		var v interface{} = n
		if n.IsInt64() {
			v = n.Int64()
		}
		out = append(out, spelling{name: name, bytes: lit(wire), den: den{kind: "int", i: n, v: v}})
	}
	addInt("digit-3", "3", "3")
	addInt("digit-0", "0", "0")
	addInt("i-small-long-form", "i3;", "3")
	addInt("i-neg", "i-1;", "-1")
	addInt("i-300", "i300;", "300")
	addInt("i-70000", "i70000;", "70000")
	addInt("i-max", "i2147483647;", "2147483647")
	addInt("i-min", "i-2147483648;", "-2147483648")
	addInt("l-small", "l3;", "3")
	addInt("l-neg", "l-129;", "-129")
	addInt("l-2^32", "l4294967296;", "4294967296")
	addInt("l-maxint64", "l9223372036854775807;", "9223372036854775807")
	addInt("l-minint64", "l-9223372036854775808;", "-9223372036854775808")
	addInt("l-maxuint64", "l18446744073709551615;", "18446744073709551615")
	addInt("l-2^64", "l18446744073709551616;", "18446744073709551616")
	addInt("l-huge", "l123456789012345678901234567890;", "123456789012345678901234567890")
	addDbl := func(name, wire string, f float64) {
		out = append(out, spelling{name: name, bytes: lit(wire), den: den{kind: "double", f: f, v: f}})
	}
	addDbl("d-integral", "d3;", 3)
	addDbl("d-fraction", "d3.5;", 3.5)
	addDbl("d-neg-fraction", "d-0.25;", -0.25)
	addDbl("d-300", "d300;", 300)
	addDbl("d-1e21", "d1e+21;", 1e21)
	addDbl("d-0.1", "d0.1;", 0.1)
	addDbl("d-neg-zero", "d-0;", math.Copysign(0, -1))
	// other spellings of values above (what the writers of other languages emit: 0.0, 3.0, exponents)
	alt := func(same string) { out[len(out)-1].same = same }
	addInt("i-zero-long-form", "i0;", "0")
	alt("digit-0")
	addInt("l-zero", "l0;", "0")
	alt("digit-0")
	addDbl("d-zero", "d0;", 0)
	addDbl("d-zero-point-zero", "d0.0;", 0)
	alt("d-zero")
	addDbl("d-zero-exponent", "d0e0;", 0)
	alt("d-zero")
	addDbl("d-neg-zero-point-zero", "d-0.0;", math.Copysign(0, -1))
	alt("d-neg-zero")
	addDbl("d-integral-point-zero", "d3.0;", 3)
	alt("d-integral")
	addDbl("d-integral-exponent", "d3e0;", 3)
	alt("d-integral")
	addDbl("d-fraction-exponent", "d35e-1;", 3.5)
	alt("d-fraction")
	addDbl("nan", "N", math.NaN())
	addDbl("inf+", "I+", math.Inf(1))
	addDbl("inf-", "I-", math.Inf(-1))
	out = append(out,
		spelling{name: "null", bytes: lit("n"), den: den{kind: "null"}},
		spelling{name: "empty", bytes: lit("e"), den: den{kind: "empty", s: "", v: ""}},
		spelling{name: "true", bytes: lit("t"), den: den{kind: "bool", b: true, v: true}},
		spelling{name: "false", bytes: lit("f"), den: den{kind: "bool", b: false, v: false}},
	)
	addText := func(name, wire, s string) {
		out = append(out, spelling{name: name, bytes: lit(wire), den: den{kind: "text", s: s, v: s}})
	}
	addText("uchar-a", "ua", "a")
	addText("uchar-cjk", "u你", "你")
	addText("uchar-digit", "u7", "7")
	addText("s-empty-long-form", `s""`, "")
	addText("s-one-char-long-form", `s1"a"`, "a")
	addText("s-two", `s2"ab"`, "ab")
	addText("s-astral", `s2"😀"`, "😀")
	addText("s-digits", `s3"123"`, "123")
	addText("s-neg-digits", `s4"-129"`, "-129")
	addText("s-big-digits", `s20"18446744073709551616"`, "18446744073709551616")
	addText("s-decimal", `s3"1.5"`, "1.5")
	addText("s-true", `s4"true"`, "true")
	addText("s-guid", `s36"`+guidStr+`"`, guidStr)
	addText("s-date", `s10"2022-02-27"`, "2022-02-27")
	addBytes := func(name, wire string, b []byte) {
		out = append(out, spelling{name: name, bytes: lit(wire), den: den{kind: "bytes", s: string(b), v: b}})
	}
	addBytes("b-empty", `b""`, []byte{})
	addBytes("b-two", `b2"ab"`, []byte("ab"))
	addBytes("b-digits", `b3"123"`, []byte("123"))
	addBytes("b-invalid-utf8", "b2\"\xff\xfe\"", []byte{0xff, 0xfe})
	u := uuid.MustParse(guidStr)
	addBytes("b-16", "b16\""+string(u[:])+"\"", u[:])
	out = append(out, spelling{name: "guid", bytes: lit("g{" + guidStr + "}"), den: den{kind: "guid", s: guidStr, v: u}})
	addTime := func(name, wire string, t time.Time) {
		out = append(out, spelling{name: name, bytes: lit(wire), den: den{kind: "datetime", t: t, v: t}})
	}
	addTime("date-utc", "D20220227Z", time.Date(2022, 2, 27, 0, 0, 0, 0, time.UTC))
	addTime("date-local", "D20220227;", time.Date(2022, 2, 27, 0, 0, 0, 0, time.Local))
	addTime("datetime-utc", "D20220227T123456Z", time.Date(2022, 2, 27, 12, 34, 56, 0, time.UTC))
	addTime("datetime-ms-utc", "D20220227T123456.789Z", time.Date(2022, 2, 27, 12, 34, 56, 789000000, time.UTC))
	addTime("datetime-us-local", "D20220227T123456.789123;", time.Date(2022, 2, 27, 12, 34, 56, 789123000, time.Local))
	addTime("datetime-ns-utc", "D20220227T123456.789123456Z", time.Date(2022, 2, 27, 12, 34, 56, 789123456, time.UTC))
	addTime("time-utc", "T123456Z", time.Date(1970, 1, 1, 12, 34, 56, 0, time.UTC))
	addTime("time-ms-local", "T123456.789;", time.Date(1970, 1, 1, 12, 34, 56, 789000000, time.Local))
	out = append(out,
		spelling{name: "list-empty", bytes: lit("a{}"), den: den{kind: "list", v: []interface{}{}}},
		spelling{name: "list-ints", bytes: lit("a2{12}"), den: den{kind: "list", v: []interface{}{1, 2}}},
		spelling{name: "list-strings", bytes: lit(`a2{s2"ab"ux}`), den: den{kind: "list", v: []interface{}{"ab", "x"}}},
		spelling{name: "list-mixed", bytes: lit(`a3{1uxn}`), den: den{kind: "list", v: []interface{}{1, "x", nil}}},
		spelling{name: "list-repeated-string-ref", refs: true, bytes: func(b int) string { return fmt.Sprintf(`a2{s2"ab"r%d;}`, b+1) }, den: den{kind: "list", v: []interface{}{"ab", "ab"}}},
		spelling{name: "list-repeated-bytes-ref", refs: true, bytes: func(b int) string { return fmt.Sprintf(`a2{b2"ab"r%d;}`, b+1) }, den: den{kind: "list", v: []interface{}{[]byte("ab"), []byte("ab")}}},
		spelling{name: "list-repeated-list-ref", refs: true, bytes: func(b int) string { return fmt.Sprintf(`a2{a1{1}r%d;}`, b+1) }, den: den{kind: "list", v: []interface{}{[]interface{}{1}, []interface{}{1}}}},
		spelling{name: "map-empty", bytes: lit("m{}"), den: den{kind: "map", v: map[string]interface{}{}}},
		spelling{name: "map-string-int", bytes: lit(`m2{ua1ub2}`), den: den{kind: "map", v: map[string]interface{}{"a": 1, "b": 2}}},
		spelling{name: "map-int-string", bytes: lit(`m2{1ux2uy}`), den: den{kind: "map", v: map[interface{}]interface{}{1: "x", 2: "y"}}},
		spelling{name: "map-as-object", bytes: lit(`m2{ua1ubux}`), den: den{kind: "map", v: map[string]interface{}{"a": 1, "b": "x"}}},
		spelling{name: "object", bytes: lit(`c5"Inner"2{s1"a"s1"b"}o0{1ux}`), self: 2, den: den{kind: "object", v: gen.Inner{A: 1, B: "x"}}},
		spelling{name: "object-extra-field", bytes: lit(`c5"Inner"3{s1"a"s1"z"s1"b"}o0{1tux}`), self: 3, den: den{kind: "object", v: gen.Inner{A: 1, B: "x"}}},
		spelling{name: "object-missing-field", bytes: lit(`c5"Inner"1{s1"b"}o0{ux}`), self: 1, den: den{kind: "object", v: gen.Inner{A: 0, B: "x"}}},
		spelling{name: "object-reordered", bytes: lit(`c5"Inner"2{s1"b"s1"a"}o0{ux1}`), self: 2, den: den{kind: "object", v: gen.Inner{A: 1, B: "x"}}},
		spelling{name: "object-other-values", bytes: lit(`c5"Inner"2{s1"a"s1"b"}o0{7uy}`), self: 2, den: den{kind: "object", v: gen.Inner{A: 7, B: "y"}}},
		spelling{name: "object-only-a", bytes: lit(`c5"Inner"1{s1"a"}o0{5}`), self: 1, den: den{kind: "object", v: gen.Inner{A: 5}}},
		spelling{name: "map-as-object-only-b", bytes: lit(`m1{ubuy}`), den: den{kind: "map", v: map[string]interface{}{"b": "y"}}},
		spelling{name: "list-one-int", bytes: lit("a1{5}"), den: den{kind: "list", v: []interface{}{5}}},
		spelling{name: "list-three-ints", bytes: lit("a3{789}"), den: den{kind: "list", v: []interface{}{7, 8, 9}}},
		spelling{name: "list-of-lists", bytes: lit("a2{a1{1}a2{23}}"), den: den{kind: "list", v: []interface{}{[]interface{}{1}, []interface{}{2, 3}}}},
		spelling{name: "b-one", bytes: lit(`b1"z"`), den: den{kind: "bytes", s: "z", v: []byte("z")}},
		spelling{name: "object-field-name-ref", refs: true, bytes: func(b int) string { return fmt.Sprintf(`c5"Inner"2{s1"a"s1"b"}o0{1r%d;}`, b+1) }, den: den{kind: "object", v: gen.Inner{A: 1, B: "b"}}},
	)
	return out
}

// ---- destinations ----

func destinations() []reflect.Type {
	protos := []interface{}{
		false, int(0), int8(0), int16(0), int32(0), int64(0), uint(0), uint8(0), uint16(0), uint32(0), uint64(0), uintptr(0),
		float32(0), float64(0), complex64(0), complex128(0), "", []byte(nil), [2]byte{}, [16]byte{},
		time.Time{}, uuid.UUID{}, big.Int{}, big.Float{}, big.Rat{}, (*big.Int)(nil), (*big.Float)(nil), (*big.Rat)(nil),
		gen.MyInt(0), gen.MyInt8(0), gen.MyUint16(0), gen.MyBool(false), gen.MyFloat(0), gen.MyString(""), gen.MyBytes(nil),
		[]int(nil), []int8(nil), []uint8(nil), []string(nil), []interface{}(nil), []float64(nil), [2]int{}, [2]string{}, [][]int(nil), [2][]int{}, [8]byte{}, []uuid.UUID(nil), [][2]int(nil),
		map[string]int(nil), map[string]interface{}(nil), map[interface{}]interface{}(nil), map[int]string(nil), map[string]string(nil), map[string]gen.Inner(nil), map[string][2]int(nil), map[string][]int(nil),
		gen.Inner{}, (*gen.Inner)(nil), gen.Tagged{}, struct{ A int }{}, (*list.List)(nil),
		(*int)(nil), (*string)(nil), (*float64)(nil), (*bool)(nil), (**int)(nil), (*[]byte)(nil), (*time.Time)(nil),
		// pointers to named types: once the named type has been decoded on its own (it has, at top level, by the
		// time these are met), the pointer's decoder is the general one over the element's registered decoder
		(*gen.MyString)(nil), (*gen.MyBytes)(nil), (*gen.MyInt)(nil), (*gen.MyBool)(nil), (*gen.MyFloat)(nil),
	}
	var out []reflect.Type
	for _, p := range protos {
		out = append(out, reflect.TypeOf(p))
	}
	out = append(out, reflect.TypeOf((*interface{})(nil)).Elem())
	// interface types with methods: the destination holds a method table next to the value
	out = append(out, reflect.TypeOf((*error)(nil)).Elem(), reflect.TypeOf((*fmt.Stringer)(nil)).Elem(), reflect.TypeOf((*error)(nil)), reflect.TypeOf((**fmt.Stringer)(nil)).Elem())
	return out
}

// ---- positions ----

type position struct {
	name string
	// wrap returns the destination type, the wire bytes, the reference base of the token and how to fetch the slot
	typ  func(t reflect.Type) (reflect.Type, bool)
	wire func(tok func(int) string) string
	get  func(v reflect.Value) reflect.Value
}

func positions() []position {
	str := reflect.TypeOf("")
	return []position{
		{"top-level", func(t reflect.Type) (reflect.Type, bool) { return t, true },
			func(tok func(int) string) string { return tok(0) },
			func(v reflect.Value) reflect.Value { return v }},
		{"struct-field", func(t reflect.Type) (reflect.Type, bool) {
			return reflect.StructOf([]reflect.StructField{{Name: "F", Type: t}}), true
		}, func(tok func(int) string) string { return "m1{uf" + tok(1) + "}" },
			func(v reflect.Value) reflect.Value { return v.Field(0) }},
		{"pointer", func(t reflect.Type) (reflect.Type, bool) { return reflect.PtrTo(t), true },
			func(tok func(int) string) string { return tok(0) },
			func(v reflect.Value) reflect.Value {
				if v.IsNil() {
					return reflect.Value{}
				}
				return v.Elem()
			}},
		{"slice-element", func(t reflect.Type) (reflect.Type, bool) { return reflect.SliceOf(t), true },
			func(tok func(int) string) string { return "a1{" + tok(1) + "}" },
			func(v reflect.Value) reflect.Value {
				if v.Len() != 1 {
					return reflect.Value{}
				}
				return v.Index(0)
			}},
		{"array-element", func(t reflect.Type) (reflect.Type, bool) { return reflect.ArrayOf(1, t), true },
			func(tok func(int) string) string { return "a1{" + tok(1) + "}" },
			func(v reflect.Value) reflect.Value { return v.Index(0) }},
		{"map-value", func(t reflect.Type) (reflect.Type, bool) { return reflect.MapOf(str, t), true },
			func(tok func(int) string) string { return "m1{uk" + tok(1) + "}" },
			func(v reflect.Value) reflect.Value {
				if v.Len() != 1 {
					return reflect.Value{}
				}
				return v.MapIndex(reflect.ValueOf("k"))
			}},
		{"map-key", func(t reflect.Type) (reflect.Type, bool) {
			if !t.Comparable() || t.Kind() == reflect.Interface || t.Kind() == reflect.Ptr {
				return nil, false
			}
			return reflect.MapOf(t, str), true
		}, func(tok func(int) string) string { return "m1{" + tok(1) + "uv}" },
			func(v reflect.Value) reflect.Value {
				if v.Len() != 1 {
					return reflect.Value{}
				}
				return v.MapKeys()[0]
			}},
	}
}

// ---- one decode ----

type outcome struct {
	Err   bool
	Panic string
	Canon string
	Msg   string
}

func decodeAt(sp spelling, t reflect.Type, pos position, simple bool) (outcome, string, bool) {
	dt, ok := pos.typ(t)
	if !ok {
		return outcome{}, "", false
	}
	wire := pos.wire(sp.bytes)
	var o outcome
	p := reflect.New(dt)
	var err error
	msg, stack := iocase.Guard(func() {
		err = iocase.Decode(iocase.Cfg{Entry: "coder", Simple: simple}, []byte(wire), p.Interface())
	})
	if msg != "" {
		o.Panic = msg + " at " + iocase.PanicSite(stack)
		return o, wire, true
	}
	if err != nil {
		o.Err, o.Msg = true, err.Error()
		return o, wire, true
	}
	slot := pos.get(p.Elem())
	if !slot.IsValid() {
		o.Canon = "nil"
	} else {
		o.Canon = gen.Canon(slot)
	}
	return o, wire, true
}

// ---- containers of two slots (history independence) ----

type pairContainer struct {
	name string
	typ  func(t reflect.Type) reflect.Type
	wire func(x, y func(int) string, yBase int) string
	get  func(v reflect.Value, i int) reflect.Value
}

func pairContainers() []pairContainer {
	str := reflect.TypeOf("")
	return []pairContainer{
		{"slice-of-two", func(t reflect.Type) reflect.Type { return reflect.SliceOf(t) },
			func(x, y func(int) string, yb int) string { return "a2{" + x(1) + y(yb) + "}" },
			func(v reflect.Value, i int) reflect.Value {
				if v.Len() != 2 {
					return reflect.Value{}
				}
				return v.Index(i)
			}},
		{"array-of-two", func(t reflect.Type) reflect.Type { return reflect.ArrayOf(2, t) },
			func(x, y func(int) string, yb int) string { return "a2{" + x(1) + y(yb) + "}" },
			func(v reflect.Value, i int) reflect.Value { return v.Index(i) }},
		{"map-of-two", func(t reflect.Type) reflect.Type { return reflect.MapOf(str, t) },
			func(x, y func(int) string, yb int) string { return "m2{uk" + x(1) + "ul" + y(yb) + "}" },
			func(v reflect.Value, i int) reflect.Value {
				if v.Len() != 2 {
					return reflect.Value{}
				}
				return v.MapIndex(reflect.ValueOf([]string{"k", "l"}[i]))
			}},
		{"struct-of-two", func(t reflect.Type) reflect.Type {
			return reflect.StructOf([]reflect.StructField{{Name: "A", Type: t}, {Name: "B", Type: t}})
		}, func(x, y func(int) string, yb int) string { return "m2{ua" + x(1) + "ub" + y(yb) + "}" },
			func(v reflect.Value, i int) reflect.Value { return v.Field(i) }},
	}
}

// classDefs counts the class definitions of a token, so that a following object token can name its own class
func classDefs(w string) int { return strings.Count(w, `c5"Inner"`) }

func pairWanted(x, y spelling, thorough bool) bool {
	if y.refs {
		return false // the second token's reference indices would depend on what the first one registered
	}
	if thorough {
		return true
	}
	comp := func(k string) bool { return k == "list" || k == "map" || k == "object" || k == "bytes" }
	return x.den.kind == y.den.kind || comp(x.den.kind) && (comp(y.den.kind) || y.den.kind == "null")
}

type slotOutcome struct {
	o  outcome
	ok bool
}

func decodeWire(wire string, dt reflect.Type, simple bool) (outcome, reflect.Value) {
	var o outcome
	p := reflect.New(dt)
	var err error
	msg, stack := iocase.Guard(func() {
		err = iocase.Decode(iocase.Cfg{Entry: "coder", Simple: simple}, []byte(wire), p.Interface())
	})
	if msg != "" {
		o.Panic = msg + " at " + iocase.PanicSite(stack)
		return o, p.Elem()
	}
	if err != nil {
		o.Err, o.Msg = true, err.Error()
	}
	return o, p.Elem()
}

func canonSlot(v reflect.Value) string {
	if !v.IsValid() {
		return "<absent>"
	}
	return gen.Canon(v)
}

// referable reports whether the token's value is entered into the reference table, and so may be referred to
func referable(sp spelling) bool {
	if sp.refs {
		return false
	}
	w := sp.bytes(0)
	switch sp.den.kind {
	case "text":
		return strings.HasPrefix(w, "s") && w != `s""`
	case "bytes", "guid", "datetime", "list", "map", "object":
		return true
	}
	return false
}

// ---- exact-or-error table ----

func intRange(k reflect.Kind) (lo, hi *big.Int) {
	switch k {
	case reflect.Int8:
		return big.NewInt(math.MinInt8), big.NewInt(math.MaxInt8)
	case reflect.Int16:
		return big.NewInt(math.MinInt16), big.NewInt(math.MaxInt16)
	case reflect.Int32:
		return big.NewInt(math.MinInt32), big.NewInt(math.MaxInt32)
	case reflect.Int, reflect.Int64:
		return big.NewInt(math.MinInt64), big.NewInt(math.MaxInt64)
	case reflect.Uint8:
		return big.NewInt(0), big.NewInt(math.MaxUint8)
	case reflect.Uint16:
		return big.NewInt(0), big.NewInt(math.MaxUint16)
	case reflect.Uint32:
		return big.NewInt(0), big.NewInt(math.MaxUint32)
	case reflect.Uint, reflect.Uint64, reflect.Uintptr:
		return big.NewInt(0), new(big.Int).SetUint64(math.MaxUint64)
	}
	return nil, nil
}

// expect returns ("=", canon) when the result must be exactly that value, ("E", "") when an error is
// required, ("-", "") when the table does not define the cell.
func expect(d den, t reflect.Type) (string, string) {
	intCanon := func(n *big.Int) string { return "int(" + n.String() + ")" }
	k := t.Kind()
	lo, hi := intRange(k)
	isByteSeq := (k == reflect.Slice || k == reflect.Array) && t.Elem().Kind() == reflect.Uint8
	switch {
	case t.Kind() == reflect.Interface && t.NumMethod() > 0:
		if d.kind == "null" {
			return "=", "nil"
		}
		return "-", ""
	case t.Kind() == reflect.Interface:
		if d.kind == "null" {
			return "=", "nil"
		}
		if d.kind == "int" && !d.i.IsInt64() {
			return "-", "" // needs LongType big int
		}
		if d.kind == "object" {
			return "=", gen.CanonOf(d.v)
		}
		return "=", gen.CanonOf(d.v)
	case lo != nil && t.PkgPath() != "math/big": // integer destinations
		switch d.kind {
		case "int":
			if d.i.Cmp(lo) >= 0 && d.i.Cmp(hi) <= 0 {
				return "=", intCanon(d.i)
			}
			return "E", ""
		case "double":
			if d.f == math.Trunc(d.f) && !math.IsInf(d.f, 0) {
				n, _ := new(big.Float).SetFloat64(d.f).Int(nil)
				if n.Cmp(lo) >= 0 && n.Cmp(hi) <= 0 {
					return "=", intCanon(n)
				}
			}
			return "E", ""
		case "text":
			if n, ok := new(big.Int).SetString(d.s, 10); ok && d.s != "" && !strings.HasPrefix(d.s, "+") {
				if n.Cmp(lo) >= 0 && n.Cmp(hi) <= 0 {
					return "=", intCanon(n)
				}
				return "E", ""
			}
			if d.s == "" {
				return "-", ""
			}
			return "E", ""
		case "null":
			return "=", "int(0)"
		case "bytes", "list", "map", "object", "guid", "datetime":
			return "E", ""
		}
	case k == reflect.Float32 || k == reflect.Float64:
		f32 := k == reflect.Float32
		switch d.kind {
		case "int":
			f, acc := new(big.Float).SetInt(d.i).Float64()
			if acc == big.Exact && (!f32 || float64(float32(f)) == f) {
				if f32 {
					return "=", gen.CanonOf(float32(f))
				}
				return "=", gen.CanonOf(f)
			}
			return "-", ""
		case "double":
			if !f32 || math.IsNaN(d.f) || float64(float32(d.f)) == d.f {
				if f32 {
					return "=", gen.CanonOf(float32(d.f))
				}
				return "=", gen.CanonOf(d.f)
			}
			return "-", ""
		case "text":
			if f, err := strconv.ParseFloat(d.s, 64); err == nil {
				if !f32 {
					return "=", gen.CanonOf(f)
				}
				return "-", ""
			}
			if d.s == "" {
				return "-", ""
			}
			return "E", ""
		case "null":
			return "=", gen.CanonOf(0.0)
		case "bytes", "list", "map", "object", "guid", "datetime":
			return "E", ""
		}
	case k == reflect.Complex64 || k == reflect.Complex128:
		c64 := k == reflect.Complex64
		mk := func(f float64) string {
			if c64 {
				return gen.CanonOf(complex64(complex(float32(f), 0)))
			}
			return gen.CanonOf(complex(f, 0))
		}
		switch d.kind {
		case "null":
			return "=", mk(0)
		case "int":
			f, acc := new(big.Float).SetInt(d.i).Float64()
			if acc == big.Exact && (!c64 || float64(float32(f)) == f) {
				return "=", mk(f)
			}
		case "double":
			if !c64 && !math.IsNaN(d.f) {
				return "=", mk(d.f)
			}
		case "bytes", "map", "object", "guid", "datetime":
			return "E", ""
		}
	case t == reflect.TypeOf(big.Int{}) || t == reflect.TypeOf((*big.Int)(nil)):
		switch d.kind {
		case "int":
			return "=", intCanon(d.i)
		case "double":
			if d.f == math.Trunc(d.f) && !math.IsInf(d.f, 0) {
				n, _ := new(big.Float).SetFloat64(d.f).Int(nil)
				return "=", intCanon(n)
			}
			return "E", ""
		case "text":
			if n, ok := new(big.Int).SetString(d.s, 10); ok && d.s != "" && !strings.HasPrefix(d.s, "+") {
				return "=", intCanon(n)
			}
			if d.s == "" {
				return "-", ""
			}
			return "E", ""
		case "bytes", "list", "map", "object", "guid", "datetime":
			return "E", ""
		}
	case k == reflect.String:
		switch d.kind {
		case "int":
			return "=", gen.CanonOf(d.i.String())
		case "text", "empty":
			return "=", gen.CanonOf(d.s)
		case "bytes":
			if utf8.ValidString(d.s) {
				return "=", gen.CanonOf(d.s)
			}
			return "-", ""
		case "null":
			return "=", gen.CanonOf("")
		case "list", "map", "object":
			return "E", ""
		}
	case k == reflect.Bool:
		switch d.kind {
		case "bool":
			return "=", gen.CanonOf(d.b)
		case "null":
			return "=", gen.CanonOf(false)
		case "bytes", "list", "map", "object", "guid", "datetime":
			return "E", ""
		}
	case t == reflect.TypeOf(time.Time{}):
		switch d.kind {
		case "datetime":
			return "=", gen.CanonOf(d.t)
		case "bytes", "list", "map", "object", "guid":
			return "E", ""
		case "double":
			if math.IsNaN(d.f) || math.IsInf(d.f, 0) {
				return "E", ""
			}
		}
	case t == reflect.TypeOf(uuid.UUID{}):
		switch d.kind {
		case "guid":
			return "=", gen.CanonOf(d.v)
		case "text":
			if u, err := uuid.Parse(d.s); err == nil && len(d.s) == 36 {
				return "=", gen.CanonOf(u)
			}
			return "E", ""
		case "bytes":
			if len(d.s) == 16 {
				var u uuid.UUID
				copy(u[:], d.s)
				return "=", gen.CanonOf(u)
			}
			return "E", ""
		case "int", "double", "list", "map", "object", "datetime", "bool":
			return "E", ""
		}
	case isByteSeq && k == reflect.Slice:
		switch d.kind {
		case "bytes", "text", "empty":
			return "=", gen.CanonOf([]byte(d.s))
		case "null":
			return "=", "nil"
		case "int", "double", "map", "object", "datetime", "bool":
			return "E", ""
		}
	case k == reflect.Slice || k == reflect.Array || k == reflect.Map:
		switch d.kind {
		case "guid":
			if isByteSeq {
				return "-", "" // the 16 bytes of the id are a fair reading; the table leaves the cell open
			}
			return "E", ""
		case "int", "double", "bool", "datetime":
			return "E", ""
		case "null":
			if k != reflect.Array {
				return "=", "nil"
			}
		}
	case k == reflect.Struct && t.PkgPath() == "verif/mc/gen":
		switch d.kind {
		case "int", "double", "bool", "guid", "datetime", "bytes", "list":
			return "E", ""
		case "object":
			if t == reflect.TypeOf(gen.Inner{}) {
				return "=", gen.CanonOf(d.v)
			}
		case "map":
			if m, ok := d.v.(map[string]interface{}); ok && t == reflect.TypeOf(gen.Inner{}) && m["b"] == "x" {
				return "=", gen.CanonOf(gen.Inner{A: 1, B: "x"})
			}
		}
	}
	return "-", ""
}

// ---- jobs ----

type job struct {
	Spelling int `json:"s"`
}

type viol struct {
	Sig  string `json:"sig"`
	What string `json:"what"`
	S    int    `json:"s"`
}

type result struct {
	Cases    int64    `json:"cases"`
	Defined  int64    `json:"defined"`
	Distinct int64    `json:"distinct"`
	Pairs    int64    `json:"pairs"`
	Refs     int64    `json:"refs"`
	Viol     []viol   `json:"viol"`
	Samples  []string `json:"samples"`
}

// typeFamily groups the destination types that share one conversion routine shape, so that one lenient
// conversion rule of the decoder is one finding and not one per integer width.
func typeFamily(t reflect.Type) string {
	if lo, _ := intRange(t.Kind()); lo != nil && t.PkgPath() != "math/big" {
		return "integer-types"
	}
	switch t {
	case reflect.TypeOf(big.Int{}), reflect.TypeOf((*big.Int)(nil)):
		return "big.Int"
	}
	return typeClass(t)
}

func typeClass(t reflect.Type) string {
	s := t.String()
	s = strings.ReplaceAll(s, "gen.", "")
	return s
}

func runSpelling(si int) result {
	var res result
	sp := spellings()[si]
	seen := map[string]bool{}
	add := func(sig, what string) {
		for _, v := range res.Viol {
			if v.Sig == sig {
				return
			}
		}
		res.Viol = append(res.Viol, viol{sig, what, si})
	}
	for _, t := range destinations() {
		for _, simple := range []bool{true, false} {
			if sp.refs && simple {
				continue
			}
			var top outcome
			for pi, pos := range positions() {
				if os.Getenv("VERIF_DEBUG") != "" {
					fmt.Fprintf(os.Stderr, "decoding %s into %s at %s simple=%v\n", sp.name, t, pos.name, simple)
				}
				o, wire, ok := decodeAt(sp, t, pos, simple)
				if !ok {
					continue
				}
				res.Cases++
				seen[wire+"|"+t.String()] = true
				where := fmt.Sprintf("token %s (%q) into %s at %s, simple=%v", sp.name, wire, t, pos.name, simple)
				if o.Panic != "" {
					add(fmt.Sprintf("C06|panic|token=%s|dest=%s", sp.den.kind, typeClass(t)), where+": panic: "+o.Panic)
					continue
				}
				if pi == 0 {
					top = o
					mode, want := expect(sp.den, t)
					if mode != "-" {
						res.Defined++
					}
					switch {
					case mode == "=" && o.Err:
						add(fmt.Sprintf("C06|rejected-but-representable|token=%s|dest=%s", sp.name, typeClass(t)), where+": error "+o.Msg+", the destination can represent the denoted value "+want)
					case mode == "=" && o.Canon != want:
						add(fmt.Sprintf("C06|wrong-value|token=%s|dest=%s", sp.name, typeClass(t)), where+": got "+o.Canon+", the token denotes "+want)
					case mode == "E" && !o.Err:
						add(fmt.Sprintf("C06|no-error-for-unrepresentable|token-kind=%s|dest=%s", sp.den.kind, typeFamily(t)), where+": got "+o.Canon+" without error, the destination cannot represent the denoted value")
					}
					continue
				}
				if top.Panic != "" {
					continue
				}
				// position independence; null legitimately becomes a nil pointer behind a pointer
				if sp.den.kind == "null" && pos.name == "pointer" {
					continue
				}
				if o.Err != top.Err || (!o.Err && o.Canon != top.Canon) {
					if pos.name == "pointer" && o.Canon == "nil" && !o.Err && !top.Err {
						// a token that decodes to the zero value at top level and to nil behind a pointer
						add(fmt.Sprintf("C06|position-dependent|at=%s|token=%s|dest=%s", pos.name, sp.name, typeClass(t)), where+fmt.Sprintf(": nil pointer, at top level the same token gives %s", top.Canon))
						continue
					}
					a, b := top.Canon, o.Canon
					if top.Err {
						a = "error " + top.Msg
					}
					if o.Err {
						b = "error " + o.Msg
					}
					add(fmt.Sprintf("C06|position-dependent|at=%s|token=%s|dest=%s", pos.name, sp.name, typeClass(t)), where+": "+b+"; at top level the same token gives "+a)
				}
			}
		}
	}
	thorough := os.Getenv("VERIF_TIER") == "thorough"
	all := spellings()
	tops := map[string]outcome{} // top-level outcome of (token, destination, mode)
	topOf := func(x spelling, t reflect.Type, simple bool) outcome {
		k := fmt.Sprintf("%s|%s|%v", x.name, t, simple)
		if o, ok := tops[k]; ok {
			return o
		}
		o, _, _ := decodeAt(x, t, positions()[0], simple)
		tops[k] = o
		return o
	}
	// (7) spelling independence: another spelling of the same value gives the same outcome in every destination,
	// also in the cells whose outcome the conversion table leaves open
	if sp.same != "" {
		for _, y := range all {
			if y.name != sp.same {
				continue
			}
			for _, t := range destinations() {
				if bt := t; bt.Kind() == reflect.String || (bt.Kind() == reflect.Ptr && bt.Elem().Kind() == reflect.String) {
					continue // a string destination takes the text of a number as it is written: no canonical form
				}
				for _, simple := range []bool{true, false} {
					a, b := topOf(sp, t, simple), topOf(y, t, simple)
					res.Cases++
					if a.Panic != "" || b.Panic != "" {
						continue // oracle 3
					}
					if a.Err != b.Err || (!a.Err && a.Canon != b.Canon) {
						as, bs := a.Canon, b.Canon
						if a.Err {
							as = "error " + a.Msg
						}
						if b.Err {
							bs = "error " + b.Msg
						}
						add(fmt.Sprintf("C06|spelling-dependent|token-kind=%s|dest=%s", sp.den.kind, typeClass(t)), fmt.Sprintf("%q into %s (simple=%v) gives %s; %q, which writes the same value, gives %s", sp.bytes(0), t, simple, as, y.bytes(0), bs))
					}
				}
			}
		}
	}
	// (4) history independence
	for _, y := range all {
		if !pairWanted(sp, y, thorough) {
			continue
		}
		for _, t := range destinations() {
			for _, simple := range []bool{true, false} {
				if sp.refs && simple {
					continue
				}
				tx, ty := topOf(sp, t, simple), topOf(y, t, simple)
				if tx.Panic != "" || ty.Panic != "" || tx.Err || ty.Err {
					continue // the single-token checks above own these cells
				}
				for _, pc := range pairContainers() {
					xw := sp.bytes(1)
					yf := func(b int) string {
						w := y.bytes(b)
						if n := classDefs(xw); n > 0 && !simple {
							w = strings.Replace(w, "o0{", fmt.Sprintf("o%d{", n), 1)
						} else if n > 0 {
							w = strings.Replace(w, "o0{", fmt.Sprintf("o%d{", n), 1)
						}
						return w
					}
					wire := pc.wire(sp.bytes, yf, 0)
					o, v := decodeWire(wire, pc.typ(t), simple)
					res.Cases++
					res.Pairs++
					seen[wire+"|"+t.String()] = true
					where := fmt.Sprintf("tokens %s then %s (%q) into %s of %s, simple=%v", sp.name, y.name, wire, pc.name, t, simple)
					switch {
					case o.Panic != "":
						add(fmt.Sprintf("C06|panic|pair|second-kind=%s|dest=%s", y.den.kind, typeClass(t)), where+": panic: "+o.Panic)
					case o.Err:
						add(fmt.Sprintf("C06|history-dependent|%s|error|second=%s|dest=%s", pc.name, y.name, typeClass(t)), where+": error "+o.Msg+"; each token alone decodes into "+t.String()+" without error")
					default:
						a, b := canonSlot(pc.get(v, 0)), canonSlot(pc.get(v, 1))
						if pc.name == "map-of-two" && (a == "<absent>" || b == "<absent>") {
							a, b = "<absent>", "<absent>"
						}
						if a != tx.Canon {
							add(fmt.Sprintf("C06|history-dependent|%s|first-slot|first=%s|dest=%s", pc.name, sp.name, typeClass(t)), where+": first slot holds "+a+", the token alone gives "+tx.Canon)
						} else if b != ty.Canon {
							add(fmt.Sprintf("C06|history-dependent|%s|second-slot|second-kind=%s|dest=%s", pc.name, y.den.kind, typeClass(t)), where+": second slot holds "+b+", the token alone gives "+ty.Canon)
						}
					}
				}
			}
		}
	}
	// (5) reference transparency
	if referable(sp) {
		natural := reflect.TypeOf(sp.den.v)
		iface := reflect.TypeOf((*interface{})(nil)).Elem()
		firsts := []reflect.Type{iface, natural}
		switch sp.den.kind {
		case "text":
			firsts = append(firsts, reflect.TypeOf(gen.MyString("")))
		case "bytes":
			firsts = append(firsts, reflect.TypeOf(gen.MyBytes(nil)))
		case "object":
			firsts = append(firsts, reflect.TypeOf((*gen.Inner)(nil)))
		}
		for _, first := range firsts {
			for _, t := range destinations() {
				dt := reflect.StructOf([]reflect.StructField{{Name: "A", Type: first}, {Name: "B", Type: t}})
				wire := "m2{ua" + sp.bytes(1) + fmt.Sprintf("ubr%d;}", 1+sp.self)
				o, v := decodeWire(wire, dt, false)
				res.Cases++
				res.Refs++
				seen[wire+"|"+dt.String()] = true
				where := fmt.Sprintf("token %s read as %s, then a reference to it (%q) into %s", sp.name, first, wire, t)
				if o.Panic != "" {
					add(fmt.Sprintf("C06|panic|reference-to=%s|dest=%s", sp.den.kind, typeClass(t)), where+": panic: "+o.Panic)
					continue
				}
				if t == iface && first == iface && !o.Err {
					// the canonical form looks through pointers: the Go type an interface{} gets from the reference
					// is the one it gets from the item itself (a list, not a pointer to a list)
					if oa, va := decodeWire(sp.bytes(0), iface, false); !oa.Err && oa.Panic == "" && va.IsValid() && !va.IsNil() && !v.Field(1).IsNil() {
						if ta, tb := va.Elem().Type(), v.Field(1).Elem().Type(); ta != tb {
							add(fmt.Sprintf("C06|reference-gives-another-go-type|token-kind=%s|first=%s", sp.den.kind, typeClass(first)), where+fmt.Sprintf(": the interface{} holds a %s, the item itself decodes into interface{} as %s", tb, ta))
						}
					}
				}
				mode, want := expect(sp.den, t)
				got := ""
				if !o.Err {
					got = gen.Canon(v.Field(1))
				}
				switch {
				case mode == "=" && o.Err:
					add(fmt.Sprintf("C06|reference-rejected-but-representable|token=%s|first=%s|dest=%s", sp.name, typeClass(first), typeClass(t)), where+": error "+o.Msg+", the destination can represent the denoted value "+want)
				case mode == "=" && got != want:
					add(fmt.Sprintf("C06|reference-wrong-value|token=%s|first=%s|dest=%s", sp.name, typeClass(first), typeClass(t)), where+": got "+got+", the token denotes "+want)
				case mode == "E" && !o.Err:
					add(fmt.Sprintf("C06|reference-no-error-for-unrepresentable|token-kind=%s|dest=%s", sp.den.kind, typeFamily(t)), where+": got "+got+" without error, the destination cannot represent the denoted value")
				case mode == "-" && !o.Err:
					// undefined cell: the reference must at least agree with the token itself when that is accepted
					if top := topOf(sp, t, false); !top.Err && top.Panic == "" && top.Canon != got {
						add(fmt.Sprintf("C06|reference-differs-from-token|token=%s|first=%s|dest=%s", sp.name, typeClass(first), typeClass(t)), where+": got "+got+", the token itself decodes into "+t.String()+" as "+top.Canon)
					}
				}
			}
		}
	}
	// (6) reference numbering does not depend on the destination: whatever type the token is decoded into, it
	// occupies the reference slots the grammar gives it (counted by the independent reader), so a reference to an
	// item that follows it still finds that item
	if !sp.refs {
		xw := sp.bytes(1)
		if parsed, perr := hpref.Parse([]byte(sp.bytes(0)), hpref.Options{}); perr == nil {
			n := len(parsed.Refs)
			str := reflect.TypeOf("")
			for _, t := range destinations() {
				if top := topOf(sp, t, false); top.Err || top.Panic != "" {
					continue
				}
				dt := reflect.StructOf([]reflect.StructField{{Name: "A", Type: t}, {Name: "B", Type: str}, {Name: "C", Type: str}})
				wire := "m3{ua" + xw + `ubs4"beta"uc` + fmt.Sprintf("r%d;}", 1+n)
				o, v := decodeWire(wire, dt, false)
				res.Cases++
				res.Refs++
				seen[wire+"|"+dt.String()] = true
				where := fmt.Sprintf("token %s into %s, then the string \"beta\" and a reference to it (%q)", sp.name, t, wire)
				switch {
				case o.Panic != "":
					add(fmt.Sprintf("C06|panic|reference-after=%s|dest=%s", sp.den.kind, typeClass(t)), where+": panic: "+o.Panic)
				case o.Err:
					add(fmt.Sprintf("C06|reference-after-token-fails|token-kind=%s|dest=%s", sp.den.kind, typeFamily(t)), where+": error "+o.Msg+" (the token occupies "+fmt.Sprint(n)+" reference slots by the grammar)")
				case v.Field(2).String() != "beta":
					add(fmt.Sprintf("C06|reference-after-token-resolves-to-another-item|token-kind=%s|dest=%s", sp.den.kind, typeFamily(t)), where+fmt.Sprintf(": the reference gives %q (the token occupies %d reference slots by the grammar)", v.Field(2).String(), n))
				}
			}
		}
	}
	res.Distinct = int64(len(seen))
	res.Samples = append(res.Samples, fmt.Sprintf("token %s = %q", sp.name, sp.bytes(0)))
	return res
}

func main() {
	iocase.Init()
	if shard.IsWorker() {
		shard.Serve(func(raw json.RawMessage) interface{} {
			var j job
			json.Unmarshal(raw, &j)
			return runSpelling(j.Spelling)
		})
	}
	if len(os.Args) > 2 && os.Args[1] == "--replay" {
		sig, raw := report.LoadReplay(os.Args[2])
		var v viol
		json.Unmarshal(raw, &v)
		r := runSpelling(v.S)
		for _, x := range r.Viol {
			if x.Sig == sig {
				fmt.Printf("REPRODUCED %s: %s\nVIOLATION property=%s replay=%s\n", x.Sig, x.What, ID, os.Args[2])
				os.Exit(1)
			}
		}
		fmt.Println("not reproduced")
		os.Exit(0)
	}
	if only := os.Getenv("VERIF_ONLY"); only != "" {
		for i, sp := range spellings() {
			if sp.name == only {
				r := runSpelling(i)
				for _, v := range r.Viol {
					fmt.Println(v.Sig, "::", v.What)
				}
			}
		}
		return
	}
	run := report.New(ID, "exploration")
	sps := spellings()
	jobs := make([]interface{}, len(sps))
	for i := range sps {
		jobs[i] = job{i}
	}
	var cases, defined, distinct, pairs, refs int64
	samples := report.NewSamples(12)
	shard.Run(jobs, shard.Options{JobTimeout: 5 * time.Minute}, func(i int, raw json.RawMessage, fail *shard.Failure) {
		if fail != nil {
			run.Violate(fmt.Sprintf("C06|process-death|token=%s", sps[i].name), fmt.Sprintf("worker %s: %s\n%s", fail.Kind, fail.Exit, fail.Stderr), viol{S: i})
			return
		}
		var r result
		if err := json.Unmarshal(raw, &r); err != nil {
			run.Infra("bad worker result: " + err.Error())
			return
		}
		cases += r.Cases
		defined += r.Defined
		distinct += r.Distinct
		pairs += r.Pairs
		refs += r.Refs
		for _, s := range r.Samples {
			if i%5 == 0 {
				samples.Add(s)
			}
		}
		for _, v := range r.Viol {
			run.Violate(v.Sig, v.What, v)
		}
	})
	run.Set("evaluations", cases)
	run.Set("distinct_nontrivial", distinct)
	run.Set("rule", "one evaluation = one decode of a hand-built stream (token spelling x destination type x container position x mode); distinct_nontrivial = distinct (stream, destination type) pairs")
	run.Set("samples", samples.List())
	run.Set("exhaustive", true)
	run.Set("space", map[string]interface{}{"spellings": len(sps), "destinations": len(destinations()), "positions": len(positions()), "modes": 2})
	run.Set("cells_with_defined_semantics_checked_at_top_level", defined)
	run.Set("two_token_container_decodes", pairs)
	run.Set("reference_decodes", refs)
	run.Assumption("the exact-or-error table (DESIGN.md appendix B) is deliberately small: cells it does not define are only subject to position independence and to 'no panic'")
	run.Finish()
}
