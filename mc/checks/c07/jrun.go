package main

// The JSON-RPC codec pair (rpc/codec/jsonrpc) on the JSON-representable subset. JSON has a single number
// type, so values are compared after mapping every integer to the float it denotes (jcanon).

import (
	"fmt"
	"reflect"
	"unicode/utf8"

	"github.com/hprose/hprose-golang/v3/rpc/codec/jsonrpc"
	"github.com/hprose/hprose-golang/v3/rpc/core"
	"verif/mc/iocase"
)

func jcanonOf(x interface{}) string { return jcanon(canonOf(x)) }

// jsonLossy: an object in an interface{} destination comes back as a map (JSON carries no class), which
// the statement's "JSON-representable values" excludes.
func jsonLossy(a *aval, dest reflect.Type) bool {
	return (dest == nil || dest == tIface) && a.HasStruct
}

func runJReq(c *caseD) (out outcome) {
	args := pick(jvals, c.Vals)
	nm := names[c.Name]
	si := reqShape(c.Shape, args, true)
	if !si.ok {
		out.na = true
		return
	}
	if nm.Kind == "missing" && !si.missing || nm.Kind == "builtin" && (len(args) != 0 || c.Shape != "exact") {
		out.na = true
		return
	}
	if si.skip {
		out.skipped = true
		return
	}
	for i, a := range args {
		if jsonLossy(a, si.dest[i]) {
			out.skipped = true
			return
		}
	}
	svc := getService(nm, si, svcKey(c, args))
	cc := core.NewClientContext()
	for k, v := range hdrJ[c.Hdr].make() {
		cc.RequestHeaders().Set(k, v)
	}
	passed := make([]interface{}, len(args))
	for i, a := range args {
		passed[i] = a.X
	}
	sc := core.NewServiceContext(svc)
	var (
		data           []byte
		encErr, decErr error
		gotName        string
		gotArgs        []interface{}
		stage          = "encode"
	)
	msg, stack := iocase.Guard(func() {
		data, encErr = jsonrpc.NewClientCodec(nil).Encode(nm.Call, passed, cc)
		if encErr != nil {
			return
		}
		stage = "decode"
		gotName, gotArgs, decErr = jsonrpc.NewServiceCodec(nil).Decode(data, sc)
	})
	out.data = data
	switch {
	case msg != "":
		out.v = c.viol(c.sig("panic", stage, "at="+iocase.PanicSite(stack), panicClass(msg)), "panic in "+stage+": "+msg, data)
		return
	case encErr != nil:
		out.v = c.viol(c.sig("encode-error"), "jsonrpc client codec Encode: "+encErr.Error(), data)
		return
	case decErr != nil && sc.Method == nil:
		out.v = c.viol(c.sig("method", "not-resolved"), fmt.Sprintf("registered %q, called %q: %s", nm.Reg, nm.Call, decErr.Error()), data)
		return
	case decErr != nil && countMismatch[c.Shape]:
		out.noValue = true
		return
	case decErr != nil:
		out.v = c.viol(c.sig("args", c.Shape, "decode-error"), "jsonrpc service codec Decode: "+decErr.Error(), data)
		return
	}
	if gotName != nm.Call {
		out.v = c.viol(c.sig("name", "differs"), fmt.Sprintf("decoded name %q, sent %q", gotName, nm.Call), data)
		return
	}
	m := sc.Method
	switch {
	case m == nil:
		out.v = c.viol(c.sig("method", "not-resolved"), "no error, but the context has no method", data)
		return
	case (nm.Kind == "missing" || si.missing) != m.Missing(), !m.Missing() && m.Name() != nm.Reg:
		out.v = c.viol(c.sig("method", "wrong-method"), fmt.Sprintf("resolved %q (missing=%v), registered %q", m.Name(), m.Missing(), nm.Reg), data)
		return
	}
	if want, have := hdrJ[c.Hdr].canon, headerCanon(sc.RequestHeaders(), true); want != have {
		out.v = c.viol(c.sig("headers", "value-differs"), fmt.Sprintf("headers want %s got %s", trunc(want, 300), trunc(have, 300)), data)
		return
	}
	if len(gotArgs) != len(args) {
		out.v = c.viol(c.sig("args", c.Shape, "count-differs"), fmt.Sprintf("%d arguments decoded, %d passed", len(gotArgs), len(args)), data)
		return
	}
	for i, a := range args {
		if want, have := jcanon(a.Canon), jcanonOf(gotArgs[i]); have != want {
			out.v = c.viol(c.sig("args", c.Shape, "value-differs"),
				fmt.Sprintf("argument %d (%s -> %s): want %s got %s (%T)", i, a.T, destName(si.dest[i]), trunc(want, 300), trunc(have, 300), gotArgs[i]), data)
			return
		}
		if typeDiffers(gotArgs[i], si.dest[i]) {
			out.v = c.viol(c.sig("args", c.Shape, "type-differs"),
				fmt.Sprintf("argument %d: decoded as %T for parameter type %s", i, gotArgs[i], si.dest[i]), data)
			return
		}
	}
	return
}

// jsonContext performs the request half of a call ("ab" without arguments) so that the service context is
// in the state in which the service codec encodes a JSON-RPC response.
func jsonContext() (*core.ServiceContext, error) {
	cc := core.NewClientContext()
	data, err := jsonrpc.NewClientCodec(nil).Encode("~", nil, cc)
	if err != nil {
		return nil, err
	}
	sc := core.NewServiceContext(plainService)
	_, _, err = jsonrpc.NewServiceCodec(nil).Decode(data, sc)
	return sc, err
}

func runJResp(c *caseD) (out outcome) {
	res := pick(jvals, c.Vals)
	si := respShape(c.Shape, res, true)
	if !si.ok {
		out.na = true
		return
	}
	if si.skip {
		out.skipped = true
		return
	}
	nres, nrt := len(res), len(si.params)
	for i, a := range res {
		if i < nrt && jsonLossy(a, si.params[i]) {
			out.skipped = true
			return
		}
	}
	var result interface{}
	switch nres {
	case 0:
	case 1:
		result = res[0].X
	default:
		list := make([]interface{}, nres)
		for i, a := range res {
			list[i] = a.X
		}
		result = list
	}
	cc := core.NewClientContext()
	cc.ReturnType = si.params
	var (
		data           []byte
		encErr, decErr error
		got            []interface{}
		stage          = "request"
	)
	msg, stack := iocase.Guard(func() {
		var sc *core.ServiceContext
		if sc, encErr = jsonContext(); encErr != nil {
			return
		}
		for k, v := range hdrJ[c.Hdr].make() {
			sc.ResponseHeaders().Set(k, v)
		}
		stage = "encode"
		data, encErr = jsonrpc.NewServiceCodec(nil).Encode(result, sc)
		if encErr != nil {
			return
		}
		stage = "decode"
		got, decErr = jsonrpc.NewClientCodec(nil).Decode(data, cc)
	})
	out.data = data
	noValue := nrt == 1 && nres >= 2 || nrt >= 2 && nres == 1 && res[0].ListLike
	out.noValue = noValue
	switch {
	case msg != "":
		out.v = c.viol(c.sig("panic", stage, "at="+iocase.PanicSite(stack), panicClass(msg)), "panic in "+stage+": "+msg, data)
		return
	case encErr != nil:
		out.v = c.viol(c.sig("encode-error"), "jsonrpc service codec "+stage+": "+encErr.Error(), data)
		return
	case noValue:
		return
	case decErr != nil && nrt != nres && nrt != 0:
		out.noValue = true
		return
	case decErr != nil:
		out.v = c.viol(c.sig("result", c.Shape, "decode-error"), "jsonrpc client codec Decode: "+decErr.Error(), data)
		return
	}
	if want, have := hdrJ[c.Hdr].canon, headerCanon(cc.ResponseHeaders(), true); want != have {
		out.v = c.viol(c.sig("headers", "value-differs"), fmt.Sprintf("headers want %s got %s", trunc(want, 300), trunc(have, 300)), data)
		return
	}
	if nrt == 0 {
		if len(got) != 0 {
			out.v = c.viol(c.sig("result", c.Shape, "count-differs"), fmt.Sprintf("%d results for no return type", len(got)), data)
		}
		return
	}
	for i := 0; i < nrt; i++ {
		var have string
		if i < len(got) {
			have = jcanonOf(got[i])
		} else {
			have = jcanon(zeroCanon(si.params[i]))
		}
		if i < len(got) && typeDiffers(got[i], si.params[i]) {
			out.v = c.viol(c.sig("result", c.Shape, "type-differs"),
				fmt.Sprintf("result %d: decoded as %T for return type %s", i, got[i], si.params[i]), data)
			return
		}
		if i < nres {
			if want := jcanon(res[i].Canon); have != want {
				out.v = c.viol(c.sig("result", c.Shape, "value-differs"),
					fmt.Sprintf("result %d (%s -> %s): want %s got %s", i, res[i].T, destName(si.params[i]), trunc(want, 300), trunc(have, 300)), data)
				return
			}
		} else if want := jcanon(zeroCanon(si.params[i])); have != want {
			out.v = c.viol(c.sig("result", c.Shape, "surplus-return-type-not-zero"), fmt.Sprintf("return type %d (%s) has no result: want zero value %s got %s", i, si.params[i], want, trunc(have, 300)), data)
			return
		}
	}
	return
}

func runJErr(c *caseD) (out outcome) {
	ec := errCases[c.Err]
	if !utf8.ValidString(ec.Msg) {
		out.skipped = true // a JSON string cannot carry bytes that are not UTF-8
		return
	}
	rt := errRT[shapeIndex(errShapes, c.Shape)]
	cc := core.NewClientContext()
	cc.ReturnType = rt
	var (
		data           []byte
		encErr, decErr error
		stage          = "request"
	)
	msg, stack := iocase.Guard(func() {
		var sc *core.ServiceContext
		if sc, encErr = jsonContext(); encErr != nil {
			return
		}
		for k, v := range hdrJ[c.Hdr].make() {
			sc.ResponseHeaders().Set(k, v)
		}
		stage = "encode"
		data, encErr = jsonrpc.NewServiceCodec(nil, core.WithDebug(c.Debug)).Encode(ec.Make(), sc)
		if encErr != nil {
			return
		}
		stage = "decode"
		_, decErr = jsonrpc.NewClientCodec(nil).Decode(data, cc)
	})
	out.data = data
	switch {
	case msg != "":
		out.v = c.viol(c.sig("panic", stage, "at="+iocase.PanicSite(stack), panicClass(msg)), "panic in "+stage+": "+msg, data)
		return
	case encErr != nil:
		out.v = c.viol(c.sig("encode-error"), "jsonrpc service codec "+stage+": "+encErr.Error(), data)
		return
	case decErr == nil:
		out.v = c.viol(c.sig("error-lost"), "the client codec returned no error for error "+ec.Label, data)
		return
	}
	if got := decErr.Error(); got != ec.Msg {
		kind := "error"
		if ec.Panic {
			kind = "panic-error"
		}
		out.v = c.viol(c.sig("error-message-differs", kind), fmt.Sprintf("error %s: want message %q got %q", ec.Label, trunc(ec.Msg, 200), trunc(got, 200)), data)
		return
	}
	if want, have := hdrJ[c.Hdr].canon, headerCanon(cc.ResponseHeaders(), true); want != have {
		out.v = c.viol(c.sig("headers", "value-differs"), fmt.Sprintf("headers want %s got %s", trunc(want, 300), trunc(have, 300)), data)
	}
	return
}
