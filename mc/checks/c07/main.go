// C07 — RPC codec round trip. Bounded-exhaustive enumeration of (method name, argument list, parameter-list
// shape, header set, codec options on both sides) for the request direction and of (result list or error,
// return-type shape, header set, codec options) for the response direction, for the hprose codec pair of
// rpc/core and the JSON-RPC codec pair of rpc/codec/jsonrpc. The codecs are driven directly (no transport);
// the reference is the values that went in, compared through gen.Canon.
//
// Files: space.go (alphabets, shapes, header sets, names, errors, settings), run.go (one hprose case),
// jrun.go (one JSON-RPC case), main.go (jobs, enumeration, aggregation, replay), repro/*.go.txt (standalone
// demonstrations of the findings on the pinned tree).
// Debugging aids: `c07 --dump` prints the value alphabets, `c07 --job <lane> <i1> <i2>` runs one job in-process.
package main

import (
	"encoding/json"
	"fmt"
	"hash/fnv"
	"os"
	"runtime/pprof"
	"sort"
	"strings"
	"time"

	"verif/lib/report"
	"verif/lib/shard"
	"verif/mc/iocase"
)

const ID = "C07"

// job is a slice of the space: all lists that start with the given elements (-1 = no such element, -2 =
// every continuation is enumerated inside the job), with everything else crossed inside the job.
type job struct {
	Lane string `json:"lane"` // req | resp | err | names | jreq | jresp | jerr | jnames
	I1   int    `json:"i1"`
	I2   int    `json:"i2"`
}

type result struct {
	Cases    int64            `json:"cases"`
	ByLane   map[string]int64 `json:"by_lane"`
	Skipped  int64            `json:"skipped"`
	NoValue  int64            `json:"no_value"`
	Distinct int64            `json:"distinct"`
	Viol     map[string]viol  `json:"viol"`
	Count    map[string]int   `json:"count"`
	Samples  []string         `json:"samples"`
}

var thorough bool

type tally struct {
	res         result
	seen        map[uint64]struct{}
	sampleHdr   int // which case of the job becomes its sample (varied over jobs so that the samples differ)
	sampleShape string
}

func newTally() *tally {
	return &tally{res: result{ByLane: map[string]int64{}, Viol: map[string]viol{}, Count: map[string]int{}}, seen: map[uint64]struct{}{}}
}

func (t *tally) emit(c *caseD) {
	o := runCase(c)
	switch {
	case o.na:
		return
	case o.skipped:
		t.res.Skipped++
		return
	}
	t.res.Cases++
	t.res.ByLane[c.Lane]++
	if o.noValue {
		t.res.NoValue++
	}
	if len(o.data) > 1 {
		h := fnv.New64a()
		h.Write([]byte(c.Lane))
		h.Write(o.data)
		t.seen[h.Sum64()] = struct{}{}
	}
	if o.v != nil {
		t.res.Count[o.v.Sig]++
		if old, ok := t.res.Viol[o.v.Sig]; !ok || simpler(o.v, &old) {
			t.res.Viol[o.v.Sig] = *o.v
		}
	} else if len(t.res.Samples) < 1 && (len(c.Vals) >= 2 || c.Lane == "err" || c.Lane == "jerr") && c.Hdr == t.sampleHdr && (c.Shape == t.sampleShape || t.sampleShape == "") {
		t.res.Samples = append(t.res.Samples, fmt.Sprintf("%s -> %q", c.String(), trunc(string(o.data), 120)))
	}
}

var bools = []bool{false, true}

var allHdr = []int{hdrNone, hdrOne, hdrTyped, hdrShared, hdrPreset, hdrPresetOff}

// hdrsFor: the header sets a list is crossed with under default settings. The sets whose content is
// independent of the values (one-string, typed, preset-simple-false) meet lists of 3 values in the thorough
// tier only; none, shared-with-args and preset-simple meet every list.
func hdrsFor(l []int) []int {
	if len(l) <= 2 || thorough {
		return allHdr
	}
	return []int{hdrNone, hdrShared, hdrPreset}
}

// hdrsForSettings: the header sets crossed with the 119 non-default decoder settings.
func hdrsForSettings(l []int, ifaceDest bool) []int {
	switch {
	case !ifaceDest:
		return []int{hdrTyped}
	case len(l) > 2, len(l) == 2 && !thorough:
		return []int{hdrNone}
	}
	return []int{hdrNone, hdrTyped}
}

// lists enumerates the value lists of a job: [I1, I2] and [I1, I2, x] for every active x.
func lists(j job, act []int, f func(l []int)) {
	switch {
	case j.I1 < 0:
		f(nil)
	case j.I2 == -1:
		f([]int{j.I1})
	default:
		f([]int{j.I1, j.I2})
		for _, x := range act {
			f([]int{j.I1, j.I2, x})
		}
	}
}

func allCore(alpha []aval, l []int) bool {
	for _, i := range l {
		if !alpha[i].Core {
			return false
		}
	}
	return true
}

// crossSettings decides over which decoder settings a list is crossed: every list with the defaults; the
// other 119 combinations where some destination is an interface{} (lists of <= 2 values, in the thorough
// tier also the lists of 3 quick-tier values), and for lists of <= 1 value in every shape so that the
// header values (always interface{} destinations) meet every combination too.
func crossSettings(alpha []aval, l []int, ifaceDest bool) bool {
	if ifaceDest {
		return len(l) <= 2 || thorough && allCore(alpha, l)
	}
	return len(l) <= 1
}

func runJob(j job) result {
	t := newTally()
	hact, jact := active(hvals, thorough), active(jvals, thorough)
	if k := j.I1 + j.I2; k >= 0 {
		t.sampleHdr = []int{hdrOne, hdrNone, hdrShared, hdrTyped}[k%4]
		switch j.Lane {
		case "req", "jreq":
			t.sampleShape = []string{"exact", "iface", "variadic-one", "ptr", "fewer-params", "missing", "conv"}[k%7]
		case "resp", "jresp":
			t.sampleShape = []string{"exact", "iface", "more-types", "ptr", "conv"}[k%5]
		}
	}
	switch j.Lane {
	case "req":
		lists(j, hact, func(l []int) {
			for _, shape := range reqShapes {
				for _, cs := range bools {
					for _, hdr := range hdrsFor(l) {
						t.emit(&caseD{Lane: "req", Vals: l, Shape: shape, Hdr: hdr, CS: cs})
						if len(l) <= 1 {
							t.emit(&caseD{Lane: "req", Vals: l, Shape: shape, Hdr: hdr, CS: cs, Svc: "jsonrpc-fallback"})
						}
					}
				}
				if !crossSettings(hvals, l, reqShapesIface[shape]) {
					continue
				}
				for _, s := range allSettings[1:] {
					for _, cs := range bools {
						if cs && len(l) > 2 {
							continue // lists of 3 values meet the non-default settings in reference mode only
						}
						for _, hdr := range hdrsForSettings(l, reqShapesIface[shape]) {
							t.emit(&caseD{Lane: "req", Vals: l, Shape: shape, Hdr: hdr, CS: cs, Cfg: s})
						}
					}
				}
			}
		})
	case "names":
		for _, i2 := range append([]int{-1}, active(hvals, false)...) {
			if j.I1 < 0 && i2 >= 0 {
				continue
			}
			l := []int{}
			if j.I1 >= 0 {
				l = append(l, j.I1)
			}
			if i2 >= 0 {
				l = append(l, i2)
			}
			nameHdrs := allHdr
			if len(l) == 2 && !thorough {
				nameHdrs = []int{hdrNone, hdrShared}
			}
			for n := 1; n < len(names); n++ {
				for _, shape := range []string{"exact", "iface", "variadic-iface", "missing"} {
					for _, cs := range bools {
						for _, hdr := range nameHdrs {
							t.emit(&caseD{Lane: "req", Vals: l, Shape: shape, Hdr: hdr, CS: cs, Name: n})
						}
					}
				}
			}
		}
	case "resp":
		lists(j, hact, func(l []int) {
			for _, shape := range respShapes {
				for _, ss := range bools {
					for _, hdr := range hdrsFor(l) {
						for _, cs := range bools {
							for _, dbg := range bools {
								// the client's Simple and the service's Debug play no part in decoding a value: they are
								// crossed for lists of <= 2 values only
								if (cs || dbg) && len(l) > 2 {
									continue
								}
								t.emit(&caseD{Lane: "resp", Vals: l, Shape: shape, Hdr: hdr, SS: ss, CS: cs, Debug: dbg})
							}
						}
						if len(l) <= 1 {
							t.emit(&caseD{Lane: "resp", Vals: l, Shape: shape, Hdr: hdr, SS: ss, Svc: "jsonrpc-fallback"})
						}
					}
				}
				if !crossSettings(hvals, l, respShapesIface[shape]) {
					continue
				}
				for _, s := range allSettings[1:] {
					for _, ss := range bools {
						if ss && len(l) > 2 {
							continue
						}
						for _, hdr := range hdrsForSettings(l, respShapesIface[shape]) {
							t.emit(&caseD{Lane: "resp", Vals: l, Shape: shape, Hdr: hdr, SS: ss, Cfg: s})
						}
					}
				}
			}
		})
	case "err":
		for _, shape := range errShapes {
			for _, ss := range bools {
				for _, cs := range bools {
					for _, dbg := range bools {
						for hdr := 0; hdr < numHdr; hdr++ {
							for _, s := range allSettings {
								t.emit(&caseD{Lane: "err", Err: j.I1, Shape: shape, Hdr: hdr, SS: ss, CS: cs, Debug: dbg, Cfg: s})
							}
							t.emit(&caseD{Lane: "err", Err: j.I1, Shape: shape, Hdr: hdr, SS: ss, CS: cs, Debug: dbg, Svc: "jsonrpc-fallback"})
						}
					}
				}
			}
		}
	case "jreq":
		lists(j, jact, func(l []int) {
			for _, shape := range reqShapes {
				for hdr := 0; hdr < numHdr; hdr++ {
					t.emit(&caseD{Lane: "jreq", Vals: l, Shape: shape, Hdr: hdr})
				}
			}
		})
	case "jnames":
		l := []int{}
		if j.I1 >= 0 {
			l = append(l, j.I1)
		}
		for n := 1; n < len(names); n++ {
			for _, shape := range []string{"exact", "iface", "missing"} {
				for hdr := 0; hdr < numHdr; hdr++ {
					t.emit(&caseD{Lane: "jreq", Vals: l, Shape: shape, Hdr: hdr, Name: n})
				}
			}
		}
	case "jresp":
		lists(j, jact, func(l []int) {
			for _, shape := range respShapes {
				for hdr := 0; hdr < numHdr; hdr++ {
					t.emit(&caseD{Lane: "jresp", Vals: l, Shape: shape, Hdr: hdr})
				}
			}
		})
	case "jerr":
		for _, shape := range errShapes {
			for _, dbg := range bools {
				for hdr := 0; hdr < numHdr; hdr++ {
					t.emit(&caseD{Lane: "jerr", Err: j.I1, Shape: shape, Hdr: hdr, Debug: dbg})
				}
			}
		}
	default:
		panic("c07: unknown job lane " + j.Lane)
	}
	t.res.Distinct = int64(len(t.seen))
	return t.res
}

func makeJobs() []interface{} {
	var jobs []interface{}
	prefixes := func(lane string, act []int) {
		jobs = append(jobs, job{lane, -1, -1})
		for _, a := range act {
			jobs = append(jobs, job{lane, a, -1})
			for _, b := range act {
				jobs = append(jobs, job{lane, a, b})
			}
		}
	}
	hact, jact := active(hvals, thorough), active(jvals, thorough)
	prefixes("req", hact)
	prefixes("resp", hact)
	prefixes("jreq", jact)
	prefixes("jresp", jact)
	for i := range errCases {
		jobs = append(jobs, job{"err", i, 0}, job{"jerr", i, 0})
	}
	jobs = append(jobs, job{"names", -1, -2}, job{"jnames", -1, -2})
	for _, a := range active(hvals, false) {
		jobs = append(jobs, job{"names", a, -2})
	}
	for _, a := range active(jvals, false) {
		jobs = append(jobs, job{"jnames", a, -2})
	}
	return jobs
}

func setup() {
	thorough = report.Tier() == "thorough"
	iocase.Init()
	buildAlphabets()
	buildHeaders()
}

func main() {
	setup()
	if shard.IsWorker() {
		shard.Serve(func(raw json.RawMessage) interface{} {
			var j job
			json.Unmarshal(raw, &j)
			return runJob(j)
		})
	}
	if len(os.Args) > 2 && os.Args[1] == "--replay" {
		replay(os.Args[2])
		return
	}
	if len(os.Args) > 4 && os.Args[1] == "--job" { // debugging aid: run one job in-process, optionally under the CPU profiler
		var j job
		j.Lane = os.Args[2]
		fmt.Sscan(os.Args[3], &j.I1)
		fmt.Sscan(os.Args[4], &j.I2)
		if p := os.Getenv("C07_CPUPROFILE"); p != "" {
			f, _ := os.Create(p)
			pprof.StartCPUProfile(f)
			defer pprof.StopCPUProfile()
		}
		t0 := time.Now()
		r := runJob(j)
		fmt.Printf("%+v: %d cases, %d skipped, %d distinct, %d signatures, %.2fs\n", j, r.Cases, r.Skipped, r.Distinct, len(r.Viol), time.Since(t0).Seconds())
		return
	}
	if len(os.Args) > 1 && os.Args[1] == "--dump" {
		for i, a := range hvals {
			fmt.Println(i, a.Label, a.Core, a.Canon)
		}
		for i, a := range jvals {
			fmt.Println(i, a.Label, a.Core, a.Canon)
		}
		return
	}
	run := report.New(ID, "exploration")
	jobs := makeJobs()
	var cases, skipped, distinct, noValue int64
	byLane := map[string]int64{}
	samples := report.NewSamples(24)
	sampled := map[string]int{}
	best := map[string]viol{}
	count := map[string]int{}
	shard.Run(jobs, shard.Options{JobTimeout: 300 * time.Second}, func(i int, raw json.RawMessage, fail *shard.Failure) {
		j := jobs[i].(job)
		if fail != nil {
			sig := fmt.Sprintf("C07|process-death|lane=%s", j.Lane)
			count[sig]++
			if _, ok := best[sig]; !ok {
				best[sig] = viol{Sig: sig, What: fmt.Sprintf("worker died on job %+v: %s: %s\n%s", j, fail.Kind, fail.Exit, trunc(fail.Stderr, 1500)), Job: &j}
			}
			return
		}
		var r result
		if err := json.Unmarshal(raw, &r); err != nil {
			run.Infra("bad worker result: " + err.Error())
			return
		}
		cases += r.Cases
		skipped += r.Skipped
		distinct += r.Distinct
		noValue += r.NoValue
		for k, n := range r.ByLane {
			byLane[k] += n
		}
		for _, s := range r.Samples {
			if sampled[j.Lane] < 3 && (i%7 == 3 || j.I2 == -2) {
				sampled[j.Lane]++
				samples.Add(s)
			}
		}
		for sig, v := range r.Viol {
			if old, ok := best[sig]; !ok || simpler(&v, &old) {
				best[sig] = v
			}
		}
		for sig, n := range r.Count {
			count[sig] += n
		}
	})
	sigs := make([]string, 0, len(best))
	for s := range best {
		sigs = append(sigs, s)
	}
	sort.Strings(sigs)
	// Root-cause reduction: a failure of a cell is reported only if the same kind of failure does not already
	// show in the base cell it is a variant of: the hprose client against the jsonrpc service codec's fallback
	// path is a variant of the plain pair; every parameter-list / return-type shape is a variant of "exact".
	derived := 0
	for _, s := range sigs {
		base := strings.TrimSuffix(s, "|svc=jsonrpc-fallback")
		covered := false
		if _, ok := best[base]; ok && base != s {
			covered = true
		}
		if f := strings.Split(base, "|"); len(f) == 5 && (f[2] == "args" || f[2] == "result") && f[3] != "exact" {
			f[3] = "exact"
			if _, ok := best[strings.Join(f, "|")]; ok {
				covered = true
			}
		}
		if covered {
			derived++
			continue
		}
		v := best[s]
		sig := s
		if v.Job == nil && !v.Case.Cfg.isDefault() {
			sig += "|settings=" + v.Case.Cfg.String() // fails under no smaller set of non-default decoder settings
		}
		what := v.What
		if v.Job == nil {
			what += " [case: " + v.Case.String() + "; bytes " + fmt.Sprintf("%q", v.Bytes) + "]"
		}
		for n := 0; n < count[s]; n++ {
			run.Violate(sig, what, v)
		}
	}
	hact, jact := active(hvals, thorough), active(jvals, thorough)
	run.Set("evaluations", cases)
	run.Set("distinct_nontrivial", distinct)
	run.Set("rule", "one evaluation = one (direction, method name, value list, parameter/return-type shape, header set, client Simple, service Simple, Debug, decoder settings, codec pair) encode->decode round trip compared with the values that went in; members of the product to which a shape does not apply (e.g. variadic-all for a heterogeneous list) are not counted; distinct_nontrivial counts distinct encoded messages of length > 1 per job (a job = all lists sharing their first two values in one lane), summed over jobs")
	run.Set("samples", samples.List())
	run.Set("exhaustive", true)
	run.Set("evaluations_by_lane", byLane)
	run.Set("skipped_outside_statement_under_settings", skipped)
	run.Set("count_mismatch_cases_checked_for_no_panic_only", noValue)
	run.Set("jobs", len(jobs))
	run.Set("violations_derived_from_base_cell", derived)
	run.Set("space", map[string]interface{}{
		"hprose_value_alphabet": len(hact), "hprose_types": len(htypes), "json_value_alphabet": len(jact), "json_types": len(jtypes),
		"list_lengths": "0..3", "request_shapes": reqShapes, "response_shapes": respShapes, "header_sets": hdrNames,
		"header_crossing": "lists of <= 2 values: all header sets; lists of 3 values: none, shared-with-args, preset-simple (thorough: all); non-default settings: none and typed (lists of 3 values, in the quick tier also of 2 values: none); method-name lane: all (quick tier, lists of 2 values: none, shared-with-args)",
		"method_names":    len(names), "errors": len(errCases), "decoder_settings": len(allSettings),
		"settings_crossing": "all 120 LongType x RealType x MapType x StructType x ListType combinations of the decoding side for: lists of <= 2 values in shapes with interface{} destinations (thorough: also lists of 3 quick-alphabet values, in reference mode), lists of <= 1 value in every shape with the typed header set, every error; defaults elsewhere",
		"modes":             "request: client Simple x header set; response: service Simple x header set x (client Simple x Debug for lists of <= 2 values); errors: service Simple x client Simple x Debug x header set x all settings; hprose client against the jsonrpc service codec (fallback path) for lists of <= 1 value and every error",
	})
	run.Assumption("scope hypothesis: argument/result lists of at most 3 values drawn from a reduced alphabet of 12 representative C01 types (9 JSON types); value-level coverage of the serializer is C01's job")
	run.Assumption("a count mismatch between results and declared return types is only required not to panic (prefix compared, missing results are zero values as in the repository's own codec test); a single list-valued result read into several return types is ambiguous on the wire")
	run.Assumption("values a decoder setting cannot represent in an interface{} destination are skipped with iocase.Representable (same rule as C01); a nil *struct converted to a struct parameter is skipped")
	run.Assumption("Debug=true: a panic error's message may be followed by CRLF and the stack; every other error message must be identical")
	run.Assumption("JSON-RPC: numbers compared as the float64 they denote; structs only towards struct-typed destinations")
	run.Assumption("local zone fixed to America/New_York")
	run.Finish()
}

func replay(path string) {
	_, raw := report.LoadReplay(path)
	var v viol
	if err := json.Unmarshal(raw, &v); err != nil {
		fmt.Println("replay: bad file:", err)
		os.Exit(2)
	}
	if v.Job != nil {
		// process death: run the job on a worker again
		died := false
		shard.Run([]interface{}{*v.Job}, shard.Options{Workers: 1, JobTimeout: 300 * time.Second}, func(i int, raw json.RawMessage, fail *shard.Failure) {
			if fail != nil {
				died = true
				fmt.Printf("REPRODUCED process death on job %+v: %s %s\n%s\n", *v.Job, fail.Kind, fail.Exit, trunc(fail.Stderr, 1500))
			}
		})
		if died {
			fmt.Printf("VIOLATION property=%s replay=%s\n", ID, path)
			os.Exit(1)
		}
		fmt.Println("not reproduced")
		os.Exit(0)
	}
	c := v.Case
	fmt.Println("case:", c.String())
	o := runCase(&c)
	fmt.Printf("bytes: %q\n", o.data)
	switch {
	case o.na:
		fmt.Println("replay: the shape does not apply to this list")
		os.Exit(2)
	case o.skipped:
		fmt.Println("not reproduced (case is skipped as outside the statement)")
		os.Exit(0)
	case o.v != nil:
		fmt.Printf("REPRODUCED %s: %s\n", o.v.Sig, o.v.What)
		fmt.Printf("VIOLATION property=%s replay=%s\n", ID, path)
		os.Exit(1)
	}
	fmt.Println("not reproduced")
	os.Exit(0)
}
