package main

import (
	"fmt"
	"reflect"
	"time"

	"verif/mc/gen"
)

func main() {
	a := gen.NewAlphabet()
	for _, x := range []interface{}{[]int{}, map[string]int{}, gen.Inner{}, &gen.Inner{}, time.Time{}, ""} {
		t := reflect.TypeOf(x)
		for i, v := range a.Vals(t, 3) {
			fmt.Println(t, i, gen.Canon(v))
		}
	}
	it := reflect.TypeOf((*interface{})(nil)).Elem()
	for i, v := range a.Vals(it, 3) {
		fmt.Println(it, i, gen.Canon(v))
	}
}
