package main

// Execution of one case: client codec -> bytes -> service codec (request direction) and service codec ->
// bytes -> client codec (response direction), compared against the values that went in.

import (
	"fmt"
	"reflect"
	"strings"
	"unicode/utf8"

	"github.com/hprose/hprose-golang/v3/rpc/codec/jsonrpc"
	"github.com/hprose/hprose-golang/v3/rpc/core"
	"verif/mc/gen"
	"verif/mc/iocase"
)

// caseD identifies one case of the space completely (it is also the replay record).
type caseD struct {
	Lane  string   `json:"lane"` // req | resp | err | jreq | jresp | jerr
	Vals  []int    `json:"vals"` // indices into the lane's value alphabet: the argument list / the result list
	Shape string   `json:"shape"`
	Hdr   int      `json:"hdr"`
	Name  int      `json:"name"`
	CS    bool     `json:"client_simple"`
	SS    bool     `json:"service_simple"`
	Debug bool     `json:"debug"`
	Cfg   settings `json:"settings"` // LongType, RealType, MapType, StructType, ListType of the decoding side
	Err   int      `json:"err"`
	Svc   string   `json:"svc,omitempty"` // "" = core.NewServiceCodec | "jsonrpc-fallback" = jsonrpc.NewServiceCodec handed an hprose request
}

func (c caseD) String() string {
	var vs []string
	alpha := hvals
	if strings.HasPrefix(c.Lane, "j") {
		alpha = jvals
	}
	for _, i := range c.Vals {
		vs = append(vs, alpha[i].Label+"="+trunc(alpha[i].Canon, 60))
	}
	s := fmt.Sprintf("%s name=%q->%q (%s) shape=%s hdr=%s clientSimple=%v serviceSimple=%v debug=%v settings=%s", c.Lane,
		names[c.Name].Reg, names[c.Name].Call, strings.Join(vs, ", "), c.Shape, hdrNames[c.Hdr], c.CS, c.SS, c.Debug, c.Cfg)
	if c.Lane == "err" || c.Lane == "jerr" {
		s += " error=" + errCases[c.Err].Label
	}
	if c.Svc != "" {
		s += " svc=" + c.Svc
	}
	return s
}

type viol struct {
	Sig   string `json:"sig"`
	Rank  int    `json:"rank"`
	What  string `json:"what"`
	Case  caseD  `json:"case"`
	Bytes string `json:"bytes,omitempty"`
	Job   *job   `json:"job,omitempty"` // process death: the job that killed its worker
}

type outcome struct {
	na      bool // the shape does not apply to this list: not a member of the space
	skipped bool // member of the space, outside what the statement defines under these settings
	noValue bool // count mismatch between results and return types: only "no panic" is checked
	v       *viol
	data    []byte
}

func trunc(s string, n int) string {
	if len(s) > n {
		for n > 0 && !utf8.RuneStart(s[n]) {
			n--
		}
		return s[:n] + "..."
	}
	return s
}

// panicClass reduces a panic message to its kind ("index out of range [2] with length 2" -> "index-out-of-range").
func panicClass(msg string) string {
	msg = strings.TrimPrefix(msg, "runtime error: ")
	if i := strings.IndexAny(msg, ":[("); i >= 0 {
		msg = msg[:i]
	}
	msg = strings.TrimSpace(msg)
	if len(msg) > 50 {
		msg = msg[:50]
	}
	return strings.ReplaceAll(msg, " ", "-")
}

// simpler orders two violations of one signature: smaller rank first, ties broken by the case text so that
// the reported example does not depend on the order in which workers finish.
func simpler(a, b *viol) bool {
	if a.Rank != b.Rank {
		return a.Rank < b.Rank
	}
	return a.Case.tieKey() < b.Case.tieKey()
}

func (c *caseD) tieKey() string {
	var sb strings.Builder
	for _, v := range c.Vals {
		fmt.Fprintf(&sb, "%03d,", v)
	}
	fmt.Fprintf(&sb, "|%02d|%d|%02d|%02d|%v%v%v|%v|%s", max(shapeIndex(reqShapes, c.Shape), shapeIndex(respShapes, c.Shape), shapeIndex(errShapes, c.Shape)), c.Hdr, c.Name, c.Err, c.CS, c.SS, c.Debug, c.Cfg, c.Svc)
	return sb.String()
}

func (c *caseD) rank() int {
	r := c.Cfg.nonDefault()*1000 + len(c.Vals)*10
	if c.CS {
		r++
	}
	if c.SS {
		r++
	}
	if c.Debug {
		r++
	}
	if c.Hdr != 0 {
		r += 2
	}
	if c.Svc != "" {
		r += 5
	}
	if c.Name != 0 {
		r += 3
	}
	return r
}

func (c *caseD) viol(sig, what string, data []byte) *viol {
	return &viol{Sig: sig, Rank: c.rank(), What: what, Case: *c, Bytes: trunc(string(data), 300)}
}

// ---- services (cached per parameter list) ----

var svcCache = map[string]*core.Service{}

func noop(args []reflect.Value) []reflect.Value { return nil }

func getService(nm nameCase, si shapeInfo, key string) *core.Service {
	if s, ok := svcCache[key]; ok {
		return s
	}
	svc := core.NewService()
	switch {
	case nm.Kind == "builtin":
	case nm.Kind == "missing" || si.missing:
		svc.AddMissingMethod(func(name string, args []interface{}) ([]interface{}, error) { return nil, nil })
	default:
		svc.AddFunction(reflect.MakeFunc(reflect.FuncOf(si.params, nil, si.variadic), noop), nm.Reg)
	}
	// decoys: resolution must pick the registered method, not a neighbour
	if nm.Kind != "missing" && !si.missing {
		svc.AddFunction(func(int) {}, nm.Reg+"x")
		svc.AddFunction(func(string) {}, "decoy")
	}
	svcCache[key] = svc
	return svc
}

func svcKey(c *caseD, args []*aval) string {
	b := make([]byte, 0, 8)
	b = append(b, byte(shapeIndex(reqShapes, c.Shape)), byte(c.Name), byte(len(c.Lane)))
	for _, a := range args {
		b = append(b, byte(a.TI))
	}
	return string(b)
}

func (c *caseD) clientCodec() core.ClientCodec {
	opts := []core.CodecOption{core.WithSimple(c.CS), core.WithDebug(c.Debug)}
	if c.Lane == "resp" || c.Lane == "err" {
		opts = append(opts, c.Cfg.options()...)
	}
	return core.NewClientCodec(opts...)
}

func (c *caseD) serviceCodec() core.ServiceCodec {
	opts := []core.CodecOption{core.WithSimple(c.SS), core.WithDebug(c.Debug)}
	if c.Lane == "req" {
		opts = append(opts, c.Cfg.options()...)
	}
	if c.Svc == "jsonrpc-fallback" {
		return jsonrpc.NewServiceCodec(nil, opts...)
	}
	return core.NewServiceCodec(opts...)
}

func pick(alpha []aval, idx []int) []*aval {
	out := make([]*aval, len(idx))
	for i, j := range idx {
		out[i] = &alpha[j]
	}
	return out
}

func canonOf(x interface{}) string {
	if x == nil {
		return "nil"
	}
	return gen.Canon(reflect.ValueOf(x))
}

func headerCanon(d core.Dict, json bool) string {
	if m := d.ToMap(); len(m) == 0 || len(m) == 1 && m["simple"] != nil {
		return "nil"
	}
	c := gen.Canon(reflect.ValueOf(withoutSimple(d.ToMap())))
	if json {
		c = jcanon(c)
	}
	return c
}

// typeDiffers: a value decoded for a typed (non-interface) destination must have exactly that type - the
// service calls the method with it through reflection, the proxy returns it as the declared return type.
func typeDiffers(x interface{}, dest reflect.Type) bool {
	if dest == nil || dest.Kind() == reflect.Interface {
		return false
	}
	return reflect.TypeOf(x) != dest
}

func destName(t reflect.Type) string {
	switch {
	case t == nil:
		return "no-parameter"
	case t == tIface:
		return "interface"
	}
	return t.String()
}

// presetFlag reports whether the case hands the codec a header set in which the user already set the
// reserved flag although that side encodes in reference mode: every failure of such a case is attributed
// to that one cell.
func (c *caseD) presetFlag() bool {
	if c.Hdr != hdrPreset {
		return false
	}
	switch c.Lane {
	case "req":
		return !c.CS
	case "resp", "err":
		return !c.SS
	}
	return false
}

func (c *caseD) dir() string {
	switch c.Lane {
	case "req":
		return "request"
	case "resp", "err":
		return "response"
	case "jreq":
		return "jsonrpc-request"
	}
	return "jsonrpc-response"
}

// sig builds the signature of a failing cell.
func (c *caseD) sig(parts ...string) string {
	if c.presetFlag() {
		return "C07|" + c.dir() + "|preset-simple-flag"
	}
	s := "C07|" + c.dir() + "|" + strings.Join(parts, "|")
	if c.Svc != "" {
		s += "|svc=" + c.Svc
	}
	return s
}

// castOf: in the iface-first shape a decode error is named by the cast it reports, so that the recorded finding
// (a reference to a generic list or map from a typed destination) does not stand for any other error there.
func castOf(shape string, err error) []string {
	if shape != "iface-first" {
		return nil
	}
	msg := err.Error()
	if i := strings.Index(msg, "can not cast "); i >= 0 {
		return []string{"cast=" + strings.Replace(msg[i+len("can not cast "):], " to ", "->", 1)}
	}
	return []string{"other-error"}
}

// countMismatch: the shapes in which the number of arguments does not fit the method's parameter list. The
// statement defines the decoded values where the codec delivers them (compared as usual); an error instead
// is acceptable there, a panic is not.
var countMismatch = map[string]bool{"fewer-params": true, "more-params": true, "variadic-short": true}

// ---- request direction (hprose codec) ----

func runReq(c *caseD) (out outcome) {
	args := pick(hvals, c.Vals)
	nm := names[c.Name]
	si := reqShape(c.Shape, args, false)
	if !si.ok {
		out.na = true
		return
	}
	if nm.Kind == "missing" && !si.missing || nm.Kind == "builtin" && (len(args) != 0 || c.Shape != "exact") {
		out.na = true
		return
	}
	if si.skip {
		out.skipped = true
		return
	}
	prof := hdrH[c.Hdr].prof
	for i, a := range args {
		if si.dest[i] == nil || si.dest[i] == tIface {
			mergeProf(&prof, a.ProfIface)
		} else {
			mergeProf(&prof, a.ProfTyped)
		}
	}
	if !iocase.Representable(c.Cfg.cfg(), prof) || prof.YearOutOfRange {
		out.skipped = true
		return
	}
	svc := getService(nm, si, svcKey(c, args))
	cc := core.NewClientContext()
	for k, v := range hdrH[c.Hdr].make() {
		cc.RequestHeaders().Set(k, v)
	}
	passed := make([]interface{}, len(args))
	for i, a := range args {
		passed[i] = a.X
	}
	sc := core.NewServiceContext(svc)
	var (
		data           []byte
		encErr, decErr error
		gotName        string
		gotArgs        []interface{}
		stage          = "encode"
	)
	msg, stack := iocase.Guard(func() {
		data, encErr = c.clientCodec().Encode(nm.Call, passed, cc)
		if encErr != nil {
			return
		}
		stage = "decode"
		gotName, gotArgs, decErr = c.serviceCodec().Decode(data, sc)
	})
	out.data = data
	switch {
	case msg != "":
		out.v = c.viol(c.sig("panic", stage, "at="+iocase.PanicSite(stack), panicClass(msg)), "panic in "+stage+": "+msg, data)
		return
	case encErr != nil:
		out.v = c.viol(c.sig("encode-error"), "client codec Encode: "+encErr.Error(), data)
		return
	case decErr != nil && sc.Method == nil:
		out.v = c.viol(c.sig("method", "not-resolved"), fmt.Sprintf("registered %q, called %q: %s", nm.Reg, nm.Call, decErr.Error()), data)
		return
	case decErr != nil && countMismatch[c.Shape]:
		out.noValue = true // an error for a call whose argument count does not fit the method is a defined outcome
		return
	case decErr != nil:
		out.v = c.viol(c.sig(append([]string{"args", c.Shape, "decode-error"}, castOf(c.Shape, decErr)...)...), "service codec Decode: "+decErr.Error(), data)
		return
	}
	if gotName != nm.Call {
		out.v = c.viol(c.sig("name", "differs"), fmt.Sprintf("decoded name %q, sent %q", gotName, nm.Call), data)
		return
	}
	m := sc.Method
	switch {
	case m == nil:
		out.v = c.viol(c.sig("method", "not-resolved"), "no error, but the context has no method", data)
		return
	case (nm.Kind == "missing" || si.missing) != m.Missing(), !m.Missing() && m.Name() != nm.Reg:
		out.v = c.viol(c.sig("method", "wrong-method"), fmt.Sprintf("resolved %q (missing=%v), registered %q", m.Name(), m.Missing(), nm.Reg), data)
		return
	}
	if want, have := hdrH[c.Hdr].canon, headerCanon(sc.RequestHeaders(), false); want != have {
		out.v = c.viol(c.sig("headers", "value-differs"), fmt.Sprintf("headers want %s got %s", trunc(want, 300), trunc(have, 300)), data)
		return
	}
	if len(gotArgs) != len(args) {
		out.v = c.viol(c.sig("args", c.Shape, "count-differs"), fmt.Sprintf("%d arguments decoded, %d passed", len(gotArgs), len(args)), data)
		return
	}
	for i, a := range args {
		if have := canonOf(gotArgs[i]); have != a.Canon {
			out.v = c.viol(c.sig("args", c.Shape, "value-differs"),
				fmt.Sprintf("argument %d (%s -> %s): want %s got %s (%T)", i, a.T, destName(si.dest[i]), trunc(a.Canon, 300), trunc(have, 300), gotArgs[i]), data)
			return
		}
		if typeDiffers(gotArgs[i], si.dest[i]) {
			out.v = c.viol(c.sig("args", c.Shape, "type-differs"),
				fmt.Sprintf("argument %d: decoded as %T for parameter type %s", i, gotArgs[i], si.dest[i]), data)
			return
		}
	}
	return
}

// ---- response direction (hprose codec) ----

var plainService = core.NewService()

func zeroCanon(t reflect.Type) string { return gen.Canon(reflect.Zero(t)) }

func runResp(c *caseD) (out outcome) {
	res := pick(hvals, c.Vals)
	si := respShape(c.Shape, res, false)
	if !si.ok {
		out.na = true
		return
	}
	if si.skip {
		out.skipped = true
		return
	}
	nres, nrt := len(res), len(si.params)
	prof := hdrH[c.Hdr].prof
	for i, a := range res {
		if i < nrt && si.params[i] != tIface {
			mergeProf(&prof, a.ProfTyped)
		} else if i < nrt {
			mergeProf(&prof, a.ProfIface)
		} else if a.ProfTyped.YearOutOfRange {
			prof.YearOutOfRange = true
		}
	}
	if !iocase.Representable(c.Cfg.cfg(), prof) || prof.YearOutOfRange {
		out.skipped = true
		return
	}
	var result interface{}
	switch nres {
	case 0:
	case 1:
		result = res[0].X
	default:
		list := make([]interface{}, nres)
		for i, a := range res {
			list[i] = a.X
		}
		result = list
	}
	sc := core.NewServiceContext(plainService)
	for k, v := range hdrH[c.Hdr].make() {
		sc.ResponseHeaders().Set(k, v)
	}
	cc := core.NewClientContext()
	cc.ReturnType = si.params
	var (
		data           []byte
		encErr, decErr error
		got            []interface{}
		stage          = "encode"
	)
	msg, stack := iocase.Guard(func() {
		data, encErr = c.serviceCodec().Encode(result, sc)
		if encErr != nil {
			return
		}
		stage = "decode"
		got, decErr = c.clientCodec().Decode(data, cc)
	})
	out.data = data
	// what the statement defines: equal results in the declared return types. With a different number of
	// return types than results it defines nothing beyond the common prefix (and the codec's own tests fix
	// "missing result -> zero value"); a single list-valued result read into several return types is
	// ambiguous on the wire. There only "no panic" is checked.
	noValue := nrt == 1 && nres >= 2 || nrt >= 2 && nres == 1 && res[0].ListLike
	out.noValue = noValue
	switch {
	case msg != "":
		out.v = c.viol(c.sig("panic", stage, "at="+iocase.PanicSite(stack), panicClass(msg)), "panic in "+stage+": "+msg, data)
		return
	case encErr != nil:
		out.v = c.viol(c.sig("encode-error"), "service codec Encode: "+encErr.Error(), data)
		return
	case noValue:
		return
	case decErr != nil && nrt != nres && nrt != 0:
		out.noValue = true // an error for a result count that does not fit the declared return types is a defined outcome
		return
	case decErr != nil:
		out.v = c.viol(c.sig(append([]string{"result", c.Shape, "decode-error"}, castOf(c.Shape, decErr)...)...), "client codec Decode: "+decErr.Error(), data)
		return
	}
	if want, have := hdrH[c.Hdr].canon, headerCanon(cc.ResponseHeaders(), false); want != have {
		out.v = c.viol(c.sig("headers", "value-differs"), fmt.Sprintf("headers want %s got %s", trunc(want, 300), trunc(have, 300)), data)
		return
	}
	if nrt == 0 {
		if len(got) != 0 {
			out.v = c.viol(c.sig("result", c.Shape, "count-differs"), fmt.Sprintf("%d results for no return type", len(got)), data)
		}
		return
	}
	for i := 0; i < nrt; i++ {
		var have string
		if i < len(got) {
			have = canonOf(got[i])
		} else {
			have = zeroCanon(si.params[i]) // the proxy fills results the codec did not deliver with zero values
		}
		if i < len(got) && typeDiffers(got[i], si.params[i]) {
			out.v = c.viol(c.sig("result", c.Shape, "type-differs"),
				fmt.Sprintf("result %d: decoded as %T for return type %s", i, got[i], si.params[i]), data)
			return
		}
		if i < nres {
			if have != res[i].Canon {
				out.v = c.viol(c.sig("result", c.Shape, "value-differs"),
					fmt.Sprintf("result %d (%s -> %s): want %s got %s", i, res[i].T, destName(si.params[i]), trunc(res[i].Canon, 300), trunc(have, 300)), data)
				return
			}
		} else if want := zeroCanon(si.params[i]); have != want {
			out.v = c.viol(c.sig("result", c.Shape, "surplus-return-type-not-zero"), fmt.Sprintf("return type %d (%s) has no result: want zero value %s got %s", i, si.params[i], want, trunc(have, 300)), data)
			return
		}
	}
	return
}

// ---- errors (hprose codec) ----

var errRT = [][]reflect.Type{nil, {tInt}, {tIface}, {tInt, tString, tIface}}
var errShapes = []string{"rt-none", "rt-int", "rt-interface", "rt-three"}

func runErr(c *caseD) (out outcome) {
	ec := errCases[c.Err]
	rt := errRT[shapeIndex(errShapes, c.Shape)]
	prof := hdrH[c.Hdr].prof
	if !iocase.Representable(c.Cfg.cfg(), prof) {
		out.skipped = true
		return
	}
	sc := core.NewServiceContext(plainService)
	for k, v := range hdrH[c.Hdr].make() {
		sc.ResponseHeaders().Set(k, v)
	}
	cc := core.NewClientContext()
	cc.ReturnType = rt
	var (
		data           []byte
		encErr, decErr error
		stage          = "encode"
	)
	msg, stack := iocase.Guard(func() {
		data, encErr = c.serviceCodec().Encode(ec.Make(), sc)
		if encErr != nil {
			return
		}
		stage = "decode"
		_, decErr = c.clientCodec().Decode(data, cc)
	})
	out.data = data
	switch {
	case msg != "":
		out.v = c.viol(c.sig("panic", stage, "at="+iocase.PanicSite(stack), panicClass(msg)), "panic in "+stage+": "+msg, data)
		return
	case encErr != nil:
		out.v = c.viol(c.sig("encode-error"), "service codec Encode: "+encErr.Error(), data)
		return
	case decErr == nil:
		out.v = c.viol(c.sig("error-lost", fmt.Sprintf("debug=%v", c.Debug)), "the client codec returned no error for error "+ec.Label, data)
		return
	}
	got := decErr.Error()
	okMsg := got == ec.Msg
	if ec.Panic && c.Debug {
		// Debug asks for the stack after the message: the message must still lead
		okMsg = got == ec.Msg || strings.HasPrefix(got, ec.Msg+"\r\n")
	}
	if !okMsg {
		kind := "error"
		if ec.Panic {
			kind = "panic-error"
		}
		out.v = c.viol(c.sig("error-message-differs", kind, fmt.Sprintf("debug=%v", c.Debug)), fmt.Sprintf("error %s: want message %q got %q", ec.Label, trunc(ec.Msg, 200), trunc(got, 200)), data)
		return
	}
	if want, have := hdrH[c.Hdr].canon, headerCanon(cc.ResponseHeaders(), false); want != have {
		out.v = c.viol(c.sig("headers", "value-differs"), fmt.Sprintf("headers want %s got %s", trunc(want, 300), trunc(have, 300)), data)
	}
	return
}

func runCase(c *caseD) outcome {
	switch c.Lane {
	case "req":
		return runReq(c)
	case "resp":
		return runResp(c)
	case "err":
		return runErr(c)
	case "jreq":
		return runJReq(c)
	case "jresp":
		return runJResp(c)
	case "jerr":
		return runJErr(c)
	}
	panic("c07: unknown lane " + c.Lane)
}
