package main

// The finite space of C07: value alphabets (a reduction of the C01 alphabets to representative types),
// parameter-list / return-type shapes, header sets, method names, error values, decoder settings.
// Everything is a total, deterministic enumeration; indices are tier-independent so that a replay file
// written by one tier can be re-executed under the other.

import (
	"errors"
	"fmt"
	"reflect"
	"regexp"
	"strconv"
	"strings"
	"time"

	hio "github.com/hprose/hprose-golang/v3/io"
	"github.com/hprose/hprose-golang/v3/rpc/core"
	"verif/mc/gen"
	"verif/mc/iocase"
)

var (
	tIface    = reflect.TypeOf((*interface{})(nil)).Elem()
	tInt      = reflect.TypeOf(int(0))
	tInt64    = reflect.TypeOf(int64(0))
	tUint     = reflect.TypeOf(uint(0))
	tUint64   = reflect.TypeOf(uint64(0))
	tFloat64  = reflect.TypeOf(float64(0))
	tString   = reflect.TypeOf("")
	tBool     = reflect.TypeOf(false)
	tBytes    = reflect.TypeOf([]byte(nil))
	tInts     = reflect.TypeOf([]int(nil))
	tInt64s   = reflect.TypeOf([]int64(nil))
	tFloats   = reflect.TypeOf([]float64(nil))
	tMapSI    = reflect.TypeOf(map[string]int(nil))
	tMapSI64  = reflect.TypeOf(map[string]int64(nil))
	tMapSF    = reflect.TypeOf(map[string]float64(nil))
	tInner    = reflect.TypeOf(gen.Inner{})
	tPInner   = reflect.TypeOf(&gen.Inner{})
	tTime     = reflect.TypeOf(time.Time{})
	tPTime    = reflect.TypeOf(&time.Time{})
	tMyString = reflect.TypeOf(gen.MyString(""))
	tMyBytes  = reflect.TypeOf(gen.MyBytes(nil))
)

// aval is one element of a value alphabet.
type aval struct {
	T         reflect.Type
	TI        int // index of T in the alphabet's type list
	V         reflect.Value
	X         interface{} // what is handed to the codec (nil for the nil interface)
	Canon     string
	Label     string
	Core      bool        // member of the quick-tier alphabet
	ProfTyped gen.Profile // what the value needs from the decoder settings when its destination has its own type
	ProfIface gen.Profile // ... when its destination is interface{}
	HasStruct bool        // contains a named struct (JSON lane: an object loses its class in an interface{} slot)
	ListLike  bool        // is written as a list at top level (ambiguous as a single result read into several return types)
}

func asIface(v reflect.Value) reflect.Value {
	if v.Kind() == reflect.Interface {
		return v
	}
	x := reflect.New(tIface).Elem()
	x.Set(v)
	return x
}

func hasStruct(v reflect.Value) bool {
	for v.IsValid() && (v.Kind() == reflect.Interface || v.Kind() == reflect.Ptr) {
		if v.IsNil() {
			return false
		}
		v = v.Elem()
	}
	if !v.IsValid() {
		return false
	}
	switch v.Kind() {
	case reflect.Struct:
		return true
	case reflect.Slice, reflect.Array:
		for i := 0; i < v.Len(); i++ {
			if hasStruct(v.Index(i)) {
				return true
			}
		}
	case reflect.Map:
		it := v.MapRange()
		for it.Next() {
			if hasStruct(it.Value()) {
				return true
			}
		}
	}
	return false
}

func listLike(v reflect.Value) bool {
	for v.IsValid() && (v.Kind() == reflect.Interface || v.Kind() == reflect.Ptr) {
		if v.IsNil() {
			return false
		}
		v = v.Elem()
	}
	if !v.IsValid() {
		return false
	}
	switch v.Kind() {
	case reflect.Slice, reflect.Array:
		return v.Type().Elem().Kind() != reflect.Uint8
	}
	return false
}

func mkAval(v reflect.Value, ti int, label string, coreMember bool) aval {
	a := aval{T: v.Type(), TI: ti, V: v, Label: label, Core: coreMember}
	if v.Kind() == reflect.Interface {
		if !v.IsNil() {
			a.X = v.Interface()
		}
	} else {
		a.X = v.Interface()
	}
	a.Canon = gen.Canon(v)
	a.ProfTyped = gen.ProfileOf(v)
	a.ProfIface = gen.ProfileOf(asIface(v))
	if v.Kind() == reflect.Int64 && v.Int() < 0 {
		// int64 is always written with the long tag, whatever its magnitude: in an interface{} destination an
		// unsigned LongType cannot represent it (gen.ProfileOf assumes the int32 range travels as an integer)
		a.ProfIface.LongNeg = true
	}
	a.HasStruct = hasStruct(v)
	a.ListLike = listLike(v)
	return a
}

type repType struct {
	T     reflect.Type
	Quick []int // indices into gen.NewAlphabet().Vals(T, 3): the quick-tier picks
	Extra []int // added by the thorough tier
}

// The hprose lanes: 12 representative types of the C01 universe.
var hproseReps = []repType{
	{tInt, []int{0, 8, 4}, []int{11}},               // -1, MaxInt32+1, 10 | MinInt64
	{tInt64, []int{8, 9, 0}, []int{6}},              // MaxInt64, MinInt64, -1 | MaxInt32+1
	{tUint64, []int{7, 0, 5}, []int{6}},             // MaxUint64, 1, MaxInt64 | MaxInt64+1
	{tFloat64, []int{0, 5, 14}, []int{2, 12}},       // 1.5, 0.1, NaN | -0, +Inf
	{tString, []int{0, 1, 5}, []int{4, 9, 2, 7}},    // "ab", "", astral | "你好", quoted, "a", "\xff"
	{tBytes, []int{0, 1, 4}, []int{2}},              // {1,2,255}, nil, "\"};" | {}
	{tInts, []int{6, 0, 2}, []int{1}},               // {-1,0,1}, nil, {-1} | {}
	{tMapSI, []int{5, 0, 2}, []int{1}},              // 5 entries, nil, {"ab":-1} | {}
	{tInner, []int{3, 0, 1}, []int{2}},              // {1,"ab"}, zero, {-1,""} | {0,"a"}
	{tPInner, []int{4, 0, 2}, []int{1}},             // &{1,"ab"}, nil, &{-1,""} | &zero
	{tTime, []int{0, 1, 9}, []int{2, 11, 15}},       // UTC, local, ms UTC | zero, ns, UTC+8
	{tIface, []int{1, 4, 16}, []int{19, 26, 18, 7}}, // nil, true, [1,"ab",nil] | map, &Inner, ["ab","ab"], MaxInt64
}

// The JSON-RPC lane: JSON-representable values only (numbers exactly representable as float64, strings,
// booleans, null, lists, string-keyed maps; structs only towards struct-typed destinations).
func jsonReps() []struct {
	vals  []interface{}
	t     reflect.Type
	quick int
} {
	ifv := func(xs ...interface{}) []interface{} { return xs }
	return []struct {
		vals  []interface{}
		t     reflect.Type
		quick int
	}{
		{ifv(int(-1), int(2147483648), int(0), int(9007199254740992)), tInt, 2},
		{ifv(1.5, 0.1, 3.0, 1e21, -2.5e-7), tFloat64, 3},
		{ifv("ab", "", "\U0001F600", "你好", "\"quoted\"\n;{}\\", "a"), tString, 3},
		{ifv(true, false), tBool, 2},
		{ifv([]int{-1, 0, 1}, []int(nil), []int{}, []int{7}), tInts, 2},
		{ifv(map[string]int{"ab": -1, "": 0, "你好": 1}, map[string]int(nil), map[string]int{}), tMapSI, 2},
		{ifv(gen.Inner{A: 1, B: "ab"}, gen.Inner{}), tInner, 2},
		{ifv(&gen.Inner{A: 1, B: "ab"}, (*gen.Inner)(nil), &gen.Inner{A: -1}), tPInner, 2},
		{ifv(nil, []interface{}{1.5, "ab", nil}, map[string]interface{}{"k": 1.5, "ab": "ab"}, "ab", 2.0, true,
			[]interface{}{[]interface{}{1.0}, map[string]interface{}{"a": []interface{}{"ab"}}}, []interface{}{}), tIface, 3},
	}
}

var (
	hvals          []aval // hprose alphabet (full = thorough; Core marks the quick subset)
	jvals          []aval // JSON alphabet
	htypes, jtypes []reflect.Type
)

func buildAlphabets() {
	alpha := gen.NewAlphabet()
	for ti, r := range hproseReps {
		all := alpha.Vals(r.T, 3)
		htypes = append(htypes, r.T)
		for k, idx := range append(append([]int{}, r.Quick...), r.Extra...) {
			if idx >= len(all) {
				panic(fmt.Sprintf("c07: alphabet of %s has no value #%d", r.T, idx))
			}
			hvals = append(hvals, mkAval(all[idx], ti, fmt.Sprintf("%s#%d", r.T, idx), k < len(r.Quick)))
		}
	}
	// two pointers to containers: passed twice in one list, the second is written as a reference to the
	// first, whatever Go type the first was read into (the "iface-first" shape reads it into an interface{})
	for _, x := range []interface{}{&[]int{1, 2, 3}, &map[string]int{"x": 1}} {
		v := reflect.ValueOf(x)
		htypes = append(htypes, v.Type())
		hvals = append(hvals, mkAval(v, len(htypes)-1, v.Type().String()+"#0", true))
	}
	for ti, r := range jsonReps() {
		jtypes = append(jtypes, r.t)
		for k, x := range r.vals {
			v := reflect.New(r.t).Elem()
			if x != nil {
				v.Set(reflect.ValueOf(x))
			}
			jvals = append(jvals, mkAval(v, ti, fmt.Sprintf("json:%s#%d", r.t, k), k < r.quick))
		}
	}
}

// active returns the indices of the alphabet members enumerated by the tier.
func active(vals []aval, thorough bool) []int {
	var out []int
	for i, a := range vals {
		if thorough || a.Core {
			out = append(out, i)
		}
	}
	return out
}

// ---- decoder settings ----

type settings [5]int // LongType, RealType, MapType, StructType, ListType

func (s settings) cfg() iocase.Cfg {
	return iocase.Cfg{Entry: "coder", Long: hio.LongType(s[0]), Real: hio.RealType(s[1]), Map: hio.MapType(s[2]), Struct: hio.StructType(s[3]), List: hio.ListType(s[4])}
}
func (s settings) isDefault() bool { return s == settings{} }
func (s settings) nonDefault() int {
	n := 0
	for _, x := range s {
		if x != 0 {
			n++
		}
	}
	return n
}
func (s settings) String() string {
	if s.isDefault() {
		return "default"
	}
	var parts []string
	for i, x := range s {
		if x != 0 {
			parts = append(parts, fmt.Sprintf("%c%d", "LRMSA"[i], x))
		}
	}
	return strings.Join(parts, "+")
}
func (s settings) options() []core.CodecOption {
	return []core.CodecOption{core.WithLongType(hio.LongType(s[0])), core.WithRealType(hio.RealType(s[1])),
		core.WithMapType(hio.MapType(s[2])), core.WithStructType(hio.StructType(s[3])), core.WithListType(hio.ListType(s[4]))}
}

var allSettings = func() []settings {
	var out []settings
	for l := 0; l <= int(hio.LongTypeBigInt); l++ {
		for r := 0; r <= int(hio.RealTypeBigFloat); r++ {
			for m := 0; m <= int(hio.MapTypeSIMap); m++ {
				for s := 0; s <= int(hio.StructTypeValue); s++ {
					for a := 0; a <= int(hio.ListTypeSlice); a++ {
						out = append(out, settings{l, r, m, s, a})
					}
				}
			}
		}
	}
	return out
}()

func mergeProf(a *gen.Profile, b gen.Profile) {
	a.LongNeg = a.LongNeg || b.LongNeg
	a.LongAboveInt64 = a.LongAboveInt64 || b.LongAboveInt64
	a.LongBeyond64 = a.LongBeyond64 || b.LongBeyond64
	a.NilInIfaceList = a.NilInIfaceList || b.NilInIfaceList
	a.YearOutOfRange = a.YearOutOfRange || b.YearOutOfRange
	a.NonF32Double = a.NonF32Double || b.NonF32Double
	a.NaNOrInf = a.NaNOrInf || b.NaNOrInf
	a.NonStringKeyMap = a.NonStringKeyMap || b.NonStringKeyMap
	a.BigInt = a.BigInt || b.BigInt
}

// ---- header sets ----

const (
	hdrNone = iota
	hdrOne
	hdrTyped
	hdrShared
	hdrPreset
	hdrPresetOff
	numHdr
)

var hdrNames = []string{"none", "one-string", "typed", "shared-with-args", "preset-simple", "preset-simple-false"}

type hdrSet struct {
	make  func() map[string]interface{}
	canon string // Canon of the set minus the reserved flag
	prof  gen.Profile
}

var hdrH, hdrJ [numHdr]hdrSet

func withoutSimple(m map[string]interface{}) map[string]interface{} {
	out := make(map[string]interface{}, len(m))
	for k, v := range m {
		if k != "simple" {
			out[k] = v
		}
	}
	return out
}

func buildHeaders() {
	var sharedP interface{}
	for _, a := range hvals {
		if a.T == tPInner && !a.V.IsNil() {
			sharedP = a.X // the very pointer that is also an argument
			break
		}
	}
	tm := time.Date(2022, 2, 27, 12, 34, 56, 789000000, time.UTC)
	h := [numHdr]func() map[string]interface{}{
		func() map[string]interface{} { return nil },
		func() map[string]interface{} { return map[string]interface{}{"id": "test_id"} },
		func() map[string]interface{} {
			return map[string]interface{}{"i": 1, "neg": -5, "big": int64(1) << 40, "f": 1.5, "s": "你好", "e": "", "b": true, "n": nil,
				"l": []interface{}{1, "ab"}, "m": map[string]interface{}{"k": 1}, "st": gen.Inner{A: 1, B: "x"}, "t": tm}
		},
		func() map[string]interface{} {
			return map[string]interface{}{"k": "ab", "ab": "ab", "p": sharedP, "你好": "\U0001F600"}
		},
		func() map[string]interface{} { return map[string]interface{}{"simple": true, "id": "ab"} },
		func() map[string]interface{} { return map[string]interface{}{"simple": false, "id": "ab"} },
	}
	j := [numHdr]func() map[string]interface{}{
		h[0], h[1],
		func() map[string]interface{} {
			return map[string]interface{}{"i": 1, "neg": -5, "f": 1.5, "s": "你好", "e": "", "b": true, "n": nil,
				"l": []interface{}{1, "ab"}, "m": map[string]interface{}{"k": 1}}
		},
		func() map[string]interface{} {
			return map[string]interface{}{"k": "ab", "ab": "ab", "你好": "\U0001F600"}
		},
		h[4], h[5],
	}
	for i := 0; i < numHdr; i++ {
		hdrH[i] = hdrSet{make: h[i], canon: gen.Canon(reflect.ValueOf(withoutSimple(h[i]()))), prof: gen.ProfileOf(reflect.ValueOf(h[i]()))}
		hdrJ[i] = hdrSet{make: j[i], canon: jcanon(gen.Canon(reflect.ValueOf(withoutSimple(j[i]()))))}
	}
}

// ---- method names ----

type nameCase struct {
	Reg, Call string
	Kind      string // "" ordinary | "builtin" (the ~ method every service has) | "missing" (catch-all * method)
}

var names = []nameCase{
	{"ab", "ab", ""}, // default of the argument lanes: equal to a string of the value alphabet and of the shared header set
	{"f", "f", ""},
	{"f", "F", ""},
	{"F", "f", ""},
	{"hello", "HeLLo", ""},
	{"你好", "你好", ""},
	{"a_b", "A_B", ""},
	{"Äb", "äB", ""},
	{"\U0001F600", "\U0001F600", ""},
	{"a\"b;{}", "a\"b;{}", ""},
	{"x y", "X Y", ""},
	{"~", "~", "builtin"},
	{"*", "nope", "missing"},
	{"*", "*", "missing"},
	{"*", "你好", "missing"},
}

// ---- error values ----

type errCase struct {
	Label string
	Make  func() error
	Msg   string
	Panic bool
}

var realPanic = core.NewPanicError("real panic")

var errCases = []errCase{
	{"boom", func() error { return errors.New("boom") }, "boom", false},
	{"empty", func() error { return errors.New("") }, "", false},
	{"one-char", func() error { return errors.New("x") }, "x", false},
	{"non-ascii", func() error { return errors.New("你好, wörld") }, "你好, wörld", false},
	{"astral", func() error { return errors.New("\U0001F600") }, "\U0001F600", false},
	{"timeout", func() error { return errors.New("timeout") }, "timeout", false},
	{"punct", func() error { return errors.New("a\"b;\r\n{}z") }, "a\"b;\r\n{}z", false},
	{"long", func() error { return errors.New(strings.Repeat("0123456789", 30)) }, strings.Repeat("0123456789", 30), false},
	{"wrapped", func() error { return fmt.Errorf("outer: %w", errors.New("inner")) }, "outer: inner", false},
	{"invalid-utf8", func() error { return errors.New("a\xffb") }, "a\xffb", false},
	{"panic-string", func() error {
		return &core.PanicError{Panic: "pboom", Stack: []byte("goroutine 1 [running]:\nmain.f()\n\t/x.go:1 +0x1\n")}
	}, "pboom", true},
	{"panic-int", func() error { return &core.PanicError{Panic: 42, Stack: []byte("S")} }, "42", true},
	{"panic-error-nostack", func() error { return &core.PanicError{Panic: errors.New("inner 你好")} }, "inner 你好", true},
	{"panic-real", func() error { return realPanic }, "real panic", true},
	{"panic-empty", func() error { return &core.PanicError{Panic: "", Stack: []byte("S")} }, "", true},
}

// ---- shapes ----

var reqShapes = []string{"exact", "iface", "conv", "ptr", "fewer-params", "more-params", "variadic-one", "variadic-all",
	"variadic-empty", "variadic-iface", "variadic-iface-tail", "missing", "variadic-short", "iface-first"}

// reqShapesIface are the shapes in which some argument lands in an interface{} destination (so that the
// decoder settings matter for the arguments).
var reqShapesIface = map[string]bool{"iface": true, "fewer-params": true, "variadic-iface": true, "variadic-iface-tail": true, "missing": true, "iface-first": true}

var respShapes = []string{"exact", "iface", "conv", "ptr", "fewer-types", "more-types", "none", "iface-first"}
var respShapesIface = map[string]bool{"iface": true, "iface-first": true}

func shapeIndex(list []string, s string) int {
	for i, x := range list {
		if x == s {
			return i
		}
	}
	return -1
}

func convType(t reflect.Type, json bool) reflect.Type {
	if json {
		switch t {
		case tInt:
			return tFloat64
		case tInts:
			return tFloats
		case tMapSI:
			return tMapSF
		case tString:
			return tMyString
		case tInner:
			return tPInner
		case tPInner:
			return tInner
		}
		return t
	}
	switch t {
	case tInt:
		return tInt64
	case tInt64:
		return tInt
	case tUint64:
		return tUint
	case tString:
		return tMyString
	case tBytes:
		return tMyBytes
	case tInts:
		return tInt64s
	case tMapSI:
		return tMapSI64
	case tInner:
		return tPInner
	case tPInner:
		return tInner
	case tTime:
		return tPTime
	}
	return t
}

type shapeInfo struct {
	ok       bool
	skip     bool           // applicable, but the conversion has no value-preserving meaning for these values (nil pointer -> struct)
	params   []reflect.Type // parameter list (request) / return types (response)
	variadic bool
	missing  bool
	dest     []reflect.Type // per value: destination type; nil = no parameter (decoded generically); len(dest) may be < len(vals) (response)
}

func reqShape(shape string, args []*aval, json bool) (si shapeInfo) {
	n := len(args)
	ex := make([]reflect.Type, n)
	for i, a := range args {
		ex[i] = a.T
	}
	ifaces := func(k int) []reflect.Type {
		out := make([]reflect.Type, k)
		for i := range out {
			out[i] = tIface
		}
		return out
	}
	si.ok = true
	switch shape {
	case "exact":
		si.params, si.dest = ex, ex
	case "iface":
		si.ok = n >= 1
		si.params, si.dest = ifaces(n), ifaces(n)
	case "conv", "ptr":
		changed := false
		out := make([]reflect.Type, n)
		for i, t := range ex {
			out[i] = t
			if shape == "conv" {
				out[i] = convType(t, json)
				if t == tPInner && args[i].V.IsNil() {
					si.skip = true
				}
			} else if t != tIface {
				out[i] = reflect.PtrTo(t)
			}
			if out[i] != t {
				changed = true
			}
		}
		si.ok = changed
		si.params, si.dest = out, out
	case "fewer-params":
		si.ok = n >= 1
		if si.ok {
			si.params = ex[:n-1]
			si.dest = append(append([]reflect.Type{}, ex[:n-1]...), nil)
		}
	case "more-params":
		si.params = append(append([]reflect.Type{}, ex...), tInt)
		si.dest = ex
	case "variadic-one":
		si.ok = n >= 1
		if si.ok {
			si.params = append(append([]reflect.Type{}, ex[:n-1]...), reflect.SliceOf(ex[n-1]))
			si.variadic, si.dest = true, ex
		}
	case "variadic-all":
		k := 0
		for k < n && ex[n-1-k] == ex[n-1] {
			k++
		}
		si.ok = k >= 2
		if si.ok {
			si.params = append(append([]reflect.Type{}, ex[:n-k]...), reflect.SliceOf(ex[n-1]))
			si.variadic, si.dest = true, ex
		}
	case "variadic-empty":
		si.params = append(append([]reflect.Type{}, ex...), tInts)
		si.variadic, si.dest = true, ex
	case "variadic-short": // fewer arguments than the fixed parameters of a variadic method
		si.params = append(append([]reflect.Type{}, ex...), tInt, tInts)
		si.variadic, si.dest = true, ex
	case "variadic-iface":
		si.ok = n >= 1
		si.params = []reflect.Type{reflect.SliceOf(tIface)}
		si.variadic, si.dest = true, ifaces(n)
	case "variadic-iface-tail":
		si.ok = n >= 2
		if si.ok {
			si.params = []reflect.Type{ex[0], reflect.SliceOf(tIface)}
			si.variadic = true
			si.dest = append([]reflect.Type{ex[0]}, ifaces(n-1)...)
		}
	case "missing":
		si.missing = true
		si.dest = make([]reflect.Type, n)
	case "iface-first":
		// the first parameter an interface{}, the others exact: where the list holds one value twice (a
		// pointer, a map), the second is a reference to an item that was read into another Go type
		si.ok = n >= 2
		if si.ok {
			si.params = append([]reflect.Type{tIface}, ex[1:]...)
			si.dest = si.params
		}
	default:
		panic("c07: unknown request shape " + shape)
	}
	return
}

func respShape(shape string, res []*aval, json bool) (si shapeInfo) {
	n := len(res)
	ex := make([]reflect.Type, n)
	for i, a := range res {
		ex[i] = a.T
	}
	si.ok = true
	switch shape {
	case "exact":
		si.params = ex
	case "iface":
		si.ok = n >= 1
		si.params = make([]reflect.Type, n)
		for i := range si.params {
			si.params[i] = tIface
		}
	case "conv", "ptr":
		changed := false
		out := make([]reflect.Type, n)
		for i, t := range ex {
			out[i] = t
			if shape == "conv" {
				out[i] = convType(t, json)
				if t == tPInner && res[i].V.IsNil() {
					si.skip = true
				}
			} else if t != tIface {
				out[i] = reflect.PtrTo(t)
			}
			if out[i] != t {
				changed = true
			}
		}
		si.ok = changed
		si.params = out
	case "fewer-types":
		si.ok = n >= 2
		if si.ok {
			si.params = ex[:n-1]
		}
	case "more-types":
		si.params = append(append([]reflect.Type{}, ex...), tInt)
	case "none":
		si.ok = n >= 1
		si.params = nil
	case "iface-first":
		si.ok = n >= 2
		if si.ok {
			si.params = append([]reflect.Type{tIface}, ex[1:]...)
		}
	default:
		panic("c07: unknown response shape " + shape)
	}
	si.dest = si.params
	return
}

// ---- JSON value normalisation: JSON has one number type ----

var intRe = regexp.MustCompile(`int\((-?\d+)\)`)

func jcanon(c string) string {
	return intRe.ReplaceAllStringFunc(c, func(m string) string {
		f, err := strconv.ParseFloat(m[4:len(m)-1], 64)
		if err != nil {
			return m
		}
		return "f(" + strconv.FormatFloat(f, 'g', -1, 64) + ")"
	})
}
