package main

import (
	"context"
	"errors"
	"fmt"
	"math/big"
	"reflect"
	"strings"
	"sync"
	"time"

	"github.com/hprose/hprose-golang/v3/rpc/core"
	"verif/mc/gen"
)

// ---- invocation recorder: every published function reports (its identity, the arguments it received)
// before doing anything else, so a function that panics or fails is still counted. ----

type invocation struct {
	Fn   string `json:"fn"`
	Args string `json:"args"`
}

var (
	recMu sync.Mutex
	recs  []invocation
)

func canonIfaces(xs []interface{}) string {
	parts := make([]string, len(xs))
	for i, x := range xs {
		parts[i] = gen.CanonOf(x)
	}
	return strings.Join(parts, " ; ")
}

func canonVals(vs []reflect.Value) string {
	parts := make([]string, len(vs))
	for i, v := range vs {
		parts[i] = gen.Canon(v)
	}
	return strings.Join(parts, " ; ")
}

func record(fn string, args ...interface{}) {
	c := canonIfaces(args)
	recMu.Lock()
	recs = append(recs, invocation{fn, c})
	recMu.Unlock()
}

func takeRecs() []invocation {
	recMu.Lock()
	out := recs
	recs = nil
	recMu.Unlock()
	return out
}

// ---- the published functions (pure apart from the recorder) ----

type codeError struct{ Code int }

func (e codeError) Error() string { return fmt.Sprintf("code error %d", e.Code) }

type panicValue struct {
	Code int
	Why  string
}

func Nop()                                   { record("Nop") }
func IncInt(x int) int                       { record("IncInt", x); return x + 1 }
func Greet(s string) string                  { record("Greet", s); return "hello " + s }
func Uni(s string) string                    { record("Uni", s); return s + s }
func Under(n int8) int8                      { record("Under", n); return -n }
func Flip(b bool, f float64) (bool, float64) { record("Flip", b, f); return !b, f * 2 }
func DivMod(a, b int) (int, int) {
	record("DivMod", a, b)
	if b == 0 {
		return 0, a
	}
	return a / b, a % b
}
func Sum(xs ...int) int {
	args := make([]interface{}, len(xs))
	s := 0
	for i, x := range xs {
		args[i] = x
		s += x
	}
	record("Sum", args...)
	return s
}
func Join(sep string, parts ...string) string {
	args := []interface{}{sep}
	for _, p := range parts {
		args = append(args, p)
	}
	record("Join", args...)
	return strings.Join(parts, sep)
}
func CtxEcho(ctx context.Context, s string) string {
	record("CtxEcho", s)
	return fmt.Sprintf("%s|service-context=%v", s, core.GetServiceContext(ctx) != nil)
}
func CtxPair(ctx context.Context, a interface{}, n int) string {
	record("CtxPair", a, n)
	return fmt.Sprintf("%s,%d", gen.CanonOf(a), n) // the canonical form: the wire does not tell int from int64
}
func CtxLast(ctx context.Context, n int, a interface{}) string {
	record("CtxLast", n, a)
	return fmt.Sprintf("%d,%s", n, gen.CanonOf(a))
}
func CtxVar(ctx context.Context, a interface{}, r ...int) string {
	args := []interface{}{a}
	for _, x := range r {
		args = append(args, x)
	}
	record("CtxVar", args...)
	return fmt.Sprintf("%s,%v", gen.CanonOf(a), r)
}
func CtxPtr(ctx context.Context, p *int, s []string, m map[string]int) string {
	record("CtxPtr", p, s, m)
	return fmt.Sprintf("%v,%d,%d", p == nil, len(s), len(m)) // nil and empty are one value on the wire
}
func Half(x int) (int, error) {
	record("Half", x)
	if x%2 != 0 {
		return 0, fmt.Errorf("odd number %d has no half", x)
	}
	return x / 2, nil
}
func Fail(msg string) error { record("Fail", msg); return errors.New(msg) }
func FailCustom(code int) (string, error) {
	record("FailCustom", code)
	if code%2 == 0 {
		return fmt.Sprintf("even %d", code), nil
	}
	return "", codeError{code}
}
func PanicStr(msg string)     { record("PanicStr", msg); panic(msg) }
func PanicErr(msg string) int { record("PanicErr", msg); panic(errors.New(msg)) }
func PanicCustom(code int) string {
	record("PanicCustom", code)
	panic(panicValue{code, "custom panic value"})
}
func PanicNil(code int) int {
	record("PanicNil", code)
	panic(nil)
}
func PanicRuntime(i int) int {
	record("PanicRuntime", i)
	if i%2 == 0 {
		var m map[string]int
		m["x"] = i // assignment to entry in nil map
	}
	var s []int
	return s[3] // index out of range
}
func StructRT(in gen.Inner) gen.Inner {
	record("StructRT", in)
	return gen.Inner{A: in.A + 1, B: in.B + "!"}
}
func PtrRT(p *gen.Inner) *gen.Inner {
	record("PtrRT", p)
	if p == nil {
		return nil
	}
	return &gen.Inner{A: p.A * 2, B: p.B + p.B}
}
func PtrInt(p *int) *int {
	record("PtrInt", p)
	if p == nil {
		return nil
	}
	x := *p + 1
	return &x
}
func TaggedRT(t gen.Tagged) gen.Tagged {
	record("TaggedRT", t)
	return gen.Tagged{Name: t.Name + "+", Age: t.Age + 1, Plain: t.Plain}
}
func MapRT(m map[string]int) map[string]int {
	record("MapRT", m)
	out := map[string]int{"#": len(m)}
	for k, v := range m {
		out[k+"'"] = v + 1
	}
	return out
}
func MapIface(m map[string]interface{}) map[string]interface{} {
	record("MapIface", m)
	out := map[string]interface{}{"#": len(m)}
	for k, v := range m {
		out[k+"'"] = v
	}
	return out
}
func StrSlice(s []string) []string {
	record("StrSlice", s)
	out := make([]string, len(s))
	for i := range s {
		out[len(s)-1-i] = s[i]
	}
	return out
}
func Matrix(m [][]int) [][]int {
	record("Matrix", m)
	out := make([][]int, 0, len(m)+1)
	for _, row := range m {
		r := make([]int, len(row))
		for i := range row {
			r[len(row)-1-i] = row[i]
		}
		out = append(out, r)
	}
	return append(out, []int{len(m)})
}
func PtrSlice(s []*gen.Inner) []*gen.Inner {
	record("PtrSlice", s)
	out := make([]*gen.Inner, 0, len(s))
	for i := len(s) - 1; i >= 0; i-- {
		out = append(out, s[i])
	}
	return out
}
func IfaceRT(x interface{}) interface{} { record("IfaceRT", x); return x }
func IfaceIn(x interface{}) string {
	record("IfaceIn", x)
	if x == nil {
		return "got nil"
	}
	return "got a value"
}
func MaybeNil(x int) interface{} {
	record("MaybeNil", x)
	if x%2 != 0 {
		return nil
	}
	return x
}
func NilAndValue(x int) (interface{}, string) {
	record("NilAndValue", x)
	return nil, fmt.Sprint("second result ", x)
}
func IfaceVar(xs ...interface{}) int { record("IfaceVar", xs...); return len(xs) }
func TimeRT(t time.Time) time.Time   { record("TimeRT", t); return t.Add(time.Hour) }
func BytesRT(b []byte) []byte {
	record("BytesRT", b)
	out := make([]byte, len(b))
	for i := range b {
		out[len(b)-1-i] = b[i]
	}
	return out
}
func BigRT(x *big.Int) *big.Int {
	record("BigRT", x)
	if x == nil {
		return nil
	}
	return new(big.Int).Add(x, big.NewInt(1))
}
func Multi3(s string, n int, f float64) (string, int, float64, error) {
	record("Multi3", s, n, f)
	return s + "#", n - 1, f / 2, nil
}

// ---- methods and function fields of a struct, published with a namespace ----

// SubSvc is a nested service; a named string (not a struct with an unexported field: AddAllMethods cannot
// walk those when the nested struct is held by value).
type SubSvc string

func (s SubSvc) Sum(n ...int) int {
	args := make([]interface{}, len(n))
	t := 0
	for i, x := range n {
		args[i] = x
		t += x
	}
	record(string(s)+".Sum", args...)
	return t
}

type Calc struct {
	id  string
	Neg func(int) int
	Sub SubSvc
}

func (c *Calc) Add(a, b int) int { record(c.id+".Add", a, b); return a + b }
func (c *Calc) Name() string     { record(c.id + ".Name"); return "calc " + c.id }

func newCalc(id string) *Calc {
	c := &Calc{id: id, Sub: SubSvc(id + ".Sub")}
	c.Neg = func(x int) int { record(id+".Neg", x); return -x }
	return c
}

// ---- the missing-method handler: echoes the name it was given and the arguments it received ----

const (
	missingFailName  = "noSuchMethodFail"
	missingPanicName = "noSuchMethodPanic"
)

func missing(name string, args []interface{}) ([]interface{}, error) {
	record("*", name, args)
	switch name {
	case missingFailName:
		return nil, errors.New("missing-method handler refuses " + name)
	case missingPanicName:
		panic("missing-method handler panics on " + name)
	}
	return []interface{}{name, args}, nil
}

// ---- proxies whose names come from their shape (no name tags): the members of the "am" service (AddAllMethods of a
// *Calc: Add, Name, the function field Neg and the nested Sub.Sum) reached through nested, embedded and pointed-to
// structs. The proxy builder derives "Am_Add", "am_Sub_Sum" ... from the path of field names.

type amBase struct {
	Add  func(a, b int) (int, error)
	Name func() (string, error)
	Neg  func(x int) (int, error)
}
type amSub struct {
	Sum func(n ...int) (int, error)
}
type AmBase = amBase // embedded under an exported name

// nested: the namespace is a field name
type proxyNested struct {
	Am struct {
		Add  func(a, b int) (int, error)
		Name func() (string, error)
		Neg  func(x int) (int, error)
		Sub  amSub
	}
}

// embedded at the top, namespace through UseService
type proxyEmbedded struct {
	AmBase
	Sub amSub
}

// embedded inside a nested struct, the nested member behind a pointer
type proxyEmbeddedInNested struct {
	Am struct {
		AmBase
		Sub *amSub
	}
}

// the whole group behind a pointer
type proxyPointerNested struct {
	Am *struct {
		Add  func(a, b int) (int, error)
		Name func() (string, error)
		Neg  func(x int) (int, error)
		Sub  amSub
	}
}
