// C08 — a remote call is the local call. One service whose published functions cover the signature
// shapes of the property is put on every transport (rpclab: ephemeral loopback ports, temp-dir unix
// socket); every function is called with every argument tuple of a derived alphabet, under every name
// spelling, through every kind of client entry point, under every codec mode and with the worker pool on
// and off. The space is a finite product and is enumerated completely (no sampling); calls are sequential.
//
// Oracle (reference model = the local call of the very same Go function): exactly one invocation is
// recorded, it is the function registered under the name (or the missing-method handler for an unknown
// name), the recorded arguments are Canon-equal to the ones passed, the results are Canon-equal to the
// local results, and an error / panic of the function arrives as an error carrying its message.
//
//go:debug panicnil=1
package main

import (
	"context"
	"encoding/json"
	"fmt"
	"net"
	"net/http"
	"net/http/httptest"
	"os"
	"reflect"
	"sort"
	"strings"
	"sync/atomic"
	"syscall"
	"time"
	_ "time/tzdata"
	"unicode"

	hio "github.com/hprose/hprose-golang/v3/io"
	"github.com/hprose/hprose-golang/v3/rpc/core"
	"github.com/hprose/hprose-golang/v3/rpc/plugins/reverse"
	"verif/lib/report"
	"verif/lib/shard"
	"verif/mc/gen"
	"verif/mc/rpclab"
)

const ID = "C08"

var (
	tIface = reflect.TypeOf((*interface{})(nil)).Elem()
	tError = reflect.TypeOf((*error)(nil)).Elem()
	tCtx   = reflect.TypeOf((*context.Context)(nil)).Elem()
	tStr   = reflect.TypeOf("")
	tArgs  = reflect.TypeOf([]interface{}{})
)

// ---- the function table ----

type fnSpec struct {
	ID    string // identity reported to the recorder
	NS    string // namespace it is published under ("" | "im" | "am")
	Base  string // published name inside the namespace (exact spelling)
	Shape string
	F     reflect.Value
	Ctx   bool
	// Local, when set, is the reference model instead of F (only the canary uses it: its published function
	// deliberately differs from its model, and the oracle must say so in every case)
	Local reflect.Value
	// explicit argument alphabets (parameter index -> values) where the derived one makes no sense
	// (messages, codes)
	Over map[int][]interface{}
}

func (f *fnSpec) Name() string {
	if f.NS != "" {
		return f.NS + "_" + f.Base
	}
	return f.Base
}

func (f *fnSpec) params() []reflect.Type {
	t := f.F.Type()
	var out []reflect.Type
	for i := 0; i < t.NumIn(); i++ {
		if i == 0 && f.Ctx {
			continue
		}
		out = append(out, t.In(i))
	}
	return out
}

func (f *fnSpec) results() (out []reflect.Type, hasErr bool) {
	t := f.F.Type()
	for i := 0; i < t.NumOut(); i++ {
		if i == t.NumOut()-1 && t.Out(i) == tError {
			return out, true
		}
		out = append(out, t.Out(i))
	}
	return out, false
}

var (
	calcIM = newCalc("im")
	calcAM = newCalc("am")
	calcMM = newCalc("mm")
	specs  []*fnSpec
	alpha  *gen.Alphabet
)

var messages = []interface{}{"boom", "", "你好 \"q\";{}\r\n", "timeout"}
var codes = []interface{}{1, 2, -7}

func buildSpecs() {
	fn := func(base, shape string, f interface{}) *fnSpec {
		s := &fnSpec{ID: base, Base: base, Shape: shape, F: reflect.ValueOf(f)}
		specs = append(specs, s)
		return s
	}
	fn("Nop", "no-param-no-result", Nop)
	fn("IncInt", "one-param-one-result", IncInt)
	fn("Greet", "string-param", Greet)
	fn("Uni", "non-ascii-name", Uni).Base = "Ünï_Ök"
	fn("Under", "underscore-name", Under).Base = "under_Score_2"
	fn("Flip", "many-params-many-results", Flip)
	fn("DivMod", "many-params-many-results", DivMod)
	fn("Sum", "variadic", Sum)
	fn("Join", "variadic-after-fixed", Join)
	fn("CtxEcho", "context-taking", CtxEcho).Ctx = true
	fn("CtxPair", "context-taking-interface-param", CtxPair).Ctx = true
	fn("CtxLast", "context-taking-interface-param", CtxLast).Ctx = true
	fn("CtxVar", "context-taking-variadic", CtxVar).Ctx = true
	fn("CtxPtr", "context-taking-nilable-params", CtxPtr).Ctx = true
	fn("Half", "error-returning", Half)
	fn("Fail", "error-returning", Fail).Over = map[int][]interface{}{0: messages}
	fn("FailCustom", "error-returning-custom-type", FailCustom).Over = map[int][]interface{}{0: codes}
	fn("PanicStr", "panic-string", PanicStr).Over = map[int][]interface{}{0: messages}
	fn("PanicErr", "panic-error", PanicErr).Over = map[int][]interface{}{0: messages}
	fn("PanicCustom", "panic-custom-value", PanicCustom).Over = map[int][]interface{}{0: codes}
	fn("PanicRuntime", "panic-runtime-error", PanicRuntime).Over = map[int][]interface{}{0: codes}
	fn("PanicNil", "panic-nil", PanicNil).Over = map[int][]interface{}{0: codes}
	fn("StructRT", "struct-param", StructRT)
	fn("PtrRT", "pointer-param", PtrRT)
	fn("PtrInt", "pointer-param", PtrInt)
	fn("TaggedRT", "struct-param", TaggedRT)
	fn("MapRT", "map-param", MapRT)
	fn("MapIface", "map-param", MapIface)
	fn("StrSlice", "slice-param", StrSlice)
	fn("Matrix", "slice-param", Matrix)
	fn("PtrSlice", "slice-param", PtrSlice)
	fn("IfaceRT", "interface-param", IfaceRT)
	fn("IfaceIn", "interface-param", IfaceIn)
	fn("MaybeNil", "interface-result", MaybeNil)
	fn("NilAndValue", "interface-result", NilAndValue)
	fn("IfaceVar", "variadic-interface", IfaceVar)
	fn("TimeRT", "time-param", TimeRT)
	fn("BytesRT", "bytes-param", BytesRT)
	fn("BigRT", "bigint-param", BigRT)
	fn("Multi3", "many-params-many-results", Multi3)
	fn("Canary", "canary", func(x int) int { record("Canary", x); return x + 2 }).Local = reflect.ValueOf(func(x int) int { return x + 1 })
	method := func(ns, id, base, shape string, f reflect.Value) {
		specs = append(specs, &fnSpec{ID: id, NS: ns, Base: base, Shape: shape, F: f})
	}
	for _, c := range []*Calc{calcIM, calcAM, calcMM} {
		v := reflect.ValueOf(c)
		method(c.id, c.id+".Add", "Add", "instance-method", v.MethodByName("Add"))
		if c != calcMM {
			method(c.id, c.id+".Name", "Name", "instance-method", v.MethodByName("Name"))
		}
		method(c.id, c.id+".Neg", "Neg", "function-field", reflect.ValueOf(c.Neg))
	}
	method("am", "am.Sub.Sum", "Sub_Sum", "nested-method", reflect.ValueOf(calcAM.Sub).MethodByName("Sum"))
}

func buildService(j job) *core.Service {
	svc := core.NewService()
	svc.Codec = core.NewServiceCodec(core.WithSimple(j.SSimple), core.WithDebug(j.Debug))
	for _, s := range specs {
		if s.NS == "" {
			svc.AddFunction(s.F.Interface(), s.Base)
		}
	}
	svc.AddFunction(agentProbe, "agentProbe")
	svc.AddInstanceMethods(calcIM, "im")
	svc.AddAllMethods(calcAM, "am")
	svc.AddMethods([]string{"Add", "Neg"}, calcMM, "mm")
	if !j.NoMissing {
		svc.AddMissingMethod(missing)
	}
	return svc
}

func setup() {
	loc, err := time.LoadLocation("America/New_York")
	if err != nil {
		panic(err)
	}
	time.Local = loc
	for _, t := range gen.NamedStructs() {
		if t.Kind() == reflect.Struct {
			hio.Register(reflect.New(t).Interface())
		}
	}
	alpha = gen.NewAlphabet()
	buildSpecs()
}

// ---- argument tuples ----

var rtCache = map[string]bool{}

// roundTrips reports whether the serializer alone (no RPC) carries v into a destination of type t in both
// codec modes. Values for which it does not are outside this property (they are C01's findings) and are
// skipped, counted and listed.
func roundTrips(v reflect.Value, t reflect.Type) bool {
	key := t.String() + "|" + v.Type().String() + "|" + gen.Canon(v)
	if ok, hit := rtCache[key]; hit {
		return ok
	}
	ok := true
	for _, simple := range []bool{true, false} {
		func() {
			defer func() {
				if recover() != nil {
					ok = false
				}
			}()
			var x interface{}
			if v.IsValid() && !(v.Kind() == reflect.Interface && v.IsNil()) {
				x = v.Interface()
			}
			enc := new(hio.Encoder).Simple(simple)
			if enc.Encode(x) != nil {
				ok = false
				return
			}
			dec := hio.NewDecoder(enc.Bytes()).Simple(simple)
			got := dec.Read(t)
			if dec.Error != nil || gen.CanonOf(got) != gen.Canon(v) {
				ok = false
			}
		}()
	}
	rtCache[key] = ok
	return ok
}

type tierParams struct {
	K1, K2, K3 int // alphabet prefix per parameter for arity 1 / 2 / >= 3
}

func params(thorough bool) tierParams {
	if thorough {
		return tierParams{40, 12, 6}
	}
	return tierParams{16, 5, 3}
}

func toVals(t reflect.Type, xs []interface{}) []reflect.Value {
	out := make([]reflect.Value, len(xs))
	for i, x := range xs {
		v := reflect.New(t).Elem()
		if x != nil {
			v.Set(reflect.ValueOf(x).Convert(t))
		}
		out[i] = v
	}
	return out
}

var skippedVals = map[string]bool{}

// argTuples enumerates the argument tuples of f: the product of a prefix of each parameter's alphabet
// (gen.Alphabet, most distinguishing values first); a variadic tail takes the lengths 0..3.
func argTuples(f *fnSpec, tp tierParams) [][]reflect.Value {
	ps := f.params()
	variadic := f.F.Type().IsVariadic()
	fixed := ps
	if variadic {
		fixed = ps[:len(ps)-1]
	}
	k := tp.K1
	switch {
	case len(fixed) == 2:
		k = tp.K2
	case len(fixed) >= 3:
		k = tp.K3
	case variadic && len(fixed) == 1:
		k = tp.K2
	}
	filter := func(t reflect.Type, vs []reflect.Value, k int) []reflect.Value {
		var out []reflect.Value
		for _, v := range vs {
			if len(out) == k {
				break
			}
			if !roundTrips(v, t) {
				skippedVals[t.String()+" "+trunc(gen.Canon(v), 60)] = true
				continue
			}
			out = append(out, v)
		}
		return out
	}
	tuples := [][]reflect.Value{{}}
	for i, t := range fixed {
		var vs []reflect.Value
		if o, ok := f.Over[i]; ok {
			vs = toVals(t, o)
		} else {
			vs = filter(t, alpha.Vals(t, 3), k)
		}
		var next [][]reflect.Value
		for _, tu := range tuples {
			for _, v := range vs {
				next = append(next, append(append([]reflect.Value{}, tu...), v))
			}
		}
		tuples = next
	}
	if variadic {
		et := ps[len(ps)-1].Elem()
		es := filter(et, alpha.Vals(et, 3), 3)
		if et.Kind() == reflect.Interface {
			// make sure nil is among the variadic elements (the alphabet has it second)
			es = filter(et, alpha.Vals(et, 3), 4)
		}
		tails := [][]reflect.Value{{}}
		if len(es) >= 1 {
			tails = append(tails, []reflect.Value{es[0]})
		}
		if len(es) >= 2 {
			tails = append(tails, []reflect.Value{es[1], es[0]})
		}
		if len(es) >= 3 {
			tails = append(tails, append([]reflect.Value{}, es...))
		}
		var next [][]reflect.Value
		for _, tu := range tuples {
			for _, tail := range tails {
				next = append(next, append(append([]reflect.Value{}, tu...), tail...))
			}
		}
		tuples = next
	}
	return tuples
}

// ---- name spellings ----

var spellings = []string{"exact", "UPPER", "lower", "MiXeD", "unknown"}

func spell(name, how string) string {
	switch how {
	case "UPPER":
		return strings.ToUpper(name)
	case "lower":
		return strings.ToLower(name)
	case "MiXeD":
		rs := []rune(name)
		for i, r := range rs {
			if i%2 == 0 {
				rs[i] = unicode.ToUpper(r)
			} else {
				rs[i] = unicode.ToLower(r)
			}
		}
		return string(rs)
	case "unknown":
		return name + "X"
	}
	return name
}

// ---- jobs ----

type job struct {
	Transport string `json:"transport"`
	CSimple   bool   `json:"client_simple"`
	SSimple   bool   `json:"service_simple"`
	Pool      bool   `json:"pool"`
	Debug     bool   `json:"debug"`
	NoMissing bool   `json:"no_missing_handler"`
}

func (j job) String() string {
	return fmt.Sprintf("%s client-simple=%v service-simple=%v pool=%v debug=%v missing-handler=%v", j.Transport, j.CSimple, j.SSimple, j.Pool, j.Debug, !j.NoMissing)
}

var modes = []string{"proxy", "proxy-no-error-result", "invoke-typed", "invoke-untyped",
	"proxy-nested", "proxy-embedded", "proxy-embedded-in-nested", "proxy-pointer-nested"}

// shaped reports whether mode is one of the proxies whose names come from their shape; they exist for the
// members of the "am" service under their exact names only.
func shaped(mode string) bool {
	return strings.HasPrefix(mode, "proxy-") && mode != "proxy-no-error-result"
}

// shapedProxyFunc returns the function field for f in the proxy of the given shape.
func (e *env) shapedProxyFunc(f *fnSpec, mode string) reflect.Value {
	pv, ok := e.proxies["shaped|"+mode]
	if !ok {
		switch mode {
		case "proxy-nested":
			p := &proxyNested{}
			e.client.UseService(p)
			pv = reflect.ValueOf(p)
		case "proxy-embedded":
			p := &proxyEmbedded{}
			e.client.UseService(p, "am")
			pv = reflect.ValueOf(p)
		case "proxy-embedded-in-nested":
			p := &proxyEmbeddedInNested{}
			e.client.UseService(p)
			pv = reflect.ValueOf(p)
		case "proxy-pointer-nested":
			p := &proxyPointerNested{}
			e.client.UseService(p)
			pv = reflect.ValueOf(p)
		}
		e.proxies["shaped|"+mode] = pv
	}
	v := pv.Elem()
	if am := v.FieldByName("Am"); am.IsValid() {
		v = am
		if v.Kind() == reflect.Ptr {
			v = v.Elem()
		}
	}
	for _, part := range strings.Split(f.Base, "_") {
		v = v.FieldByName(part)
		if v.Kind() == reflect.Ptr {
			v = v.Elem()
		}
	}
	return v
}

type viol struct {
	Job      job    `json:"job"`
	Fn       string `json:"fn"`
	Tuple    int    `json:"tuple"`
	Args     string `json:"args"`
	Spelling string `json:"spelling"`
	Mode     string `json:"mode"`
	Cell     string `json:"cell"`
	Kind     string `json:"kind"`
	What     string `json:"what"`
}

type result struct {
	Job          job              `json:"job"`
	Cases        int64            `json:"cases"`
	Distinct     int64            `json:"distinct"`
	Skipped      map[string]int64 `json:"skipped"`
	SkippedVals  []string         `json:"skipped_vals"`
	SlackRetries int64            `json:"slack_retries"`
	PoolTasks    int64            `json:"pool_tasks"`
	Stack        string           `json:"stack"`
	CanaryCases  int64            `json:"canary_cases"`
	CanaryCaught int64            `json:"canary_caught"`
	SkipDetail   []string         `json:"skip_detail"`
	Viol         []viol           `json:"viol"`
	ViolCount    map[string]int64 `json:"viol_count"`
	Samples      []string         `json:"samples"`
	Infra        string           `json:"infra,omitempty"`
}

func trunc(s string, n int) string {
	if len(s) > n {
		return s[:n] + "..."
	}
	return s
}

// ---- one call ----

type outcome struct {
	outs     []string // Canon of each result
	err      error
	panicked bool // the client entry point panicked although it has an error result
}

type env struct {
	j       job
	svc     *core.Service
	lab     *rpclab.Lab
	client  *core.Client
	proxies map[string]reflect.Value
}

func newEnv(j job) (*env, error) {
	e := &env{j: j, proxies: map[string]reflect.Value{}}
	e.svc = buildService(j)
	lab, err := rpclab.Start(e.svc, []string{j.Transport}, j.Pool)
	if err != nil {
		return nil, err
	}
	e.lab = lab
	rpclab.Select(j.Transport)
	e.client = lab.Client(j.Transport)
	e.client.Codec = core.NewClientCodec(core.WithSimple(j.CSimple))
	e.client.Timeout = 10 * time.Second
	return e, nil
}

func (e *env) close() {
	e.client.Abort()
	e.lab.Close()
}

// proxyFunc returns the proxy function for f under the given spelling: a field of a struct type built
// with reflect.StructOf whose `name` tag carries the spelled name; the namespace goes through UseService.
func (e *env) proxyFunc(f *fnSpec, spelling string, withErr bool) reflect.Value {
	key := fmt.Sprintf("%s|%s|%v", f.NS, spelling, withErr)
	idx := -1
	var group []*fnSpec
	for _, s := range specs {
		if s.NS == f.NS {
			if s == f {
				idx = len(group)
			}
			group = append(group, s)
		}
	}
	pv, ok := e.proxies[key]
	if !ok {
		fields := make([]reflect.StructField, len(group))
		for i, s := range group {
			var in []reflect.Type
			if s.Ctx {
				in = append(in, tCtx)
			}
			in = append(in, s.params()...)
			out, _ := s.results()
			if spelling == "unknown" {
				out = []reflect.Type{tStr, tArgs}
			}
			out = append([]reflect.Type{}, out...)
			if withErr {
				out = append(out, tError)
			}
			fields[i] = reflect.StructField{
				Name: fmt.Sprintf("F%d", i),
				Type: reflect.FuncOf(in, out, s.F.Type().IsVariadic()),
				Tag:  reflect.StructTag(fmt.Sprintf(`name:%q`, spell(s.Base, spelling))),
			}
		}
		pv = reflect.New(reflect.StructOf(fields))
		if f.NS != "" {
			e.client.UseService(pv.Interface(), spell(f.NS, spelling0(spelling)))
		} else {
			e.client.UseService(pv.Interface())
		}
		e.proxies[key] = pv
	}
	return pv.Elem().Field(idx)
}

// the namespace part is spelled like the rest, except that "unknown" only changes the base name
func spelling0(s string) string {
	if s == "unknown" {
		return "exact"
	}
	return s
}

func sentName(f *fnSpec, spelling string) string {
	if f.NS != "" {
		return spell(f.NS, spelling0(spelling)) + "_" + spell(f.Base, spelling)
	}
	return spell(f.Base, spelling)
}

func ifaces(vs []reflect.Value) []interface{} {
	out := make([]interface{}, len(vs))
	for i, v := range vs {
		if v.Kind() == reflect.Interface && v.IsNil() {
			continue
		}
		out[i] = v.Interface()
	}
	return out
}

func (e *env) remote(f *fnSpec, args []reflect.Value, spelling, mode string) (o outcome) {
	unknown := spelling == "unknown"
	resT, _ := f.results()
	if unknown {
		resT = []reflect.Type{tStr, tArgs}
	}
	switch mode {
	case "proxy", "proxy-no-error-result", "proxy-nested", "proxy-embedded", "proxy-embedded-in-nested", "proxy-pointer-nested":
		withErr := mode != "proxy-no-error-result"
		var pf reflect.Value
		if shaped(mode) {
			pf = e.shapedProxyFunc(f, mode)
		} else {
			pf = e.proxyFunc(f, spelling, withErr)
		}
		in := args
		if f.Ctx {
			in = append([]reflect.Value{reflect.ValueOf(context.Background())}, args...)
		}
		func() {
			defer func() {
				if p := recover(); p != nil {
					// a proxy function without an error result reports an error by panicking with it
					if perr, ok := p.(error); ok {
						o.err = perr
					} else {
						o.err = fmt.Errorf("%v", p)
					}
					o.panicked = withErr
				}
			}()
			outs := pf.Call(in)
			if withErr {
				if ev := outs[len(outs)-1]; !ev.IsNil() {
					o.err = ev.Interface().(error)
				}
				outs = outs[:len(outs)-1]
			}
			for _, v := range outs {
				o.outs = append(o.outs, gen.Canon(v))
			}
		}()
	case "invoke-typed":
		cc := core.NewClientContext()
		cc.ReturnType = append(make([]reflect.Type, 0, len(resT)), resT...)
		ctx := core.WithContext(context.Background(), cc)
		func() {
			defer func() {
				if p := recover(); p != nil {
					o.err = fmt.Errorf("%v", p)
					o.panicked = true
				}
			}()
			res, err := e.client.InvokeContext(ctx, sentName(f, spelling), ifaces(args))
			o.err = err
			for _, r := range res {
				o.outs = append(o.outs, gen.CanonOf(r))
			}
		}()
	case "invoke-untyped":
		func() {
			defer func() {
				if p := recover(); p != nil {
					o.err = fmt.Errorf("%v", p)
					o.panicked = true
				}
			}()
			res, err := e.client.Invoke(sentName(f, spelling), ifaces(args))
			o.err = err
			for _, r := range res {
				o.outs = append(o.outs, gen.CanonOf(r))
			}
		}()
	}
	return
}

// local runs the reference model: the same Go function, called directly.
func local(e *env, f *fnSpec, args []reflect.Value) (outs []reflect.Value, errMsg string, isErr bool) {
	defer takeRecs()
	returned := false
	defer func() {
		// this program runs with the pre-1.21 meaning of panic(nil) (recover returns nil), which is what an
		// application whose go.mod says go 1.13..1.20 gets: the flag tells a panic from a return
		if p := recover(); p != nil {
			outs, errMsg, isErr = nil, fmt.Sprintf("%v", p), true
		} else if !returned {
			outs, errMsg, isErr = nil, "", true
		}
	}()
	outs, errMsg, isErr = localCall(e, f, args)
	returned = true
	return
}

func localCall(e *env, f *fnSpec, args []reflect.Value) (outs []reflect.Value, errMsg string, isErr bool) {
	in := args
	if f.Ctx {
		in = append([]reflect.Value{reflect.ValueOf(rpclab.ServiceCtx(e.svc))}, args...)
	}
	if f.Local.IsValid() {
		outs = f.Local.Call(in)
	} else {
		outs = f.F.Call(in)
	}
	if _, hasErr := f.results(); hasErr {
		if ev := outs[len(outs)-1]; !ev.IsNil() {
			return nil, ev.Interface().(error).Error(), true
		}
		outs = outs[:len(outs)-1]
	}
	return outs, "", false
}

// cellOf names the failing cell: the signature shape, qualified by the argument class that matters.
func cellOf(f *fnSpec, args []reflect.Value, wantOuts []reflect.Value) string {
	ps := f.params()
	variadic := f.F.Type().IsVariadic()
	for i, a := range args {
		var pt reflect.Type
		if variadic && i >= len(ps)-1 {
			pt = ps[len(ps)-1].Elem()
		} else {
			pt = ps[i]
		}
		if pt.Kind() == reflect.Interface && a.IsNil() {
			return "nil-arg-for-interface-param"
		}
	}
	for _, o := range wantOuts {
		if o.Kind() == reflect.Interface && o.IsNil() {
			return "nil-result-for-interface-result"
		}
	}
	for _, a := range args {
		switch a.Kind() {
		case reflect.Ptr, reflect.Slice, reflect.Map:
			if a.IsNil() {
				return "nil-arg-for-" + f.Shape
			}
		}
	}
	return f.Shape
}

func slug(msg string) string {
	switch {
	case strings.Contains(msg, "reflect: Call using zero Value argument"):
		return "reflect-call-panic"
	case strings.Contains(msg, "Can't find this method"):
		return "method-not-found"
	}
	var sb strings.Builder
	words := 0
	prevDash := true
	for _, r := range strings.ToLower(msg) {
		switch {
		case r >= 'a' && r <= 'z':
			sb.WriteRune(r)
			prevDash = false
		case r >= '0' && r <= '9':
			if !prevDash {
				sb.WriteByte('-')
			}
			sb.WriteByte('N')
			prevDash = false
		default:
			if !prevDash {
				sb.WriteByte('-')
				prevDash = true
				words++
			}
		}
		if words >= 6 || r == '\n' {
			break
		}
	}
	return "call-error:" + strings.Trim(trunc(sb.String(), 60), "-.")
}

func isTimeout(err error) bool {
	if err == nil {
		return false
	}
	if core.IsTimeoutError(err) {
		return true
	}
	m := err.Error()
	return strings.Contains(m, "timeout") || strings.Contains(m, "deadline exceeded")
}

// check runs one case and returns "" or (kind, what).
func (e *env) check(f *fnSpec, args []reflect.Value, spelling, mode string, wantOuts []reflect.Value, wantMsg string, wantErr bool) (kind, what string, o outcome) {
	takeRecs()
	o = e.remote(f, args, spelling, mode)
	got := takeRecs()
	unknown := spelling == "unknown"
	name := sentName(f, spelling)
	passed := canonVals(args)
	wantFn, wantArgs := f.ID, passed
	if unknown {
		wantFn = "*"
		wantArgs = canonIfaces([]interface{}{name, ifaces(args)})
		wantErr, wantMsg = false, ""
		if e.j.NoMissing {
			// no handler registered: nothing may run and the caller must be told
			if len(got) != 0 {
				return "wrong-function", fmt.Sprintf("unknown name %q invoked %v", name, got), o
			}
			if o.err == nil || !strings.Contains(o.err.Error(), "Can't find this method") {
				return "error-lost", fmt.Sprintf("unknown name %q without a missing-method handler returned results %v, error %v", name, o.outs, o.err), o
			}
			return "", "", o
		}
	}
	errText := ""
	if o.err != nil {
		errText = o.err.Error()
	}
	switch {
	case len(got) == 0:
		if o.err != nil {
			return slug(errText), fmt.Sprintf("the function was not invoked; the caller got the error %q", trunc(errText, 200)), o
		}
		return "not-invoked", fmt.Sprintf("the function was not invoked; the caller got results %v and no error", o.outs), o
	case len(got) > 1:
		return "invoked-more-than-once", fmt.Sprintf("%d invocations recorded: %v", len(got), got), o
	case got[0].Fn != wantFn:
		return "wrong-function", fmt.Sprintf("name %q invoked %s, registered is %s", name, got[0].Fn, wantFn), o
	case got[0].Args != wantArgs:
		return "wrong-arguments", fmt.Sprintf("passed (%s), the function received (%s)", trunc(wantArgs, 300), trunc(got[0].Args, 300)), o
	}
	if strings.Contains(errText, "function created by MakeFunc") {
		// the proxy function itself (reflect.MakeFunc closure) broke; seen as a panic through either kind of proxy
		return "proxy-makefunc-panic", fmt.Sprintf("the proxy function panicked in the caller: %s", trunc(errText, 200)), o
	}
	if o.panicked {
		return "caller-panic", fmt.Sprintf("the client entry point panicked: %s", trunc(errText, 200)), o
	}
	if wantErr {
		switch {
		case o.err == nil:
			return "error-lost", fmt.Sprintf("the function failed with %q; the caller got results %v and no error", wantMsg, o.outs), o
		case !strings.Contains(errText, wantMsg):
			return "error-message-changed", fmt.Sprintf("the function failed with %q; the caller got the error %q", wantMsg, trunc(errText, 200)), o
		}
		return "", "", o
	}
	if o.err != nil {
		return slug(errText), fmt.Sprintf("the function returned normally; the caller got the error %q", trunc(errText, 200)), o
	}
	var want []string
	switch {
	case unknown && mode == "invoke-untyped":
		want = []string{gen.CanonOf([]interface{}{name, ifaces(args)})}
	case unknown:
		want = []string{gen.CanonOf(name), gen.CanonOf(ifaces(args))}
	case mode == "invoke-untyped":
		switch len(wantOuts) {
		case 0:
			want = []string{"nil"}
		case 1:
			want = []string{gen.Canon(wantOuts[0])}
		default:
			want = []string{gen.CanonOf(ifaces(wantOuts))}
		}
	default:
		for _, v := range wantOuts {
			want = append(want, gen.Canon(v))
		}
	}
	if strings.Join(want, " ; ") != strings.Join(o.outs, " ; ") {
		return "wrong-result", fmt.Sprintf("local call returns (%s), remote call returned (%s)", trunc(strings.Join(want, " ; "), 300), trunc(strings.Join(o.outs, " ; "), 300)), o
	}
	return "", "", o
}

func runJob(j job, thorough bool) (res result) {
	res.Job = j
	res.Skipped = map[string]int64{}
	e, err := newEnv(j)
	if err != nil {
		res.Infra = err.Error()
		return
	}
	defer e.close()
	res.Stack = stackProbe(e)
	if j.Transport == "mock" && !j.CSimple && !j.SSimple && !j.NoMissing {
		vs, n := reverseProbe(e)
		if dbg := os.Getenv("C08_REVERSE_LOG"); dbg != "" {
			os.WriteFile(dbg, []byte(fmt.Sprintf("reverse probe: %d cases, %d violations %v\n", n, len(vs), vs)), 0o644)
		}
		res.Cases += n
		for _, w := range vs {
			res.Viol = append(res.Viol, viol{Job: j, Fn: "reverse", Spelling: "exact", Mode: "reverse-provider", Cell: "nil-arg", Kind: "reverse-call-differs-from-local-call", What: w})
			if res.ViolCount == nil {
				res.ViolCount = map[string]int64{}
			}
			res.ViolCount["nil-arg|reverse-call-differs-from-local-call|reverse"]++
		}
	}
	if (j.Transport == rpclab.HTTP || j.Transport == rpclab.FastHTTP || j.Transport == rpclab.FastToHTTP) && !j.CSimple && !j.SSimple && !j.NoMissing {
		vs, n := dropProbe(j.Transport)
		res.Cases += n
		for _, w := range vs {
			res.Viol = append(res.Viol, viol{Job: j, Fn: "bump", Spelling: "exact", Mode: "connection-dropped-after-execution", Cell: "no-arg", Kind: "function-invoked-more-than-once", What: w})
			if res.ViolCount == nil {
				res.ViolCount = map[string]int64{}
			}
			res.ViolCount["no-arg|function-invoked-more-than-once|bump"]++
		}
	}
	if !j.CSimple && !j.SSimple && !j.NoMissing {
		vs, n := edgeProbe(e)
		res.Cases += n
		for _, w := range vs {
			res.Viol = append(res.Viol, viol{Job: j, Fn: w[0], Spelling: "exact", Mode: "proxy", Cell: "edge", Kind: w[1], What: w[2]})
			if res.ViolCount == nil {
				res.ViolCount = map[string]int64{}
			}
			res.ViolCount["edge|"+w[1]+"|"+w[0]]++
		}
	}
	tp := params(thorough)
	distinct := map[string]bool{}
	reported := map[string]int{}
	skipDetail := map[string]bool{}
	h := 0
	for _, c := range j.String() {
		h = (h*31 + int(c)) % 499
	}
	for _, f := range specs {
		fmt.Fprintf(os.Stderr, "c08: %s at %s\n", j.Transport, f.ID)
		tuples := argTuples(f, tp)
		resT, _ := f.results()
		for ti, args := range tuples {
			_ = ti
			wantOuts, wantMsg, wantErr := local(e, f, args)
			resultOK, resultUntypedOK := true, true
			for i, v := range wantOuts {
				if !roundTrips(v, resT[i]) {
					resultOK = false
				}
				if !roundTrips(v, tIface) {
					resultUntypedOK = false
				}
			}
			argsUntypedOK := true
			for _, a := range args {
				if !roundTrips(a, tIface) {
					argsUntypedOK = false
				}
			}
			for _, sp := range spellings {
				if j.NoMissing && sp != "unknown" {
					continue // the second service only exists for the unknown-name cells
				}
				for _, mode := range modes {
					if shaped(mode) && (f.NS != "am" || sp != "exact") {
						continue // the shaped proxies exist for the members of the am service under their exact names
					}
					skip := ""
					switch {
					case !resultOK && sp != "unknown":
						skip = "result not carried by the serializer alone"
					case mode == "invoke-untyped" && sp != "unknown" && !resultUntypedOK:
						skip = "result not carried into interface{} by the serializer alone"
					case sp == "unknown" && !argsUntypedOK:
						skip = "argument not carried into interface{} by the serializer alone"
					}
					if skip != "" {
						res.Skipped[skip]++
						skipDetail[fmt.Sprintf("%s: %s(%s)", skip, f.ID, trunc(canonVals(args), 100))] = true
						continue
					}
					kind, what, o := e.check(f, args, sp, mode, wantOuts, wantMsg, wantErr)
					if f.ID == "Canary" {
						// oracle self-test: the published function is not its model, every case must be caught
						if sp != "unknown" {
							res.CanaryCases++
							if kind == "wrong-result" {
								res.CanaryCaught++
							}
						}
						continue
					}
					if kind != "" && isTimeout(o.err) && !(wantErr && wantMsg == "timeout") && reported[f.ID+kind] < 2 {
						// one-sided timing oracle: a call that hit its 10 s timeout is re-run; it is reported
						// only if it fails five times out of five
						recovered := false
						for r := 0; r < 4 && !recovered; r++ {
							if k2, _, _ := e.check(f, args, sp, mode, wantOuts, wantMsg, wantErr); k2 == "" {
								recovered = true
							}
						}
						if recovered {
							res.SlackRetries++
							kind = ""
						}
					}
					res.Cases++
					desc := fmt.Sprintf("%s %s(%s) as %q", mode, f.ID, trunc(canonVals(args), 120), sentName(f, sp))
					if len(args) > 0 || len(resT) > 0 {
						distinct[desc] = true
					}
					if kind != "" {
						reported[f.ID+kind]++
						// every failing case is counted; per (cell, kind, entry point) the first two are kept as records
						cell := cellOf(f, args, wantOuts)
						key := cell + "|" + kind + "|" + mode
						if res.ViolCount == nil {
							res.ViolCount = map[string]int64{}
						}
						res.ViolCount[key]++
						if res.ViolCount[key] <= 2 {
							res.Viol = append(res.Viol, viol{Job: j, Fn: f.ID, Tuple: ti, Args: trunc(canonVals(args), 300), Spelling: sp, Mode: mode,
								Cell: cell, Kind: kind, What: what})
						}
					} else if len(res.Samples) < 3 && int(res.Cases)%3571 == (h*7)%3571 {
						out := strings.Join(o.outs, " ; ")
						if o.err != nil {
							out = "error " + fmt.Sprintf("%q", trunc(o.err.Error(), 80))
						}
						res.Samples = append(res.Samples, fmt.Sprintf("[%s] %s -> %s", j, desc, trunc(out, 120)))
					}
				}
			}
		}
	}
	res.Distinct = int64(len(distinct))
	for d := range skipDetail {
		res.SkipDetail = append(res.SkipDetail, d)
	}
	sort.Strings(res.SkipDetail)
	for v := range skippedVals {
		res.SkippedVals = append(res.SkippedVals, v)
	}
	sort.Strings(res.SkippedVals)
	if e.lab.Pool != nil {
		res.PoolTasks = e.lab.Pool.Count()
	}
	return
}

// edgeProbe: cells outside the value domain the enumeration derives, each on the job's transport:
//   - a result the encoder refuses (a time in the year 10000, alone, inside a struct, beside another result):
//     the caller gets an error, never a value; a call in flight beside it on the same client is not concerned;
//   - a last result whose type implements error but cannot be nil (syscall.Errno): zero is no error, anything
//     else is the error;
//   - a context-taking function that passes its context on to a client proxy (a nested call);
//   - proxy fields whose tags end in a quoted value or hold an empty value.
func edgeProbe(e *env) (viols [][3]string, cases int64) {
	bad := func(fn, kind, what string) { viols = append(viols, [3]string{fn, kind, what}) }
	far := time.Date(10000, 1, 1, 0, 0, 0, 0, time.UTC)
	type event struct {
		Name string
		At   time.Time
	}
	inner := e.lab.Client(e.j.Transport)
	inner.Timeout = 10 * time.Second
	var innerProxy struct {
		Greet func(ctx context.Context, s string) (string, error) `name:"edgeGreet"`
	}
	inner.UseService(&innerProxy)
	defer inner.Abort()
	e.svc.AddFunction(func(s string) string { return "hello " + s }, "edgeGreet")
	e.svc.AddFunction(func() time.Time { return far }, "edgeWhen")
	e.svc.AddFunction(func() event { return event{"launch", far} }, "edgeEvent")
	e.svc.AddFunction(func() (int, time.Time) { return 7, far }, "edgePair")
	e.svc.AddFunction(func() int { time.Sleep(300 * time.Millisecond); return 42 }, "edgeSlow")
	e.svc.AddFunction(func() (int, syscall.Errno) { return 7, 0 }, "edgeErrnoZero")
	e.svc.AddFunction(func() (int, syscall.Errno) { return 7, syscall.ENOENT }, "edgeErrnoSet")
	e.svc.AddFunction(func(ctx context.Context, s string) (string, error) { return innerProxy.Greet(ctx, s) }, "edgeNested")
	e.svc.AddFunction(func(ctx context.Context) string {
		h := core.GetServiceContext(ctx).RequestHeaders()
		names := 0
		h.Range(func(key string, value interface{}) bool { names++; return true })
		return fmt.Sprintf("token=%q id=%d headers=%d", h.GetString("token"), h.GetInt("id"), names)
	}, "edgeHeaders")
	var p struct {
		When      func() (time.Time, error)      `name:"edgeWhen"`
		Event     func() (event, error)          `name:"edgeEvent"`
		Pair      func() (int, time.Time, error) `name:"edgePair"`
		Slow      func() (int, error)            `name:"edgeSlow"`
		ErrnoZero func() (int, error)            `name:"edgeErrnoZero"`
		ErrnoSet  func() (int, error)            `name:"edgeErrnoSet"`
		Nested    func(s string) (string, error) `name:"edgeNested"`
		Quoted    func(s string) (string, error) `name:"edgeGreet" header:"token:'abc'"`
		EmptyVal  func(s string) (string, error) `name:"edgeGreet" context:"a:1,k:"`
		Headers   func() (string, error)         `name:"edgeHeaders" header:"id:123,token:'abc'"`
	}
	guard := func(fn string, f func()) {
		defer func() {
			if r := recover(); r != nil {
				bad(fn, "caller-panic", fmt.Sprintf("%s on %s: panic in the caller: %v", fn, e.j.Transport, r))
			}
		}()
		f()
	}
	guard("UseService", func() { e.client.UseService(&p) })
	if p.When == nil {
		return
	}
	slow := make(chan string, 1)
	go func() {
		r, err := p.Slow()
		slow <- fmt.Sprintf("%d %v", r, err)
	}()
	time.Sleep(50 * time.Millisecond)
	guard("edgeWhen", func() {
		cases++
		if r, err := p.When(); err == nil {
			bad("edgeWhen", "unencodable-result-returned-as-a-value", fmt.Sprintf("a function returning the time %v, which the encoder refuses, gave the caller %v and no error on %s", far, r, e.j.Transport))
		}
	})
	guard("edgeEvent", func() {
		cases++
		if r, err := p.Event(); err == nil {
			bad("edgeEvent", "unencodable-result-returned-as-a-value", fmt.Sprintf("a struct result holding the time %v gave the caller %+v and no error on %s", far, r, e.j.Transport))
		}
	})
	guard("edgePair", func() {
		cases++
		if a, b, err := p.Pair(); err == nil {
			bad("edgePair", "unencodable-result-returned-as-a-value", fmt.Sprintf("results (7, %v) gave the caller (%v, %v) and no error on %s", far, a, b, e.j.Transport))
		}
	})
	cases++
	select {
	case r := <-slow:
		if r != "42 <nil>" {
			bad("edgeSlow", "call-in-flight-beside-an-unanswerable-call-fails", fmt.Sprintf("on %s a call in flight on the same client while three calls with unencodable results were made returned %s, its function returns 42", e.j.Transport, r))
		}
	case <-time.After(20 * time.Second):
		bad("edgeSlow", "call-in-flight-beside-an-unanswerable-call-fails", "the call in flight did not return within 20 s")
	}
	guard("edgeErrnoZero", func() {
		cases++
		if r, err := p.ErrnoZero(); err != nil || r != 7 {
			bad("edgeErrnoZero", "non-nilable-error-type", fmt.Sprintf("func() (int, syscall.Errno) returning (7, 0) on %s: the caller got (%v, %v)", e.j.Transport, r, err))
		}
	})
	guard("edgeErrnoSet", func() {
		cases++
		if _, err := p.ErrnoSet(); err == nil || !strings.Contains(err.Error(), syscall.ENOENT.Error()) {
			bad("edgeErrnoSet", "non-nilable-error-type", fmt.Sprintf("func() (int, syscall.Errno) returning (7, ENOENT) on %s: the caller got the error %v", e.j.Transport, err))
		}
	})
	guard("edgeNested", func() {
		cases++
		if r, err := p.Nested("x"); err != nil || r != "hello x" {
			bad("edgeNested", "nested-call-with-the-service-context", fmt.Sprintf("a context-taking function that passes its context to a client proxy on %s: the caller got (%q, %v), the local call returns \"hello x\"", e.j.Transport, r, err))
		}
	})
	guard("edgeHeaders", func() {
		cases++
		// the two headers of the tag and nothing else (the codec's own "simple" header aside)
		if r, err := p.Headers(); err != nil || !strings.HasPrefix(r, `token="abc" id=123 headers=`) || (!strings.HasSuffix(r, "headers=2") && !strings.HasSuffix(r, "headers=3")) {
			bad("edgeHeaders", "proxy-tag", fmt.Sprintf("header:\"id:123,token:'abc'\" on %s: the service saw %s (error %v)", e.j.Transport, r, err))
		}
	})
	for name, f := range map[string]func(string) (string, error){"tag-with-quoted-last-value": p.Quoted, "tag-with-empty-value": p.EmptyVal} {
		name, f := name, f
		guard(name, func() {
			cases++
			if r, err := f("x"); err != nil || r != "hello x" {
				bad(name, "proxy-tag", fmt.Sprintf("%s on %s: the caller got (%q, %v)", name, e.j.Transport, r, err))
			}
		})
	}
	return
}

// dropProbe: the server runs the function and its connection dies before the answer leaves (a crash, a
// restart, a proxy that gives up). The caller gets an error - and the function has run once, not once per
// attempt of an HTTP client that sends the POST again on its own.
func dropProbe(transport string) (viols []string, cases int64) {
	svc := core.NewService()
	var n int32
	svc.AddFunction(func() int { return int(atomic.AddInt32(&n, 1)) }, "bump")
	ln, err := net.Listen("tcp", "127.0.0.1:0")
	if err != nil {
		return []string{"drop probe: " + err.Error()}, 0
	}
	server := &http.Server{}
	if err := svc.Bind(server); err != nil {
		return []string{"drop probe: " + err.Error()}, 0
	}
	inner := server.Handler
	var drop int32 = 1
	server.Handler = http.HandlerFunc(func(w http.ResponseWriter, r *http.Request) {
		if atomic.LoadInt32(&drop) == 0 {
			inner.ServeHTTP(w, r)
			return
		}
		inner.ServeHTTP(httptest.NewRecorder(), r) // the function runs, the answer goes nowhere
		if hj, ok := w.(http.Hijacker); ok {
			if c, _, err := hj.Hijack(); err == nil {
				c.Close()
			}
		}
	})
	go server.Serve(ln)
	defer server.Close()
	rpclab.Select(transport)
	client := core.NewClient("http://" + ln.Addr().String() + "/")
	client.Timeout = 10 * time.Second
	defer client.Abort()
	var proxy struct {
		Bump func() (int, error)
	}
	client.UseService(&proxy)
	for round := 0; round < 3; round++ {
		// a call that is answered first, so that the dropped call travels on a connection that has been used
		// (round 0: on a fresh one)
		if round > 0 {
			atomic.StoreInt32(&drop, 0)
			if _, err := proxy.Bump(); err != nil {
				viols = append(viols, fmt.Sprintf("%s client: an undisturbed call fails: %v", transport, err))
				return
			}
			atomic.StoreInt32(&drop, 1)
		}
		before := atomic.LoadInt32(&n)
		r, err := proxy.Bump()
		cases++
		ran := atomic.LoadInt32(&n) - before
		switch {
		case err == nil:
			viols = append(viols, fmt.Sprintf("%s client: the connection was closed before the answer left, the call returns %d without an error", transport, r))
		case ran != 1:
			viols = append(viols, fmt.Sprintf("%s client: one call whose connection is closed by the server after the function has run invokes the function %d times (error to the caller: %v)", transport, ran, err))
		}
	}
	return
}

// reverseProbe: the same published functions, reached the other way round: a reverse.Provider publishes them on
// the client, a reverse.Caller on the service invokes them through the provider's poll. Only the cells that
// matter for this entry point: nil for interface, pointer, variadic and context-taking parameters, against the
// local call.
func reverseProbe(e *env) (viols []string, cases int64) {
	caller := reverse.NewCaller(e.svc)
	caller.Timeout = 10 * time.Second
	prov := reverse.NewProvider(e.lab.Client(e.j.Transport), "prov")
	prov.Debug = os.Getenv("C08_REVERSE_LOG") != ""
	type probe struct {
		name string
		f    interface{}
		args []interface{}
		ret  reflect.Type
	}
	probes := []probe{
		{"IfaceIn", IfaceIn, []interface{}{nil}, tStr},
		{"IfaceIn", IfaceIn, []interface{}{7}, tStr},
		{"IfaceVar", IfaceVar, []interface{}{nil, 1, nil}, reflect.TypeOf(0)},
		{"CtxPair", CtxPair, []interface{}{nil, 7}, tStr},
		{"CtxLast", CtxLast, []interface{}{7, nil}, tStr},
		{"CtxPtr", CtxPtr, []interface{}{nil, nil, nil}, tStr},
		{"Greet", Greet, []interface{}{"x"}, tStr},
	}
	for _, p := range probes {
		prov.AddFunction(p.f, p.name)
	}
	go prov.Listen()
	defer prov.Close()
	for _, p := range probes {
		takeRecs()
		fv := reflect.ValueOf(p.f)
		ft := fv.Type()
		var in []reflect.Value
		k := 0
		if ft.NumIn() > 0 && ft.In(0) == tCtx {
			in = append(in, reflect.ValueOf(context.Background()))
			k = 1
		}
		for i, a := range p.args {
			pt := ft.In(min(k+i, ft.NumIn()-1))
			if ft.IsVariadic() && k+i >= ft.NumIn()-1 {
				pt = pt.Elem()
			}
			v := reflect.New(pt).Elem()
			if a != nil {
				v.Set(reflect.ValueOf(a))
			}
			in = append(in, v)
		}
		want := fmt.Sprint(fv.Call(in)[0].Interface())
		takeRecs()
		r, err := caller.Invoke("prov", p.name, p.args, p.ret)
		takeRecs()
		cases++
		got := ""
		if len(r) > 0 {
			got = fmt.Sprint(r[0])
		}
		if err != nil || got != want {
			viols = append(viols, fmt.Sprintf("reverse call %s(%v): local call returns %q, the reverse call returned %q, error %v", p.name, p.args, want, got, err))
		}
	}
	return
}

// stackProbe asks the service which client stack is talking to it (User-Agent of the HTTP request), so the
// evidence shows that "fasthttp" really is the fasthttp client and "http" the net/http one.
func stackProbe(e *env) string {
	r, err := e.client.Invoke("agentProbe", nil)
	if err != nil || len(r) != 1 {
		return fmt.Sprintf("probe failed: %v", err)
	}
	return fmt.Sprint(r[0])
}

func agentProbe(ctx context.Context) string {
	if h, ok := core.GetServiceContext(ctx).Items().GetInterface("httpRequestHeaders").(http.Header); ok {
		if h.Get("Upgrade") != "" {
			return "upgrade:" + h.Get("Upgrade")
		}
		return h.Get("User-Agent")
	}
	return "(not http)"
}

func jobs(thorough bool) []job {
	trs := append([]string{}, rpclab.Core...)
	if thorough {
		trs = append(trs, rpclab.Cross...)
	}
	var out []job
	for _, tr := range trs {
		pools := []bool{false}
		if rpclab.HasPool(tr) {
			pools = []bool{false, true}
		}
		for _, pool := range pools {
			for _, cs := range []bool{false, true} {
				for _, ss := range []bool{false, true} {
					debugs := []bool{false}
					if thorough {
						debugs = []bool{false, true}
					}
					for _, dbg := range debugs {
						out = append(out, job{Transport: tr, CSimple: cs, SSimple: ss, Pool: pool, Debug: dbg})
					}
				}
			}
		}
		out = append(out, job{Transport: tr, NoMissing: true})
	}
	return out
}

func main() {
	thorough := report.Tier() == "thorough"
	setup()
	if shard.IsWorker() {
		shard.Serve(func(raw json.RawMessage) interface{} {
			var j job
			json.Unmarshal(raw, &j)
			return runJob(j, thorough)
		})
	}
	if len(os.Args) > 2 && os.Args[1] == "--replay" {
		replay(os.Args[2], thorough)
		return
	}
	run := report.New(ID, "exploration")
	js := jobs(thorough)
	list := make([]interface{}, len(js))
	for i := range js {
		list[i] = js[i]
	}
	var cases, distinct, slack, poolTasks, canaryCases, canaryCaught int64
	stacks := map[string]string{}
	skipDetail := map[string]bool{}
	skipped := map[string]int64{}
	skippedVals := map[string]bool{}
	samples := report.NewSamples(24)
	type group struct {
		first      viol
		firstJob   int // index of the job the kept record comes from (smallest wins: deterministic replay files)
		n          int
		transports map[string]bool
		modes      map[string]bool
	}
	groups := map[string]*group{}
	ranTransports := map[string]bool{}
	shard.Run(list, shard.Options{JobTimeout: 600 * time.Second}, func(i int, raw json.RawMessage, fail *shard.Failure) {
		j := js[i]
		if fail != nil {
			at := ""
			for _, l := range strings.Split(fail.Stderr, "\n") {
				if strings.HasPrefix(l, "c08: ") {
					at = strings.TrimPrefix(l, "c08: ")
				}
			}
			kind := "process-death"
			if fail.Kind == "timeout" {
				kind = "hang"
			}
			run.Violate(fmt.Sprintf("C08|%s|%s", j.Transport, kind), fmt.Sprintf("worker of job [%s] %s (%s) while %s; stderr: %s", j, fail.Kind, fail.Exit, at, trunc(fail.Stderr, 1500)), j)
			return
		}
		var r result
		if err := json.Unmarshal(raw, &r); err != nil {
			run.Infra("bad worker result: " + err.Error())
			return
		}
		if r.Infra != "" {
			run.Infra(fmt.Sprintf("job [%s]: %s", j, r.Infra))
			return
		}
		ranTransports[j.Transport] = true
		cases += r.Cases
		distinct += r.Distinct
		slack += r.SlackRetries
		poolTasks += r.PoolTasks
		canaryCases += r.CanaryCases
		canaryCaught += r.CanaryCaught
		stacks[j.Transport] = r.Stack
		for _, d := range r.SkipDetail {
			skipDetail[d] = true
		}
		for k, v := range r.Skipped {
			skipped[k] += v
		}
		for _, v := range r.SkippedVals {
			skippedVals[v] = true
		}
		if len(r.Samples) > 0 {
			samples.Add(r.Samples[0])
		}
		for _, v := range r.Viol {
			key := v.Cell + "|" + v.Kind
			g := groups[key]
			if g == nil {
				g = &group{first: v, firstJob: i, transports: map[string]bool{}, modes: map[string]bool{}}
				groups[key] = g
			}
			if i < g.firstJob {
				g.first, g.firstJob = v, i
			}
			g.transports[v.Job.Transport] = true
			g.modes[v.Mode] = true
		}
		for k, n := range r.ViolCount {
			if g := groups[k[:strings.LastIndex(k, "|")]]; g != nil {
				g.n += int(n)
			}
		}
	})
	// a finding that shows in six or more cells alike is not a property of those cells: it is reported once,
	// for "any-signature-shape" (root causes, not inputs)
	cellsOfKind := map[string][]string{}
	for k := range groups {
		kind := k[strings.Index(k, "|")+1:]
		cellsOfKind[kind] = append(cellsOfKind[kind], k)
	}
	for kind, ks := range cellsOfKind {
		if len(ks) < 6 {
			continue
		}
		sort.Strings(ks)
		merged := &group{first: groups[ks[0]].first, firstJob: groups[ks[0]].firstJob, transports: map[string]bool{}, modes: map[string]bool{}}
		for _, k := range ks {
			g := groups[k]
			merged.n += g.n
			for t := range g.transports {
				merged.transports[t] = true
			}
			for m := range g.modes {
				merged.modes[m] = true
			}
			if g.firstJob < merged.firstJob {
				merged.first, merged.firstJob = g.first, g.firstJob
			}
			delete(groups, k)
		}
		groups["any-signature-shape|"+kind] = merged
	}
	keys := make([]string, 0, len(groups))
	for k := range groups {
		keys = append(keys, k)
	}
	sort.Strings(keys)
	for _, k := range keys {
		g := groups[k]
		sig := "C08|" + k
		// a failure that is not common to every transport / entry point names the ones it occurs on
		if len(g.transports) < len(ranTransports) {
			sig += "|transports=" + strings.Join(setList(g.transports), ",")
		}
		if len(g.modes) < len(modes) {
			sig += "|via=" + strings.Join(setList(g.modes), ",")
		}
		v := g.first
		what := fmt.Sprintf("%s [first case: %s %s(%s) sent as %q on %s; %d failing cases on transports {%s} via {%s}]", v.What, v.Mode, v.Fn, v.Args,
			v.Spelling, v.Job, g.n, strings.Join(setList(g.transports), ","), strings.Join(setList(g.modes), ","))
		for n := 0; n < g.n; n++ {
			run.Violate(sig, what, v)
		}
	}
	tp := params(thorough)
	nTuples := 0
	perFn := map[string]int{}
	for _, f := range specs {
		n := len(argTuples(f, tp))
		perFn[f.ID] = n
		nTuples += n
	}
	var sv []string
	for v := range skippedVals {
		sv = append(sv, v)
	}
	sort.Strings(sv)
	run.Set("evaluations", cases)
	run.Set("distinct_nontrivial", distinct)
	run.Set("rule", "one evaluation = one remote call of one (function, argument tuple, name spelling, client entry point) under one (transport, client codec mode, service codec mode, pool, debug) job, checked against the local call of the same Go function; distinct_nontrivial counts, per job, the distinct (entry point, function, argument tuple, sent name) combinations that carry at least one argument or result, summed over the (disjoint) jobs")
	run.Set("samples", samples.List())
	run.Set("exhaustive", true)
	run.Set("space", map[string]interface{}{
		"functions": len(specs), "argument_tuples_total": nTuples, "argument_tuples_per_function": perFn,
		"alphabet_prefix_by_arity_1_2_3plus": []int{tp.K1, tp.K2, tp.K3},
		"name_spellings":                     spellings, "entry_points": modes, "transports": setList(ranTransports),
		"codec": "client simple/ref x service simple/ref" + map[bool]string{true: " x service debug on/off", false: ""}[thorough],
		"pool":  "on/off where the handler has a Pool field (tcp, unix, websocket, udp)", "jobs": len(js),
		"second_service_without_missing_handler": "unknown-name cells only",
	})
	if canaryCases == 0 || canaryCaught != canaryCases {
		run.Infra(fmt.Sprintf("oracle self-test failed: the canary (published x+2, model x+1) was caught in %d of %d cases", canaryCaught, canaryCases))
	}
	run.Set("oracle_self_test", map[string]interface{}{"canary_cases": canaryCases, "caught": canaryCaught,
		"what": "a function published as x+2 with reference model x+1 must be reported as wrong-result in every case; its cases are not counted in evaluations"})
	run.Set("client_stack_seen_by_service", stacks)
	run.Set("skipped_detail", setList(skipDetail))
	run.Set("skipped", skipped)
	run.Set("argument_values_skipped_serializer_alone_fails", sv)
	run.Set("slack_retries_recovered", slack)
	run.Set("pool_tasks_observed", poolTasks)
	run.Assumption("values the serializer alone does not carry (checked in-process, both codec modes) are C01's subject and are skipped here; they are listed in coverage")
	run.Assumption("a proxy function declared without an error result reports an error by panicking with it (documented behaviour); the panic value is taken as the error")
	run.Assumption("calls are sequential on one client per job; loopback only; local zone America/New_York")
	run.Assumption("decoder type options (LongType, RealType, MapType, StructType, ListType) stay at their defaults: their effect on interface{} destinations is C01's subject")
	run.Finish()
}

func setList(m map[string]bool) []string {
	out := make([]string, 0, len(m))
	for k := range m {
		out = append(out, k)
	}
	sort.Strings(out)
	return out
}

func replay(path string, thorough bool) {
	_, raw := report.LoadReplay(path)
	var v viol
	if err := json.Unmarshal(raw, &v); err != nil || v.Fn == "" {
		var j job
		json.Unmarshal(raw, &j)
		fmt.Printf("replaying whole job [%s] in this process\n", j)
		r := runJob(j, thorough)
		fmt.Printf("job finished: %d cases, %d violations\n", r.Cases, len(r.Viol))
		if len(r.Viol) > 0 {
			fmt.Printf("VIOLATION property=%s replay=%s\n", ID, path)
			os.Exit(1)
		}
		os.Exit(0)
	}
	e, err := newEnv(v.Job)
	if err != nil {
		fmt.Fprintln(os.Stderr, err)
		os.Exit(2)
	}
	defer e.close()
	for _, f := range specs {
		if f.ID != v.Fn {
			continue
		}
		// find the recorded tuple by its canonical form (the tuple index depends on the tier)
		var args []reflect.Value
		found := false
		for _, tp := range []tierParams{params(thorough), params(true), params(false)} {
			for _, tu := range argTuples(f, tp) {
				if !found && trunc(canonVals(tu), 300) == v.Args {
					args, found = tu, true
				}
			}
		}
		if !found {
			break
		}
		wantOuts, wantMsg, wantErr := local(e, f, args)
		kind, what, o := e.check(f, args, v.Spelling, v.Mode, wantOuts, wantMsg, wantErr)
		fmt.Printf("job [%s]\ncall %s %s(%s) sent as %q\nlocal: results (%s) error=%v %q\nremote: results %v error %v\n", v.Job, v.Mode, f.ID, canonVals(args),
			sentName(f, v.Spelling), canonVals(wantOuts), wantErr, wantMsg, o.outs, o.err)
		if kind != "" {
			fmt.Printf("REPRODUCED %s: %s\n", kind, what)
			fmt.Printf("VIOLATION property=%s replay=%s\n", ID, path)
			os.Exit(1)
		}
		fmt.Println("not reproduced")
		os.Exit(0)
	}
	fmt.Println("replay: function / tuple not found")
	os.Exit(2)
}
