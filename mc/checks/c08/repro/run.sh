#!/bin/bash
# Runs one standalone reproduction (*.go.txt) against /repo's working tree without the check framework:
#   ./run.sh nil_arg_for_interface_param.go.txt
# It only borrows the module wiring of /verif/mc (replace hprose => /repo) through a scratch -modfile.
set -eu
export GOFLAGS=-mod=mod GOPROXY=off GOSUMDB=off GOTOOLCHAIN=local
src=$(readlink -f "$1")
d=$(mktemp -d /tmp/c08repro.XXXXXX); trap 'rm -rf "$d"' EXIT
sed "s#=> /repo#=> ${VERIF_REPO:-/repo}#" /verif/mc/go.mod > "$d/mc.mod"
cat "${VERIF_REPO:-/repo}/go.sum" /verif/mc/go.sum 2>/dev/null | sort -u > "$d/mc.sum"
mkdir "$d/p" && cp "$src" "$d/p/main.go"
cd /verif/mc && go build -modfile="$d/mc.mod" -o "$d/repro" "$d/p/main.go"
# 8 GiB address-space limit: the count-lie reproductions announce 2e9 elements
( ulimit -v 8388608; "$d/repro" "${@:2}" ); echo "exit status: $?"
