package main

import (
	"fmt"
	"time"

	"github.com/hprose/hprose-golang/v3/rpc/core"
	"verif/mc/rpclab"
)

func main() {
	for _, pool := range []bool{false, true} {
		svc := core.NewService()
		svc.AddFunction(func(s string) string { return "hello " + s }, "hello")
		svc.AddFunction(func(x interface{}) interface{} { return x }, "id")
		all := append(append([]string{}, rpclab.Core...), rpclab.Cross...)
		t0 := time.Now()
		lab, err := rpclab.Start(svc, all, pool)
		if err != nil {
			panic(err)
		}
		fmt.Println("started in", time.Since(t0))
		for _, tr := range all {
			rpclab.Select(tr)
			c := lab.Client(tr)
			t0 := time.Now()
			var r []interface{}
			for i := 0; i < 1000; i++ {
				r, err = c.Invoke("HELLO", []interface{}{"w"})
			}
			fmt.Println(tr, lab.URL(tr), r, err, time.Since(t0)/1000)
			r, err = c.Invoke("id", []interface{}{nil})
			fmt.Println("   id(nil):", r, err)
			c.Abort()
		}
		if lab.Pool != nil {
			fmt.Println("pool submitted", lab.Pool.Count())
		}
		lab.Close()
	}
}
