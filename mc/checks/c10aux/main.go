// C10 auxiliary (free-running, built with -race against the unmodified repository): the two HTTP client
// transports, which the controlled scheduler does not reach (net/http and fasthttp run their own goroutines
// over real sockets). The space is small and enumerated in full:
//
//	client transport {net/http, fasthttp} x peer script {silent after the request, silent in the middle of the
//	response headers, silent in the middle of the body, closes after the request, closes in the middle of the
//	body, declares a body of 2^63-1 or 2^48 bytes and closes} x ending {the call's time-out, cancellation of its context, Client.Abort} (for the closing peers the
//	ending is the close itself)
//
// Oracle (one-sided, generous): the call has returned with an error within `slack` of the event that ends it
// (the time-out is 1 s, the slack 15 s: a call that waits for something else - a 60 s time-out, the peer - is
// told apart without a tight clock); a follow-up call on the same client, the peer now answering, succeeds; at
// the end of each client kind the goroutines are back near the baseline.
//
// Output: one JSON object on stdout.
package main

import (
	"bufio"
	"context"
	"encoding/json"
	"fmt"
	"io"
	"net"
	"os"
	"runtime"
	"strconv"
	"strings"
	"sync"
	"sync/atomic"
	"time"

	"github.com/hprose/hprose-golang/v3/rpc/core"
	"verif/mc/netlab"
)

const slack = 15 * time.Second

type viol struct {
	Sig  string `json:"sig"`
	What string `json:"what"`
}

type out struct {
	Evaluations int64                  `json:"evaluations"`
	Viol        []viol                 `json:"viol"`
	Info        map[string]interface{} `json:"info"`
}

// peer is a scripted HTTP server on a raw listener.
type peer struct {
	ln      net.Listener
	script  atomic.Value // string
	got     chan struct{} // a request has been read completely (faulty scripts only)
	mu      sync.Mutex
	held    []net.Conn
	gotOnce sync.Once
}

func newPeer(script string) (*peer, error) {
	ln, err := net.Listen("tcp", "127.0.0.1:0")
	if err != nil {
		return nil, err
	}
	p := &peer{ln: ln, got: make(chan struct{})}
	p.script.Store(script)
	go p.serve()
	return p, nil
}

func (p *peer) serve() {
	for {
		c, err := p.ln.Accept()
		if err != nil {
			return
		}
		go p.handle(c)
	}
}

// readRequest reads one HTTP request with a Content-Length body.
func readRequest(r *bufio.Reader) bool {
	n := 0
	for {
		line, err := r.ReadString('\n')
		if err != nil {
			return false
		}
		if l := strings.ToLower(line); strings.HasPrefix(l, "content-length:") {
			n, _ = strconv.Atoi(strings.TrimSpace(line[len("content-length:"):]))
		}
		if line == "\r\n" {
			break
		}
	}
	_, err := io.CopyN(io.Discard, r, int64(n))
	return err == nil
}

const okBody = `Rs2"ok"z`

func (p *peer) handle(c net.Conn) {
	r := bufio.NewReader(c)
	for {
		if !readRequest(r) {
			c.Close()
			return
		}
		switch p.script.Load().(string) {
		case "healthy":
			fmt.Fprintf(c, "HTTP/1.1 200 OK\r\nContent-Length: %d\r\n\r\n%s", len(okBody), okBody)
			continue
		case "silent-after-request":
		case "silent-in-headers":
			io.WriteString(c, "HTTP/1.1 200 OK\r\nContent-Le")
		case "silent-in-body":
			io.WriteString(c, "HTTP/1.1 200 OK\r\nContent-Length: 100\r\n\r\n0123456789")
		case "closes-after-request":
			p.gotOnce.Do(func() { close(p.got) })
			c.Close()
			return
		case "declares-2^63-1-bytes", "declares-2^48-bytes":
			n := "9223372036854775807"
			if strings.Contains(p.script.Load().(string), "48") {
				n = "281474976710656"
			}
			io.WriteString(c, "HTTP/1.1 200 OK\r\nContent-Length: "+n+"\r\n\r\n0123456789")
			p.gotOnce.Do(func() { close(p.got) })
			time.Sleep(200 * time.Millisecond)
			c.Close()
			return
		case "closes-in-body":
			io.WriteString(c, "HTTP/1.1 200 OK\r\nContent-Length: 100\r\n\r\n0123456789")
			p.gotOnce.Do(func() { close(p.got) })
			c.Close()
			return
		}
		p.mu.Lock()
		p.held = append(p.held, c)
		p.mu.Unlock()
		p.gotOnce.Do(func() { close(p.got) })
		return // the connection stays open and silent
	}
}

func (p *peer) release() {
	p.mu.Lock()
	for _, c := range p.held {
		c.Close()
	}
	p.held = nil
	p.mu.Unlock()
}

func (p *peer) close() { p.ln.Close(); p.release() }

type scenario struct{ client, script, ending string }

func (s scenario) String() string { return s.client + " client, peer " + s.script + ", ended by " + s.ending }

func run(sc scenario) (v *viol) {
	fail := func(kind, what string) *viol {
		return &viol{Sig: fmt.Sprintf("http-clients|%s|client=%s|ending=%s", kind, sc.client, sc.ending), What: sc.String() + ": " + what}
	}
	p, err := newPeer(sc.script)
	if err != nil {
		return fail("infrastructure", err.Error())
	}
	defer p.close()
	cli := core.NewClient("http://" + p.ln.Addr().String() + "/")
	defer netlab.CloseClient(cli)
	cli.Timeout = 60 * time.Second
	if sc.ending == "time-out" {
		cli.Timeout = time.Second
	}
	ctx, cancel := context.WithCancel(context.Background())
	defer cancel()
	type res struct {
		r   []interface{}
		err error
	}
	done := make(chan res, 1)
	start := time.Now()
	go func() {
		r, err := cli.InvokeContext(ctx, "hello", nil)
		done <- res{r, err}
	}()
	var event time.Time
	select {
	case <-p.got:
		event = time.Now()
	case r := <-done:
		return fail("call-ended-before-the-peer-saw-it", fmt.Sprintf("result %v error %v", r.r, r.err))
	case <-time.After(slack):
		return fail("infrastructure", "the peer did not receive the request")
	}
	switch sc.ending {
	case "time-out":
		event = start.Add(cli.Timeout)
	case "cancel":
		time.Sleep(50 * time.Millisecond)
		event = time.Now()
		cancel()
	case "abort":
		time.Sleep(50 * time.Millisecond)
		event = time.Now()
		go cli.Abort()
	}
	select {
	case r := <-done:
		if r.err == nil {
			return fail("call-succeeds-without-a-response", fmt.Sprintf("result %v", r.r))
		}
	case <-time.After(time.Until(event.Add(slack))):
		return fail("call-still-pending", fmt.Sprintf("%v after the %s the call has not returned (its time-out is %v)", slack, sc.ending, cli.Timeout))
	}
	// the client stays usable: the peer answers now
	p.script.Store("healthy")
	p.release()
	cli.Timeout = 10 * time.Second
	r, err := cli.Invoke("hello", nil)
	if err != nil || len(r) != 1 || fmt.Sprint(r[0]) != "ok" {
		return fail("follow-up-call-fails", fmt.Sprintf("after the failed call, with the peer answering: result %v error %v", r, err))
	}
	return nil
}

func main() {
	netlab.Init()
	var o out
	o.Info = map[string]interface{}{}
	seen := map[string]bool{}
	scripts := []string{"silent-after-request", "silent-in-headers", "silent-in-body", "closes-after-request", "closes-in-body", "declares-2^63-1-bytes", "declares-2^48-bytes"}
	var total int64
	for _, kind := range []string{"http", "fasthttp"} {
		netlab.Select(kind)
		// warm-up, then the baseline
		run(scenario{kind, "closes-after-request", "peer-closes"})
		time.Sleep(200 * time.Millisecond)
		base := runtime.NumGoroutine()
		var scs []scenario
		for _, s := range scripts {
			if strings.HasPrefix(s, "closes") || strings.HasPrefix(s, "declares") {
				scs = append(scs, scenario{kind, s, "peer-closes"})
				continue
			}
			for _, e := range []string{"time-out", "cancel", "abort"} {
				scs = append(scs, scenario{kind, s, e})
			}
		}
		results := make([]*viol, len(scs))
		var wg sync.WaitGroup
		for i, sc := range scs {
			wg.Add(1)
			go func(i int, sc scenario) {
				defer wg.Done()
				results[i] = run(sc)
			}(i, sc)
		}
		wg.Wait()
		total += int64(len(scs))
		for _, v := range results {
			if v != nil && !seen[v.Sig] {
				seen[v.Sig] = true
				o.Viol = append(o.Viol, *v)
			}
		}
		// goroutines: everything has been closed; what the scenarios started has ended
		deadline := time.Now().Add(slack)
		n := runtime.NumGoroutine()
		for n > base+4 && time.Now().Before(deadline) {
			time.Sleep(100 * time.Millisecond)
			n = runtime.NumGoroutine()
		}
		if n > base+4 {
			buf := make([]byte, 1<<16)
			buf = buf[:runtime.Stack(buf, true)]
			o.Viol = append(o.Viol, viol{Sig: "http-clients|goroutines-left|client=" + kind, What: fmt.Sprintf("%s client: %d goroutines before the %d scenarios, %d after them (clients aborted, idle connections closed, peers closed)\n%s", kind, base, len(scs), n, firstStacks(string(buf)))})
		}
		o.Info["scenarios_"+kind] = len(scs)
	}
	o.Evaluations = total
	o.Info["race_detector"] = "enabled (a detected race aborts this process with exit status 66)"
	o.Info["slack"] = slack.String()
	json.NewEncoder(os.Stdout).Encode(o)
}

func firstStacks(s string) string {
	if len(s) > 2500 {
		return s[:2500] + "..."
	}
	return s
}
