// C11 — fault containment. The fault space (fault alphabet x transports x worker pool on/off x sentinel
// placement) is a finite product and is enumerated completely. Every scenario runs in a process of its own:
// a shard worker takes the job and spawns the scenario child (this binary again), so a fault that kills
// the process convicts exactly its scenario and the parent sees the exit status and the head of stderr.
//
// A scenario publishes one small service through rpclab (ephemeral loopback port / temp-dir unix socket),
// then: one healthy call BEFORE the fault; two healthy calls that are IN FLIGHT while the fault happens
// (parked inside the service function), one on a second client/connection and one on the faulty client
// itself; the fault (explicit client timeout 2 s); then one healthy call AFTER it on the same client, on
// the other client and on a fresh client. Oracle: the child is alive at the end and reports; the faulty
// call returned (error or not) within 2 s + 10 s slack and did not panic in the caller; every sentinel on
// another connection is correct; the in-flight sentinel on the faulty client's own connection may fail
// only if that connection was closed; the same client recovers and a fresh client is served.
package main

import (
	"bufio"
	"bytes"
	"encoding/json"
	"fmt"
	"os"
	"os/exec"
	"sort"
	"strconv"
	"strings"
	"sync"
	"sync/atomic"
	"time"

	hio "github.com/hprose/hprose-golang/v3/io"
	"github.com/hprose/hprose-golang/v3/rpc/core"
	"verif/lib/report"
	"verif/lib/shard"
	"verif/mc/gen"
	"verif/mc/rpclab"
)

const ID = "C11"

// ---- the scenario child ----

var badHealthy int32

func runScenario(sc scenario) (r childResult) {
	r.Scenario = sc
	tr := sc.Transport
	if (sc.Class == "argument-count-lie" || sc.Fault == "element-count-lie") && !addressSpaceLimited() {
		r.Skipped = "no address-space limit on this process: the count-lie fault would consume real memory instead of failing fast"
		return
	}
	hio.Register((*gen.Inner)(nil))
	f := newFixture(sc)
	rpclab.Select(tr)
	lab, err := rpclab.Start(f.svc, []string{tr}, sc.Pool)
	if err != nil {
		r.Infra = "lab: " + err.Error()
		return
	}
	rpclab.Select(tr)
	c1url := lab.URL(tr)
	if sc.Via == "rawserver" {
		raw, err := rpclab.StartRawServer(tr, f.svc, func(index uint32, body []byte) *rpclab.Reply {
			if !bytes.Contains(body, []byte("FAULT")) {
				return nil
			}
			healthy, _ := f.svc.Handle(rpclab.ServiceCtx(f.svc), body)
			if !bytes.Equal(healthy, healthyResponse) {
				atomic.StoreInt32(&badHealthy, 1)
			}
			return rawServerFault(tr, sc.Fault, index, healthy)
		})
		if err != nil {
			r.Infra = "raw server: " + err.Error()
			return
		}
		c1url = raw.URL
	}
	defer func() {
		if atomic.LoadInt32(&badHealthy) != 0 {
			r.Infra = "the healthy answer the raw server corrupts is not the expected constant"
		}
	}()
	c1, c2 := newClient(c1url), newClient(lab.URL(tr))
	add := func(st step) step { r.Steps = append(r.Steps, st); return st }
	violate := func(kind, what string, timing bool) { r.Viol = append(r.Viol, cviol{kind, what, timing}) }

	// raw peer towards the library server
	var rc rpclab.RawConn
	if sc.Via == "raw" {
		if rc, err = rpclab.RawDial(lab, tr); err != nil {
			r.Infra = "raw dial: " + err.Error()
			return
		}
		if err := healthyRaw(rc, tr); err != nil {
			r.Infra = "healthy raw exchange failed (frame builder or server broken before any fault): " + err.Error()
			return
		}
		if tr == rpclab.HTTP || tr == rpclab.FastHTTP {
			// one request per raw HTTP connection keeps the script independent of keep-alive handling
			rc.Close()
			if rc, err = rpclab.RawDial(lab, tr); err != nil {
				r.Infra = "raw dial: " + err.Error()
				return
			}
		}
	}

	// BEFORE
	if sc.Placement != "fault-first" {
		if st := add(sentinel("before/same-client", c1, sentinelTimeout, "echo", "before", "echo:before")); !st.OK {
			r.Infra = "healthy call before the fault failed: " + st.Err
			return
		}
	}
	if st := add(sentinel("before/other-client", c2, sentinelTimeout, "echo", "warm", "echo:warm")); !st.OK {
		r.Infra = "healthy call before the fault failed: " + st.Err
		return
	}

	// IN FLIGHT: parked inside the service function until released
	type held struct {
		name string
		st   chan step
	}
	var holds []held
	startHold := func(name string, c *labClient, tag string) {
		h := held{name, make(chan step, 1)}
		holds = append(holds, h)
		go func() { h.st <- sentinel(name, c, holdTimeout, "hold", tag, "held:"+tag) }()
	}
	startHold("in-flight/other-connection", c2, "other")
	if sc.Placement != "fault-first" {
		startHold("in-flight/same-client", c1, "same")
	}
	for range holds {
		select {
		case <-f.entered:
		case <-time.After(2 * sentinelTimeout):
			r.Infra = "an in-flight sentinel did not reach the service function before the fault"
			f.releaseAll()
			return
		}
	}
	closedBefore := atomic.LoadInt64(&c1.closed)

	// A healthy call issued at the very moment the library closes the faulty client's connection (from the
	// transport's OnClose callback, which waits for it): it is "issued afterwards" and must complete normally, on
	// a new connection. This pins the one schedule a free-running harness cannot otherwise produce at will.
	var duringClose atomic.Value // step
	var hookOnce sync.Once
	if sc.Via != "raw" {
		c1.hook.Store(func() {
			hookOnce.Do(func() {
				done := make(chan step, 1)
				go func() {
					done <- sentinel("during-close/same-client", c1, sentinelTimeout, "echo", "closing", "echo:closing")
				}()
				select {
				case st := <-done:
					duringClose.Store(st)
				case <-time.After(2 * sentinelTimeout):
					duringClose.Store(step{Name: "during-close/same-client", Err: "did not return", Timeout: true})
				}
			})
		})
	}

	// THE FAULT
	n := 1
	if sc.Placement == "double" {
		n = 2
	}
	for i := 0; i < n; i++ {
		desc, dur, returned, panicked, failed := doFault(sc, f, c1, rc)
		r.Fault, r.FaultDur = desc, dur.Seconds()
		switch {
		case !returned:
			violate("faulty-call-does-not-return", fmt.Sprintf("the faulty call (client timeout %v) had not returned after %v", faultTimeout, faultTimeout+faultSlack), true)
		case panicked:
			violate("caller-panic", "the faulty call panicked in the caller's goroutine instead of returning an error: "+desc, false)
		case dur > faultTimeout+faultSlack:
			violate("faulty-call-exceeds-bound", fmt.Sprintf("the faulty call took %v (client timeout %v + slack %v)", dur, faultTimeout, faultSlack), true)
		case !failed && strings.HasSuffix(sc.Class, "-panic"):
			violate("panic-produced-no-error", "the call whose handler panicked returned successfully: "+desc, false)
		}
	}
	r.ConnClosed = atomic.LoadInt64(&c1.closed) - closedBefore
	c1.hook.Store((func())(nil))
	if st, ok := duringClose.Load().(step); ok {
		add(st)
		if !st.OK {
			violate("call-issued-while-the-faulty-connection-closes-fails", "a healthy call issued on the same client from the transport's OnClose callback (the moment the faulty connection is closed) failed: "+st.Err, st.Timeout)
		}
	}

	// release the in-flight calls and collect them
	f.releaseAll()
	collectBy := time.Now().Add(sentinelTimeout)
	for _, h := range holds {
		var st step
		select {
		case st = <-h.st:
		case <-time.After(time.Until(collectBy)):
			st = step{Name: h.name, Err: fmt.Sprintf("did not return within %v after the service function was released", sentinelTimeout), Timeout: true}
		}
		add(st)
		if st.OK {
			continue
		}
		sameConn := h.name == "in-flight/same-client" && sc.Via != "raw" && rpclab.Multiplexed(tr)
		if sameConn && r.ConnClosed == 0 {
			// the count was taken when the faulty call returned; the close of its connection may follow that
			// return (the call is failed first, then the connection is closed): look again, with patience
			for wait := time.Now().Add(3 * time.Second); r.ConnClosed == 0 && time.Now().Before(wait); time.Sleep(10 * time.Millisecond) {
				r.ConnClosed = atomic.LoadInt64(&c1.closed) - closedBefore
			}
		}
		switch {
		case sameConn && r.ConnClosed > 0:
			r.Notes = append(r.Notes, "the in-flight call on the faulty connection failed with the connection (allowed): "+st.Err)
		case sameConn:
			violate("in-flight-call-on-same-connection-failed-without-close", fmt.Sprintf("the healthy call in flight on the faulty client's connection failed although that connection was not closed: %s", st.Err), st.Timeout)
		case h.name == "in-flight/same-client":
			violate("in-flight-call-on-same-client-failed", fmt.Sprintf("the healthy call in flight on the same client (its own connection) failed: %s", st.Err), st.Timeout)
		default:
			violate("in-flight-call-on-other-connection-failed", fmt.Sprintf("the healthy call in flight on a second client failed: %s", st.Err), st.Timeout)
		}
	}

	// AFTER
	if st := add(sentinel("after/same-client", c1, sentinelTimeout, "echo", "after", "echo:after")); !st.OK {
		st2 := st
		if !st.Timeout {
			st2 = add(sentinel("after/same-client/second-try", c1, sentinelTimeout, "echo", "after2", "echo:after2"))
		}
		if st2.OK {
			violate("next-call-on-same-client-fails", fmt.Sprintf("the first healthy call after the fault failed (%s); the one after it succeeded", st.Err), st.Timeout)
		} else {
			violate("same-client-does-not-recover", fmt.Sprintf("healthy calls after the fault keep failing on the same client: %s / %s", st.Err, st2.Err), st.Timeout && st2.Timeout)
		}
	}
	if st := add(sentinel("after/other-client", c2, sentinelTimeout, "echo", "after-other", "echo:after-other")); !st.OK {
		violate("other-client-fails-afterwards", "a healthy call on the second client after the fault failed: "+st.Err, st.Timeout)
	}
	c3 := newClient(c1url)
	if st := add(sentinel("after/fresh-client", c3, sentinelTimeout, "echo", "fresh", "echo:fresh")); !st.OK {
		violate("fresh-client-not-served", "a fresh client is not served after the fault: "+st.Err, st.Timeout)
	}
	if sc.Via == "rawserver" {
		c4 := newClient(lab.URL(tr))
		if st := add(sentinel("after/fresh-client-to-library-server", c4, sentinelTimeout, "echo", "fresh2", "echo:fresh2")); !st.OK {
			violate("fresh-client-not-served", "a fresh client to the healthy library server fails after the client-side fault: "+st.Err, st.Timeout)
		}
	}
	if rc != nil {
		if err := healthyRawAfter(rc, tr); err != nil {
			r.Notes = append(r.Notes, "the raw connection that carried the fault is no longer served (allowed): "+err.Error())
		} else {
			r.Notes = append(r.Notes, "the raw connection that carried the fault is still served")
		}
	}
	return
}

func healthyRawAfter(rc rpclab.RawConn, tr string) error {
	if tr == rpclab.HTTP || tr == rpclab.FastHTTP {
		return fmt.Errorf("not attempted on a raw HTTP connection")
	}
	return healthyRaw(rc, tr)
}

// doFault performs the fault of sc and describes what its originator observed.
func doFault(sc scenario, f *fixture, c1 *labClient, rc rpclab.RawConn) (desc string, dur time.Duration, returned, panicked, failed bool) {
	type out struct {
		desc             string
		panicked, failed bool
	}
	done := make(chan out, 1)
	t0 := time.Now()
	describe := func(res interface{}, err error, p interface{}) out {
		switch {
		case p != nil:
			return out{fmt.Sprintf("panic: %v", trunc(fmt.Sprint(p), 200)), true, true}
		case err != nil:
			return out{fmt.Sprintf("error %q", trunc(err.Error(), 200)), false, true}
		}
		return out{fmt.Sprintf("success %v", trunc(fmt.Sprint(res), 120)), false, false}
	}
	kind := 0
	for i, k := range allPanicKinds() {
		if k == sc.Fault {
			kind = i
		}
	}
	go func() {
		switch sc.Via {
		case "call":
			var res []interface{}
			var err error
			var p interface{}
			switch sc.Class {
			case "function-panic":
				res, err, p = rpclab.Call(c1.Client, faultTimeout, "boom", kind)
			case "invoke-plugin-panic":
				res, err, p = rpclab.Call(c1.Client, faultTimeout, "pluginboom", kind)
			case "io-plugin-panic":
				res, err, p = rpclab.Call(c1.Client, faultTimeout, "echo", "IOBOOM"+strconv.Itoa(kind))
			case "missing-method-panic":
				res, err, p = rpclab.Call(c1.Client, faultTimeout, "nosuchboom", kind)
			case "function-panic-under-the-execute-timeout-plugin":
				res, err, p = rpclab.Call(c1.Client, faultTimeout, "boom", kind)
			case "error-result-whose-Error-method-panics":
				res, err, p = rpclab.Call(c1.Client, faultTimeout, "nilerr")
			case "self-containing-argument-with-the-log-plugin":
				l := []interface{}{nil}
				l[0] = &l // encoded in reference mode as a1{r0;}: a list that contains itself
				res, err, p = rpclab.Call(c1.Client, faultTimeout, "id", &l)
				if len(res) == 1 {
					res = []interface{}{"(a value came back)"}
				}
			case "wrong-type-arguments":
				w := wrongTypeArgs[sc.Fault]
				res, err, p = rpclab.Call(c1.Client, faultTimeout, w.fn, w.args...)
			case "request-above-MaxRequestLength":
				res, err, p = rpclab.Call(c1.Client, faultTimeout, "echo", strings.Repeat("x", 4000))
			case "oversize-request":
				size, _ := strconv.Atoi(strings.TrimSuffix(sc.Fault, "-bytes"))
				res, err, p = rpclab.Call(c1.Client, faultTimeout, "echo", strings.Repeat("x", size))
				if len(res) == 1 {
					res = []interface{}{fmt.Sprintf("(%d bytes echoed)", len(fmt.Sprint(res[0])))}
				}
			case "oversize-response":
				size, _ := strconv.Atoi(strings.TrimSuffix(sc.Fault, "-bytes"))
				res, err, p = rpclab.Call(c1.Client, faultTimeout, "big", size)
				if len(res) == 1 {
					res = []interface{}{fmt.Sprintf("(%d bytes returned)", len(res[0].([]byte)))}
				}
			}
			done <- describe(res, err, p)
		case "request":
			body := undecodableBodies[sc.Fault]
			if sc.Class == "argument-count-lie" {
				body = countLieBody
			}
			if k, ok := position(sc.Fault, "prefix@"); ok {
				body = string(healthyRequest[:k])
			}
			resp, err, p := rpclab.Request(c1.Client, faultTimeout, []byte(body))
			o := describe(fmt.Sprintf("response bytes %q", trunc(string(resp), 100)), err, p)
			if err == nil && p == nil {
				// the transport delivered an answer: it has to be an error answer
				cc := core.NewClientContext()
				if _, derr := core.NewClientCodec().Decode(resp, cc); derr != nil {
					o = out{fmt.Sprintf("error answer %q", trunc(derr.Error(), 160)), false, true}
				}
			}
			done <- o
		case "rawserver":
			res, err, p := rpclab.Call(c1.Client, faultTimeout, "echo", "FAULT")
			done <- describe(res, err, p)
		case "raw":
			sends, text, closeAfter, ok := rawClientFault(sc.Transport, sc.Fault, healthyRequest)
			if !ok {
				done <- out{"no such fault on this transport", false, true}
				return
			}
			var err error
			for _, b := range sends {
				if text {
					err = rc.SendText(b)
				} else {
					err = rc.Send(b)
				}
			}
			if closeAfter {
				rc.Close()
				done <- out{"sent, connection closed by the raw client", false, true}
				return
			}
			if err != nil {
				done <- out{"send error " + err.Error(), false, true}
				return
			}
			if sc.Transport == rpclab.UDP {
				// datagrams of one socket are read in order: a healthy exchange answered after the fault
				// proves the faulty datagram has been consumed
				if herr := healthyRaw(rc, sc.Transport); herr != nil {
					done <- out{"raw peer: the healthy datagram sent after the faulty one was not answered: " + herr.Error(), false, true}
				} else {
					done <- out{"raw peer: the healthy datagram sent after the faulty one was answered", false, true}
				}
				return
			}
			b, rerr := rc.Recv(faultTimeout)
			switch {
			case rerr != nil && len(b) == 0:
				done <- out{fmt.Sprintf("raw peer observed: %v", rerr), false, true}
			default:
				done <- out{fmt.Sprintf("raw peer received %q", trunc(string(b), 100)), false, true}
			}
		}
	}()
	select {
	case o := <-done:
		return o.desc, time.Since(t0), true, o.panicked, o.failed
	case <-time.After(faultTimeout + faultSlack + time.Second):
		return "no return", time.Since(t0), false, false, true
	}
}

// ---- the scenario space ----

// classOfRawFault groups the concrete malformed frames / answers into the cells that signatures name.
func classOfRawFault(fault string) string {
	switch fault {
	case "garbage-body", "truncated-body", "reference-out-of-range", "class-index-out-of-range", "empty-body":
		return "undecodable-body"
	case "short-binary-message", "empty-binary-message", "len@0", "len@1", "len@2", "len@3":
		return "short-binary-message"
	}
	switch {
	case strings.HasPrefix(fault, "len@"), strings.HasPrefix(fault, "body-prefix@"):
		return "undecodable-body"
	case strings.HasPrefix(fault, "cut@"):
		return "truncated-frame"
	case strings.HasPrefix(fault, "bit@"):
		return "header-bit-flip"
	}
	return fault
}

// severity orders the violation kinds of one scenario; its signature names the gravest one.
var severity = []string{"process-death", "hang", "caller-panic", "faulty-call-does-not-return", "faulty-call-exceeds-bound", "server-stops-serving",
	"fresh-client-not-served", "same-client-does-not-recover", "next-call-on-same-client-fails", "other-client-fails-afterwards",
	"in-flight-call-on-other-connection-failed", "in-flight-call-on-same-client-failed", "in-flight-call-on-same-connection-failed-without-close",
	"panic-produced-no-error"}

func primary(viol []cviol) (kind string, what string) {
	has := map[string]string{}
	var kinds []string
	for _, v := range viol {
		if _, ok := has[v.Kind]; !ok {
			kinds = append(kinds, v.Kind)
		}
		has[v.Kind] = v.What
	}
	if _, a := has["fresh-client-not-served"]; a {
		if _, b := has["other-client-fails-afterwards"]; b {
			has["server-stops-serving"] = "after the fault neither the second client nor a fresh client is served: " + has["fresh-client-not-served"]
		}
	}
	for _, k := range severity {
		if w, ok := has[k]; ok {
			if len(kinds) > 1 {
				w += " [all findings of the scenario: " + strings.Join(kinds, ", ") + "]"
			}
			return k, w
		}
	}
	return viol[0].Kind, viol[0].What
}

func sortedKeys(m interface{}) []string {
	var ks []string
	switch mm := m.(type) {
	case map[string]string:
		for k := range mm {
			ks = append(ks, k)
		}
	case map[string]wrongArgs:
		for k := range mm {
			ks = append(ks, k)
		}
	}
	sort.Strings(ks)
	return ks
}

// positions returns every cut / flip position 0..n-1 in the thorough tier and three representative ones
// (inside the header, at the header boundary, inside the body) in the quick tier.
func positions(n int, thorough bool, reps ...int) []int {
	if thorough {
		out := make([]int, n)
		for i := range out {
			out[i] = i
		}
		return out
	}
	return reps
}

func scenarios(thorough bool) []scenario {
	var out []scenario
	pools := func(tr string) []bool {
		if rpclab.HasPool(tr) {
			return []bool{false, true}
		}
		return []bool{false}
	}
	reqFrameLen := map[string]int{rpclab.TCP: 12 + len(healthyRequest), rpclab.Unix: 12 + len(healthyRequest), rpclab.UDP: 8 + len(healthyRequest)}
	respFrameLen := map[string]int{rpclab.TCP: 12 + len(healthyResponse), rpclab.Unix: 12 + len(healthyResponse), rpclab.UDP: 8 + len(healthyResponse)}
	hdrLen := map[string]int{rpclab.TCP: 12, rpclab.Unix: 12, rpclab.UDP: 8}
	srvTrs := append(append([]string{}, rpclab.Core...), rpclab.Cross...)
	kinds := allPanicKinds()
	for _, pl := range []string{"full", "fault-first", "double"} {
		// ---- faults that hit the library's server (and the UDP client's own capacity) ----
		for _, tr := range srvTrs {
			for _, pool := range pools(tr) {
				add := func(side, via, class, fault string) {
					out = append(out, scenario{Transport: tr, Pool: pool, Side: side, Via: via, Class: class, Fault: fault, Placement: pl})
				}
				for _, class := range []string{"function-panic", "invoke-plugin-panic", "io-plugin-panic", "missing-method-panic"} {
					for _, k := range kinds {
						add("server", "call", class, k)
					}
				}
				for _, k := range panicKinds[:2] {
					add("server", "call", "function-panic-under-the-execute-timeout-plugin", k)
				}
				add("server", "call", "error-result-whose-Error-method-panics", "nil-receiver")
				add("server", "call", "self-containing-argument-with-the-log-plugin", "a1{r0;}")
				for _, k := range sortedKeys(wrongTypeArgs) {
					add("server", "call", "wrong-type-arguments", k)
				}
				for _, k := range sortedKeys(undecodableBodies) {
					add("server", "request", "undecodable-arguments", k)
				}
				add("server", "request", "argument-count-lie", "count-2e9")
				add("server", "call", "request-above-MaxRequestLength", "4000-bytes-max-1024")
				if tr == rpclab.UDP {
					add("client", "call", "oversize-request", "65500-bytes")
					add("client", "call", "oversize-request", "70000-bytes")
					add("server", "call", "oversize-response", "65500-bytes")
					add("server", "call", "oversize-response", "70000-bytes")
					// every size around the point where header plus encoded body stop fitting a datagram (the encoding
					// adds about ten bytes): a boundary that is off by the header size shows only in this window
					for size := 65478; size <= 65499; size++ {
						add("server", "call", "oversize-response", fmt.Sprintf("%d-bytes", size))
						if size%3 == 0 {
							add("client", "call", "oversize-request", fmt.Sprintf("%d-bytes", size))
						}
					}
				}
				for _, fault := range rawClientFaults[tr] {
					add("server", "raw", classOfRawFault(fault), fault)
				}
				if pl != "full" && !thorough {
					continue
				}
				// dense families (quick tier: placement "full" only): every prefix of a healthy request body ...
				for _, k := range positions(len(healthyRequest), thorough, 1, len(healthyRequest)/2, len(healthyRequest)-1) {
					add("server", "request", "undecodable-arguments", fmt.Sprintf("prefix@%d", k))
				}
				// ... every cut of a healthy frame, every single-bit flip of its header ...
				if n, ok := reqFrameLen[tr]; ok {
					h := hdrLen[tr]
					for _, k := range positions(n, thorough, 0, 3, h, h+(n-h)/2) {
						add("server", "raw", "truncated-frame", fmt.Sprintf("cut@%d", k))
					}
					for _, b := range positions(h*8, thorough, 0, 37, h*8-1) {
						add("server", "raw", "header-bit-flip", fmt.Sprintf("bit@%d", b))
					}
				}
				// ... every WebSocket binary message length up to header + 4
				if tr == rpclab.WS || tr == rpclab.WSFast {
					for _, n := range positions(9, thorough, 1, 3, 5) {
						add("server", "raw", classOfRawFault(fmt.Sprintf("len@%d", n)), fmt.Sprintf("len@%d", n))
					}
				}
			}
		}
		// ---- faults that hit the library's client: a raw server answers ----
		for _, tr := range []string{rpclab.HTTP, rpclab.FastHTTP, rpclab.TCP, rpclab.Unix, rpclab.WS, rpclab.UDP} {
			add := func(fault string) {
				out = append(out, scenario{Transport: tr, Side: "client", Via: "rawserver", Class: classOfRawFault(fault), Fault: fault, Placement: pl})
			}
			for _, fault := range rawServerFaults[tr] {
				add(fault)
			}
			if pl != "full" && !thorough {
				continue
			}
			for _, k := range positions(len(healthyResponse), thorough, 1, len(healthyResponse)/2, len(healthyResponse)-1) {
				add(fmt.Sprintf("body-prefix@%d", k))
			}
			if n, ok := respFrameLen[tr]; ok {
				h := hdrLen[tr]
				for _, k := range positions(n, thorough, 0, 3, h, h+(n-h)/2) {
					add(fmt.Sprintf("cut@%d", k))
				}
				for _, b := range positions(h*8, thorough, 0, 37, h*8-1) {
					add(fmt.Sprintf("bit@%d", b))
				}
			}
			if tr == rpclab.WS {
				for _, n := range positions(9, thorough, 1, 3, 5) {
					add(fmt.Sprintf("len@%d", n))
				}
			}
		}
	}
	return out
}

// ---- worker: one child process per scenario ----

type jobResult struct {
	Scenario scenario     `json:"scenario"`
	Runs     int          `json:"runs"`
	Child    *childResult `json:"child,omitempty"`
	Death    string       `json:"death,omitempty"` // exit status when the child died
	Hang     bool         `json:"hang,omitempty"`
	Stderr   string       `json:"stderr,omitempty"`
	Viol     []cviol      `json:"viol"`
	Flaky    []string     `json:"flaky,omitempty"` // timing violations that did not reproduce 5 times out of 5
	Elapsed  float64      `json:"elapsed_s"`
}

const childWatchdog = 100 * time.Second

func spawn(sc scenario) (cr *childResult, death string, hang bool, stderr string) {
	exe, _ := os.Executable()
	b, _ := json.Marshal(sc)
	cmd := exec.Command(exe)
	var env []string
	for _, e := range os.Environ() {
		if !strings.HasPrefix(e, "VERIF_WORKER=") {
			env = append(env, e)
		}
	}
	cmd.Env = append(env, "VERIF_C11_CHILD="+string(b), "GOMAXPROCS=4")
	var so, se bytes.Buffer
	cmd.Stdout, cmd.Stderr = &so, &se
	if err := cmd.Start(); err != nil {
		return nil, "cannot start: " + err.Error(), false, ""
	}
	done := make(chan error, 1)
	go func() { done <- cmd.Wait() }()
	var werr error
	select {
	case werr = <-done:
	case <-time.After(childWatchdog):
		cmd.Process.Kill()
		<-done
		hang = true
	}
	stderr = trunc(se.String(), 2500)
	sc2 := bufio.NewScanner(&so)
	sc2.Buffer(make([]byte, 1<<20), 1<<24)
	for sc2.Scan() {
		if l := sc2.Text(); strings.HasPrefix(l, "RESULT ") {
			var c childResult
			if json.Unmarshal([]byte(l[7:]), &c) == nil {
				cr = &c
			}
		}
	}
	if hang {
		return cr, "", true, stderr
	}
	if werr != nil {
		return cr, werr.Error(), false, stderr
	}
	if cr == nil {
		return nil, "exited with status 0 without reporting a result", false, stderr
	}
	return cr, "", false, stderr
}

func violationsOf(cr *childResult, death string, hang bool, stderr string) []cviol {
	switch {
	case hang:
		return []cviol{{"hang", fmt.Sprintf("the scenario process did not finish within %v (all its calls carry timeouts)", childWatchdog), true}}
	case death != "":
		head := stderr
		if i := strings.Index(head, "\ngoroutine "); i > 0 {
			j := strings.Index(head[i+1:], "\n\n")
			if j > 0 && i+1+j < 1800 {
				head = head[:i+1+j]
			}
		}
		return []cviol{{"process-death", fmt.Sprintf("the process running client and server died (%s) in %s; stderr: %s", death, deathSite(stderr), trunc(head, 1500)), false}}
	}
	return cr.Viol
}

// deathSite names the first frame of the dying goroutine that lies inside the library.
func deathSite(stderr string) string {
	for _, l := range strings.Split(stderr, "\n") {
		if strings.Contains(l, "hprose-golang/v3/") && !strings.HasPrefix(l, "\t") && !strings.HasPrefix(l, "created by") {
			fn := l
			if j := strings.LastIndex(fn, "("); j > 0 {
				fn = fn[:j]
			}
			return fn[strings.Index(fn, "hprose-golang/v3/")+len("hprose-golang/v3/"):]
		}
	}
	if strings.Contains(stderr, "out of memory") {
		return "the Go runtime (fatal error: out of memory, not a panic)"
	}
	return "(no library frame on the dying goroutine)"
}

func runJob(sc scenario) (jr jobResult) {
	t0 := time.Now()
	defer func() { jr.Elapsed = time.Since(t0).Seconds() }()
	jr.Scenario = sc
	cr, death, hang, stderr := spawn(sc)
	jr.Runs = 1
	jr.Child, jr.Death, jr.Hang, jr.Stderr = cr, death, hang, stderr
	if cr != nil && death == "" && !hang && (cr.Infra != "" || cr.Skipped != "") {
		return
	}
	viol := violationsOf(cr, death, hang, stderr)
	if len(viol) == 0 {
		return
	}
	// only a gravest finding that rests on a timeout needs the re-runs; lesser timeout-based findings next
	// to a hard one are kept in its description, marked as seen in a single run
	pk, _ := primary(viol)
	timing := false
	for _, v := range viol {
		if v.Kind == pk {
			timing = v.Timing
		}
	}
	if !timing {
		jr.Viol = viol
		return
	}
	// a violation that rests on a timeout: run the scenario four more times (in parallel); only what
	// shows up five times out of five is reported
	count := map[string]int{}
	for _, v := range viol {
		count[v.Kind]++
	}
	var mu sync.Mutex
	var wg sync.WaitGroup
	for i := 0; i < 4; i++ {
		wg.Add(1)
		go func() {
			defer wg.Done()
			cr2, death2, hang2, stderr2 := spawn(sc)
			seen := map[string]bool{}
			if cr2 == nil || cr2.Infra == "" {
				for _, v := range violationsOf(cr2, death2, hang2, stderr2) {
					seen[v.Kind] = true
				}
			}
			mu.Lock()
			for k := range seen {
				count[k]++
			}
			mu.Unlock()
		}()
	}
	wg.Wait()
	jr.Runs = 5
	for _, v := range viol {
		if !v.Timing || count[v.Kind] == 5 {
			if v.Timing {
				v.What += " [reproduced in 5 runs out of 5]"
			}
			jr.Viol = append(jr.Viol, v)
		} else {
			jr.Flaky = append(jr.Flaky, fmt.Sprintf("%s (%d/5 runs)", v.Kind, count[v.Kind]))
		}
	}
	return
}

func main() {
	if js := os.Getenv("VERIF_C11_CHILD"); js != "" {
		var sc scenario
		if err := json.Unmarshal([]byte(js), &sc); err != nil {
			fmt.Fprintln(os.Stderr, "bad scenario:", err)
			os.Exit(3)
		}
		proto := os.Stdout
		r := runScenario(sc)
		b, _ := json.Marshal(r)
		fmt.Fprintf(proto, "RESULT %s\n", b)
		os.Exit(0)
	}
	thorough := report.Tier() == "thorough"
	if shard.IsWorker() {
		shard.Serve(func(raw json.RawMessage) interface{} {
			var sc scenario
			json.Unmarshal(raw, &sc)
			return runJob(sc)
		})
	}
	if len(os.Args) > 2 && os.Args[1] == "--replay" {
		replay(os.Args[2])
		return
	}
	run := report.New(ID, "fault_enumeration")
	scs := scenarios(thorough)
	list := make([]interface{}, len(scs))
	for i := range scs {
		list[i] = scs[i]
	}
	var evals, runs, skipped, sentinels int64
	distinct := map[string]bool{}
	outcomes := map[string]int{}
	samples := report.NewSamples(30)
	type slowT struct {
		s float64
		w string
	}
	var slow []slowT
	var flaky, skippedWhy []string
	faultOutcome := map[string]map[string]bool{}
	type group struct {
		transports map[string][]string // transport -> what (first) ...
		first      map[string]scenario
		firstIdx   map[string]int
		n          map[string]int
	}
	groups := map[string]*group{}             // side|class|kind
	exercised := map[string]map[string]bool{} // side|class -> transports
	shard.Run(list, shard.Options{JobTimeout: 3*childWatchdog + 30*time.Second}, func(i int, raw json.RawMessage, fail *shard.Failure) {
		sc := scs[i]
		if fail != nil {
			run.Infra(fmt.Sprintf("worker (not the scenario child) failed on [%s]: %s %s %s", sc, fail.Kind, fail.Exit, trunc(fail.Stderr, 400)))
			return
		}
		var jr jobResult
		if err := json.Unmarshal(raw, &jr); err != nil {
			run.Infra("bad worker result: " + err.Error())
			return
		}
		if jr.Child != nil && jr.Death == "" && !jr.Hang {
			if jr.Child.Infra != "" {
				run.Infra(fmt.Sprintf("[%s]: %s", sc, jr.Child.Infra))
				return
			}
			if jr.Child.Skipped != "" {
				skipped++
				skippedWhy = append(skippedWhy, fmt.Sprintf("[%s]: %s", sc, jr.Child.Skipped))
				return
			}
		}
		evals++
		runs += int64(jr.Runs)
		slow = append(slow, slowT{jr.Elapsed, sc.String()})
		outcome, outcomeWhat := "contained", ""
		if len(jr.Viol) > 0 {
			outcome, outcomeWhat = primary(jr.Viol)
		}
		sigTr := sc.Transport
		if i := strings.Index(sigTr, "@"); i > 0 && !strings.HasPrefix(sigTr, "websocket") {
			// mixed HTTP stacks: a server-side cell is named by the server stack, a client-side one by the client stack
			if sc.Side == "server" {
				sigTr = sigTr[i+1:]
			} else {
				sigTr = sigTr[:i]
			}
		}
		if exercised[sc.Side+"|"+sc.Class] == nil {
			exercised[sc.Side+"|"+sc.Class] = map[string]bool{}
		}
		exercised[sc.Side+"|"+sc.Class][sigTr] = true
		obs := "(process died)"
		if jr.Child != nil {
			obs = jr.Child.Fault
			sentinels += int64(len(jr.Child.Steps))
		}
		outcomes[outcome]++
		distinct[fmt.Sprintf("%s|%s|%s|%s|%s", sc.Transport, sc.Side, sc.Via, sc.Class, sc.Fault)] = true
		key := sc.Side + "/" + sc.Class
		if faultOutcome[key] == nil {
			faultOutcome[key] = map[string]bool{}
		}
		faultOutcome[key][outcome] = true
		for _, fl := range jr.Flaky {
			flaky = append(flaky, fmt.Sprintf("[%s]: %s", sc, fl))
		}
		if i%17 == 3 || (len(jr.Viol) > 0 && i%3 == 0) {
			samples.Add(map[string]interface{}{"scenario": sc.String(), "faulty_call_observed": obs, "outcome": outcome})
		}
		if len(jr.Viol) > 0 {
			key := sc.Side + "|" + sc.Class + "|" + outcome
			g := groups[key]
			if g == nil {
				g = &group{transports: map[string][]string{}, first: map[string]scenario{}, firstIdx: map[string]int{}, n: map[string]int{}}
				groups[key] = g
			}
			if old, seen := g.firstIdx[sigTr]; !seen || i < old {
				// the record kept is the one of the smallest scenario index: replay files do not depend on scheduling
				g.firstIdx[sigTr] = i
				g.first[sigTr] = sc
				g.transports[sigTr] = []string{fmt.Sprintf("%s [scenario: %s; the faulty call observed: %s]", outcomeWhat, sc, obs)}
			}
			g.n[sigTr]++
		}
	})
	// one signature per failing cell: (transport, side, fault class, gravest finding); a cell that fails
	// alike on every transport it exists on is reported once, as "all-transports"
	var gkeys []string
	for k := range groups {
		gkeys = append(gkeys, k)
	}
	sort.Strings(gkeys)
	for _, key := range gkeys {
		g := groups[key]
		parts := strings.SplitN(key, "|", 3)
		var trs []string
		for tr := range g.transports {
			trs = append(trs, tr)
		}
		sort.Strings(trs)
		if len(trs) > 1 && len(trs) == len(exercised[parts[0]+"|"+parts[1]]) {
			sig := fmt.Sprintf("C11|all-transports|%s|%s|%s", parts[0], parts[1], parts[2])
			total := 0
			for _, tr := range trs {
				total += g.n[tr]
			}
			what := g.transports[trs[0]][0] + fmt.Sprintf(" [same finding on every transport the fault exists on: %s]", strings.Join(trs, ", "))
			for i := 0; i < total; i++ {
				run.Violate(sig, what, g.first[trs[0]])
			}
			continue
		}
		for _, tr := range trs {
			sig := fmt.Sprintf("C11|%s|%s|%s|%s", tr, parts[0], parts[1], parts[2])
			for i := 0; i < g.n[tr]; i++ {
				run.Violate(sig, g.transports[tr][0], g.first[tr])
			}
		}
	}
	sort.Strings(flaky)
	sort.Strings(skippedWhy)
	fo := map[string][]string{}
	for k, m := range faultOutcome {
		for o := range m {
			fo[k] = append(fo[k], o)
		}
		sort.Strings(fo[k])
	}
	sort.Slice(slow, func(i, j int) bool { return slow[i].s > slow[j].s })
	var slowest []string
	for i := 0; i < len(slow) && i < 12; i++ {
		slowest = append(slowest, fmt.Sprintf("%.1fs %s", slow[i].s, slow[i].w))
	}
	run.Set("slowest_scenarios", slowest)
	run.Set("evaluations", evals)
	run.Set("distinct_nontrivial", int64(len(distinct)))
	run.Set("rule", "one evaluation = one scenario (transport, pool, fault, sentinel placement) executed in a process of its own with all its sentinel calls; distinct_nontrivial counts the distinct (transport, side, delivery, fault class, concrete fault) combinations executed, i.e. it ignores pool and placement; every scenario injects a fault, none is trivial")
	run.Set("samples", samples.List())
	run.Set("exhaustive", true)
	run.Set("process_runs", runs)
	run.Set("sentinel_calls", sentinels)
	run.Set("outcomes", outcomes)
	run.Set("outcomes_by_fault_class", fo)
	run.Set("timing_violations_not_reproduced_5_of_5", flaky)
	run.Set("skipped_scenarios", skippedWhy)
	pl := "full (before, in flight on second and same client, after on same / other / fresh client)"
	if thorough {
		pl += "; fault-first (the fault is the first use of the client's connection); double (the fault twice in a row)"
	}
	run.Set("space", map[string]interface{}{
		"scenarios": len(scs), "transports": rpclab.Core, "cross_stacks_thorough": rpclab.Cross,
		"panic_values": map[bool][]string{true: allPanicKinds(), false: panicKinds}[thorough], "panic_sites": []string{"service function", "invoke plugin", "IO plugin", "missing-method handler"},
		"wrong_type_arguments": len(wrongTypeArgs), "undecodable_bodies": len(undecodableBodies) + 1,
		"raw_frames_to_server": rawClientFaults, "raw_answers_to_client": rawServerFaults,
		"udp_sizes": []int{65500, 70000}, "pool": "on/off where the handler has a Pool field", "placements": pl,
		"faulty_call_timeout_s": faultTimeout.Seconds(), "slack_s": faultSlack.Seconds(),
	})
	run.Assumption("client and server of a scenario share one process; which of them died is read off the stack trace on stderr")
	run.Assumption("a violation that rests on a timeout having fired is reported only if it shows in 5 runs out of 5")
	run.Assumption("the count-lie faults (2e9 elements announced) run under the 16 GiB address-space limit of the worker; without such a limit they are skipped")
	run.Assumption("frame lengths are lied about by tens of bytes only; announced lengths of gigabytes are C13's subject (MaxRequestLength)")
	run.Finish()
}

func replay(path string) {
	_, raw := report.LoadReplay(path)
	var sc scenario
	if err := json.Unmarshal(raw, &sc); err != nil {
		fmt.Fprintln(os.Stderr, err)
		os.Exit(2)
	}
	fmt.Printf("scenario: %s\n", sc)
	jr := runJob(sc)
	if jr.Child != nil {
		b, _ := json.MarshalIndent(jr.Child, "", " ")
		fmt.Printf("child result: %s\n", b)
	}
	if jr.Death != "" || jr.Hang {
		fmt.Printf("child death=%q hang=%v\nstderr: %s\n", jr.Death, jr.Hang, jr.Stderr)
	}
	if len(jr.Viol) > 0 {
		for _, v := range jr.Viol {
			fmt.Printf("REPRODUCED %s: %s\n", v.Kind, v.What)
		}
		fmt.Printf("VIOLATION property=%s replay=%s\n", ID, path)
		os.Exit(1)
	}
	fmt.Println("not reproduced")
	os.Exit(0)
}
