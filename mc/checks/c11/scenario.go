package main

import (
	"bytes"
	"context"
	"errors"
	"fmt"
	"net"
	"strconv"
	"strings"
	"sync"
	"sync/atomic"
	"syscall"
	"time"

	"github.com/fasthttp/websocket"
	"github.com/hprose/hprose-golang/v3/rpc"
	"github.com/hprose/hprose-golang/v3/rpc/core"
	"github.com/hprose/hprose-golang/v3/rpc/plugins/log"
	"github.com/hprose/hprose-golang/v3/rpc/plugins/timeout"
	"verif/mc/gen"
	"verif/mc/rpclab"
)

// scenario is one point of the fault space.
type scenario struct {
	Transport string `json:"transport"`
	Pool      bool   `json:"pool"`
	Side      string `json:"side"`      // which library component the fault hits: "server" | "client"
	Via       string `json:"via"`       // "call" real client call | "request" raw body through the real client | "raw" raw peer -> library server | "rawserver" raw server -> library client
	Class     string `json:"class"`     // fault class (signature cell)
	Fault     string `json:"fault"`     // concrete fault
	Placement string `json:"placement"` // "full" | "fault-first" | "double"
}

func (s scenario) String() string {
	return fmt.Sprintf("%s pool=%v %s/%s %s:%s placement=%s", s.Transport, s.Pool, s.Side, s.Via, s.Class, s.Fault, s.Placement)
}

type step struct {
	Name    string  `json:"name"`
	OK      bool    `json:"ok"`
	Err     string  `json:"err,omitempty"`
	Timeout bool    `json:"timeout,omitempty"`
	Dur     float64 `json:"dur_s"`
}

type cviol struct {
	Kind   string `json:"kind"`
	What   string `json:"what"`
	Timing bool   `json:"timing"` // rests on a timeout having fired: re-run before reporting
}

type childResult struct {
	Scenario   scenario `json:"scenario"`
	Steps      []step   `json:"steps"`
	Fault      string   `json:"fault_outcome"`
	FaultDur   float64  `json:"fault_dur_s"`
	ConnClosed int64    `json:"client_conn_closed"`
	Viol       []cviol  `json:"viol"`
	Notes      []string `json:"notes,omitempty"`
	Infra      string   `json:"infra,omitempty"`
	Skipped    string   `json:"skipped,omitempty"`
}

const (
	faultTimeout    = 2 * time.Second  // explicit client timeout of the faulty call
	faultSlack      = 10 * time.Second // one-sided slack on top of it
	sentinelTimeout = 3 * time.Second
	holdTimeout     = 30 * time.Second
)

// ---- panic values ----

type customPanic struct {
	Code int
	Why  string
}

var panicKinds = []string{"string", "error", "custom-struct", "nil-map-write", "index-out-of-range"}

// further panic values of the thorough tier
var morePanicKinds = []string{"int", "nil-pointer-dereference", "custom-error-type", "wrapped-error", "value-that-contains-itself"}

type customErr struct{ Code int }

func (e *customErr) Error() string { return fmt.Sprintf("boom: custom error type %d", e.Code) }

func allPanicKinds() []string { return append(append([]string{}, panicKinds...), morePanicKinds...) }

func panicWith(kind int) {
	switch kind {
	case 0:
		panic("boom: string panic")
	case 1:
		panic(errors.New("boom: error panic"))
	case 2:
		panic(customPanic{7, "boom: custom value"})
	case 3:
		var m map[string]int
		m["x"] = 1
	case 4:
		var s []int
		_ = s[kind]
	case 5:
		panic(42)
	case 6:
		var p *customPanic
		_ = p.Code
	case 7:
		panic(&customErr{7})
	case 8:
		panic(fmt.Errorf("boom: wrapped: %w", errors.New("inner")))
	default:
		// printing it (the error text of the call is made from the panic value) never ends
		m := map[string]interface{}{"why": "boom"}
		m["me"] = m
		panic(m)
	}
}

func toInt(x interface{}) int {
	switch v := x.(type) {
	case int:
		return v
	case int64:
		return int(v)
	}
	return 0
}

// ---- the service of a scenario ----

type fixture struct {
	svc     *core.Service
	entered chan string
	release chan struct{}
	once    sync.Once
}

func (f *fixture) releaseAll() { f.once.Do(func() { close(f.release) }) }

func newFixture(sc scenario) *fixture {
	f := &fixture{entered: make(chan string, 16), release: make(chan struct{})}
	svc := core.NewService()
	svc.AddFunction(func(s string) string { return "echo:" + s }, "echo")
	svc.AddFunction(func(x int) int { return x + 1 }, "inc")
	svc.AddFunction(func(x interface{}) interface{} { return x }, "id")
	svc.AddFunction(func(in gen.Inner) gen.Inner { return in }, "obj")
	svc.AddFunction(func(a, b int) int { return a + b }, "add")
	svc.AddFunction(func(tag string) string {
		f.entered <- tag
		select {
		case <-f.release:
		case <-time.After(holdTimeout):
		}
		return "held:" + tag
	}, "hold")
	svc.AddFunction(func(kind int) int { panicWith(kind); return kind }, "boom")
	svc.AddFunction(func(kind int) int { return kind }, "pluginboom")
	svc.AddFunction(func(n int) []byte { return bytes.Repeat([]byte{'x'}, n) }, "big")
	// an error whose Error method dereferences its nil receiver: producing the error text of the call panics
	svc.AddFunction(func() (int, error) { var e *customErr; return 0, e }, "nilerr")
	svc.AddMissingMethod(func(name string, args []interface{}) ([]interface{}, error) {
		if name == "nosuchboom" && len(args) > 0 {
			panicWith(toInt(args[0]))
		}
		return []interface{}{"missing:" + name}, nil
	})
	svc.Use(func(ctx context.Context, name string, args []interface{}, next core.NextInvokeHandler) ([]interface{}, error) {
		if name == "pluginboom" && len(args) > 0 {
			panicWith(toInt(args[0]))
		}
		return next(ctx, name, args)
	})
	svc.Use(func(ctx context.Context, request []byte, next core.NextIOHandler) ([]byte, error) {
		if i := bytes.Index(request, []byte("IOBOOM")); i >= 0 && i+6 < len(request) {
			panicWith(int(request[i+6] - '0'))
		}
		return next(ctx, request)
	})
	if sc.Class == "request-above-MaxRequestLength" {
		svc.MaxRequestLength = 1024
	}
	switch sc.Class {
	case "function-panic-under-the-execute-timeout-plugin":
		// the library's plugin runs the rest of the invoke chain in a goroutine of its own
		svc.Use(timeout.New(20 * time.Second).Handler)
	case "self-containing-argument-with-the-log-plugin":
		svc.Use(log.New(func(v ...interface{}) {}))
	}
	f.svc = svc
	return f
}

// ---- clients ----

type labClient struct {
	*core.Client
	closed int64
	// hook, when set, runs inside the transport's OnClose callback, i.e. at the moment the library closes one of
	// this client's connections
	hook atomic.Value // func()
}

func (c *labClient) onClose() {
	atomic.AddInt64(&c.closed, 1)
	if f, _ := c.hook.Load().(func()); f != nil {
		f()
	}
}

func newClient(url string) *labClient {
	c := &labClient{Client: core.NewClient(url)}
	c.Timeout = sentinelTimeout
	rpc.SocketTransport(c.Client).OnClose = func(net.Conn) { c.onClose() }
	rpc.UDPTransport(c.Client).OnClose = func(net.Conn) { c.onClose() }
	rpc.WebSocketTransport(c.Client).OnClose = func(*websocket.Conn) { c.onClose() }
	return c
}

func isTimeoutErr(err error) bool {
	if err == nil {
		return false
	}
	if core.IsTimeoutError(err) || errors.Is(err, context.DeadlineExceeded) {
		return true
	}
	m := err.Error()
	return strings.Contains(m, "timeout") || strings.Contains(m, "deadline exceeded") || strings.Contains(m, "timed out")
}

func trunc(s string, n int) string {
	if len(s) > n {
		return s[:n] + "..."
	}
	return s
}

// sentinel runs one healthy call and checks its result.
func sentinel(name string, c *labClient, timeout time.Duration, fn, arg, want string) step {
	t0 := time.Now()
	res, err, p := rpclab.Call(c.Client, timeout, fn, arg)
	st := step{Name: name, Dur: time.Since(t0).Seconds()}
	switch {
	case p != nil:
		st.Err = fmt.Sprintf("panic in the caller: %v", p)
	case err != nil:
		st.Err = trunc(err.Error(), 200)
		st.Timeout = isTimeoutErr(err)
	case len(res) != 1 || fmt.Sprint(res[0]) != want:
		st.Err = fmt.Sprintf("wrong result %v, want %q", res, want)
	default:
		st.OK = true
	}
	return st
}

// addressSpaceLimited reports whether this process runs under an address-space limit small enough for
// the count-lie faults to fail fast instead of eating the machine's memory.
func addressSpaceLimited() bool {
	var rl syscall.Rlimit
	if err := syscall.Getrlimit(syscall.RLIMIT_AS, &rl); err != nil {
		return false
	}
	return rl.Cur <= 24<<30
}

func encodeCall(name string, args ...interface{}) []byte {
	b, err := core.NewClientCodec().Encode(name, args, core.NewClientContext())
	if err != nil {
		panic(err)
	}
	return b
}

// ---- fault tables ----

// wrongTypeArgs: calls of inc(int) / add(int,int) with arguments the parameter types cannot take.
type wrongArgs struct {
	fn   string
	args []interface{}
}

var wrongTypeArgs = map[string]wrongArgs{
	"string-for-int":  {"inc", []interface{}{"abc"}},
	"list-for-int":    {"inc", []interface{}{[]int{1, 2}}},
	"map-for-int":     {"inc", []interface{}{map[string]int{"a": 1}}},
	"struct-for-int":  {"inc", []interface{}{gen.Inner{A: 1, B: "x"}}},
	"int-for-struct":  {"obj", []interface{}{5}},
	"too-many-args":   {"inc", []interface{}{1, 2, 3}},
	"too-few-args":    {"add", []interface{}{1}},
	"no-args-for-one": {"inc", nil},
}

// undecodable request bodies, sent through the real client with Client.Request.
var undecodableBodies = map[string]string{
	"reference-out-of-range":   `Cs3"inc"a1{r9;}z`,
	"class-index-out-of-range": `Cs2"id"a1{o5{}}z`,
	"unhashable-map-key":       `Cs2"id"a1{m1{a{}1}}z`,
	"truncated-arguments":      `Cs3"inc"a1{i1`,
	"garbage":                  "\xff\xfe\x00garbage",
	"string-length-lie":        `Cs4"echo"a1{s99"ab"}z`,
	"bytes-length-lie":         `Cs2"id"a1{b99"ab"}z`,
	"negative-argument-count":  `Cs3"inc"a-1{}z`,
	"name-is-not-a-string":     `Ci5;a1{i1;}z`,
	"unknown-tag-in-arguments": `Cs3"inc"a1{?}z`,
	"bad-header-block":         `Hr9;zCs4"echo"a1{s1"x"}z`,
}

// the healthy request of the raw peers, and the healthy answer to the faulty call of the raw-server
// scenarios (echo("FAULT")); the dense fault families cut and corrupt them
var healthyRequest = encodeCall("echo", "raw")
var healthyResponse = []byte(`Rs10"echo:FAULT"z`)

// position parses faults of the form "<prefix><n>".
func position(fault, prefix string) (int, bool) {
	if !strings.HasPrefix(fault, prefix) {
		return 0, false
	}
	n, err := strconv.Atoi(fault[len(prefix):])
	return n, err == nil
}

func flipBit(b []byte, bit int) []byte {
	out := append([]byte{}, b...)
	out[bit/8] ^= 1 << uint(7-bit%8)
	return out
}

const countLieBody = `Cs3"inc"a2000000000{`

var garbage = []byte("\xff\xfe\x00garbage")

// rawServerFault returns what the raw server sends instead of the healthy answer `healthy` to request
// `index`, or nil when the fault does not exist on the transport.
func rawServerFault(tr, fault string, index uint32, healthy []byte) *rpclab.Reply {
	one := func(b []byte) *rpclab.Reply { return &rpclab.Reply{Frames: [][]byte{b}} }
	bodyFaults := map[string][]byte{
		"garbage-body":             garbage,
		"truncated-body":           []byte(`Rs10"echo:F`),
		"reference-out-of-range":   []byte(`Rr9;z`),
		"class-index-out-of-range": []byte(`Ro5{}z`),
		"element-count-lie":        []byte(`Ra2000000000{`),
		"empty-body":               {},
	}
	if k, ok := position(fault, "body-prefix@"); ok && k <= len(healthy) {
		bodyFaults[fault] = healthy[:k]
	}
	var whole []byte
	switch tr {
	case rpclab.TCP, rpclab.Unix:
		whole = rpclab.SocketFrame(index, healthy)
	case rpclab.UDP:
		whole = rpclab.UDPFrame(uint16(index), healthy)
	case rpclab.WS:
		whole = rpclab.WSFrame(index, healthy)
	}
	if k, ok := position(fault, "cut@"); ok && whole != nil && k < len(whole) {
		return &rpclab.Reply{Frames: [][]byte{whole[:k]}, Close: tr != rpclab.UDP}
	}
	if b, ok := position(fault, "bit@"); ok && whole != nil && b < len(whole)*8 {
		return one(flipBit(whole, b))
	}
	if n, ok := position(fault, "len@"); ok && tr == rpclab.WS && n <= len(whole) {
		return one(whole[:n])
	}
	switch tr {
	case rpclab.TCP, rpclab.Unix:
		frame := rpclab.SocketFrame
		if b, ok := bodyFaults[fault]; ok {
			return one(frame(index, b))
		}
		switch fault {
		case "unknown-index":
			return one(frame(index+1000, healthy))
		case "error-flag":
			return one(frame(index|0x80000000, []byte("some error text")))
		case "bad-checksum":
			return one(rpclab.FlipCRC(frame(index, healthy)))
		case "short-header-then-close":
			return &rpclab.Reply{Frames: [][]byte{frame(index, healthy)[:5]}, Close: true}
		case "length-lie-long-then-close":
			return &rpclab.Reply{Frames: [][]byte{append(rpclab.SocketHeader(len(healthy)+50, index), healthy...)}, Close: true}
		case "length-lie-short":
			return one(append(rpclab.SocketHeader(4, index), healthy...))
		case "duplicate-response":
			return &rpclab.Reply{Frames: [][]byte{frame(index, healthy), frame(index, healthy)}}
		}
	case rpclab.UDP:
		idx := uint16(index)
		if b, ok := bodyFaults[fault]; ok {
			return one(rpclab.UDPFrame(idx, b))
		}
		switch fault {
		case "unknown-index":
			return one(rpclab.UDPFrame(idx+1000, healthy))
		case "error-flag":
			return one(rpclab.UDPFrame(idx|0x8000, []byte("some error text")))
		case "bad-checksum":
			return one(rpclab.FlipCRC(rpclab.UDPFrame(idx, healthy)))
		case "short-datagram":
			return one([]byte{1, 2, 3})
		case "length-lie-long":
			return one(append(rpclab.UDPHeader(len(healthy)+50, idx), healthy...))
		case "length-lie-short":
			return one(append(rpclab.UDPHeader(4, idx), healthy...))
		case "duplicate-response":
			return &rpclab.Reply{Frames: [][]byte{rpclab.UDPFrame(idx, healthy), rpclab.UDPFrame(idx, healthy)}}
		}
	case rpclab.WS:
		if b, ok := bodyFaults[fault]; ok {
			return one(rpclab.WSFrame(index, b))
		}
		switch fault {
		case "unknown-index":
			return one(rpclab.WSFrame(index+1000, healthy))
		case "error-flag":
			return one(rpclab.WSFrame(index|0x80000000, []byte("some error text")))
		case "short-binary-message":
			return one([]byte{0, 1})
		case "empty-binary-message":
			return one([]byte{})
		case "text-message":
			return &rpclab.Reply{Frames: [][]byte{[]byte("hello")}, Text: true}
		case "duplicate-response":
			return &rpclab.Reply{Frames: [][]byte{rpclab.WSFrame(index, healthy), rpclab.WSFrame(index, healthy)}}
		}
	case rpclab.HTTP, rpclab.FastHTTP:
		if b, ok := bodyFaults[fault]; ok {
			return one(rpclab.HTTPResponse(200, len(b), b))
		}
		switch fault {
		case "status-500":
			return one(rpclab.HTTPResponse(500, 5, []byte("oops\n")))
		case "content-length-lie-long-then-close":
			return one(rpclab.HTTPResponse(200, len(healthy)+50, healthy))
		case "content-length-lie-short":
			return one(rpclab.HTTPResponse(200, 4, healthy))
		case "garbage-status-line":
			return one([]byte("\xff\xfe garbage\r\n\r\n"))
		}
	}
	return nil
}

var rawServerFaults = map[string][]string{
	rpclab.TCP: {"garbage-body", "truncated-body", "reference-out-of-range", "class-index-out-of-range", "element-count-lie", "empty-body", "unknown-index", "error-flag",
		"bad-checksum", "short-header-then-close", "length-lie-long-then-close", "length-lie-short", "duplicate-response"},
	rpclab.UDP: {"garbage-body", "truncated-body", "reference-out-of-range", "class-index-out-of-range", "element-count-lie", "empty-body", "unknown-index", "error-flag",
		"bad-checksum", "short-datagram", "length-lie-long", "length-lie-short", "duplicate-response"},
	rpclab.WS: {"garbage-body", "truncated-body", "reference-out-of-range", "class-index-out-of-range", "element-count-lie", "empty-body", "unknown-index", "error-flag",
		"short-binary-message", "empty-binary-message", "text-message", "duplicate-response"},
	rpclab.HTTP: {"garbage-body", "truncated-body", "reference-out-of-range", "class-index-out-of-range", "element-count-lie", "empty-body", "status-500",
		"content-length-lie-long-then-close", "content-length-lie-short", "garbage-status-line"},
}

func init() {
	rawServerFaults[rpclab.Unix] = rawServerFaults[rpclab.TCP]
	rawServerFaults[rpclab.FastHTTP] = rawServerFaults[rpclab.HTTP]
}

// rawClientFault returns the byte strings a raw client sends to the library server (one Send each) and
// whether it then closes its connection at once.
func rawClientFault(tr, fault string, healthyBody []byte) (sends [][]byte, text bool, closeAfter bool, ok bool) {
	var whole []byte
	switch tr {
	case rpclab.TCP, rpclab.Unix:
		whole = rpclab.SocketFrame(7, healthyBody)
	case rpclab.UDP:
		whole = rpclab.UDPFrame(7, healthyBody)
	case rpclab.WS, rpclab.WSFast:
		whole = rpclab.WSFrame(7, healthyBody)
	}
	if k, isCut := position(fault, "cut@"); isCut && whole != nil && k < len(whole) {
		return [][]byte{whole[:k]}, false, tr != rpclab.UDP, true
	}
	if b, isFlip := position(fault, "bit@"); isFlip && whole != nil && b < len(whole)*8 {
		return [][]byte{flipBit(whole, b)}, false, false, true
	}
	if n, isLen := position(fault, "len@"); isLen && (tr == rpclab.WS || tr == rpclab.WSFast) && n <= len(whole) {
		return [][]byte{whole[:n]}, false, false, true
	}
	switch tr {
	case rpclab.TCP, rpclab.Unix:
		f := rpclab.SocketFrame(7, healthyBody)
		switch fault {
		case "short-header-then-close":
			return [][]byte{f[:5]}, false, true, true
		case "bad-checksum":
			return [][]byte{rpclab.FlipCRC(f)}, false, false, true
		case "length-lie-long":
			return [][]byte{append(rpclab.SocketHeader(len(healthyBody)+50, 7), healthyBody...)}, false, false, true
		case "length-lie-short":
			return [][]byte{append(rpclab.SocketHeader(4, 7), healthyBody...)}, false, false, true
		case "error-flag-index":
			return [][]byte{rpclab.SocketFrame(7|0x80000000, healthyBody)}, false, false, true
		case "zero-length-body":
			return [][]byte{rpclab.SocketFrame(7, nil)}, false, false, true
		case "garbage-body":
			return [][]byte{rpclab.SocketFrame(7, garbage)}, false, false, true
		case "garbage-stream":
			return [][]byte{bytes.Repeat([]byte{0xaa}, 64)}, false, false, true
		}
	case rpclab.UDP:
		switch fault {
		case "short-datagram":
			return [][]byte{{1, 2, 3}}, false, false, true
		case "bad-checksum":
			return [][]byte{rpclab.FlipCRC(rpclab.UDPFrame(7, healthyBody))}, false, false, true
		case "length-lie-long":
			return [][]byte{append(rpclab.UDPHeader(len(healthyBody)+50, 7), healthyBody...)}, false, false, true
		case "length-lie-short":
			return [][]byte{append(rpclab.UDPHeader(4, 7), healthyBody...)}, false, false, true
		case "error-flag-index":
			return [][]byte{rpclab.UDPFrame(7|0x8000, healthyBody)}, false, false, true
		case "zero-length-body":
			return [][]byte{rpclab.UDPFrame(7, nil)}, false, false, true
		case "garbage-body":
			return [][]byte{rpclab.UDPFrame(7, garbage)}, false, false, true
		}
	case rpclab.WS, rpclab.WSFast:
		switch fault {
		case "short-binary-message":
			return [][]byte{{0, 1}}, false, false, true
		case "empty-binary-message":
			return [][]byte{{}}, false, false, true
		case "text-message":
			return [][]byte{[]byte("hello")}, true, false, true
		case "error-flag-index":
			return [][]byte{rpclab.WSFrame(7|0x80000000, healthyBody)}, false, false, true
		case "zero-length-body":
			return [][]byte{rpclab.WSFrame(7, nil)}, false, false, true
		case "garbage-body":
			return [][]byte{rpclab.WSFrame(7, garbage)}, false, false, true
		}
	case rpclab.HTTP, rpclab.FastHTTP:
		switch fault {
		case "content-length-lie-long-then-close":
			return [][]byte{[]byte(fmt.Sprintf("POST / HTTP/1.1\r\nHost: x\r\nContent-Length: %d\r\n\r\n%s", len(healthyBody)+50, healthyBody))}, false, true, true
		case "content-length-lie-short":
			return [][]byte{[]byte(fmt.Sprintf("POST / HTTP/1.1\r\nHost: x\r\nContent-Length: 4\r\n\r\n%s", healthyBody))}, false, false, true
		case "garbage-request-line":
			return [][]byte{[]byte("\xff\xfe garbage\r\n\r\n")}, false, false, true
		case "chunked-truncated-then-close":
			return [][]byte{[]byte("POST / HTTP/1.1\r\nHost: x\r\nTransfer-Encoding: chunked\r\n\r\n5\r\nCs4\"e")}, false, true, true
		}
	}
	return nil, false, false, false
}

var rawClientFaults = map[string][]string{
	rpclab.TCP:  {"short-header-then-close", "bad-checksum", "length-lie-long", "length-lie-short", "error-flag-index", "zero-length-body", "garbage-body", "garbage-stream"},
	rpclab.UDP:  {"short-datagram", "bad-checksum", "length-lie-long", "length-lie-short", "error-flag-index", "zero-length-body", "garbage-body"},
	rpclab.WS:   {"short-binary-message", "empty-binary-message", "text-message", "error-flag-index", "zero-length-body", "garbage-body"},
	rpclab.HTTP: {"content-length-lie-long-then-close", "content-length-lie-short", "garbage-request-line", "chunked-truncated-then-close"},
}

func init() {
	rawClientFaults[rpclab.Unix] = rawClientFaults[rpclab.TCP]
	rawClientFaults[rpclab.WSFast] = rawClientFaults[rpclab.WS]
	rawClientFaults[rpclab.FastHTTP] = rawClientFaults[rpclab.HTTP]
}

// healthyRaw performs one healthy raw exchange (request "echo"("raw")) and reports whether the library
// server answered it. It validates the frame builders of rpclab against the library.
func healthyRaw(rc rpclab.RawConn, tr string) error {
	body := healthyRequest
	var send []byte
	switch tr {
	case rpclab.TCP, rpclab.Unix:
		send = rpclab.SocketFrame(3, body)
	case rpclab.UDP:
		send = rpclab.UDPFrame(3, body)
	case rpclab.WS, rpclab.WSFast:
		send = rpclab.WSFrame(3, body)
	default:
		send = []byte(fmt.Sprintf("POST / HTTP/1.1\r\nHost: x\r\nContent-Length: %d\r\n\r\n%s", len(body), body))
	}
	if err := rc.Send(send); err != nil {
		return err
	}
	var got []byte
	deadline := time.Now().Add(sentinelTimeout)
	for time.Now().Before(deadline) {
		b, err := rc.Recv(time.Until(deadline))
		got = append(got, b...)
		if bytes.Contains(got, []byte(`"echo:raw"`)) {
			return nil
		}
		if err != nil {
			return fmt.Errorf("%v (received %q)", err, trunc(string(got), 80))
		}
	}
	return fmt.Errorf("no answer (received %q)", trunc(string(got), 80))
}
