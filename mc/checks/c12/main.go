// C12 — transports deliver exactly the bytes that were sent, or nothing. Exhaustive enumeration of a finite
// fault/input space against real servers and real clients on ephemeral loopback endpoints:
//
//	echo    every payload length 0..N plus the boundary set x 5 content patterns x every client/server
//	        pairing (mock, net/http, fasthttp, tcp, unix, websocket, udp) x {request, response} direction,
//	        through Client.Request and an IO plugin (Service.Use) that records what the service is handed;
//	flip    every single-bit corruption (thorough: also every double-bit corruption) of the 12-byte socket
//	        header and the 8-byte UDP header, for a grid of (length, index) pairs, sent by a raw peer to the
//	        real server and by a scripted raw server to the real client;
//	len     every (declared, actual) body length pair of a grid on tcp/unix/udp/websocket frames and on HTTP
//	        Content-Length / chunk sizes, in both directions;
//	struct  truncated headers, runt datagrams, websocket messages shorter than their 4-byte prefix,
//	        fragmented messages.
//
// Oracle: a reference reading of the bytes actually put on the wire yields the list of bodies a consistent
// receiver may deliver; everything the service is handed (and everything a caller gets back without error)
// must be one of them, byte for byte. A victim frame is always preceded by a message of another client (or,
// towards a client, by another response) that carries a marker; marker bytes must never surface.
package main

import (
	"bufio"
	"bytes"
	"compress/gzip"
	"context"
	"crypto/sha1"
	"encoding/json"
	"fmt"
	"io"
	"net"
	"net/http"
	"net/http/httptest"
	"os"
	"sort"
	"strings"
	"sync"
	"sync/atomic"
	"time"

	"github.com/hprose/hprose-golang/v3/rpc/core"
	"verif/lib/report"
	"verif/lib/shard"
	"verif/mc/netlab"
	"verif/mc/rpclab"
)

const ID = "C12"

const udpCapacity = 65499 // 65507 - 8: largest body one UDP datagram of this transport can carry

const slack = 10 * time.Second // one-sided wait for an event that must happen (peer closes, sentinel answered)

// ---- scenarios ----

type Scenario struct {
	Part     string `json:"part"` // echo | flip | len | struct
	Link     string `json:"link"` // netlab link name; with Side it names the real endpoint under test
	Side     string `json:"side"` // echo: request | response (direction of the payload); else: server | client (the real victim)
	Len      int    `json:"len"`
	Pat      int    `json:"pat"`
	Index    uint32 `json:"index"`
	Bit      int    `json:"bit"`  // flip: header bit inverted (-1: none, the control)
	Bit2     int    `json:"bit2"` // flip: second inverted bit (-1: none)
	Declared int    `json:"declared"`
	Actual   int    `json:"actual"`
	Variant  string `json:"variant,omitempty"`
}

func (s Scenario) String() string { b, _ := json.Marshal(s); return string(b) }

var patNames = []string{"zeros", "ff", "counter", "frame-headers", "end-tags"}

func echoLengths(thorough bool) []int {
	set := map[int]bool{}
	add := func(lo, hi int) {
		for i := lo; i <= hi; i++ {
			set[i] = true
		}
	}
	add(0, 4200)
	add(8190, 8194)
	add(16382, 16386)
	add(32766, 32770)
	add(65490, 65540)
	add(131070, 131074)
	add(1<<20, 1<<20)
	if thorough {
		add(0, 20000)
		add(65000, 66000)
		for p := 13; p <= 22; p++ {
			add(1<<uint(p)-2, 1<<uint(p)+2)
		}
	}
	var out []int
	for l := range set {
		out = append(out, l)
	}
	sort.Ints(out)
	return out
}

// multiplexed: several calls of one client share a connection and are told apart by an index
func multiplexed(l netlab.Link) bool {
	return l.Client == "socket" || l.Client == "ws" || l.Client == "udp"
}

// pipeLengths: lengths of the first of two messages in flight together on one connection
func pipeLengths(thorough bool) []int {
	set := map[int]bool{}
	add := func(lo, hi int) {
		for i := lo; i <= hi; i++ {
			set[i] = true
		}
	}
	add(0, 40)
	add(120, 136)
	add(250, 260)
	add(500, 524)
	add(1000, 1040)
	add(2036, 2060)
	add(4080, 4110)
	add(8180, 8200)
	add(16370, 16400)
	add(32760, 32780)
	add(65490, 65540)
	if thorough {
		add(0, 9000)
		for p := 14; p <= 20; p++ {
			add(1<<uint(p)-16, 1<<uint(p)+16)
		}
	}
	var out []int
	for l := range set {
		out = append(out, l)
	}
	sort.Ints(out)
	return out
}

func flipPairs(thorough bool) (lens []int, idxs []uint32) {
	lens = []int{0, 1, 2, 11, 12, 13, 255, 1024}
	idxs = []uint32{0, 1, 2, 255, 256, 0x7fff, 0x10000, 0x7fffffff}
	if thorough {
		lens = []int{0, 1, 2, 3, 4, 7, 8, 11, 12, 13, 16, 255, 256, 1024, 4096, 65499}
		idxs = []uint32{0, 1, 2, 3, 127, 128, 255, 256, 257, 0x7ffe, 0x7fff, 0x8000, 0xffff, 0x10000, 0x7ffffffe, 0x7fffffff}
	}
	return
}

func lenGrid(thorough bool, stream bool) (pairs [][2]int) {
	actual := []int{0, 1, 2, 16, 1024}
	if thorough {
		actual = []int{0, 1, 2, 3, 4, 5, 8, 16, 255, 256, 1024, 4096, 65499}
	}
	seen := map[[2]int]bool{}
	for _, a := range actual {
		decl := []int{0, 1, a - 1, a, a + 1, 65535}
		if thorough {
			decl = append(decl, 2, a-2, a+2, 2*a, 65499)
			if stream {
				decl = append(decl, 65536, 1<<20)
			}
		}
		for _, d := range decl {
			if d < 0 || seen[[2]int{d, a}] || (!stream && d > 65535) { // the UDP header has 16 bits for the length
				continue
			}
			seen[[2]int{d, a}] = true
			pairs = append(pairs, [2]int{d, a})
		}
	}
	return
}

// rawCells: which (link, side) cells the raw-peer parts cover. Server side: the link's server kind is real,
// the peer is a raw client. Client side: the link's client implementation is real, the peer a scripted server.
var serverCells = []string{"tcp", "unix", "udp", "ws", "ws-fastsrv", "http", "http-fastsrv"}
var clientCells = []string{"tcp", "unix", "udp", "ws", "http", "fasthttp"}

func framing(link string) string {
	switch link {
	case "tcp", "unix":
		return "socket"
	case "udp":
		return "udp"
	case "ws", "ws-fastsrv":
		return "ws"
	}
	return "http"
}

// enumerate lists the scenarios of a group "part/link/side" for a tier: a pure function, so that a job is an index range.
func enumerate(group string, thorough bool) []Scenario {
	f := strings.Split(group, "/")
	part, link, side := f[0], f[1], f[2]
	base := Scenario{Part: part, Link: link, Side: side, Bit: -1, Bit2: -1}
	var out []Scenario
	fr := framing(link)
	switch part {
	case "echo":
		for _, l := range echoLengths(thorough) {
			for p := range patNames {
				if link == "udp" && l > udpCapacity && p != 2 {
					continue // above the datagram capacity only the edge behaviour matters: one pattern
				}
				if link == "udp" && l > 65537 {
					continue // far above the documented capacity of the transport
				}
				s := base
				s.Len, s.Pat = l, p
				out = append(out, s)
			}
		}
	case "redirect":
		// Declared carries the status of the redirect the client meets on its way to the service
		for _, code := range []int{301, 302, 303, 307, 308} {
			for _, l := range []int{0, 1, 24, 4096, 70000} {
				s := base
				s.Len, s.Pat, s.Declared = l, 2, code
				s.Variant = fmt.Sprintf("redirect-%d", code)
				out = append(out, s)
			}
		}
	case "udp6":
		// Actual: bytes of body in the datagram; Declared: what its header says. Over IPv6 a datagram carries up
		// to 65527 bytes, more than over IPv4.
		for _, a := range []int{1024, 65498, 65499, 65500, 65507, 65508, 65519} {
			for _, d := range []int{a, a - 1, 65499, 65491, 1024} {
				if d == a && len(out) > 0 && out[len(out)-1].Actual == a && out[len(out)-1].Declared == d {
					continue
				}
				s := base
				s.Declared, s.Actual, s.Pat = d, a, 2
				s.Variant = "declared=actual"
				if d != a {
					s.Variant = "declared<actual"
				}
				out = append(out, s)
			}
		}
	case "compressed":
		for _, l := range []int{0, 1, 24, 200, 4096, 70000} {
			for p := range patNames {
				s := base
				s.Len, s.Pat, s.Variant = l, p, "gzip-response"
				out = append(out, s)
			}
		}
	case "alias":
		for _, l := range []int{1, 13, 255, 256, 1024, 4096, 65000} {
			s := base
			s.Len, s.Pat = l, 2
			out = append(out, s)
		}
	case "pipe":
		for _, l := range pipeLengths(thorough) {
			if link == "udp" && l > udpCapacity-2 {
				continue // the request of the first call is its payload plus a two-byte tag
			}
			for _, p := range []int{0, 3} {
				s := base
				s.Len, s.Pat = l, p
				out = append(out, s)
			}
		}
	case "flip":
		if fr != "socket" && fr != "udp" {
			return nil
		}
		bits := 96
		if fr == "udp" {
			bits = 64
		}
		lens, idxs := flipPairs(thorough)
		if fr == "udp" {
			idxs = []uint32{0, 1, 2, 255, 256, 0x3fff, 0x7ffe, 0x7fff}
			if thorough {
				idxs = []uint32{0, 1, 2, 3, 127, 128, 255, 256, 257, 0x3ffe, 0x3fff, 0x4000, 0x7ffd, 0x7ffe, 0x7fff, 0x1234}
			}
		}
		if side == "client" {
			idxs = []uint32{0} // the index of a response is dictated by the request; the real client chooses it
		}
		for _, l := range lens {
			for _, ix := range idxs {
				for b := -1; b < bits; b++ {
					s := base
					s.Len, s.Index, s.Bit = l, ix, b
					out = append(out, s)
				}
			}
		}
		if thorough { // every double-bit corruption for four pairs
			for _, l := range []int{0, 13} {
				for _, ix := range []uint32{1, 0x7fff} {
					for b := 0; b < bits; b++ {
						for c := b + 1; c < bits; c++ {
							s := base
							s.Len, s.Index, s.Bit, s.Bit2 = l, ix, b, c
							out = append(out, s)
						}
					}
				}
			}
		}
	case "len":
		variants := []string{""}
		if fr == "http" {
			variants = []string{"content-length", "chunk-size"}
		}
		for _, v := range variants {
			for _, p := range lenGrid(thorough, fr != "udp") {
				if v == "chunk-size" && p[0] == 0 && p[1] > 0 {
					continue // "0\r\n" ends a chunked body; what follows is a trailer section, not body: no defined expectation
				}
				s := base
				s.Declared, s.Actual, s.Variant = p[0], p[1], v
				out = append(out, s)
			}
		}
		if fr == "http" && side == "client" {
			for _, a := range []int{0, 1, 2, 16, 1024} {
				s := base
				s.Declared, s.Actual, s.Variant = -1, a, "no-length"
				out = append(out, s)
			}
		}
	case "struct":
		add := func(v string, n int) {
			s := base
			s.Variant, s.Len = v, n
			out = append(out, s)
		}
		switch fr {
		case "socket":
			for k := 0; k < 12; k++ {
				add("truncated-header", k)
			}
			for k := 12; k < 12+16; k += 5 {
				add("truncated-body", k)
			}
		case "udp":
			for k := 0; k < 8; k++ {
				add("runt-datagram", k)
			}
		case "ws":
			for k := 0; k < 4; k++ {
				add("short-message", k)
			}
			for _, n := range []int{0, 1, 40, 300} {
				add("fragmented", n)
			}
		case "http":
			if side == "server" {
				for _, n := range []int{1, 40, 300} {
					add("multi-chunk", n)
				}
			}
		}
	}
	return out
}

func groups() []string {
	var g []string
	for _, l := range netlab.Links {
		g = append(g, "echo/"+l.Name+"/request", "echo/"+l.Name+"/response")
	}
	for _, l := range netlab.Links {
		if multiplexed(l) {
			g = append(g, "pipe/"+l.Name+"/request", "pipe/"+l.Name+"/response")
		}
	}
	for _, l := range netlab.Links {
		g = append(g, "alias/"+l.Name+"/response")
	}
	// the two HTTP client transports behind a front that redirects to the service
	g = append(g, "redirect/http/request", "redirect/fasthttp-netsrv/request")
	// the two HTTP client transports with compression switched on, against a server that compresses
	g = append(g, "compressed/http/response", "compressed/fasthttp-netsrv/response")
	// the udp server on an IPv6 socket, where datagrams can be longer than its documented capacity
	g = append(g, "udp6/udp/server")
	for _, part := range []string{"flip", "len", "struct"} {
		for _, c := range serverCells {
			g = append(g, part+"/"+c+"/server")
		}
		for _, c := range clientCells {
			g = append(g, part+"/"+c+"/client")
		}
	}
	return g
}

// ---- payloads ----

// message of "another client": upper case, digits, '-' and '/': every byte is in 0x2d..0x5a
var bigMarker = func() []byte {
	var b bytes.Buffer
	for i := 0; b.Len() < udpCapacity; i++ {
		fmt.Fprintf(&b, "SECRET-OF-USER-A/%04d/", i)
	}
	return b.Bytes()[:udpCapacity]
}()

// markerFor: 2 KiB normally; on UDP, where a short datagram may be completed from the receive buffer, as long
// as the longest datagram, so that every position a victim could be completed from holds client A's bytes.
func markerFor(sc Scenario) []byte {
	if sc.Link == "udp" && sc.Part != "flip" {
		return bigMarker
	}
	return bigMarker[:2048]
}

var markerResp = []byte("SECRET-RESPONSE-FOR-USER-A/" + strings.Repeat("TOP-SECRET/", 180))

// vbody is the victim's body: every byte is in 0x70..0x7f (disjoint from the marker alphabet and from zero
// padding; as the first byte of a websocket frame it has reserved bits set, so trailing bytes can never parse
// as another frame).
func vbody(n int) []byte {
	b := make([]byte, n)
	for i := range b {
		b[i] = 0x70 | byte((i*7+n)&0x0f)
	}
	return b
}

func pattern(p, n int, link netlab.Link) []byte {
	b := make([]byte, n)
	switch p {
	case 0:
	case 1:
		for i := range b {
			b[i] = 0xff
		}
	case 2:
		for i := range b {
			b[i] = byte(i) ^ byte(i>>8)*31
		}
	case 3: // bytes that are a valid frame header of this transport, then the headers of the others
		var unit []byte
		sock := append(netlab.SocketHeader(max0(n-12), 1), netlab.SocketFrame(4, 2, []byte("zzzz"))...)
		udp := append(netlab.UDPHeader(max0(n-8), 1), netlab.UDPDatagram(4, 2, []byte("zzzz"))...)
		ws := append(netlab.WSPrefix(0x80000001), []byte(core.RequestEntityTooLarge)...)
		htt := []byte("0\r\n\r\nPOST / HTTP/1.1\r\nContent-Length: 5\r\n\r\nhelloHTTP/1.1 413 Request Entity Too Large\r\nContent-Length: 0\r\n\r\n")
		switch link.Client {
		case "socket", "mock":
			unit = append(append(append(sock, udp...), ws...), htt...)
		case "udp":
			unit = append(append(append(udp, sock...), ws...), htt...)
		case "ws":
			unit = append(append(append(ws, netlab.WSFrame(true, 2, 4, []byte("zzzz"), nil)...), sock...), htt...)
		default:
			unit = append(append(append(htt, sock...), udp...), ws...)
		}
		for i := range b {
			b[i] = unit[i%len(unit)]
		}
	case 4:
		for i := range b {
			b[i] = 'z'
		}
	}
	return b
}

func max0(x int) int {
	if x < 0 {
		return 0
	}
	return x
}

func ack(req []byte) []byte {
	if bytes.Equal(req, bigMarker) || bytes.Equal(req, bigMarker[:2048]) { // only client A's own, complete message earns A's response
		return markerResp
	}
	h := sha1.Sum(req)
	return []byte(fmt.Sprintf("ack:%x:%d", h[:8], len(req)))
}

// ---- results ----

type viol struct {
	Sig  string   `json:"sig"`
	What string   `json:"what"`
	Sc   Scenario `json:"sc"`
	N    int      `json:"n"`
}

type result struct {
	Evals    int64            `json:"evals"`
	Distinct int64            `json:"distinct"`
	Viol     []viol           `json:"viol"`
	Counters map[string]int64 `json:"counters"`
	Samples  []string         `json:"samples"`
	Infra    []string         `json:"infra"`
	Notes    []string         `json:"notes"`
}

func (r *result) violate(sc Scenario, cell, what string) {
	sig := fmt.Sprintf("C12|%s|%s|%s", sc.Link, sc.Side, cell)
	for i := range r.Viol {
		if r.Viol[i].Sig == sig {
			r.Viol[i].N++
			return
		}
	}
	r.Viol = append(r.Viol, viol{Sig: sig, What: what, Sc: sc, N: 1})
}

func (r *result) count(k string) { r.Counters[k]++ }

func violCount(v []viol) (n int) {
	for _, x := range v {
		n += x.N
	}
	return
}

func (r *result) note(s string) {
	if len(r.Notes) < 5 {
		r.Notes = append(r.Notes, s)
	}
}

func show(b []byte) string {
	if len(b) > 48 {
		return fmt.Sprintf("%q...(%d bytes)", b[:48], len(b))
	}
	return fmt.Sprintf("%q", b)
}

// classify names how got differs from the body want that the sender put on the wire.
func classify(got, want, foreign []byte) string {
	switch {
	case bytes.Equal(got, want):
		return "incomplete-frame-delivered" // the bytes that arrived, although the frame declared more than arrived
	case len(got) < len(want) && bytes.Equal(got, want[:len(got)]):
		return "delivered-truncated"
	case len(got) > len(want) && bytes.Equal(got[:len(want)], want):
		extra := got[len(want):]
		allZero, stale := true, len(foreign) > len(want)
		for i, c := range extra {
			if c != 0 {
				allZero = false
			}
			if j := len(want) + i; j < len(foreign) && foreign[j] != c {
				stale = false
			}
		}
		switch {
		case stale:
			return "completed-with-bytes-of-another-message"
		case allZero:
			return "delivered-padded-with-zeros"
		case bytes.Contains(got, []byte("SECRET")):
			return "completed-with-bytes-of-another-message"
		}
		return "delivered-padded"
	case bytes.Contains(got, []byte("SECRET")) && !bytes.Contains(want, []byte("SECRET")):
		return "bytes-of-another-message"
	}
	return "delivered-altered"
}

// ---- labs ----

type lab struct {
	link    netlab.Link
	inline  bool
	svc     *core.Service
	rec     *netlab.Recorder
	srv     *netlab.Server
	cli     *core.Client
	raw     *netlab.RawServer
	timeout time.Duration
}

func (l *lab) open(timeout time.Duration) error {
	l.close()
	l.timeout = timeout
	l.svc = core.NewService()
	l.rec = &netlab.Recorder{Respond: ack}
	l.svc.Use(l.rec.Handler)
	srv, err := netlab.StartServer(l.link.Server, l.svc, netlab.ServerOptions{InlinePool: l.inline})
	if err != nil {
		return err
	}
	l.srv = srv
	l.cli = netlab.NewClient(l.link.Client, srv.URL(l.link.Client), timeout)
	return nil
}

func (l *lab) close() {
	if l.cli != nil {
		netlab.CloseClient(l.cli)
		l.cli = nil
	}
	if l.srv != nil {
		l.srv.Close()
		l.srv = nil
	}
	if l.raw != nil {
		l.raw.Close()
		l.raw = nil
	}
}

type executor struct {
	thorough bool
	lab      *lab
	res      *result
	seen     map[[20]byte]bool
	nilResp  []byte
	// (link|side) pairs with confirmed within-capacity delivery failures (see echoTry)
	convicted map[string]int
}

func (x *executor) distinct(parts ...[]byte) {
	h := sha1.New()
	n := 0
	for _, p := range parts {
		h.Write(p)
		h.Write([]byte{0})
		n += len(p)
	}
	if n == 0 {
		return
	}
	var k [20]byte
	copy(k[:], h.Sum(nil))
	if !x.seen[k] {
		x.seen[k] = true
		x.res.Distinct++
	}
}

func (x *executor) run(sc Scenario) {
	x.res.Evals++
	link, ok := netlab.LinkByName(sc.Link)
	if !ok {
		x.res.Infra = append(x.res.Infra, "unknown link "+sc.Link)
		return
	}
	switch {
	case sc.Part == "echo":
		x.echo(sc, link)
	case sc.Part == "pipe":
		x.pipe(sc, link, false)
	case sc.Part == "alias":
		x.alias(sc, link)
	case sc.Part == "redirect":
		x.redirect(sc, link)
	case sc.Part == "compressed":
		x.compressed(sc, link)
	case sc.Part == "udp6":
		x.udp6(sc)
	case sc.Side == "server":
		x.serverSide(sc, link)
	default:
		x.clientSide(sc, link)
	}
}

// ---- part 1: echo through real client and real server ----

// echoTimeout is the client's time-out for an echo within the transport's capacity. On loopback an echo takes
// milliseconds; a call that has not come back after this long is tried again on a fresh connection with
// echoRetryTimeout before it counts as 'not delivered'.
const (
	echoTimeout          = 10 * time.Second
	echoRetryTimeout     = 45 * time.Second
	echoConvictedTimeout = 3 * time.Second
)

func (x *executor) echo(sc Scenario, link netlab.Link) {
	x.echoTry(sc, link, false)
}

func (x *executor) echoTry(sc Scenario, link netlab.Link, retry bool) {
	timeout := echoTimeout
	if retry {
		timeout = echoRetryTimeout
	}
	convictedKey := sc.Link + "|" + sc.Side
	if x.convicted[convictedKey] >= 3 && (x.lab == nil || x.lab.timeout != echoConvictedTimeout) {
		// this (link, side) has failed twice in a row three times already: the verdict is in, the remaining
		// scenarios only add to its count and need not wait long
		if x.lab != nil {
			x.lab.close()
		}
		timeout = echoConvictedTimeout
	}
	oversize := (link.Name == "udp" && sc.Len > udpCapacity) ||
		(link.Server == "fasthttp" && sc.Side == "request" && sc.Len > 4<<20) // fasthttp.Server's default MaxRequestBodySize
	if oversize {
		timeout = 2 * time.Second // nothing can come back: the answer is the client's own timeout
	}
	if x.lab == nil || x.lab.srv == nil || oversize || retry {
		if x.lab == nil {
			x.lab = &lab{link: link}
		}
		if err := x.lab.open(timeout); err != nil {
			x.res.Infra = append(x.res.Infra, "echo lab: "+err.Error())
			return
		}
	}
	l := x.lab
	netlab.Select(link.Client)
	payload := pattern(sc.Pat, sc.Len, link)
	var request, produced, expect []byte
	if sc.Side == "request" {
		request = payload
		l.rec.Respond = ack
		expect = ack(payload)
	} else {
		request = []byte(fmt.Sprintf("give:%d:%d", sc.Len, sc.Pat))
		produced = payload
		l.rec.Respond = func([]byte) []byte { return produced }
		expect = produced
		if len(produced) == 0 {
			expect = x.nilResp // Service.Handle substitutes the encoding of nil for an empty response: that is what the service produced
		}
	}
	x.distinct([]byte(sc.Side), request, produced)
	mark := l.rec.Mark()
	resp, err := netlab.Request(l.cli, request)
	entries := l.rec.Since(mark)
	for _, e := range entries {
		if !bytes.Equal(e.Request, request) {
			x.res.violate(sc, "service-"+classify(e.Request, request, nil),
				fmt.Sprintf("client submitted %s (%d bytes, pattern %s); the service was handed %s", show(request), len(request), patNames[sc.Pat], show(e.Request)))
		}
	}
	if err == nil {
		switch {
		case len(entries) == 0:
			x.res.violate(sc, "response-without-service", fmt.Sprintf("caller got %s although the service never saw the request", show(resp)))
		case !bytes.Equal(resp, expect):
			x.res.violate(sc, "caller-"+classify(resp, expect, nil),
				fmt.Sprintf("service produced %s (%d bytes, pattern %s); caller got %s", show(expect), len(expect), patNames[sc.Pat], show(resp)))
		default:
			x.res.count("echo_delivered_exactly")
		}
	} else {
		x.res.count("echo_errors")
		if !oversize {
			// both peers are the library, the link is loopback and the payload is within the transport's capacity:
			// "exactly the bytes that were sent" must hold. One more try on a fresh connection (a stalled machine
			// is not the transport's fault); a second failure is a verdict. Once a (link, side) pair has been
			// convicted three times in this worker its further failures are reported without the second try.
			x.res.count("echo_errors_within_capacity")
			x.res.note(fmt.Sprintf("%s: error within capacity: %v", sc, err))
			key := sc.Link + "|" + sc.Side
			if !retry && x.convicted[key] < 3 {
				x.res.count("echo_retries")
				x.echoTry(sc, link, true)
				return
			}
			if x.convicted == nil {
				x.convicted = map[string]int{}
			}
			x.convicted[key]++
			x.res.violate(sc, "not-delivered-within-capacity", fmt.Sprintf("%d-byte %s (pattern %s) between two healthy peers of the library was not delivered: %v (the service saw the request %d time(s))", sc.Len, sc.Side, patNames[sc.Pat], err, len(entries)))
		}
		reopen := echoTimeout
		if x.convicted[convictedKey] >= 3 {
			reopen = echoConvictedTimeout
		}
		if err := l.open(reopen); err != nil { // the connection (or, on UDP, the server loop) may be gone
			x.res.Infra = append(x.res.Infra, "echo lab: "+err.Error())
		}
	}
	if oversize {
		l.close()
	}
	if len(l.rec.Since(0)) > 256 {
		l.rec.Truncate()
	}
	if len(x.res.Samples) < 2 && sc.Pat == 3 {
		x.res.Samples = append(x.res.Samples, fmt.Sprintf("%s -> err=%v resp=%s", sc, err, show(resp)))
	}
}

// ---- part 1b: two messages in flight together on one connection ----

// pipe issues call A (payload of the scenario's length and pattern) and call B (a short message of "another
// caller" made of the marker alphabet) together through one client, so that both travel on one multiplexed
// connection back to back: A's message first, B's right behind it (the service releases A's answer when it has
// B's request, and B's answer when A's has been produced). Oracle: each side is handed exactly its own bytes;
// anything else (truncated, padded, completed with the neighbour's header or body) is reported; an error is
// tried once more on a fresh connection and then reported as not delivered.
func (x *executor) pipe(sc Scenario, link netlab.Link, retry bool) {
	timeout := echoTimeout
	if retry {
		timeout = echoRetryTimeout
	}
	key := "pipe|" + sc.Link + "|" + sc.Side
	if x.convicted[key] >= 3 {
		timeout = echoConvictedTimeout
	}
	if x.lab == nil {
		x.lab = &lab{link: link}
	}
	if x.lab.srv == nil || retry || x.lab.timeout != timeout {
		if err := x.lab.open(timeout); err != nil {
			x.res.Infra = append(x.res.Infra, "pipe lab: "+err.Error())
			return
		}
	}
	l := x.lab
	netlab.Select(link.Client)
	payload := pattern(sc.Pat, sc.Len, link)
	other := []byte("SECRET-OF-USER-B/0001/SECRET-OF-USER-B/0002/")
	var reqA, reqB, wantA, wantB []byte
	if sc.Side == "request" {
		reqA, reqB = append([]byte("A:"), payload...), append([]byte("B:"), other...)
		wantA, wantB = []byte("ackA"), []byte("ackB")
	} else {
		reqA, reqB = []byte(fmt.Sprintf("A:give:%d:%d", sc.Len, sc.Pat)), []byte("B:give")
		wantA, wantB = payload, other
		if len(wantA) == 0 {
			wantA = x.nilResp
		}
	}
	respFor := map[byte][]byte{'A': wantA, 'B': wantB}
	if sc.Side == "response" && sc.Len == 0 {
		respFor['A'] = nil
	}
	seenB, doneA := make(chan struct{}), make(chan struct{})
	var onceB, onceA sync.Once
	gate := 500 * time.Millisecond
	l.rec.Respond = func(req []byte) []byte {
		if len(req) == 0 {
			return nil
		}
		switch req[0] {
		case 'A':
			select { // hold A's answer until B's request is at the service too
			case <-seenB:
			case <-time.After(gate):
			}
			onceA.Do(func() { close(doneA) })
		case 'B':
			onceB.Do(func() { close(seenB) })
			select { // B's answer right behind A's
			case <-doneA:
			case <-time.After(gate):
			}
		}
		return respFor[req[0]]
	}
	x.distinct([]byte("pipe"+sc.Side), reqA, wantA)
	mark := l.rec.Mark()
	type out struct {
		resp []byte
		err  error
	}
	chA, chB := make(chan out, 1), make(chan out, 1)
	go func() { r, e := netlab.Request(l.cli, reqA); chA <- out{r, e} }()
	go func() { r, e := netlab.Request(l.cli, reqB); chB <- out{r, e} }()
	a, b := <-chA, <-chB
	entries := l.rec.Since(mark)
	bad := false
	for _, e := range entries {
		switch {
		case bytes.Equal(e.Request, reqA), bytes.Equal(e.Request, reqB):
		case len(e.Request) > 0 && e.Request[0] == 'A':
			bad = true
			x.res.violate(sc, "service-"+classify(e.Request, reqA, reqB), fmt.Sprintf("two calls in flight on one connection; the first submitted %s (%d bytes); the service was handed %s", show(reqA), len(reqA), show(e.Request)))
		default:
			bad = true
			x.res.violate(sc, "service-neighbour-"+classify(e.Request, reqB, reqA), fmt.Sprintf("two calls in flight on one connection; the second submitted %s; the service was handed %s", show(reqB), show(e.Request)))
		}
	}
	check := func(name string, o out, want, neighbour []byte) (failed bool) {
		switch {
		case o.err != nil:
			return true
		case !bytes.Equal(o.resp, want):
			bad = true
			x.res.violate(sc, name+"-"+classify(o.resp, want, neighbour), fmt.Sprintf("two calls in flight on one connection (first: %d bytes, pattern %s); the service produced %s for this caller; it got %s", sc.Len, patNames[sc.Pat], show(want), show(o.resp)))
		}
		return false
	}
	failedA := check("caller", a, wantA, wantB)
	failedB := check("neighbour", b, wantB, wantA)
	switch {
	case bad:
		l.close()
	case failedA || failedB:
		x.res.count("pipe_errors")
		if !retry && x.convicted[key] < 3 {
			x.res.count("pipe_retries")
			x.pipe(sc, link, true)
			return
		}
		if x.convicted == nil {
			x.convicted = map[string]int{}
		}
		x.convicted[key]++
		x.res.violate(sc, "not-delivered-within-capacity", fmt.Sprintf("two calls in flight on one connection between two healthy peers (first: %d-byte %s, pattern %s): first caller: %v, second caller: %v", sc.Len, sc.Side, patNames[sc.Pat], a.err, b.err))
		l.close()
	default:
		x.res.count("pipe_delivered_exactly")
	}
	if len(l.rec.Since(0)) > 256 {
		l.rec.Truncate()
	}
	if len(x.res.Samples) < 2 && sc.Pat == 3 {
		x.res.Samples = append(x.res.Samples, fmt.Sprintf("%s -> errA=%v errB=%v", sc, a.err, b.err))
	}
}

// ---- part 1c: responses that share memory with their requests ----

// alias: the service answers every request with the request slice itself (an IO-level pass-through, as a relay
// or an echo service does). Eight callers send distinct payloads through one client for a number of rounds;
// each must get its own bytes back. A handler that recycles the buffer of a request before the response has
// left lets another request overwrite a response in flight. This part runs free: it is a complement (a fixed
// number of rounds, not an enumeration of schedules); the controlled-scheduler version of the same scenario is
// part of C09 (socket-server/.../response-is-the-request-slice).
func (x *executor) alias(sc Scenario, link netlab.Link) {
	if x.lab != nil {
		x.lab.close()
	}
	l := &lab{link: link}
	x.lab = l
	l.svc = core.NewService()
	l.svc.Use(func(ctx context.Context, request []byte, next core.NextIOHandler) ([]byte, error) {
		return request, nil
	})
	srv, err := netlab.StartServer(link.Server, l.svc, netlab.ServerOptions{})
	if err != nil {
		x.res.Infra = append(x.res.Infra, "alias lab: "+err.Error())
		return
	}
	l.srv = srv
	l.cli = netlab.NewClient(link.Client, srv.URL(link.Client), echoTimeout)
	netlab.Select(link.Client)
	rounds, callers := 25, 8
	if x.thorough {
		rounds = 250
	}
	n := sc.Len
	if link.Name == "udp" && n > 8000 {
		n = 8000 // eight datagrams of 64 KiB at once overflow the socket buffers: loss is not the subject here
	}
	var mu sync.Mutex
	var firstBad string
	var errs, ok int
	var wg sync.WaitGroup
	for c := 0; c < callers; c++ {
		wg.Add(1)
		go func(c int) {
			defer wg.Done()
			for r := 0; r < rounds; r++ {
				req := make([]byte, n)
				for i := range req {
					req[i] = byte(0x40 + c) // every caller has its own letter, the round is in the first bytes
				}
				copy(req, fmt.Sprintf("%c%04d", 'a'+c, r))
				resp, err := netlab.Request(l.cli, req)
				mu.Lock()
				switch {
				case err != nil:
					errs++
				case !bytes.Equal(resp, req):
					if firstBad == "" {
						firstBad = fmt.Sprintf("caller %d round %d sent %s and got %s", c, r, show(req), show(resp))
					}
				default:
					ok++
				}
				mu.Unlock()
			}
		}(c)
	}
	wg.Wait()
	x.distinct([]byte("alias"), []byte(sc.Link), []byte(fmt.Sprint(sc.Len)))
	x.res.Counters["alias_echoes_exact"] += int64(ok)
	x.res.Counters["alias_echo_errors"] += int64(errs)
	if firstBad != "" {
		x.res.violate(sc, "response-that-shares-memory-with-its-request-altered", fmt.Sprintf("the service answers with the request slice itself; %d callers x %d rounds of %d bytes: %s", callers, rounds, n, firstBad))
	}
	l.close()
	x.lab = nil
}

// ---- reference readings ----

// ---- part: a redirect on the way ----

// redirect: the client's URL names a front that answers with a redirect (status sc.Declared) to the real
// service. Whatever the client does with it (follow, refuse), the service is never handed bytes other than
// the ones the caller submitted, and a call that succeeds carries the answer to those bytes.
func (x *executor) redirect(sc Scenario, link netlab.Link) {
	svc := core.NewService()
	rec := &netlab.Recorder{Respond: ack}
	svc.Use(rec.Handler)
	backend, err := netlab.StartServer("nethttp", svc, netlab.ServerOptions{})
	if err != nil {
		x.res.Infra = append(x.res.Infra, "redirect: backend: "+err.Error())
		return
	}
	defer backend.Close()
	ln, err := net.Listen("tcp", "127.0.0.1:0")
	if err != nil {
		x.res.Infra = append(x.res.Infra, "redirect: front: "+err.Error())
		return
	}
	front := &http.Server{Handler: http.HandlerFunc(func(w http.ResponseWriter, r *http.Request) {
		io.Copy(io.Discard, r.Body)
		http.Redirect(w, r, "http://"+backend.Addr+"/", sc.Declared)
	})}
	go front.Serve(ln)
	defer front.Close()
	cli := netlab.NewClient(link.Client, "http://"+ln.Addr().String()+"/", 10*time.Second)
	defer netlab.CloseClient(cli)
	body := pattern(sc.Pat, sc.Len, link)
	resp, cerr := netlab.Request(cli, body)
	x.distinct(body, []byte(sc.Variant))
	for _, e := range rec.Since(0) {
		if !bytes.Equal(e.Request, body) {
			x.res.violate(sc, sc.Variant, fmt.Sprintf("%s client, %d on the way: the caller submitted %d bytes %s, the service was handed %d bytes %s", link.Client, sc.Declared, len(body), show(body), len(e.Request), show(e.Request)))
			return
		}
	}
	switch {
	case cerr != nil:
		x.res.count("redirect|refused|" + sc.Variant)
	case !bytes.Equal(resp, ack(body)):
		x.res.violate(sc, sc.Variant, fmt.Sprintf("%s client, %d on the way: the call succeeds with %s, which is not the answer to the %d bytes submitted (%s)", link.Client, sc.Declared, show(resp), len(body), show(ack(body))))
	default:
		x.res.count("redirect|followed-with-the-request|" + sc.Variant)
	}
}

// compressed: the client has compression switched on (SetCompression(true)) and the server answers with
// Content-Encoding: gzip when the request allows it. The caller is handed the bytes the service produced, not
// their compressed form.
func (x *executor) compressed(sc Scenario, link netlab.Link) {
	svc := core.NewService()
	body := pattern(sc.Pat, sc.Len, link)
	svc.Use(func(ctx context.Context, request []byte, next core.NextIOHandler) ([]byte, error) {
		return append([]byte("produced:"), request...), nil
	})
	server := &http.Server{}
	if err := svc.Bind(server); err != nil {
		x.res.Infra = append(x.res.Infra, "compressed: "+err.Error())
		return
	}
	inner := server.Handler
	var zipped int32
	server.Handler = http.HandlerFunc(func(w http.ResponseWriter, r *http.Request) {
		if !strings.Contains(r.Header.Get("Accept-Encoding"), "gzip") {
			inner.ServeHTTP(w, r)
			return
		}
		rec := httptest.NewRecorder()
		inner.ServeHTTP(rec, r)
		for k, v := range rec.Header() {
			if k != "Content-Length" {
				w.Header()[k] = v
			}
		}
		var buf bytes.Buffer
		zw := gzip.NewWriter(&buf)
		zw.Write(rec.Body.Bytes())
		zw.Close()
		w.Header().Set("Content-Encoding", "gzip")
		w.Header().Set("Content-Length", fmt.Sprint(buf.Len()))
		w.WriteHeader(rec.Code)
		w.Write(buf.Bytes())
		atomic.AddInt32(&zipped, 1)
	})
	ln, err := net.Listen("tcp", "127.0.0.1:0")
	if err != nil {
		x.res.Infra = append(x.res.Infra, "compressed: "+err.Error())
		return
	}
	go server.Serve(ln)
	defer server.Close()
	cli := netlab.NewClient(link.Client, "http://"+ln.Addr().String()+"/", 10*time.Second)
	defer netlab.CloseClient(cli)
	type compressor interface{ SetCompression(bool) }
	for _, name := range []string{"http", "fasthttp"} {
		if t, ok := cli.GetTransport(name).(compressor); ok && t != nil {
			t.SetCompression(true)
		}
	}
	resp, cerr := netlab.Request(cli, body)
	x.distinct(body, []byte(sc.Variant))
	want := append([]byte("produced:"), body...)
	switch {
	case cerr != nil:
		x.res.violate(sc, sc.Variant+"|not-delivered", fmt.Sprintf("%s client with compression on: a response of %d bytes fails: %v", link.Client, len(want), cerr))
	case !bytes.Equal(resp, want):
		x.res.violate(sc, sc.Variant+"|"+classify(resp, want, nil), fmt.Sprintf("%s client with compression on: the service produced %d bytes %s, the caller was handed %d bytes %s", link.Client, len(want), show(want), len(resp), show(resp)))
	case atomic.LoadInt32(&zipped) > 0:
		x.res.count("compressed|gzip-response-delivered-as-produced")
	default:
		x.res.count("compressed|client-did-not-ask-for-gzip")
	}
}

// udp6: a raw peer sends one datagram with sc.Actual bytes of body whose header declares sc.Declared to a
// service bound to an IPv6 socket. The service is handed the body only when the two agree, and then all of it.
func (x *executor) udp6(sc Scenario) {
	svc := core.NewService()
	rec := &netlab.Recorder{Respond: ack}
	svc.Use(rec.Handler)
	uc, err := net.ListenUDP("udp6", &net.UDPAddr{IP: net.IPv6loopback})
	if err != nil {
		x.res.note("udp6: no IPv6 loopback here: " + err.Error())
		return
	}
	uc.SetReadBuffer(4 << 20)
	ctx, cancel := context.WithCancel(context.Background())
	defer cancel()
	if err := svc.BindContext(ctx, uc); err != nil {
		x.res.Infra = append(x.res.Infra, "udp6: "+err.Error())
		return
	}
	defer uc.Close()
	c, err := net.DialUDP("udp6", nil, uc.LocalAddr().(*net.UDPAddr))
	if err != nil {
		x.res.Infra = append(x.res.Infra, "udp6: "+err.Error())
		return
	}
	defer c.Close()
	c.SetWriteBuffer(4 << 20)
	body := pattern(sc.Pat, sc.Actual, netlab.Link{Name: "udp"})
	w := append(rpclab.UDPHeader(sc.Declared, 7), body...)
	if _, err := c.Write(w); err != nil {
		x.res.count("udp6|datagram-not-sendable")
		return
	}
	// a sentinel after it: when the sentinel has been answered the victim has been dealt with
	c.Write(rpclab.UDPFrame(8, sentinel))
	buf := make([]byte, 65536)
	deadline := time.Now().Add(slack)
	settled := false
	for !settled && time.Now().Before(deadline) {
		c.SetReadDeadline(time.Now().Add(500 * time.Millisecond))
		n, err := c.Read(buf)
		if err == nil && n >= 8 && bytes.Equal(buf[8:n], ack(sentinel)) {
			settled = true
		}
	}
	if !settled {
		x.res.Infra = append(x.res.Infra, sc.String()+": the sentinel was not answered")
		return
	}
	time.Sleep(20 * time.Millisecond)
	x.distinct(w[:8], []byte(fmt.Sprint(sc.Actual)))
	for _, e := range rec.Since(0) {
		if bytes.Equal(e.Request, sentinel) {
			continue
		}
		switch {
		case sc.Declared != sc.Actual:
			x.res.violate(sc, sc.Variant+"|"+classify(e.Request, body, nil), fmt.Sprintf("udp over IPv6: a datagram with %d bytes of body whose header declares %d was handed to the service as %d bytes", sc.Actual, sc.Declared, len(e.Request)))
		case !bytes.Equal(e.Request, body):
			x.res.violate(sc, sc.Variant+"|"+classify(e.Request, body, nil), fmt.Sprintf("udp over IPv6: a datagram with %d bytes of body was handed to the service as %d bytes %s", sc.Actual, len(e.Request), show(e.Request)))
		default:
			x.res.count("udp6|delivered-exactly")
		}
		return
	}
	x.res.count("udp6|refused")
}

func refSocketStream(b []byte) (bodies [][]byte) {
	for len(b) >= 12 {
		length, _, _, ok := netlab.ParseSocketHeader(b[:12])
		if !ok {
			return
		}
		b = b[12:]
		if len(b) < length {
			return
		}
		bodies = append(bodies, b[:length])
		b = b[length:]
	}
	return
}

func refUDP(d []byte) (bodies [][]byte) {
	if len(d) < 8 {
		return
	}
	length, _, _, ok := netlab.ParseUDPHeader(d[:8])
	if !ok || length != len(d)-8 {
		return
	}
	return [][]byte{d[8:]}
}

var zeroMask = []byte{0, 0, 0, 0}

// wire builds the bytes the raw peer sends for a scenario, the bodies a consistent receiver may deliver
// (reference reading) and the body the sender meant (for classification). index is the frame index to use
// (server side: the scenario's; client side: the one the real client chose). towardsClient selects unmasked
// websocket frames and HTTP responses.
func wire(sc Scenario, index uint32, towardsClient bool, host string) (w []byte, allowed [][]byte, own []byte) {
	fr := framing(sc.Link)
	var mask []byte
	if !towardsClient {
		mask = zeroMask
	}
	flip := func(h []byte) []byte {
		if sc.Bit >= 0 {
			h = netlab.FlipBit(h, sc.Bit)
		}
		if sc.Bit2 >= 0 {
			h = netlab.FlipBit(h, sc.Bit2)
		}
		return h
	}
	switch sc.Part {
	case "flip":
		own = vbody(sc.Len)
		if fr == "socket" {
			w = append(flip(netlab.SocketHeader(sc.Len, index)), own...)
			allowed = refSocketStream(w)
		} else {
			w = append(flip(netlab.UDPHeader(sc.Len, uint16(index))), own...)
			allowed = refUDP(w)
		}
	case "len":
		own = vbody(sc.Actual)
		d, a := sc.Declared, sc.Actual
		switch fr {
		case "socket":
			w = netlab.SocketFrame(d, index, own)
			allowed = refSocketStream(w)
		case "udp":
			w = netlab.UDPDatagram(d, uint16(index), own)
			allowed = refUDP(w)
		case "ws":
			w = netlab.WSFrame(true, 2, d+4, append(netlab.WSPrefix(index), own...), mask)
			if d <= a {
				allowed = [][]byte{own[:d]}
			}
		case "http":
			switch sc.Variant {
			case "content-length", "no-length":
				if towardsClient {
					w = netlab.HTTPResponse(d, own)
				} else {
					w = netlab.HTTPRequest(host, d, false, 0, own)
				}
				if d < 0 {
					allowed = [][]byte{own}
				} else if d <= a {
					allowed = [][]byte{own[:d]}
				}
			case "chunk-size":
				var b bytes.Buffer
				if towardsClient {
					b.WriteString("HTTP/1.1 200 OK\r\nContent-Type: text/plain\r\nConnection: close\r\nTransfer-Encoding: chunked\r\n\r\n")
				} else {
					b.WriteString("POST / HTTP/1.1\r\nHost: " + host + "\r\nConnection: close\r\nTransfer-Encoding: chunked\r\n\r\n")
				}
				if d > 0 {
					fmt.Fprintf(&b, "%x\r\n", d)
					b.Write(own)
				}
				if d == a { // well formed: chunk data, CRLF, last chunk
					if d > 0 {
						b.WriteString("\r\n")
					}
					b.WriteString("0\r\n\r\n")
					allowed = [][]byte{own}
				}
				w = b.Bytes()
			}
		}
	case "struct":
		switch sc.Variant {
		case "truncated-header", "truncated-body":
			own = vbody(16)
			w = netlab.SocketFrame(16, index, own)[:sc.Len]
		case "runt-datagram":
			own = vbody(16)
			w = netlab.UDPDatagram(16, uint16(index), own)[:sc.Len]
		case "short-message":
			own = nil
			w = netlab.WSFrame(true, 2, sc.Len, netlab.WSPrefix(index)[:sc.Len], mask)
		case "fragmented":
			own = vbody(sc.Len)
			msg := append(netlab.WSPrefix(index), own...)
			c1, c2 := len(msg)/3, 2*len(msg)/3
			w = append(w, netlab.WSFrame(false, 2, c1, msg[:c1], mask)...)
			w = append(w, netlab.WSFrame(false, 0, c2-c1, msg[c1:c2], mask)...)
			w = append(w, netlab.WSFrame(true, 0, len(msg)-c2, msg[c2:], mask)...)
			allowed = [][]byte{own}
		case "multi-chunk":
			own = vbody(sc.Len)
			w = netlab.HTTPRequest(host, -1, true, (sc.Len+2)/3, own)
			allowed = [][]byte{own}
		}
	}
	return
}

func cellOf(sc Scenario) string {
	switch sc.Part {
	case "flip":
		fr := framing(sc.Link)
		field := func(bit int) string {
			switch {
			case bit < 32:
				return "crc"
			case (fr == "socket" && bit < 64) || (fr == "udp" && bit < 48):
				return "length"
			}
			return "index"
		}
		if sc.Bit < 0 {
			return "valid-frame"
		}
		if sc.Bit2 >= 0 {
			return "two-bit-flip"
		}
		return "bit-flip-in-" + field(sc.Bit)
	case "len":
		rel := "declared=actual"
		switch {
		case sc.Declared < 0:
			rel = "no-declared-length"
		case sc.Declared > sc.Actual:
			rel = "declared>actual"
		case sc.Declared < sc.Actual:
			rel = "declared<actual"
		}
		if sc.Variant != "" && sc.Variant != "content-length" && sc.Variant != "no-length" {
			rel = sc.Variant + "|" + rel
		}
		return rel
	}
	return sc.Variant
}

// judge compares what was delivered with the reference reading.
func (x *executor) judge(sc Scenario, delivered [][]byte, allowed [][]byte, own, foreign []byte, to string) {
	used := make([]bool, len(allowed))
	for _, d := range delivered {
		ok := false
		for i, a := range allowed {
			if !used[i] && bytes.Equal(a, d) {
				used[i], ok = true, true
				break
			}
		}
		if ok {
			x.res.count("consistent_delivered")
			continue
		}
		class := classify(d, own, foreign)
		if sc.Part == "flip" && class == "incomplete-frame-delivered" {
			class = "corrupt-frame-delivered" // the body as sent, although the header fails its checksum
		}
		x.res.violate(sc, cellOf(sc)+"|"+class,
			fmt.Sprintf("%s was handed %s (%d bytes); the sender's body was %s (%d bytes), a consistent reading of the received bytes allows %s",
				to, show(d), len(d), show(own), len(own), showList(allowed)))
	}
	if len(delivered) == 0 {
		if len(allowed) > 0 {
			x.res.count("consistent_not_delivered")
			x.res.note(sc.String() + ": consistent frame not delivered")
		} else {
			x.res.count("rejected")
		}
	}
}

func showList(l [][]byte) string {
	if len(l) == 0 {
		return "nothing"
	}
	var s []string
	for _, b := range l {
		s = append(s, show(b))
	}
	return strings.Join(s, ", ")
}

// ---- parts 2-4, real server, raw client ----

func (x *executor) serverSide(sc Scenario, link netlab.Link) {
	if x.lab == nil {
		x.lab = &lab{link: link, inline: true}
	}
	l := x.lab
	netlab.Select(link.Client)
	var lastErr string
	for attempt := 0; attempt < 5; attempt++ {
		if l.srv == nil {
			if err := l.open(slack); err != nil {
				lastErr = err.Error()
				continue
			}
		}
		// another client's message immediately before the victim's
		marker := markerFor(sc)
		if r, err := netlab.Request(l.cli, marker); err != nil || !bytes.Equal(r, markerResp) {
			lastErr = fmt.Sprintf("marker request of client A failed: %v %s", err, show(r))
			l.close()
			continue
		}
		mark := l.rec.Mark()
		w, allowed, own := wire(sc, sc.Index, false, l.srv.Addr)
		returned, settled, err := x.rawExchange(l, sc, w)
		if err != nil || !settled {
			lastErr = fmt.Sprintf("raw exchange did not settle within %v: %v", slack, err)
			l.close()
			continue
		}
		x.distinct([]byte(sc.Link), w)
		var delivered [][]byte
		for _, e := range l.rec.Since(mark) {
			if bytes.Equal(e.Request, sentinel) {
				continue
			}
			delivered = append(delivered, e.Request)
		}
		before := len(x.res.Viol) + violCount(x.res.Viol)
		x.judge(sc, delivered, allowed, own, marker, "the service")
		judgedBad := len(x.res.Viol)+violCount(x.res.Viol) != before
		// (when the service was already handed a body completed from client A's message, an answer derived from
		// that body is a consequence of the reported delivery, not a second finding)
		if !judgedBad && bytes.Contains(returned, []byte("SECRET")) {
			x.res.violate(sc, cellOf(sc)+"|another-clients-bytes-returned-to-sender", "the raw sender read back "+show(returned))
		}
		if len(x.res.Samples) < 2 {
			x.res.Samples = append(x.res.Samples, fmt.Sprintf("%s wire=%s -> delivered=%s", sc, show(w), showList(delivered)))
		}
		if l.rec.Mark() > 512 {
			l.rec.Truncate()
		}
		return
	}
	x.res.Infra = append(x.res.Infra, sc.String()+": "+lastErr)
}

var sentinel = []byte("sentinel-from-the-victim-socket")

// rawExchange: see netlab.RawExchange (half-close and read to EOF on streams, answered sentinel on UDP).
func (x *executor) rawExchange(l *lab, sc Scenario, w []byte) (returned []byte, settled bool, err error) {
	want := ack(sentinel)
	return netlab.RawExchange(l.srv, framing(sc.Link) == "ws", w,
		func(try int) []byte { return netlab.UDPDatagram(len(sentinel), uint16(0x7000+try), sentinel) },
		func(d []byte) bool { return len(d) >= 8 && bytes.Equal(d[8:], want) }, slack)
}

// ---- parts 2-4, real client, scripted raw server ----

func (x *executor) clientSide(sc Scenario, link netlab.Link) {
	if x.lab == nil {
		x.lab = &lab{link: link}
	}
	l := x.lab
	netlab.Select(link.Client)
	var lastErr string
	for attempt := 0; attempt < 5; attempt++ {
		if l.raw == nil {
			var err error
			switch link.Client {
			case "udp":
				l.raw, err = netlab.StartRawUDP()
			default:
				nw := "tcp"
				if link.Name == "unix" {
					nw = "unix"
				}
				l.raw, err = netlab.StartRawStream(nw)
			}
			if err != nil {
				lastErr = err.Error()
				continue
			}
		}
		var mu sync.Mutex // the script runs on the scripted server's goroutine
		var sSent, sOwn []byte
		var sAllowed [][]byte
		faulty := func(index uint32) []byte {
			w, a, o := wire(sc, index, true, "")
			mu.Lock()
			sSent, sAllowed, sOwn = w, a, o
			mu.Unlock()
			return w
		}
		x.script(l.raw, link, faulty)
		cli := netlab.NewClient(link.Client, l.raw.URL(link.Client), 4*time.Second)
		r1, err := netlab.Request(cli, []byte("first"))
		if err != nil || !bytes.Equal(r1, markerResp) {
			lastErr = fmt.Sprintf("control exchange with the scripted server failed: %v %s", err, show(r1))
			netlab.CloseClient(cli)
			l.raw.Close()
			l.raw = nil
			continue
		}
		r2, err := netlab.Request(cli, []byte("victim"))
		netlab.CloseClient(cli)
		mu.Lock()
		sent, allowed, own := sSent, append([][]byte{}, sAllowed...), sOwn // snapshot: a late script run no longer matters
		mu.Unlock()
		x.distinct([]byte(sc.Link), sent)
		if link.Client == "udp" {
			allowed = append(allowed, sentinel)
		}
		if err == nil {
			if bytes.Equal(r2, sentinel) {
				x.res.count("rejected")
			} else {
				x.judge(sc, [][]byte{r2}, allowed, own, markerResp, "the caller")
			}
		} else {
			n := len(allowed)
			if link.Client == "udp" {
				n--
			}
			x.judge(sc, nil, allowed[:n], own, markerResp, "the caller")
		}
		if len(x.res.Samples) < 2 {
			x.res.Samples = append(x.res.Samples, fmt.Sprintf("%s wire=%s -> caller got %s err=%v", sc, show(sent), show(r2), err))
		}
		return
	}
	x.res.Infra = append(x.res.Infra, sc.String()+": "+lastErr)
}

// script installs the behaviour of the scripted server: the request "first" is answered correctly with the
// marker response, any other request with the faulty bytes (then the connection is closed; on UDP a valid
// sentinel response follows instead, because there is no connection to close).
func (x *executor) script(rs *netlab.RawServer, link netlab.Link, faulty func(index uint32) []byte) {
	switch link.Client {
	case "socket":
		rs.OnConn(func(c net.Conn) {
			for {
				idx, body, err := netlab.ReadSocketFrame(c)
				if err != nil {
					return
				}
				if string(body) == "first" {
					c.Write(netlab.SocketFrame(len(markerResp), idx, markerResp))
					continue
				}
				c.Write(faulty(idx))
				return
			}
		})
	case "udp":
		rs.OnDatagram(func(pc *net.UDPConn, from *net.UDPAddr, d []byte) {
			if len(d) < 8 {
				return
			}
			_, idx, _, _ := netlab.ParseUDPHeader(d[:8])
			if string(d[8:]) == "first" {
				pc.WriteToUDP(netlab.UDPDatagram(len(markerResp), idx, markerResp), from)
				return
			}
			pc.WriteToUDP(faulty(uint32(idx)), from)
			pc.WriteToUDP(netlab.UDPDatagram(len(sentinel), idx, sentinel), from)
		})
	case "ws":
		rs.OnConn(func(c net.Conn) {
			br, err := netlab.WSServerHandshake(c)
			if err != nil {
				return
			}
			for {
				_, msg, err := netlab.WSReadMessage(br)
				if err != nil || len(msg) < 4 {
					return
				}
				idx := uint32(msg[0])<<24 | uint32(msg[1])<<16 | uint32(msg[2])<<8 | uint32(msg[3])
				if string(msg[4:]) == "first" {
					c.Write(netlab.WSFrame(true, 2, 4+len(markerResp), append(netlab.WSPrefix(idx), markerResp...), nil))
					continue
				}
				c.Write(faulty(idx))
				return
			}
		})
	case "http", "fasthttp":
		rs.OnConn(func(c net.Conn) {
			br := bufio.NewReader(c)
			_, body, err := netlab.HTTPReadRequest(br)
			if err != nil {
				return
			}
			if string(body) == "first" {
				c.Write(netlab.HTTPResponse(len(markerResp), markerResp))
				return
			}
			c.Write(faulty(0))
		})
	}
}

// ---- worker ----

func runJob(j netlab.Job, thorough bool) result {
	res := result{Counters: map[string]int64{}}
	var scs []Scenario
	lo := j.Lo
	if j.One != nil {
		var s Scenario
		if err := json.Unmarshal(j.One, &s); err != nil {
			res.Infra = append(res.Infra, "bad scenario: "+err.Error())
			return res
		}
		scs, lo = []Scenario{s}, 0
	} else {
		all := enumerate(j.Group, thorough)
		if j.Hi > len(all) || j.Lo > j.Hi {
			res.Infra = append(res.Infra, fmt.Sprintf("job range [%d,%d) outside group %s (%d)", j.Lo, j.Hi, j.Group, len(all)))
			return res
		}
		scs = all[j.Lo:j.Hi]
	}
	x := &executor{thorough: thorough, res: &res, seen: map[[20]byte]bool{}}
	svc := core.NewService()
	x.nilResp, _ = svc.Codec.Encode(nil, core.NewServiceContext(svc))
	x.nilResp = append([]byte{}, x.nilResp...)
	for i, sc := range scs {
		netlab.Journal(j.ID, lo+i, sc)
		x.run(sc)
	}
	if x.lab != nil {
		x.lab.close()
	}
	return res
}

// ---- coordinator ----

func jobSize(group string) int {
	switch {
	case strings.HasPrefix(group, "echo/"):
		return 400
	case strings.HasPrefix(group, "pipe/"):
		return 60
	case strings.HasPrefix(group, "alias/"):
		return 2
	case strings.HasPrefix(group, "flip/"):
		return 700
	}
	return 64
}

// isolated: scenarios known to be able to kill the process get a job of their own, so that the journal
// re-issue logic is not needed for them (it still covers every other scenario).
func isolated(sc Scenario) bool {
	if os.Getenv("C12_NO_ISOLATE") != "" { // self-test of the journal / re-issue path
		return false
	}
	if sc.Part == "echo" && sc.Link == "udp" && sc.Len > udpCapacity {
		return true
	}
	return sc.Part == "struct" && sc.Side == "client"
}

func buildJobs(thorough bool) (jobs []netlab.Job, space map[string]int) {
	space = map[string]int{}
	id := 0
	for _, g := range groups() {
		scs := enumerate(g, thorough)
		if len(scs) == 0 {
			continue
		}
		space[g] = len(scs)
		size := jobSize(g)
		start := 0
		flush := func(end int) {
			if end > start {
				jobs = append(jobs, netlab.Job{ID: id, Group: g, Lo: start, Hi: end})
				id++
			}
			start = end
		}
		for i, sc := range scs {
			if isolated(sc) {
				flush(i)
				flush(i + 1)
			} else if i-start >= size {
				flush(i)
			}
		}
		flush(len(scs))
	}
	return
}

func firstLines(s string, n int) string {
	lines := strings.Split(strings.TrimSpace(s), "\n")
	var keep []string
	for _, l := range lines {
		if strings.TrimSpace(l) == "" {
			continue
		}
		keep = append(keep, l)
		if len(keep) == n {
			break
		}
	}
	return strings.Join(keep, " / ")
}

func panicSite(stderr string) string {
	// first frame of the code under test in the panicking goroutine
	for _, l := range strings.Split(stderr, "\n") {
		l = strings.TrimSpace(l)
		if strings.HasPrefix(l, "github.com/hprose/hprose-golang/v3/") && strings.Contains(l, "(") {
			l = strings.TrimPrefix(l, "github.com/hprose/hprose-golang/v3/")
			if i := strings.LastIndex(l, "("); i > 0 {
				l = l[:i]
			}
			return l
		}
	}
	return "?"
}

func main() {
	thorough := report.Tier() == "thorough"
	netlab.Init()
	if shard.IsWorker() {
		shard.Serve(func(raw json.RawMessage) interface{} {
			var j netlab.Job
			json.Unmarshal(raw, &j)
			return runJob(j, thorough)
		})
	}
	var jobs []netlab.Job
	var space map[string]int
	replaying := len(os.Args) > 2 && os.Args[1] == "--replay"
	if replaying {
		_, raw := report.LoadReplay(os.Args[2])
		var s Scenario
		if err := json.Unmarshal(raw, &s); err != nil {
			fmt.Fprintln(os.Stderr, "replay:", err)
			os.Exit(2)
		}
		fmt.Println("replaying", s.String())
		jobs = []netlab.Job{{ID: 0, Group: s.Part + "/" + s.Link + "/" + s.Side, One: raw}}
	} else {
		jobs, space = buildJobs(thorough)
	}
	run := report.New(ID, "fault_enumeration")
	var evals, distinct int64
	counters := map[string]int64{}
	samples := report.NewSamples(16)
	var notes []string
	deaths := 0
	found := 0
	rounds := netlab.Drive(jobs, shard.Options{JobTimeout: 600 * time.Second}, func(j netlab.Job, raw json.RawMessage) {
		var r result
		if err := json.Unmarshal(raw, &r); err != nil {
			run.Infra("bad worker result: " + err.Error())
			return
		}
		evals += r.Evals
		distinct += r.Distinct
		for k, v := range r.Counters {
			counters[k] += v
		}
		for _, s := range r.Samples {
			if j.ID%7 == 0 || replaying {
				samples.Add(s)
			}
		}
		for _, m := range r.Infra {
			run.Infra(m)
		}
		if len(notes) < 12 {
			notes = append(notes, r.Notes...)
		}
		for _, v := range r.Viol {
			found++
			for i := 0; i < v.N; i++ {
				run.Violate(v.Sig, v.What+" ["+v.Sc.String()+"]", v.Sc)
			}
			if replaying {
				fmt.Printf("REPRODUCED %s: %s\n", v.Sig, v.What)
			}
		}
	}, func(d netlab.Death) {
		var sc Scenario
		if d.Scenario == nil || json.Unmarshal(d.Scenario, &sc) != nil {
			run.Infra(fmt.Sprintf("worker died without a journal (job %+v): %s %s", d.Job, d.Fail.Exit, firstLines(d.Fail.Stderr, 3)))
			return
		}
		if d.Fail.Kind == "timeout" {
			run.Infra(fmt.Sprintf("scenario did not return within the watchdog (%s): %s", d.Fail.Exit, sc))
			return
		}
		deaths++
		found++
		evals++
		cell := cellOf(sc)
		if sc.Part == "echo" {
			cell = "within-capacity"
			if sc.Link == "udp" && sc.Len > udpCapacity {
				cell = "above-datagram-capacity"
			}
		}
		sig := fmt.Sprintf("C12|%s|%s|%s|process-death|at=%s", sc.Link, sc.Side, cell, panicSite(d.Fail.Stderr))
		run.Violate(sig, fmt.Sprintf("the process died (%s) instead of rejecting: %s [%s]", d.Fail.Exit, firstLines(d.Fail.Stderr, 2), sc), sc)
		if replaying {
			fmt.Printf("REPRODUCED %s\n", sig)
		}
	})
	if replaying {
		if found > 0 {
			fmt.Printf("VIOLATION property=%s replay=%s\n", ID, os.Args[2])
			os.Exit(1)
		}
		fmt.Println("not reproduced")
		os.Exit(0)
	}
	for _, n := range notes {
		fmt.Fprintln(os.Stderr, "note:", n)
	}
	run.Set("evaluations", evals)
	run.Set("distinct_nontrivial", distinct)
	run.Set("rule", "one evaluation = one scenario (part, link, side, lengths/bit/variant) executed against real endpoints; distinct_nontrivial counts distinct non-empty byte strings actually put on the wire (or submitted/produced in the echo part), hashed per (link, direction), summed over jobs")
	run.Set("samples", samples.List())
	run.Set("exhaustive", true)
	run.Set("space", space)
	run.Set("counters", counters)
	run.Set("process_deaths", deaths)
	run.Set("rounds", rounds)
	lens, idxs := flipPairs(thorough)
	run.Set("space_description", map[string]interface{}{
		"echo_lengths": len(echoLengths(thorough)), "echo_patterns": patNames, "links": len(netlab.Links),
		"flip_header_lengths": lens, "flip_header_indexes": idxs, "flip_bits": "every single bit of the 96-bit socket / 64-bit UDP header plus the unflipped control" + map[bool]string{true: "; every pair of bits for 4 (length,index) pairs", false: ""}[thorough],
		"len_pairs_stream": len(lenGrid(thorough, true)), "len_pairs_udp": len(lenGrid(thorough, false)),
		"server_side_cells": serverCells, "client_side_cells": clientCells,
	})
	run.Assumption("raw-peer scenarios run the service with Handler.Pool set to an inline pool (requests execute inside the transport's receive loop) so that 'the peer saw the connection close / the sentinel was answered' proves the victim frame has been fully processed; the echo part uses the default goroutine-per-request path")
	run.Assumption("an empty response produced by an IO plugin is replaced by Service.Handle with the encoding of nil; for response length 0 that substitute is what 'the service produced'")
	run.Assumption("on stream transports a declared length smaller than what follows is a consistent frame (the rest is the next frame); on UDP a datagram is self-contained, so declared != actual is inconsistent")
	run.Assumption("echo part: an error or a time-out (10 s) for a payload within the transport's capacity is tried once more on a fresh connection (45 s); failing twice is reported as not-delivered-within-capacity. Raw-frame part: a consistent frame that is not delivered is counted (consistent_not_delivered), not reported")
	run.Assumption("UDP payloads above 65,537 bytes are outside the documented capacity of the transport and are not sent; 65,500..65,537 probe the edge")
	run.Finish()
}
